/-
  The Stream machine primitives `uint(maxbits)` and `Bool()` refine the typed-layer primitives `Rlp.readUint`,
  `Rlp.readBool` of Aqv.Model.RlpTyped on a ready, re-armed stream (top level or inside a list).
-/
import Aqv.Lemmas.RlpStream
import Aqv.Model.RlpTyped
namespace Aqv.RlpStream
open Aqv Aqv.Rlp

theorem foldl_be (t : Bytes) : ∀ acc : Nat,
    List.foldl (fun a (b : UInt8) => a * 256 + b.toNat) acc t = acc * 256 ^ t.length + List.foldl (fun a (b : UInt8) => a * 256 + b.toNat) 0 t := by
  induction t with
  | nil => intro acc; simp
  | cons x t ih =>
    intro acc
    simp only [List.foldl_cons, List.length_cons]
    rw [ih (acc * 256 + x.toNat), ih (0 * 256 + x.toNat)]
    simp only [Nat.zero_mul, Nat.zero_add, Nat.pow_succ, Nat.add_mul, Nat.mul_assoc, Nat.add_assoc]
    congr 2
    rw [Nat.mul_comm 256]

theorem beNat_ge_256 (b0 x : UInt8) (t : Bytes) (h0 : b0 ≠ 0) : 256 ≤ beNat (b0 :: x :: t) := by
  unfold beNat
  simp only [List.foldl_cons, Nat.zero_mul, Nat.zero_add]
  rw [foldl_be]
  have hb : 1 ≤ b0.toNat := by
    rcases Nat.eq_zero_or_pos b0.toNat with h | h
    · exact absurd (UInt8.toNat_inj.mp (by simpa using h)) h0
    · exact h
  have hp : 1 ≤ 256 ^ t.length := Nat.one_le_pow _ _ (by omega)
  have : 256 * 1 ≤ (b0.toNat * 256 + x.toNat) * 256 ^ t.length := by
    apply Nat.mul_le_mul _ hp
    omega
  omega

/-- the Stream machine's `uint(8k)` on a re-armed ready state with a non-empty window, against the typed-layer
    primitive `Rlp.readUint k` on the window. -/
theorem uint_refines (k : Nat) (s : St) (hr : Ready s) (hk : s.kind = none) (ha : 1 ≤ avail s) :
    (∀ n rest, Rlp.readUint k (win s) = .ok (n, rest) →
      ∃ s', uint k s = (.ok n, s') ∧ Step s ((win s).length - rest.length) s' ∧ s'.kind = none ∧ rest = win s' ∧
        s'.alloc = s.alloc) ∧
    (∀ e, Rlp.readUint k (win s) = .error e → ∃ e' s', uint k s = (.error e', s') ∧ s'.alloc = s.alloc) := by
  have hwl := win_length s hr
  have hks := kind_spec s hr hk ha
  have hkerr : HardErr s (kindOf s) → ∃ e' s', uint k s = (.error e', s') ∧ s'.alloc = s.alloc := by
    intro hhe
    obtain ⟨e', s', hko, _, hal⟩ := hard_of_hardErr hhe
    exact ⟨e', s', by simp only [uint, hko], hal⟩
  unfold Rlp.readUint
  cases hh : readHead (win s) with
  | error e0 =>
    rw [hh] at hks
    exact ⟨by intro n rest h; simp at h, fun e _ => hkerr hks⟩
  | ok hd =>
    rw [hh] at hks
    cases hd with
    | byte x r =>
      obtain ⟨s1, hko, hc, hbv, hr1w⟩ := hks
      have hr1 : Ready s1 := step_ready hr ha hc.step
      have hlen : (win s).length - r.length = 1 := by
        rw [hr1w, win_length s1 hr1, step_avail hc.step, hwl]; omega
      simp only
      by_cases hx : x = 0
      · simp only [hx, if_true]
        refine ⟨by intro n rest h; simp at h, fun e _ => ⟨.canonInt, s1, ?_, hc.alloc⟩⟩
        simp only [uint, hko, hbv, hx, if_true]
      · simp only [hx, if_false]
        refine ⟨?_, by intro e h; simp at h⟩
        intro n rest h
        simp only [Except.ok.injEq, Prod.mk.injEq] at h
        obtain ⟨hn, hrest⟩ := h
        subst hn; subst hrest
        rw [hlen]
        refine ⟨{ s1 with kind := none }, ?_, ⟨hc.step.inp, hc.step.rem, hc.step.lim, hc.step.stack⟩, rfl, ?_, hc.alloc⟩
        · simp only [uint, hko, hbv, hx, if_false]
        · rw [hr1w]; rfl
    | list m r =>
      simp only at hks ⊢
      refine ⟨by intro n rest h; simp at h, ?_⟩
      intro e _
      by_cases hlt : r.length < m
      · simp only [hlt, if_true] at hks; exact hkerr hks
      · simp only [hlt, if_false] at hks
        obtain ⟨s1, hko, hc, _⟩ := hks
        exact ⟨.expectedString, s1, by simp only [uint, hko], hc.alloc⟩
    | str m r =>
      simp only at hks ⊢
      by_cases hlt : r.length < m
      · simp only [hlt, if_true] at hks ⊢
        exact ⟨by intro n rest h; simp at h, fun e _ => hkerr hks⟩
      · simp only [hlt, if_false] at hks ⊢
        obtain ⟨s1, hko, hc, hr1w⟩ := hks
        have hcons := readHead_consumes _ _ hh
        simp only at hcons
        have hhle : (win s).length - r.length ≤ avail s := by omega
        have hr1 : Ready s1 := step_ready hr hhle hc.step
        have hav1 : avail s1 = r.length := by rw [hr1w, win_length s1 hr1]
        by_cases hkm : k < m
        · simp only [hkm, if_true]
          refine ⟨by intro n rest h; simp at h, fun e _ => ⟨.uintOverflow, s1, ?_, hc.alloc⟩⟩
          have : m > k := hkm
          simp only [uint, hko, this, if_true]
        · simp only [hkm, if_false]
          have hnk : ¬ m > k := hkm
          have htk : s1.inp.take m = r.take m := by rw [hr1w, win_take s1 m (by omega)]
          -- the successful end state and its facts
          cases m with
          | zero =>
            simp only [List.take_zero, List.drop_zero]
            refine ⟨?_, by intro e h; simp at h⟩
            intro n rest h
            simp only [Except.ok.injEq, Prod.mk.injEq] at h
            obtain ⟨hn, hrest⟩ := h
            subst hn; subst hrest
            refine ⟨{ s1 with kind := none }, ?_, ⟨hc.step.inp, hc.step.rem, hc.step.lim, hc.step.stack⟩, rfl, ?_, hc.alloc⟩
            · simp [uint, hko, RlpStream.readUint]
            · rw [hr1w]; rfl
          | succ m' =>
            have hsp := (readUint_spec (m' + 1) (by omega) s1 hr1).2 (by rw [hav1]; omega)
            rw [htk] at hsp
            have hst2 : Step s1 (m' + 1) (after (m' + 1) s1) := after_step _ _
            have hstep := step_trans hc.step hst2
            have hlen2 : (win s).length - (r.drop (m' + 1)).length = (win s).length - r.length + (m' + 1) := by
              have hd : (r.drop (m' + 1)).length = r.length - (m' + 1) := List.length_drop
              rw [hd]; omega
            have hwin2 : r.drop (m' + 1) = win (after (m' + 1) s1) := by rw [step_win hst2, hr1w]
            cases htake : r.take (m' + 1) with
            | nil =>
              have hl : (r.take (m' + 1)).length = m' + 1 := by rw [List.length_take]; omega
              rw [htake] at hl; simp at hl
            | cons b0 t =>
              have hl : (r.take (m' + 1)).length = m' + 1 := by rw [List.length_take]; omega
              rw [htake] at hsp
              simp only at hsp
              cases t with
              | nil =>
                -- one byte
                have hm1 : m' = 0 := by
                  rw [htake] at hl; simp at hl; omega
                subst hm1
                have hn2 : ¬ (2 ≤ 0 + 1 ∧ b0 = 0) := by omega
                simp only [hn2, if_false] at hsp
                have hbe : beNat [b0] = b0.toNat := by simp [beNat]
                by_cases hx80 : b0 < 0x80
                · simp only [hx80, if_true]
                  refine ⟨by intro n rest h; simp at h, fun e _ => ⟨.canonSize, after (0 + 1) s1, ?_, hc.alloc⟩⟩
                  have hv : beNat [b0] < 128 := by rw [hbe]; rw [u8_lt_iff] at hx80; exact hx80
                  simp [uint, hko, hnk, hsp, hv]
                · simp only [hx80, if_false]
                  refine ⟨?_, by intro e h; simp at h⟩
                  intro n rest h
                  simp only [Except.ok.injEq, Prod.mk.injEq] at h
                  obtain ⟨hn, hrest⟩ := h
                  subst hn; subst hrest
                  rw [hlen2]
                  refine ⟨after (0 + 1) s1, ?_, hstep, rfl, hwin2, hc.alloc⟩
                  have hc128 : (128 : UInt8).toNat = 128 := rfl
                  have h128 : 128 ≤ b0.toNat := by rw [u8_lt_iff, hc128] at hx80; omega
                  have hv : ¬ beNat [b0] < 128 := by rw [hbe]; omega
                  simp [uint, hko, hnk, hsp, hv, hbe, h128]
              | cons x t' =>
                have hm2 : 2 ≤ m' + 1 := by
                  rw [htake] at hl; simp at hl; omega
                by_cases hb0 : b0 = 0
                · simp only [hb0, if_true]
                  have : 2 ≤ m' + 1 ∧ b0 = 0 := ⟨hm2, hb0⟩
                  simp only [this, and_self, if_true] at hsp
                  obtain ⟨s2, hr2, hal2⟩ := hsp
                  refine ⟨by intro n rest h; simp at h, fun e _ => ⟨.canonInt, s2, ?_, by rw [hal2]; exact hc.alloc⟩⟩
                  simp [uint, hko, hnk, hr2]
                · simp only [hb0, if_false]
                  have hn2 : ¬ (2 ≤ m' + 1 ∧ b0 = 0) := fun hcq => hb0 hcq.2
                  simp only [hn2, if_false] at hsp
                  refine ⟨?_, by intro e h; simp at h⟩
                  intro n rest h
                  simp only [Except.ok.injEq, Prod.mk.injEq] at h
                  obtain ⟨hn, hrest⟩ := h
                  subst hn; subst hrest
                  rw [hlen2]
                  refine ⟨after (m' + 1) s1, ?_, hstep, rfl, hwin2, hc.alloc⟩
                  have hv : ¬ beNat (b0 :: x :: t') < 128 := by
                    have := beNat_ge_256 b0 x t' hb0; omega
                  simp [uint, hko, hnk, hsp, hv]

/-- the Stream machine's `Bool()` against the typed-layer primitive `Rlp.readBool`. -/
theorem bool_refines (s : St) (hr : Ready s) (hk : s.kind = none) (ha : 1 ≤ avail s) :
    (∀ b rest, Rlp.readBool (win s) = .ok (b, rest) →
      ∃ s', bool s = (.ok b, s') ∧ Step s ((win s).length - rest.length) s' ∧ s'.kind = none ∧ rest = win s' ∧
        s'.alloc = s.alloc) ∧
    (∀ e, Rlp.readBool (win s) = .error e → ∃ e' s', bool s = (.error e', s') ∧ s'.alloc = s.alloc) := by
  obtain ⟨hok, herr⟩ := uint_refines 1 s hr hk ha
  unfold Rlp.readBool
  cases hu : Rlp.readUint 1 (win s) with
  | error e =>
    obtain ⟨e', s', hm, hal⟩ := herr e hu
    exact ⟨by intro b rest h; simp at h, fun _ _ => ⟨e', s', by simp only [bool, hm], hal⟩⟩
  | ok p =>
    obtain ⟨n, rest⟩ := p
    obtain ⟨s', hm, hst, hk', hw, hal⟩ := hok n rest hu
    simp only
    match n, hm with
    | 0, hm =>
      refine ⟨?_, by intro e h; simp at h⟩
      intro b rest' h
      simp only [if_true, Except.ok.injEq, Prod.mk.injEq] at h
      obtain ⟨hb, hr'⟩ := h
      subst hb; subst hr'
      exact ⟨s', by simp only [bool, hm], hst, hk', hw, hal⟩
    | 1, hm =>
      refine ⟨?_, by intro e h; simp at h⟩
      intro b rest' h
      simp only [Nat.succ_ne_zero, if_false, if_true, Except.ok.injEq, Prod.mk.injEq] at h
      obtain ⟨hb, hr'⟩ := h
      subst hb; subst hr'
      exact ⟨s', by simp only [bool, hm], hst, hk', hw, hal⟩
    | n + 2, hm =>
      refine ⟨by intro b rest' h; simp at h, fun _ _ => ⟨.badBool, s', ?_, hal⟩⟩
      simp only [bool, hm]

/-! ### Bytes() -/

theorem bytes_of_kind (s s1 : St) (k : K) (n : Nat) (hko : kindOf s = (.ok (k, n), s1))
    (hk : s1.kind = some k) (hs : s1.size = n) (he : s1.kinderr = none) : bytes s = bytes s1 := by
  have h1 := kindOf_cached s1 k hk he
  rw [hs] at h1
  unfold bytes
  rw [hko, h1]

/-- the Stream machine's `Bytes()` against the typed-layer primitive `Rlp.readBytes` (also the reader under
    `decodeBigInt`, `decodeString`, `decodeByteSlice`), with the ghost allocation bounded by the bytes consumed. -/
theorem bytes_refines (s : St) (hr : Ready s) (hk : s.kind = none) (ha : 1 ≤ avail s) :
    (∀ b rest, Rlp.readBytes (win s) = .ok (b, rest) →
      ∃ s', bytes s = (.ok b, s') ∧ Step s ((win s).length - rest.length) s' ∧ s'.kind = none ∧ rest = win s' ∧
        s'.alloc ≤ s.alloc + ((win s).length - rest.length)) ∧
    (∀ e, Rlp.readBytes (win s) = .error e → ∃ e' s', bytes s = (.error e', s') ∧ s'.alloc ≤ s.alloc + avail s) := by
  have hwl := win_length s hr
  have hks := kind_spec s hr hk ha
  have hkerr : HardErr s (kindOf s) → ∃ e' s', bytes s = (.error e', s') ∧ s'.alloc ≤ s.alloc + avail s := by
    intro hhe
    obtain ⟨e', s', hko, _, hal⟩ := hard_of_hardErr hhe
    exact ⟨e', s', by simp only [bytes, hko], by omega⟩
  unfold Rlp.readBytes
  cases hh : readHead (win s) with
  | error e0 =>
    rw [hh] at hks
    exact ⟨by intro b rest h; simp at h, fun e _ => hkerr hks⟩
  | ok hd =>
    rw [hh] at hks
    cases hd with
    | byte x r =>
      obtain ⟨s1, hko, hc, hbv, hr1w⟩ := hks
      have hr1 : Ready s1 := step_ready hr ha hc.step
      have hlen : (win s).length - r.length = 1 := by
        rw [hr1w, win_length s1 hr1, step_avail hc.step, hwl]; omega
      simp only
      refine ⟨?_, by intro e h; simp at h⟩
      intro b rest h
      simp only [Except.ok.injEq, Prod.mk.injEq] at h
      obtain ⟨hb, hrest⟩ := h
      subst hb; subst hrest
      rw [hlen]
      refine ⟨{ s1 with kind := none, alloc := s1.alloc + 1 }, ?_,
        ⟨hc.step.inp, hc.step.rem, hc.step.lim, hc.step.stack⟩, rfl, ?_, ?_⟩
      · rw [bytes_of_kind s s1 .byte 0 hko hc.kind hc.size hc.err, bytes_byte s1 hc.kind hc.err, hbv]
      · rw [hr1w]; rfl
      · simp only [hc.alloc]; omega
    | list m r =>
      simp only at hks ⊢
      refine ⟨by intro b rest h; simp at h, ?_⟩
      intro e _
      by_cases hlt : r.length < m
      · simp only [hlt, if_true] at hks; exact hkerr hks
      · simp only [hlt, if_false] at hks
        obtain ⟨s1, hko, hc, _⟩ := hks
        exact ⟨.expectedString, s1, by simp only [bytes, hko], by rw [hc.alloc]; omega⟩
    | str m r =>
      simp only at hks ⊢
      by_cases hlt : r.length < m
      · simp only [hlt, if_true] at hks ⊢
        exact ⟨by intro b rest h; simp at h, fun e _ => hkerr hks⟩
      · simp only [hlt, if_false] at hks ⊢
        obtain ⟨s1, hko, hc, hr1w⟩ := hks
        have hcons := readHead_consumes _ _ hh
        simp only at hcons
        have hhle : (win s).length - r.length ≤ avail s := by omega
        have hr1 : Ready s1 := step_ready hr hhle hc.step
        have hav1 : avail s1 = r.length := by rw [hr1w, win_length s1 hr1]
        have hsz : s1.size ≤ avail s1 := by rw [hc.size, hav1]; omega
        have hb := bytes_string s1 hr1 hc.kind hc.err hsz
        have htk : s1.inp.take s1.size = r.take m := by rw [hc.size, hr1w, win_take s1 m (by omega)]
        rw [htk, ← bytes_of_kind s s1 .string m hko hc.kind hc.size hc.err] at hb
        have h2 : Step s1 m (after s1.size { s1 with alloc := s1.alloc + s1.size }) := by
          rw [hc.size]; exact ⟨rfl, rfl, rfl, rfl⟩
        have hstep := step_trans hc.step h2
        have hd : (r.drop m).length = r.length - m := List.length_drop
        have hlen2 : (win s).length - (r.drop m).length = (win s).length - r.length + m := by rw [hd]; omega
        have hwin2 : r.drop m = win (after s1.size { s1 with alloc := s1.alloc + s1.size }) := by
          rw [step_win h2, hr1w]
        have hal : (after s1.size { s1 with alloc := s1.alloc + s1.size }).alloc = s.alloc + m := by
          simp only [after, hc.alloc, hc.size]
        have hokcase : ∀ bsv : Bytes, (match r.take m with
              | [x] => if x < 0x80 then (Except.error SErr.canonSize : Except SErr Bytes) else .ok [x]
              | b => .ok b) = .ok bsv →
            ∃ s', bytes s = (.ok bsv, s') ∧ Step s ((win s).length - (r.drop m).length) s' ∧ s'.kind = none ∧
              r.drop m = win s' ∧ s'.alloc ≤ s.alloc + ((win s).length - (r.drop m).length) := by
          intro bsv hm
          refine ⟨after s1.size { s1 with alloc := s1.alloc + s1.size }, ?_, ?_, rfl, hwin2, ?_⟩
          · rw [hb]; simp only [Prod.mk.injEq, and_true]; exact hm
          · rw [hlen2]; exact hstep
          · rw [hlen2, hal]; omega
        split
        · rename_i x hx
          by_cases hx80 : x < 0x80
          · simp only [hx80, if_true]
            refine ⟨by intro b rest h; simp at h, fun e _ => ⟨.canonSize, after s1.size { s1 with alloc := s1.alloc + s1.size }, ?_, ?_⟩⟩
            · rw [hb, hx]; simp [hx80]
            · rw [hal]; omega
          · simp only [hx80, if_false]
            refine ⟨?_, by intro e h; simp at h⟩
            intro b rest h
            simp only [Except.ok.injEq, Prod.mk.injEq] at h
            obtain ⟨hb', hrest⟩ := h
            subst hb'; subst hrest
            exact hokcase [x] (by rw [hx]; simp [hx80])
        · rename_i hns
          refine ⟨?_, by intro e h; simp at h⟩
          intro b rest h
          simp only [Except.ok.injEq, Prod.mk.injEq] at h
          obtain ⟨hb', hrest⟩ := h
          subst hb'; subst hrest
          refine hokcase (r.take m) ?_
          split
          · rename_i x hx; exact absurd hx (hns x)
          · rfl

end Aqv.RlpStream

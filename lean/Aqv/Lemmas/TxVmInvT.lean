/-
  Aqv.Lemmas.TxVmInvT — the tick-aware form of Aqv.Lemmas.TxVmInv: the interpreter loop reads oracle entries `o t` with t ≥ 1
  only (entry 0 describes the depth-0 callee and is read by the top-level wrapper alone), ticks never decrease, so a world
  predicate needs to be preserved only by the effects of the entries t ≥ 1 (plus, explicitly, by the entry-0 effects the
  wrapper applies). Used for the signer's nonce (C06 `nonce_plus_one_over_vm`): the depth-0 `evm.Create` bumps the signer's nonce
  once, nothing after it may.
-/
import Aqv.Lemmas.TxVmInv
namespace Aqv.TxVm
open Aqv.Vm Aqv.Gen.VmFlags

variable {W : Type}

/-- effects of the oracle entries t ≥ 1 preserve P. -/
def EffOkT (P : W → Prop) (o : Nat → StepIn W) : Prop :=
  ∀ t, 1 ≤ t → ∀ w, P w → P ((o t).eff w) ∧ P ((o t).gasEff w) ∧ P ((o t).neutralEff w) ∧ P ((o t).xferEff w) ∧
    P ((o t).nonceEff w) ∧ P ((o t).setCodeEff w)

theorem pre_stop_tick {env : Env} {i : StepIn W} {fr : Frame} {db : Db W} {t : Nat} {r : Res W}
    (h : pre env i fr db t = .stop r) : r.tick = t + 1 := by
  unfold pre at h
  split at h
  · cases h; rfl
  · split at h
    · cases h; rfl
    · split at h
      · cases h; rfl
      · split at h
        · cases h; rfl
        · split at h
          · cases h; rfl
          · simp only at h
            split at h
            · cases h; rfl
            · split at h
              · cases h; rfl
              · cases h

theorem execLocal_inl_tick {f : OpF} {i : StepIn W} {fr1 : Frame} {db1 : Db W} {t : Nat} {ev : Event} {r : Res W}
    (h : execLocal f i fr1 db1 t ev = .inl r) : r.tick = t + 1 := by
  unfold execLocal at h
  split at h
  · cases h; rfl
  · simp only at h
    split at h
    · cases h; rfl
    · split at h
      · cases h; rfl
      · cases h

theorem finishCall_tick (r : Res W) (id : Nat) : (finishCall r id).tick = r.tick := by
  unfold finishCall
  split
  · split <;> rfl
  · split <;> rfl
  · rfl

theorem createStore_tick (env : Env) (i : StepIn W) (r : Res W) : (createStore env i r).tick = r.tick := by
  unfold createStore
  split
  · split <;> rfl
  · rfl

theorem ite_out_tick (c : Prop) [Decidable c] (r2 : Res W) (o : Outcome) : (if c then { r2 with out := o } else r2).tick = r2.tick := by
  split <;> rfl

theorem createFinish_tick (env : Env) (id : Nat) (b : Bool) (r : Res W) : (createFinish env id b r).tick = r.tick := by
  unfold createFinish
  simp only []
  rw [ite_out_tick]
  split
  · split
    · rfl
    · split <;> rfl
  · rfl

/-- what the wrappers need of the interpreter they call, from tick 1 on. -/
def ChildInvT (P : W → Prop) (runChild : Frame → Db W → Nat → Res W) : Prop :=
  ∀ fr db t, 1 ≤ t → DbInv P db → DbInv P (runChild fr db t).db ∧ 1 ≤ (runChild fr db t).tick

theorem runCode_invT {P : W → Prop} {runChild : Frame → Db W → Nat → Res W} (hc : ChildInvT P runChild) (i : StepIn W)
    (gas depth : Nat) (ro : Bool) {db : Db W} {t : Nat} (ht : 1 ≤ t) (h : DbInv P db) :
    DbInv P (runCode runChild i gas depth ro db t).db ∧ 1 ≤ (runCode runChild i gas depth ro db t).tick := by
  unfold runCode
  split
  · split
    · exact ⟨h, ht⟩
    · split <;> exact ⟨h, ht⟩
  · split
    · exact ⟨h, ht⟩
    · exact hc _ _ _ ht h

theorem callWrap_invT {P : W → Prop} {env : Env} {runChild : Frame → Db W → Nat → Res W} (hc : ChildInvT P runChild)
    (k : CallKind) {i : StepIn W} (hx : ∀ w, P w → P (i.xferEff w)) (hn : ∀ w, P w → P (i.neutralEff w))
    (depth : Nat) (ro : Bool) (gas : Nat) (valueNZ : Bool) {db : Db W} {t : Nat} (ht : 1 ≤ t) (h : DbInv P db) :
    DbInv P (callWrap env runChild k i depth ro gas valueNZ db t).db ∧ 1 ≤ (callWrap env runChild k i depth ro gas valueNZ db t).tick := by
  unfold callWrap
  split
  · exact ⟨h, ht⟩
  · split
    · exact ⟨h, ht⟩
    · simp only []
      split
      · exact ⟨h.snapshot, ht⟩
      · have hd : DbInv P (if (k == CallKind.call) = true then
            (if valueNZ = true then db.snapshot.2.app i.xferEff else db.snapshot.2.app i.neutralEff) else db.snapshot.2) := by
          split
          · split
            · exact h.snapshot.app hx
            · exact h.snapshot.app hn
          · exact h.snapshot
        have := runCode_invT hc i gas depth (ro || k == .static) ht hd
        exact ⟨finishCall_inv this.1 _, by rw [finishCall_tick]; exact this.2⟩

theorem createWrap_invT {P : W → Prop} {env : Env} {runChild : Frame → Db W → Nat → Res W} (hc : ChildInvT P runChild)
    {i : StepIn W} (hx : ∀ w, P w → P (i.xferEff w)) (hs : ∀ w, P w → P (i.setCodeEff w))
    (depth : Nat) (ro : Bool) (gas : Nat) {db : Db W} {t : Nat} (ht : 1 ≤ t)
    (h : DbInv P db) (h0 : DbInv P (db.app i.nonceEff)) :
    DbInv P (createWrap env runChild i depth ro gas db t).db ∧ 1 ≤ (createWrap env runChild i depth ro gas db t).tick := by
  unfold createWrap
  split
  · exact ⟨h, ht⟩
  · split
    · exact ⟨h, ht⟩
    · simp only []
      split
      · exact ⟨h0, ht⟩
      · have h2 : DbInv P ((db.app i.nonceEff).snapshot.2.app i.xferEff) := (h0.snapshot).app hx
        split
        · split
          · exact ⟨h2, ht⟩
          · exact ⟨createFinish_inv _ _ (createStore_inv hs h2), by rw [createFinish_tick, createStore_tick]; exact ht⟩
        · have h3 := hc (newFrame gas (depth + 1) ro) _ t ht h2
          split
          · exact h3
          · exact ⟨createFinish_inv _ _ (createStore_inv hs h3.1), by rw [createFinish_tick, createStore_tick]; exact h3.2⟩

theorem stepWith_invT {P : W → Prop} {env : Env} {o : Nat → StepIn W} (hO : EffOkT P o) {rec : Frame → Db W → Nat → Res W}
    (ih : ChildInvT P rec) (fr : Frame) {db : Db W} {t : Nat} (ht : 1 ≤ t) (h : DbInv P db) :
    DbInv P (stepWith env o rec fr db t).db ∧ 1 ≤ (stepWith env o rec fr db t).tick := by
  obtain ⟨e1, e2, e3, e4, e5, e6⟩ : (∀ w, P w → P ((o t).eff w)) ∧ (∀ w, P w → P ((o t).gasEff w)) ∧ (∀ w, P w → P ((o t).neutralEff w)) ∧
      (∀ w, P w → P ((o t).xferEff w)) ∧ (∀ w, P w → P ((o t).nonceEff w)) ∧ (∀ w, P w → P ((o t).setCodeEff w)) :=
    ⟨fun w hw => (hO t ht w hw).1, fun w hw => (hO t ht w hw).2.1, fun w hw => (hO t ht w hw).2.2.1, fun w hw => (hO t ht w hw).2.2.2.1,
     fun w hw => (hO t ht w hw).2.2.2.2.1, fun w hw => (hO t ht w hw).2.2.2.2.2⟩
  have ht1 : 1 ≤ t + 1 := Nat.le_add_left 1 t
  unfold stepWith
  simp only
  cases hpre : pre env (o t) fr db t with
  | stop r =>
    simp only
    obtain ⟨_, _, _, _, h5⟩ := pre_stop hpre
    refine ⟨?_, by rw [pre_stop_tick hpre]; exact ht1⟩
    rcases h5 with h' | ⟨f, _, _, _, h'⟩ <;> rw [h']
    · exact h
    · exact h.app e2
  | go f g ms db1 =>
    simp only
    obtain ⟨_, _, _, _, _, _, hdb1⟩ := pre_go hpre
    have h1 : DbInv P db1 := by
      rw [hdb1]; split
      · exact h.app e2
      · exact h
    by_cases hcr : f.execFn = .opCreate
    · simp only [hcr, if_true]
      generalize hr : createWrap env rec (o t) fr.depth fr.ro _ db1 (t + 1) = r
      have hri : DbInv P r.db ∧ 1 ≤ r.tick := by rw [← hr]; exact createWrap_invT ih e4 e6 _ _ _ ht1 h1 (h1.app e5)
      split
      · exact hri
      · exact ih _ _ _ hri.2 hri.1
    · simp only [hcr, if_false]
      cases hk : execKind f.execFn with
      | some k =>
        simp only
        generalize hr : callWrap env rec k (o t) fr.depth fr.ro _ _ db1 (t + 1) = r
        have hri : DbInv P r.db ∧ 1 ≤ r.tick := by rw [← hr]; exact callWrap_invT ih k e4 e3 _ _ _ _ ht1 h1
        split
        · exact hri
        · exact ih _ _ _ hri.2 hri.1
      | none =>
        simp only
        cases hx : execLocal f (o t) (paidFrame fr f g ms) db1 t (eventOf fr (o t) f g ms) with
        | inl r =>
          simp only
          obtain ⟨_, _, _, _, c5⟩ := execLocal_inl hx
          refine ⟨?_, by rw [execLocal_inl_tick hx]; exact ht1⟩
          rcases c5 with h' | ⟨_, h'⟩ <;> rw [h']
          · exact h1
          · exact h1.app e1
        | inr db2 =>
          simp only
          obtain ⟨_, _, c3⟩ := execLocal_inr hx
          apply ih _ _ _ ht1
          rcases c3 with h' | ⟨_, h'⟩ <;> rw [h']
          · exact h1
          · exact h1.app e1

theorem run_invT {P : W → Prop} (env : Env) {o : Nat → StepIn W} (hO : EffOkT P o) : ∀ fuel, ChildInvT P (run env o fuel) := by
  intro fuel
  induction fuel with
  | zero => intro fr db t ht h; rw [run_zero]; exact ⟨h, ht⟩
  | succ fuel ih => intro fr db t ht h; rw [run_succ]; exact stepWith_invT hO ih fr ht h

/-- `evm.Call` at depth 0: the entry-0 effects the wrapper may apply are given explicitly. -/
theorem topCall_invT {P : W → Prop} (env : Env) {o : Nat → StepIn W} (hO : EffOkT P o)
    (hx : ∀ w, P w → P ((o 0).xferEff w)) (hn : ∀ w, P w → P ((o 0).neutralEff w))
    (fuel : Nat) (k : CallKind) (gas : Nat) (v : Bool) {db : Db W} (h : DbInv P db) : DbInv P (topCall env o fuel k gas v db).db := by
  unfold topCall
  exact (callWrap_invT (run_invT env hO fuel) k hx hn _ _ _ _ (Nat.le_refl 1) h).1

/-- `evm.Create` at depth 0: P has to hold AFTER the creator's nonce bump; the only other possibility at depth 0 is that the
    creation was refused because CanTransfer is false. -/
theorem topCreate_invT {P : W → Prop} (env : Env) {o : Nat → StepIn W} (hO : EffOkT P o)
    (hx : ∀ w, P w → P ((o 0).xferEff w)) (hs : ∀ w, P w → P ((o 0).setCodeEff w))
    (fuel : Nat) (gas : Nat) {db : Db W} (hrevs : ∀ p ∈ db.revs, P p.2) (h0 : P ((o 0).nonceEff db.cur)) :
    DbInv P (topCreate env o fuel gas db).db ∨ (o 0).canTransfer = false := by
  unfold topCreate createWrap
  split
  · next hd => exact absurd hd (by decide)
  · split
    · next hc => exact Or.inr (by simpa using hc)
    · left
      have hd0 : DbInv P (db.app (o 0).nonceEff) := ⟨h0, hrevs⟩
      simp only []
      split
      · exact hd0
      · have h2 : DbInv P ((db.app (o 0).nonceEff).snapshot.2.app (o 0).xferEff) := (hd0.snapshot).app hx
        split
        · split
          · exact h2
          · exact createFinish_inv _ _ (createStore_inv hs h2)
        · have h3 := run_invT env hO fuel (newFrame gas (0 + 1) false) _ 1 (Nat.le_refl 1) h2
          split
          · exact h3.1
          · exact createFinish_inv _ _ (createStore_inv hs h3.1)

end Aqv.TxVm

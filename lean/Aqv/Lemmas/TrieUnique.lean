/-
  Aqv.Lemmas.TrieUnique — uniqueness of the canonical shape: two canonical tries that denote the same partial map
  are the same tree (no hash function involved).
-/
import Aqv.Lemmas.TrieOps
namespace Aqv.Trie
open Aqv

/-- every canonical (sub)trie holds at least one key. -/
theorem wf_exists_key {n : Node} (h : WF n) : ∃ k, lookup n k ≠ none := by
  induction h with
  | leaf k v _ _ => exact ⟨k, by simp [leaf_lookup]⟩
  | ext k cs _ _ _ ih =>
    obtain ⟨k', hk'⟩ := ih
    exact ⟨k ++ k', by rw [lookup_short_append]; exact hk'⟩
  | full cs c1 c2 c3 ih =>
    obtain ⟨i, _, _, hi, _⟩ := c3
    by_cases hiT : i = T
    · subst hiT
      rcases c2 with e | ⟨v, _, e⟩
      · exact absurd e hi
      · exact ⟨[T], by rw [lookup_full_cons, e]; simp [lookup]⟩
    · obtain ⟨k', hk'⟩ := ih i hiT hi
      exact ⟨i :: k', by rw [lookup_full_cons]; exact hk'⟩

/-- a non-nil child of a canonical branch holds a key. -/
theorem child_key {cs : Nib → Node} (hw : WF (.full cs)) {i : Nib} (hi : cs i ≠ .nil) : ∃ k, lookup (cs i) k ≠ none := by
  obtain ⟨c1, c2, _⟩ := wf_full_inv hw
  by_cases hiT : i = T
  · subst hiT
    rcases c2 with e | ⟨v, _, e⟩
    · exact absurd e hi
    · exact ⟨[], by rw [e]; simp [lookup]⟩
  · exact wf_exists_key (c1 i hiT hi)

/-- a canonical branch holds two keys that differ in their first nibble. -/
theorem wf_full_two_keys {cs : Nib → Node} (hw : WF (.full cs)) :
    ∃ i j k₁ k₂, i ≠ j ∧ lookup (.full cs) (i :: k₁) ≠ none ∧ lookup (.full cs) (j :: k₂) ≠ none := by
  obtain ⟨_, _, i, j, hij, hi, hj⟩ := wf_full_inv hw
  obtain ⟨k₁, h₁⟩ := child_key hw hi
  obtain ⟨k₂, h₂⟩ := child_key hw hj
  exact ⟨i, j, k₁, k₂, hij, by rw [lookup_full_cons]; exact h₁, by rw [lookup_full_cons]; exact h₂⟩

theorem short_key_prefix {p : List Nib} {c : Node} {k : List Nib} (h : lookup (.short p c) k ≠ none) : ∃ r, k = p ++ r := by
  apply Classical.byContradiction
  intro hne
  exact h (lookup_short_none hne)

theorem wf_short_key_ne_nil {p : List Nib} {c : Node} (h : WF (.short p c)) : p ≠ [] := by
  rcases wf_short_inv h with ⟨hk, _⟩ | ⟨hne, _⟩
  · exact term_ne_nil hk
  · exact hne

/-- a canonical short node and a canonical branch never denote the same map. -/
theorem short_full_absurd {p : List Nib} {c : Node} {cs : Nib → Node} (h1 : WF (.short p c)) (h2 : WF (.full cs))
    (h : ∀ k, lookup (.short p c) k = lookup (.full cs) k) : False := by
  obtain ⟨i, j, k₁, k₂, hij, hi, hj⟩ := wf_full_two_keys h2
  rw [← h] at hi hj
  obtain ⟨r₁, e₁⟩ := short_key_prefix hi
  obtain ⟨r₂, e₂⟩ := short_key_prefix hj
  obtain ⟨y, p', rfl⟩ := List.exists_cons_of_ne_nil (wf_short_key_ne_nil h1)
  simp at e₁ e₂
  exact hij (e₁.1.trans e₂.1.symm)

/-- if two canonical short nodes denote the same map, neither key properly extends the other. -/
theorem short_prefix_le {p₁ q : List Nib} {c₁ c₂ : Node} (h1 : WF (.short p₁ c₁)) (h2 : WF (.short (p₁ ++ q) c₂))
    (h : ∀ k, lookup (.short p₁ c₁) k = lookup (.short (p₁ ++ q) c₂) k) : q = [] := by
  cases q with
  | nil => rfl
  | cons x q' =>
    exfalso
    rcases wf_short_inv h1 with ⟨hk₁, _⟩ | ⟨_, _, cs₁, rfl, hwf⟩
    · rcases wf_short_inv h2 with ⟨hk₂, _⟩ | ⟨_, hh₂, _⟩
      · have := term_prefix_eq hk₁ hk₂; cases this
      · exact term_not_hex hk₁ (hex_append.1 hh₂).1
    · obtain ⟨i, j, k₁, k₂, hij, hi, hj⟩ := wf_full_two_keys hwf
      have hi' : lookup (.short p₁ (.full cs₁)) (p₁ ++ i :: k₁) ≠ none := by rw [lookup_short_append]; exact hi
      have hj' : lookup (.short p₁ (.full cs₁)) (p₁ ++ j :: k₂) ≠ none := by rw [lookup_short_append]; exact hj
      rw [h] at hi' hj'
      obtain ⟨r₁, e₁⟩ := short_key_prefix hi'
      obtain ⟨r₂, e₂⟩ := short_key_prefix hj'
      simp at e₁ e₂
      exact hij (e₁.1.trans e₂.1.symm)

theorem short_keys_eq {p₁ p₂ : List Nib} {c₁ c₂ : Node} (h1 : WF (.short p₁ c₁)) (h2 : WF (.short p₂ c₂))
    (h : ∀ k, lookup (.short p₁ c₁) k = lookup (.short p₂ c₂) k) : p₁ = p₂ := by
  obtain ⟨k₀, hk₀⟩ := wf_exists_key h1
  have hk₀' := hk₀
  rw [h] at hk₀'
  obtain ⟨r₁, e₁⟩ := short_key_prefix hk₀
  obtain ⟨r₂, e₂⟩ := short_key_prefix hk₀'
  have hp₁ : p₁ <+: k₀ := ⟨r₁, e₁.symm⟩
  have hp₂ : p₂ <+: k₀ := ⟨r₂, e₂.symm⟩
  rcases List.prefix_or_prefix_of_prefix hp₁ hp₂ with ⟨q, hq⟩ | ⟨q, hq⟩
  · subst hq
    have := short_prefix_le h1 h2 h
    subst this; simp
  · subst hq
    have := short_prefix_le h2 h1 (fun k => (h k).symm)
    subst this; simp

/-- **Uniqueness of the canonical shape.** -/
theorem wf_unique_aux (t₁ : Node) : WF t₁ → ∀ t₂, WF t₂ → (∀ k, lookup t₁ k = lookup t₂ k) → t₁ = t₂ := by
  induction t₁ with
  | nil => intro h; exact absurd h not_wf_nil
  | value v => intro h; exact absurd h (not_wf_value v)
  | short p₁ c₁ ih =>
    intro h1 t₂ h2 h
    cases t₂ with
    | nil => exact absurd h2 not_wf_nil
    | value v => exact absurd h2 (not_wf_value v)
    | full cs₂ => exact absurd (short_full_absurd h1 h2 h) id
    | short p₂ c₂ =>
      have hp := short_keys_eq h1 h2 h
      subst hp
      have hc : ∀ k, lookup c₁ k = lookup c₂ k := by
        intro k
        have := h (p₁ ++ k)
        rwa [lookup_short_append, lookup_short_append] at this
      rcases wf_short_inv h1 with ⟨hk₁, v₁, _, rfl⟩ | ⟨_, hh₁, cs₁, rfl, hwf₁⟩
      · rcases wf_short_inv h2 with ⟨_, v₂, _, rfl⟩ | ⟨_, hh₂, _⟩
        · have := hc []
          simp [lookup] at this
          rw [this]
        · exact absurd hh₂ (term_not_hex hk₁)
      · rcases wf_short_inv h2 with ⟨hk₂, _⟩ | ⟨_, _, cs₂, rfl, hwf₂⟩
        · exact absurd hh₁ (term_not_hex hk₂)
        · rw [ih hwf₁ _ hwf₂ hc]
  | full cs₁ ih =>
    intro h1 t₂ h2 h
    cases t₂ with
    | nil => exact absurd h2 not_wf_nil
    | value v => exact absurd h2 (not_wf_value v)
    | short p₂ c₂ => exact absurd (short_full_absurd h2 h1 (fun k => (h k).symm)) id
    | full cs₂ =>
      congr 1
      funext i
      have hc : ∀ k, lookup (cs₁ i) k = lookup (cs₂ i) k := by
        intro k
        have := h (i :: k)
        rwa [lookup_full_cons, lookup_full_cons] at this
      obtain ⟨a1, a2, _⟩ := wf_full_inv h1
      obtain ⟨b1, b2, _⟩ := wf_full_inv h2
      by_cases hiT : i = T
      · subst hiT
        have := hc []
        rcases a2 with e₁ | ⟨v₁, _, e₁⟩ <;> rcases b2 with e₂ | ⟨v₂, _, e₂⟩ <;> rw [e₁, e₂] at this ⊢ <;>
          simp [lookup] at this ⊢
        exact this
      · by_cases n₁ : cs₁ i = .nil
        · by_cases n₂ : cs₂ i = .nil
          · rw [n₁, n₂]
          · obtain ⟨k, hk⟩ := wf_exists_key (b1 i hiT n₂)
            rw [← hc, n₁] at hk
            simp [lookup] at hk
        · by_cases n₂ : cs₂ i = .nil
          · obtain ⟨k, hk⟩ := wf_exists_key (a1 i hiT n₁)
            rw [hc, n₂] at hk
            simp [lookup] at hk
          · exact ih i (a1 i hiT n₁) _ (b1 i hiT n₂) hc

end Aqv.Trie

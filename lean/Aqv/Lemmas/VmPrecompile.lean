/-
  Aqv.Lemmas.VmPrecompile — bigModExp: the buffers Run materialises from announced lengths are bounded linearly by the gas
  RequiredGas charges (C07).
-/
import Aqv.Model.VmPrecompile
namespace Aqv.Vm.Pre
open Aqv.Gen.VmFlags

theorem le_modexpMult {x : Nat} (h : 1 ≤ x) : x ≤ modexpMult x := by
  unfold modexpMult
  split
  · exact Nat.le_mul_self x
  · next h64 =>
    have hx : 64 * x ≤ x * x := Nat.mul_le_mul_right x (by omega)
    split <;> omega
  
/-- the core arithmetic: whenever the charged gas is not the MaxUint64 saturation value, the bytes materialised by Run are at
    most 64·(gas+1)+32 -/
theorem modexp_core (b e m msb g : Nat) (hg : modexpGas b e m msb = g) (hlt : g < two64 - 1) :
    modexpRunBuffers b e m ≤ 64 * (g + 1) + 32 := by
  unfold modexpRunBuffers
  simp only
  split
  · omega
  · next hne =>
    have hb : b % two64 ≤ b := Nat.mod_le _ _
    have he : e % two64 ≤ e := Nat.mod_le _ _
    have hm : m % two64 ≤ m := Nat.mod_le _ _
    have hx : 1 ≤ max m b := by
      by_cases h0 : b % two64 = 0
      · have : m % two64 ≠ 0 := fun h => hne ⟨h0, h⟩
        omega
      · omega
    have hM := le_modexpMult hx
    unfold modexpGas at hg
    simp only at hg
    generalize hA : max ((if e > 32 then 8 * (e - 32) else 0) + msb) 1 = A at hg
    generalize hMM : modexpMult (max m b) = M at hg hM
    have hA1 : 1 ≤ A := by omega
    have hM1 : 1 ≤ M := by omega
    have h1 : M ≤ M * A := Nat.le_mul_of_pos_right M hA1
    have h2 : A ≤ M * A := Nat.le_mul_of_pos_left A hM1
    have hq : modExpQuadCoeffDiv = 20 := rfl
    rw [hq] at hg
    have hadj : e ≤ 32 + A / 8 := by
      by_cases h32 : e > 32
      · simp only [h32, if_true] at hA; omega
      · omega
    generalize hP : M * A = P at hg h1 h2
    split at hg
    · omega
    · omega

/-- the non-modexp precompiles materialise a constant number of bytes, whatever the input -/
theorem runBuffers_const (addr : Nat) (h5 : addr ≠ 5) (input : Bytes) : runBuffers addr input ≤ 225 := by
  unfold runBuffers
  split <;> first | omega | (split <;> omega) | contradiction

/-- their output is a constant or the input itself -/
theorem outLen_le (addr : Nat) (h5 : addr ≠ 5) (input : Bytes) (n : Nat) (h : outLen addr input = some n) :
    n ≤ max 32 input.length := by
  unfold outLen at h
  split at h <;> first | (cases h; omega) | contradiction | (cases h)

/-- the work of the hashing precompiles is linear in the input and each 32-byte word is charged -/
theorem runSteps_le_gas (addr : Nat) (h5 : addr ≠ 5) (h1 : 1 ≤ addr) (h8 : addr ≤ 8) (input : Bytes) :
    runSteps addr input ≤ requiredGas addr input := by
  have c : ecrecoverGas = 3000 ∧ sha256PerWordGas = 12 ∧ sha256BaseGas = 60 ∧ ripemd160PerWordGas = 120 ∧ ripemd160BaseGas = 600 ∧
      identityPerWordGas = 3 ∧ identityBaseGas = 15 ∧ bn256AddGas = 500 ∧ bn256ScalarMulGas = 40000 ∧ bn256PairingBaseGas = 100000 := by decide
  obtain ⟨c1, c2, c3, c4, c5, c6, c7, c8, c9, c10⟩ := c
  unfold runSteps requiredGas words
  rcases (by omega : addr = 1 ∨ addr = 2 ∨ addr = 3 ∨ addr = 4 ∨ addr = 6 ∨ addr = 7 ∨ addr = 8) with h | h | h | h | h | h | h <;>
    subst h <;> simp only [c1, c2, c3, c4, c5, c6, c7, c8, c9, c10] <;> omega

end Aqv.Vm.Pre

/-
  Aqv.Lemmas.LogFilterSection — `calcBloomIndexes` agrees with `bloom9`; `BloomLookup` as three bit tests; the matcher
  pipeline over the generator's vectors computes `bloomFilter` of each block of the section (C16).
-/
import Aqv.Lemmas.LogFilterMatcher
namespace Aqv.LogFilter

theorem idx_arith (x y : UInt8) : ((x.toNat <<< 8) &&& 2047) + y.toNat = (y.toNat + (x.toNat <<< 8)) &&& 2047 := by
  have e : (2047 : Nat) = 2 ^ 11 - 1 := by decide
  have hx := x.toNat_lt
  have hy := y.toNat_lt
  rw [e, Nat.and_two_pow_sub_one_eq_mod, Nat.and_two_pow_sub_one_eq_mod, Nat.shiftLeft_eq]
  omega

/-- `calcBloomIndexes` (matcher.go) computes the three bit positions `bloom9` (bloom9.go) sets. -/
theorem calcBloomIndexes_eq (H : HashFn) (b : Bytes) :
    calcBloomIndexes H b = (bloom9Idx (H b) 0, bloom9Idx (H b) 2, bloom9Idx (H b) 4) := by
  unfold calcBloomIndexes bloom9Idx
  simp only [Prod.mk.injEq]
  exact ⟨idx_arith _ _, idx_arith _ _, idx_arith _ _⟩

theorem bloom9_testBit (H : HashFn) (b : Bytes) (j : Nat) :
    (bloom9 H b).testBit j = (decide (bloom9Idx (H b) 0 = j) || decide (bloom9Idx (H b) 2 = j) || decide (bloom9Idx (H b) 4 = j)) := by
  unfold bloom9
  simp only [List.foldl_cons, List.foldl_nil, Nat.testBit_or, Nat.one_shiftLeft, Nat.testBit_two_pow, Nat.zero_testBit,
    Bool.false_or]

/-- `BloomLookup` = the three bits are set in `Big()`. -/
theorem bloomLookup_eq_bits (H : HashFn) (bloom x : Bytes) :
    bloomLookup H bloom x =
      ((beNat bloom).testBit (bloom9Idx (H x) 0) && (beNat bloom).testBit (bloom9Idx (H x) 2) && (beNat bloom).testBit (bloom9Idx (H x) 4)) := by
  rw [Bool.eq_iff_iff, bloomLookup_iff_covers, covers_iff]
  simp only [bloom9_testBit, Bool.or_eq_true, decide_eq_true_eq, Bool.and_eq_true]
  constructor
  · intro h
    exact ⟨⟨h _ (Or.inl (Or.inl rfl)), h _ (Or.inl (Or.inr rfl))⟩, h _ (Or.inr rfl)⟩
  · intro h j hj
    rcases hj with (hj | hj) | hj <;> subst hj
    · exact h.1.1
    · exact h.1.2
    · exact h.2

theorem calcBloomIndexes_lt (H : HashFn) (x : Bytes) :
    ∀ k ∈ [(calcBloomIndexes H x).1, (calcBloomIndexes H x).2.1, (calcBloomIndexes H x).2.2], k < 2048 := by
  rw [calcBloomIndexes_eq]
  intro k hk
  simp only [List.mem_cons, List.not_mem_nil, or_false] at hk
  rcases hk with h | h | h <;> subst h <;> exact bloom9Idx_lt _ _

/-- one group of `NewMatcher` built from a list of plain clauses. -/
def groupOf (H : HashFn) (l : List Bytes) : Option (List (Nat × Nat × Nat)) :=
  if l.length == 0 then none else some (l.map (calcBloomIndexes H))

theorem newMatcher_step_some (H : HashFn) (l : List Bytes) :
    (if (l.map some).length == 0 then none
     else if (l.map some).any (fun c => c.isNone) then none
     else some ((l.map some).map (fun c => calcBloomIndexes H (c.getD [])))) = groupOf H l := by
  unfold groupOf
  have h1 : (l.map some).any (fun c => c.isNone) = false := by
    rw [List.any_eq_false]; intro x hx; rw [List.mem_map] at hx; obtain ⟨a, _, ha⟩ := hx; subst ha; simp
  have h2 : (l.map some).map (fun c => calcBloomIndexes H (c.getD [])) = l.map (calcBloomIndexes H) := by
    rw [List.map_map]; rfl
  rw [List.length_map, h1, h2]
  simp

theorem newMatcherFilters_flatten (H : HashFn) (c : Criteria) :
    newMatcherFilters H (flattenCriteria c) =
      ((if c.addresses.length > 0 then [c.addresses] else []) ++ c.topics).filterMap (groupOf H) := by
  unfold newMatcherFilters flattenCriteria
  have key : ∀ (ls : List (List Bytes)),
      (ls.map (fun tl => tl.map some)).filterMap (fun filter =>
        if filter.length == 0 then none
        else if filter.any (fun c => c.isNone) then none
        else some (filter.map (fun c => calcBloomIndexes H (c.getD [])))) = ls.filterMap (groupOf H) := by
    intro ls
    induction ls with
    | nil => rfl
    | cons l ls ih =>
      rw [List.map_cons, List.filterMap_cons, List.filterMap_cons, newMatcher_step_some H l, ih]
  have := key ((if c.addresses.length > 0 then [c.addresses] else []) ++ c.topics)
  rw [← this, List.map_append]
  split <;> rfl

theorem all_filterMap {α β : Type} (f : α → Option β) (p : β → Bool) (xs : List α) :
    (xs.filterMap f).all p = xs.all (fun x => ((f x).map p).getD true) := by
  induction xs with
  | nil => rfl
  | cons x xs ih =>
    rw [List.filterMap_cons, List.all_cons]
    cases hf : f x with
    | none => simp [ih]
    | some y => simp [ih]

/-- bit `n` of the AND of the three vectors of item `x` is `BloomLookup(bloom, x)` when the vectors are the columns of `bloom`. -/
theorem tripleBit_eq_lookup (H : HashFn) (vec : Nat → Bytes) (bloom : Bytes) (n : Nat)
    (hcol : ∀ i, i < 2048 → vecBit (vec i) n = (beNat bloom).testBit i) (x : Bytes) :
    tripleBit vec (calcBloomIndexes H x) n = bloomLookup H bloom x := by
  have hlt := calcBloomIndexes_lt H x
  unfold tripleBit
  rw [hcol _ (hlt _ (by simp)), hcol _ (hlt _ (by simp)), hcol _ (hlt _ (by simp)), bloomLookup_eq_bits, calcBloomIndexes_eq]

theorem group_eq (H : HashFn) (vec : Nat → Bytes) (bloom : Bytes) (n : Nat)
    (hcol : ∀ i, i < 2048 → vecBit (vec i) n = (beNat bloom).testBit i) (l : List Bytes) :
    (((groupOf H l).map (fun y => y.any (fun bits => tripleBit vec bits n))).getD true) =
      (l.length == 0 || l.any (fun x => bloomLookup H bloom x)) := by
  unfold groupOf
  by_cases h : l.length = 0
  · simp [h]
  · have : (l.length == 0) = false := by simpa using h
    rw [this, Bool.false_or]
    simp only [Bool.false_eq_true, if_false, Option.map_some, Option.getD_some, List.any_map]
    apply List.any_congr rfl
    intro x
    exact tripleBit_eq_lookup H vec bloom n hcol x

/-- all groups of the matcher have a surviving alternative at bit `n` ⇔ `bloomFilter` on the block's bloom. -/
theorem filters_all_eq_bloomFilter (H : HashFn) (vec : Nat → Bytes) (bloom : Bytes) (n : Nat)
    (hcol : ∀ i, i < 2048 → vecBit (vec i) n = (beNat bloom).testBit i) (c : Criteria) :
    (newMatcherFilters H (flattenCriteria c)).all (fun g => g.any (fun bits => tripleBit vec bits n)) = bloomFilter H bloom c := by
  rw [newMatcherFilters_flatten, all_filterMap, List.all_append]
  unfold bloomFilter
  congr 1
  · split
    · rw [List.all_cons, List.all_nil, Bool.and_true, group_eq H vec bloom n hcol]
      rename_i hpos
      have : (c.addresses.length == 0) = false := by
        have : c.addresses.length ≠ 0 := by omega
        simpa using this
      rw [this, Bool.false_or]
    · rfl
  · apply List.all_congr rfl
    intro l
    exact group_eq H vec bloom n hcol l

theorem newMatcherFilters_lengths (H : HashFn) (vec : Nat → Bytes) (L : Nat) (hvec : ∀ i, i < 2048 → (vec i).length = L)
    (c : Criteria) :
    ∀ bloom ∈ newMatcherFilters H (flattenCriteria c), ∀ bits ∈ bloom, ∀ k ∈ [bits.1, bits.2.1, bits.2.2], (vec k).length = L := by
  rw [newMatcherFilters_flatten]
  intro bloom hb bits hbits k hk
  rw [List.mem_filterMap] at hb
  obtain ⟨l, _, hl⟩ := hb
  unfold groupOf at hl
  split at hl
  · cases hl
  · cases hl
    rw [List.mem_map] at hbits
    obtain ⟨x, _, hx⟩ := hbits
    subst hx
    exact hvec k (calcBloomIndexes_lt H x k hk)

/-- `matcher_spec` on generator output: for a full section of 256-byte blooms, bit `n` of the pipeline result is
    `bloomFilter` of the `n`-th bloom. -/
theorem section_matcher_spec (H : HashFn) (size : Nat) (h8 : size % 8 = 0) (h2048 : 2048 ≤ size) (blooms : List Bytes)
    (hlen : blooms.length = size) (h256 : ∀ b ∈ blooms, b.length = 256) (vs : List Bytes)
    (hgen : generateSection size blooms = .ok vs) (c : Criteria) (n : Nat) (hn : n < size) :
    sectionBit (runSection (fun bit => vs.getD bit []) size (newMatcherFilters H (flattenCriteria c))) n =
      bloomFilter H (blooms.getD n []) c := by
  obtain ⟨vs', hgen', _, hspec⟩ := generateSection_spec size h8 h2048 blooms hlen
  rw [hgen] at hgen'
  cases hgen'
  have hvl : ∀ i, i < 2048 → ((fun bit => vs.getD bit []) i).length = size / 8 := fun i hi => (hspec i hi).1
  rw [runSection_spec _ size _ (newMatcherFilters_lengths H _ (size / 8) hvl c) n]
  have : n / 8 < size / 8 := by omega
  simp only [this, decide_true, Bool.true_and]
  apply filters_all_eq_bloomFilter
  intro i hi
  have hnl : n < blooms.length := by omega
  rw [(hspec i hi).2 n]
  unfold colBit
  rw [List.getElem?_eq_getElem hnl]
  simp only [Option.map_some, Option.getD_some]
  have hg : blooms.getD n [] = blooms[n] := by rw [List.getD_eq_getElem?_getD, List.getElem?_eq_getElem hnl]; rfl
  rw [hg]
  exact bloomBit_eq_testBit _ (h256 _ (List.getElem_mem hnl)) i hi

end Aqv.LogFilter

/-
  Aqv.Lemmas.ChainWorld — a decidable sufficient condition for `World` (used for the non-vacuity examples and evaluated
  by the model driver on every generated tree), and the derivation of the property as stated (`SpecInv`) from `InvC`.
-/
import Aqv.Lemmas.ChainInv
namespace Aqv.Chain

theorem mapOf_id {bs : List Blk} {k : Nat} {x : Blk} (h : mapOf bs k = some x) : x.id = k ∧ x ∈ bs := by
  unfold mapOf at h
  have h1 := List.find?_some h
  have h2 := List.mem_of_find?_eq_some h
  simp at h1
  exact ⟨h1, h2⟩

theorem path_prefix_ancestry {U : Map Blk} {x c : Blk} {l : List Blk} (h : Path U x l c) :
    ∀ f, l.length ≤ f → ∃ r, ancestry U f x = l ++ r := by
  induction h with
  | nil x => intro f _; exact ⟨_, rfl⟩
  | cons hp _ ih =>
    intro f hf
    cases f with
    | zero => simp at hf
    | succ f =>
      obtain ⟨r, hr⟩ := ih f (by simp at hf; omega)
      refine ⟨r, ?_⟩
      simp only [ancestry, hp, hr, List.cons_append]

theorem world_of_check {bs : List Blk} (h : worldCheck bs = true) : World (mapOf bs) where
  ids := fun k x hx => (mapOf_id hx).1
  diffPos := by
    intro k x hx hn
    have hmem := (mapOf_id hx).2
    unfold worldCheck at h
    have := (List.all_eq_true.mp h) x hmem
    simp only [Bool.and_eq_true, Bool.or_eq_true, beq_iff_eq, decide_eq_true_eq] at this
    rcases this.1 with h0 | h0
    · exact absurd h0 hn
    · exact h0
  nodup := by
    intro k x l c hx hp
    have hmem := (mapOf_id hx).2
    unfold worldCheck at h
    have := (List.all_eq_true.mp h) x hmem
    simp only [Bool.and_eq_true, decide_eq_true_eq] at this
    obtain ⟨r, hr⟩ := path_prefix_ancestry hp (x.number + 1) (by have := hp.number; omega)
    have hnd := this.2
    rw [hr, List.flatMap_append] at hnd
    exact (List.nodup_append.mp hnd).1

/-! ### the property as stated -/

theorem up_path {store : Map Blk} (hid : ∀ k x, store k = some x → x.id = k) {x y : Blk} {l : List Blk}
    (h : Path store x l y) (hx : store x.id = some x) :
    ∀ k z, (l ++ [y])[k]? = some z → up store k x.id = some z := by
  induction h with
  | nil x =>
    intro k z hz
    cases k with
    | zero => simp at hz; subst hz; simpa [up] using hx
    | succ k => simp at hz
  | cons hp _ ih =>
    rename_i x p l y
    intro k z hz
    have h1 := (parentOf_some hp).1
    have hpid := hid _ _ h1
    cases k with
    | zero => simp at hz; subst hz; simpa [up] using hx
    | succ k =>
      simp at hz
      simp only [up, hx]
      rw [← hpid]
      exact ih (by rw [hpid]; exact h1) k z hz

theorem path_index {store : Map Blk} {x y : Blk} {l : List Blk} (h : Path store x l y) :
    ∀ k, k ≤ l.length → ∃ z, (l ++ [y])[k]? = some z ∧ z.number + k = x.number := by
  induction h with
  | nil x => intro k hk; simp at hk; subst hk; exact ⟨x, by simp, rfl⟩
  | cons hp hrest ih =>
    rename_i x p l y
    intro k hk
    have hn := (parentOf_some hp).2
    cases k with
    | zero => exact ⟨x, by simp, rfl⟩
    | succ k =>
      obtain ⟨z, hz, hzn⟩ := ih k (by simp at hk; omega)
      exact ⟨z, by simpa using hz, by omega⟩

/-- the invariant implies C03 as stated -/
theorem spec_of_inv {U : Map Blk} (W : World U) {s : St} (h : Inv U s) : SpecInv s := by
  obtain ⟨hb, C, h⟩ := h
  have hid := h.headId W
  have hstored : s.store hb.id = some hb := by rw [hid]; exact h.headStored
  refine ⟨⟨hb, h.headStored, h.hheadEq, h.fheadEq⟩, ?_, ?_, ?_⟩
  · intro hb' hhb' n hn
    rw [h.headStored] at hhb'; cases hhb'
    have hlen := h.path.number
    rw [h.genNum] at hlen
    obtain ⟨z, hz, hzn⟩ := path_index h.path (hb.number - n) (by omega)
    have hzmem : z ∈ C ++ [s.genesis] := List.mem_of_getElem? hz
    refine ⟨z, ?_, by omega, ?_, ?_, ?_⟩
    · rw [← hid]; exact up_path (h.storeIds W) h.path hstored _ _ hz
    · exact (h.canon _ _).mpr ⟨z, hzmem, by omega, rfl⟩
    · exact h.seenRcpt _ (h.canonSeen z hzmem)
    · exact h.storeTd _ _ (h.chainStored W z hzmem)
  · intro hb' hhb' n hn
    rw [h.headStored] at hhb'; cases hhb'
    exact h.canonAbove n hn
  · intro t l
    rw [h.lookup]
    constructor
    · rintro ⟨x, hx, hxi, hxn, hxt⟩
      exact ⟨(h.canon _ _).mpr ⟨x, hx, hxn, hxi⟩, x, by rw [← hxi]; exact h.chainStored W x hx, hxt⟩
    · rintro ⟨hc, x, hxs, hxt⟩
      obtain ⟨y, hy, hyn, hyi⟩ := (h.canon _ _).mp hc
      have := h.chainStored W y hy
      rw [hyi, hxs] at this
      cases this
      exact ⟨x, hy, hyi, hyn, hxt⟩

end Aqv.Chain

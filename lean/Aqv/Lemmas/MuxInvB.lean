/-
  Aqv.Lemmas.MuxInvB — delivery invariants of the TypeMux model: a Post walks its (immutable, duplicate-free) snapshot
  from left to right; what it has delivered so far lies in the prefix it has passed, and every passed receiver was
  delivered to, was stale, or was closed; the snapshot contains every receiver that was registered for the type before the
  Post was called and whose Unsubscribe had not been called; no (receiver, post) pair is delivered twice; nothing is
  delivered to a receiver after its Unsubscribe returned; a Post called after Stop returned does not succeed.
-/
import Aqv.Lemmas.MuxInvA
namespace Aqv.Mux
open Aqv.Feed (sub2_snoc sub2_mem nodup_snoc)
set_option linter.unusedSimpArgs false
set_option linter.unusedVariables false

theorem mem_take_succ (l : List Nat) (i : Nat) (h : i < l.length) (x : Nat) :
    x ∈ l.take (i + 1) ↔ x ∈ l.take i ∨ x = l.getD i 0 := by
  rw [List.take_succ_eq_append_getElem h, List.mem_append, List.mem_singleton]
  simp [List.getD, h]

theorem getD_not_mem_take (l : List Nat) (i : Nat) (h : i < l.length) (hn : l.Nodup) : l.getD i 0 ∉ l.take i := by
  intro hin
  rw [List.mem_take_iff_getElem] at hin
  obtain ⟨j, hj, he⟩ := hin
  have e1 : l.getD i 0 = l[i] := by simp [List.getD, h]
  rw [e1] at he
  rw [List.nodup_iff_pairwise_ne, List.pairwise_iff_getElem] at hn
  exact hn j i (by omega) h (by omega) he

theorem mem_of_mem_take' (l : List Nat) (i : Nat) (x : Nat) (h : x ∈ l.take i) : x ∈ l := List.mem_of_mem_take h

structure InvB (s : St) : Prop where
  p1a : ∀ p i, s.ppc p = .deliv i → i ≤ (s.snapL p).length
  p1b : ∀ p i, s.ppc p = .inDeliver i → i < (s.snapL p).length ∧ s.cur p = (s.snapL p).getD i 0
  p0 : ∀ p c, (s.ppc p = .idle ∨ s.ppc p = .called ∨ s.ppc p = .done false) → Ev.deliver c p ∉ s.tr
  p2 : ∀ p i c, (s.ppc p).idx = some i → Ev.deliver c p ∈ s.tr → c ∈ (s.snapL p).take i
  p3 : ∀ p i c, (s.ppc p).idx = some i → c ∈ (s.snapL p).take i →
    Ev.deliver c p ∈ s.tr ∨ s.evtime p < s.created c ∨ s.closed c = true
  g1 : ∀ p c, s.ppc p = .done true → c ∈ s.snapL p →
    Ev.deliver c p ∈ s.tr ∨ s.evtime p < s.created c ∨ Before s.tr (.unsubCall c) (.postRet p true) ∨
    Before s.tr .stopCall (.postRet p true)
  f1 : ∀ p i c t, (s.ppc p).idx = some i → Before s.tr (.subRet c t) (.postCall p t) →
    c ∈ s.snapL p ∨ Ev.unsubCall c ∈ s.tr
  f1d : ∀ p c t, s.ppc p = .done true → Before s.tr (.subRet c t) (.postCall p t) →
    c ∈ s.snapL p ∨ Before s.tr (.unsubCall c) (.postRet p true)
  nd : (delivs s.tr).Nodup
  dmem : ∀ c p, (c, p) ∈ delivs s.tr ↔ Ev.deliver c p ∈ s.tr
  late : ∀ c p, ¬ Before s.tr (.unsubRet c) (.deliver c p)
  sreg : ∀ p c, c ∈ s.snapL p → s.spc c = .registered
  ps : ∀ p t, (s.ppc p ≠ .idle ∧ s.ppc p ≠ .called ∧ s.ppc p ≠ .done false) → ¬ Before s.tr .stopRet (.postCall p t)

theorem invB_init : InvB init := by
  constructor <;> simp [init, PPc.idx, Before, delivs]

macro "minvb_rest" : tactic =>
  `(tactic| ((try simp only [Before, delivs, sub2_snoc, List.mem_append, List.mem_singleton, List.filterMap_append, List.filterMap_cons, List.filterMap_nil, List.append_nil]) <;> (try assumption) <;> (try grind [PPc.idx])))

macro "minvb_auto" : tactic =>
  `(tactic| (constructor <;> (try simp only [Before, delivs, sub2_snoc, List.mem_append, List.mem_singleton, List.filterMap_append, List.filterMap_cons, List.filterMap_nil, List.append_nil]) <;> (try assumption) <;> (try grind [PPc.idx])))

theorem invB_tick (s s' : St) (ha : InvA s) (h : InvB s) (hs : step false s (.tick) = some s') : InvB s' := by
  obtain ⟨a1,a2,a3,a4,a5,a6,a7,a8,a9,a10,a11,a12,a13,a14,a15,a16,a17,a18,a19,a20,a21,a22,a23,a24⟩ := ha
  obtain ⟨h1,h2,h3,h4,h5,h6,h7,h8,h9,h10,h11,h13,h12⟩ := h
  have sm := @sub2_mem Ev s.tr
  have mts := mem_take_succ
  have gnm := getD_not_mem_take
  have mot := mem_of_mem_take'
  have hns := @nodup_snoc (Sub × Pid) (delivs s.tr)
  simp only [Before] at a24 h6 h7 h8 h11 h12
  simp only [delivs] at h9 h10 hns
  mstep_split hs
  all_goals minvb_auto

theorem invB_subNew (s s' : St) (c t : Nat) (ha : InvA s) (h : InvB s) (hs : step false s (.subNew c t) = some s') : InvB s' := by
  obtain ⟨a1,a2,a3,a4,a5,a6,a7,a8,a9,a10,a11,a12,a13,a14,a15,a16,a17,a18,a19,a20,a21,a22,a23,a24⟩ := ha
  obtain ⟨h1,h2,h3,h4,h5,h6,h7,h8,h9,h10,h11,h13,h12⟩ := h
  have sm := @sub2_mem Ev s.tr
  have mts := mem_take_succ
  have gnm := getD_not_mem_take
  have mot := mem_of_mem_take'
  have hns := @nodup_snoc (Sub × Pid) (delivs s.tr)
  simp only [Before] at a24 h6 h7 h8 h11 h12
  simp only [delivs] at h9 h10 hns
  mstep_split hs
  all_goals minvb_auto

theorem invB_subReg (s s' : St) (c : Nat) (ha : InvA s) (h : InvB s) (hs : step false s (.subReg c) = some s') : InvB s' := by
  obtain ⟨a1,a2,a3,a4,a5,a6,a7,a8,a9,a10,a11,a12,a13,a14,a15,a16,a17,a18,a19,a20,a21,a22,a23,a24⟩ := ha
  obtain ⟨h1,h2,h3,h4,h5,h6,h7,h8,h9,h10,h11,h13,h12⟩ := h
  have sm := @sub2_mem Ev s.tr
  have mts := mem_take_succ
  have gnm := getD_not_mem_take
  have mot := mem_of_mem_take'
  have hns := @nodup_snoc (Sub × Pid) (delivs s.tr)
  simp only [Before] at a24 h6 h7 h8 h11 h12
  simp only [delivs] at h9 h10 hns
  mstep_split hs
  all_goals minvb_auto

theorem invB_postCall (s s' : St) (p t : Nat) (ha : InvA s) (h : InvB s) (hs : step false s (.postCall p t) = some s') : InvB s' := by
  obtain ⟨a1,a2,a3,a4,a5,a6,a7,a8,a9,a10,a11,a12,a13,a14,a15,a16,a17,a18,a19,a20,a21,a22,a23,a24⟩ := ha
  obtain ⟨h1,h2,h3,h4,h5,h6,h7,h8,h9,h10,h11,h13,h12⟩ := h
  have sm := @sub2_mem Ev s.tr
  have mts := mem_take_succ
  have gnm := getD_not_mem_take
  have mot := mem_of_mem_take'
  have hns := @nodup_snoc (Sub × Pid) (delivs s.tr)
  simp only [Before] at a24 h6 h7 h8 h11 h12
  simp only [delivs] at h9 h10 hns
  mstep_split hs
  all_goals minvb_auto

set_option maxHeartbeats 1000000 in
theorem invB_postSnap (s s' : St) (p : Nat) (ha : InvA s) (h : InvB s) (hs : step false s (.postSnap p) = some s') : InvB s' := by
  obtain ⟨a1,a2,a3,a4,a5,a6,a7,a8,a9,a10,a11,a12,a13,a14,a15,a16,a17,a18,a19,a20,a21,a22,a23,a24⟩ := ha
  obtain ⟨h1,h2,h3,h4,h5,h6,h7,h8,h9,h10,h11,h13,h12⟩ := h
  have sm := @sub2_mem Ev s.tr
  have mts := mem_take_succ
  have gnm := getD_not_mem_take
  have mot := mem_of_mem_take'
  have hns := @nodup_snoc (Sub × Pid) (delivs s.tr)
  simp only [Before] at a24 h6 h7 h8 h11 h12
  simp only [delivs] at h9 h10 hns
  have hL : (s.heap (s.subm (s.pty p)).1).take (s.subm (s.pty p)).2 = s.heap (s.subm (s.pty p)).1 := by
    rw [(a2 (s.pty p)).2]; exact List.take_length
  simp only [step, sliceOf, hL] at hs
  split at hs
  · rename_i hg
    split at hs
    · cases hs
      clear mts gnm mot a1 a2 a3 a4 a5 a6 a7 a8 a9 a10 a11 a12 a13 a14 a15 a16 a17 a18 a19 a20 a21 a22 a23 a24
      minvb_auto
    · rename_i hns'
      cases hs
      clear mts gnm mot
      have hstop : Ev.stopRet ∉ s.tr := fun hin => by
        have := a15.mpr (a14.mp hin); exact hns' this
      constructor
      case f1 =>
        intro q j c t hq hb
        by_cases hqp : q = p
        · subst hqp
          simp only [upd_apply, if_true]
          have hm := sm hb
          have h1' := (a8 c t).mp hm.1
          have h2' := (a11 q t).mp hm.2
          by_cases hu : Ev.unsubCall c ∈ s.tr
          · exact Or.inr hu
          · left
            have hidle : s.upc c = .idle := by
              apply Classical.byContradiction; intro hne; exact hu ((a9 c).mpr hne)
            have := a6 c h1'.1 (Or.inl hidle) (by cases hst : s.stopped <;> simp_all)
            rw [h1'.2, ← h2'.2] at this; exact this
        · have hq' : (s.ppc q).idx = some j := by simpa [hqp] using hq
          simpa [hqp] using h7 q j c t hq' hb
      case p1b =>
        intro q i hq
        by_cases hqp : q = p
        · subst hqp; simp at hq
        · simp only [upd_apply, hqp, if_false] at hq ⊢
          exact h2 q i hq
      case p3 =>
        intro q i c hq hc
        by_cases hqp : q = p
        · subst hqp
          simp [PPc.idx] at hq; subst hq
          simp at hc
        · simp only [upd_apply, hqp, if_false] at hq hc
          exact h5 q i c hq hc
      all_goals (clear a1 a2 a3 a4 a6 a7 a8 a9 a10 a11 a12 a13 a14 a15 a16 a17 a18 a19 a20 a21 a22 a23 a24; minvb_rest)
  · cases hs

set_option maxHeartbeats 1000000 in
theorem invB_postNext (s s' : St) (p : Nat) (ha : InvA s) (h : InvB s) (hs : step false s (.postNext p) = some s') : InvB s' := by
  obtain ⟨a1,a2,a3,a4,a5,a6,a7,a8,a9,a10,a11,a12,a13,a14,a15,a16,a17,a18,a19,a20,a21,a22,a23,a24⟩ := ha
  obtain ⟨h1,h2,h3,h4,h5,h6,h7,h8,h9,h10,h11,h13,h12⟩ := h
  have sm := @sub2_mem Ev s.tr
  have mts := mem_take_succ
  have gnm := getD_not_mem_take
  have mot := mem_of_mem_take'
  have hns := @nodup_snoc (Sub × Pid) (delivs s.tr)
  simp only [Before] at a24 h6 h7 h8 h11 h12
  simp only [delivs] at h9 h10 hns
  simp only [step] at hs
  split at hs
  · rename_i i heq
    have hidx : (s.ppc p).idx = some i := by simp [heq, PPc.idx]
    have himm := a3 p i hidx
    have hle := h1 p i heq
    split at hs
    · rename_i hlt
      have hlt' : i < (s.snapL p).length := by rw [← himm.2.2]; exact hlt
      have e1 := mem_take_succ (s.snapL p) i hlt'
      have e3 : ∀ x, x ∈ (s.snapL p).take i → x ∈ (s.snapL p).take (i + 1) := fun x hx => (e1 x).mpr (Or.inl hx)
      rw [himm.2.1] at hs
      clear mts gnm
      split at hs
      · rename_i hstale
        cases hs
        constructor
        case p2 =>
          intro q j c hq hd
          by_cases hqp : q = p
          · subst hqp
            simp [PPc.idx] at hq; subst hq
            exact e3 c (h4 q i c hidx hd)
          · exact h4 q j c (by simpa [hqp] using hq) hd
        case p3 =>
          intro q j c hq hc
          by_cases hqp : q = p
          · subst hqp
            simp [PPc.idx] at hq; subst hq
            rcases (e1 c).mp hc with hc | hc
            · exact h5 q i c hidx hc
            · right; left; rw [hc]; exact hstale
          · exact h5 q j c (by simpa [hqp] using hq) hc
        all_goals (clear a1 a2 a3 a4 a5 a6 a7 a8 a9 a10 a11 a12 a13 a14 a15 a16 a17 a18 a19 a20 a21 a22 a23 a24; minvb_rest)
      · cases hs
        constructor
        case p2 =>
          intro q j c hq hd
          by_cases hqp : q = p
          · subst hqp
            simp [PPc.idx] at hq; subst hq
            exact h4 q i c hidx hd
          · exact h4 q j c (by simpa [hqp] using hq) hd
        case p3 =>
          intro q j c hq hc
          by_cases hqp : q = p
          · subst hqp
            simp [PPc.idx] at hq; subst hq
            exact h5 q i c hidx hc
          · exact h5 q j c (by simpa [hqp] using hq) hc
        all_goals (clear a1 a2 a3 a4 a5 a6 a7 a8 a9 a10 a11 a12 a13 a14 a15 a16 a17 a18 a19 a20 a21 a22 a23 a24; minvb_rest)
    · rename_i hge
      cases hs
      have hall : (s.snapL p).take i = s.snapL p := by
        apply List.take_of_length_le; rw [← himm.2.2]; omega
      clear mts gnm mot
      constructor
      case g1 =>
        intro q c hq hc
        simp only [Before, sub2_snoc, List.mem_append, List.mem_singleton]
        by_cases hqp : q = p
        · subst hqp
          rcases h5 q i c hidx (by rw [hall]; exact hc) with h | h | h
          · exact Or.inl (Or.inl h)
          · exact Or.inr (Or.inl h)
          · rcases a16 c h with hu | hu
            · exact Or.inr (Or.inr (Or.inl (Or.inr ⟨hu, rfl⟩)))
            · exact Or.inr (Or.inr (Or.inr (Or.inr ⟨hu, rfl⟩)))
        · have hq' : s.ppc q = .done true := by simpa [hqp] using hq
          rcases h6 q c hq' hc with h | h | h | h
          · exact Or.inl (Or.inl h)
          · exact Or.inr (Or.inl h)
          · exact Or.inr (Or.inr (Or.inl (Or.inl h)))
          · exact Or.inr (Or.inr (Or.inr (Or.inl h)))
      case f1d =>
        intro q c t hq hb
        simp only [Before, sub2_snoc, List.mem_append, List.mem_singleton] at hb ⊢
        have hb' : List.Sublist [Ev.subRet c t, Ev.postCall q t] s.tr := by
          rcases hb with hb | ⟨_, hb⟩
          · exact hb
          · cases hb
        by_cases hqp : q = p
        · subst hqp
          rcases h7 q i c t hidx hb' with h | h
          · exact Or.inl h
          · exact Or.inr (Or.inr ⟨h, rfl⟩)
        · have hq' : s.ppc q = .done true := by simpa [hqp] using hq
          rcases h8 q c t hq' hb' with h | h
          · exact Or.inl h
          · exact Or.inr (Or.inl h)
      all_goals (clear a1 a2 a3 a4 a5 a6 a7 a8 a9 a10 a11 a12 a13 a14 a15 a16 a17 a18 a19 a20 a21 a22 a23 a24; minvb_rest)
  · cases hs

theorem invB_deliverSend (s s' : St) (p : Nat) (ha : InvA s) (h : InvB s) (hs : step false s (.deliverSend p) = some s') : InvB s' := by
  obtain ⟨a1,a2,a3,a4,a5,a6,a7,a8,a9,a10,a11,a12,a13,a14,a15,a16,a17,a18,a19,a20,a21,a22,a23,a24⟩ := ha
  obtain ⟨h1,h2,h3,h4,h5,h6,h7,h8,h9,h10,h11,h13,h12⟩ := h
  have sm := @sub2_mem Ev s.tr
  have mts := mem_take_succ
  have gnm := getD_not_mem_take
  have mot := mem_of_mem_take'
  have hns := @nodup_snoc (Sub × Pid) (delivs s.tr)
  simp only [Before] at a24 h6 h7 h8 h11 h12
  simp only [delivs] at h9 h10 hns
  simp only [step] at hs
  split at hs
  · rename_i i heq
    split at hs
    · cases hs
      have hb := h2 p i heq
      have e1 := mem_take_succ (s.snapL p) i hb.1
      have e2 := getD_not_mem_take (s.snapL p) i hb.1 (a7 p i (by simp [heq, PPc.idx]))
      have e3 : ∀ x, x ∈ (s.snapL p).take i → x ∈ (s.snapL p).take (i + 1) := fun x hx => (e1 x).mpr (Or.inl hx)
      clear mts gnm
      constructor
      case p2 =>
        intro q j c hq hd
        simp only [List.mem_append, List.mem_singleton] at hd
        by_cases hqp : q = p
        · subst hqp
          simp [PPc.idx] at hq; subst hq
          rcases hd with hd | hd
          · exact e3 c (h4 q i c (by simp [heq, PPc.idx]) hd)
          · have : c = s.cur q := (Ev.deliver.inj hd).1
            rw [this, hb.2]; exact (e1 _).mpr (Or.inr rfl)
        · have hq' : (s.ppc q).idx = some j := by simpa [hqp] using hq
          rcases hd with hd | hd
          · exact h4 q j c hq' hd
          · exact absurd (Ev.deliver.inj hd).2 hqp
      case p3 =>
        intro q j c hq hc
        simp only [List.mem_append, List.mem_singleton]
        by_cases hqp : q = p
        · subst hqp
          simp [PPc.idx] at hq; subst hq
          rcases (e1 c).mp hc with hc | hc
          · rcases h5 q i c (by simp [heq, PPc.idx]) hc with h | h | h
            · exact Or.inl (Or.inl h)
            · exact Or.inr (Or.inl h)
            · exact Or.inr (Or.inr h)
          · left; right; rw [hc, ← hb.2]
        · have hq' : (s.ppc q).idx = some j := by simpa [hqp] using hq
          rcases h5 q j c hq' hc with h | h | h
          · exact Or.inl (Or.inl h)
          · exact Or.inr (Or.inl h)
          · exact Or.inr (Or.inr h)
      all_goals minvb_rest
    · cases hs
  · cases hs

theorem invB_deliverSkip (s s' : St) (p : Nat) (ha : InvA s) (h : InvB s) (hs : step false s (.deliverSkip p) = some s') : InvB s' := by
  obtain ⟨a1,a2,a3,a4,a5,a6,a7,a8,a9,a10,a11,a12,a13,a14,a15,a16,a17,a18,a19,a20,a21,a22,a23,a24⟩ := ha
  obtain ⟨h1,h2,h3,h4,h5,h6,h7,h8,h9,h10,h11,h13,h12⟩ := h
  have sm := @sub2_mem Ev s.tr
  have mts := mem_take_succ
  have gnm := getD_not_mem_take
  have mot := mem_of_mem_take'
  have hns := @nodup_snoc (Sub × Pid) (delivs s.tr)
  simp only [Before] at a24 h6 h7 h8 h11 h12
  simp only [delivs] at h9 h10 hns
  simp only [step] at hs
  split at hs
  · rename_i i heq
    split at hs
    · cases hs
      have hb := h2 p i heq
      have e1 := mem_take_succ (s.snapL p) i hb.1
      have e3 : ∀ x, x ∈ (s.snapL p).take i → x ∈ (s.snapL p).take (i + 1) := fun x hx => (e1 x).mpr (Or.inl hx)
      clear mts gnm
      rename_i hcl
      constructor
      case p2 =>
        intro q j c hq hd
        by_cases hqp : q = p
        · subst hqp
          simp [PPc.idx] at hq; subst hq
          exact e3 c (h4 q i c (by simp [heq, PPc.idx]) hd)
        · have hq' : (s.ppc q).idx = some j := by simpa [hqp] using hq
          exact h4 q j c hq' hd
      case p3 =>
        intro q j c hq hc
        by_cases hqp : q = p
        · subst hqp
          simp [PPc.idx] at hq; subst hq
          rcases (e1 c).mp hc with hc | hc
          · exact h5 q i c (by simp [heq, PPc.idx]) hc
          · right; right; rw [hc, ← hb.2]; exact hcl
        · have hq' : (s.ppc q).idx = some j := by simpa [hqp] using hq
          exact h5 q j c hq' hc
      all_goals minvb_rest
    · cases hs
  · cases hs

theorem invB_unsubCall (s s' : St) (c : Nat) (ha : InvA s) (h : InvB s) (hs : step false s (.unsubCall c) = some s') : InvB s' := by
  obtain ⟨a1,a2,a3,a4,a5,a6,a7,a8,a9,a10,a11,a12,a13,a14,a15,a16,a17,a18,a19,a20,a21,a22,a23,a24⟩ := ha
  obtain ⟨h1,h2,h3,h4,h5,h6,h7,h8,h9,h10,h11,h13,h12⟩ := h
  have sm := @sub2_mem Ev s.tr
  have mts := mem_take_succ
  have gnm := getD_not_mem_take
  have mot := mem_of_mem_take'
  have hns := @nodup_snoc (Sub × Pid) (delivs s.tr)
  simp only [Before] at a24 h6 h7 h8 h11 h12
  simp only [delivs] at h9 h10 hns
  mstep_split hs
  all_goals minvb_auto

theorem invB_unsubDel (s s' : St) (c : Nat) (ha : InvA s) (h : InvB s) (hs : step false s (.unsubDel c) = some s') : InvB s' := by
  obtain ⟨a1,a2,a3,a4,a5,a6,a7,a8,a9,a10,a11,a12,a13,a14,a15,a16,a17,a18,a19,a20,a21,a22,a23,a24⟩ := ha
  obtain ⟨h1,h2,h3,h4,h5,h6,h7,h8,h9,h10,h11,h13,h12⟩ := h
  have sm := @sub2_mem Ev s.tr
  have mts := mem_take_succ
  have gnm := getD_not_mem_take
  have mot := mem_of_mem_take'
  have hns := @nodup_snoc (Sub × Pid) (delivs s.tr)
  simp only [Before] at a24 h6 h7 h8 h11 h12
  simp only [delivs] at h9 h10 hns
  have hL : (s.heap (s.subm (s.sty c)).1).take (s.subm (s.sty c)).2 = s.heap (s.subm (s.sty c)).1 := by
    rw [(a2 (s.sty c)).2]; exact List.take_length
  simp only [step, sliceOf, hL] at hs
  generalize s.heap (s.subm (s.sty c)).1 = L at hs
  clear mts gnm mot a1 a2 a3 a4 a5 a6 a7 a8 a9 a10 a11 a12 a13 a14 a15 a16 a17 a18 a19 a20 a21 a22 a23 a24
  split at hs
  · split at hs
    · split at hs
      · cases hs
        constructor <;> assumption
      · simp only [Bool.false_eq_true, if_false] at hs
        cases hs
        constructor <;> assumption
    · cases hs
      constructor <;> assumption
  · cases hs

theorem invB_cwBegin (s s' : St) (c : Nat) (ha : InvA s) (h : InvB s) (hs : step false s (.cwBegin c) = some s') : InvB s' := by
  obtain ⟨a1,a2,a3,a4,a5,a6,a7,a8,a9,a10,a11,a12,a13,a14,a15,a16,a17,a18,a19,a20,a21,a22,a23,a24⟩ := ha
  obtain ⟨h1,h2,h3,h4,h5,h6,h7,h8,h9,h10,h11,h13,h12⟩ := h
  have sm := @sub2_mem Ev s.tr
  have mts := mem_take_succ
  have gnm := getD_not_mem_take
  have mot := mem_of_mem_take'
  have hns := @nodup_snoc (Sub × Pid) (delivs s.tr)
  simp only [Before] at a24 h6 h7 h8 h11 h12
  simp only [delivs] at h9 h10 hns
  mstep_split hs
  all_goals minvb_auto

theorem invB_cwEnd (s s' : St) (c : Nat) (ha : InvA s) (h : InvB s) (hs : step false s (.cwEnd c) = some s') : InvB s' := by
  obtain ⟨a1,a2,a3,a4,a5,a6,a7,a8,a9,a10,a11,a12,a13,a14,a15,a16,a17,a18,a19,a20,a21,a22,a23,a24⟩ := ha
  obtain ⟨h1,h2,h3,h4,h5,h6,h7,h8,h9,h10,h11,h13,h12⟩ := h
  have sm := @sub2_mem Ev s.tr
  have mts := mem_take_succ
  have gnm := getD_not_mem_take
  have mot := mem_of_mem_take'
  have hns := @nodup_snoc (Sub × Pid) (delivs s.tr)
  simp only [Before] at a24 h6 h7 h8 h11 h12
  simp only [delivs] at h9 h10 hns
  mstep_split hs
  all_goals minvb_auto

theorem invB_stopCall (s s' : St) (ha : InvA s) (h : InvB s) (hs : step false s (.stopCall) = some s') : InvB s' := by
  obtain ⟨a1,a2,a3,a4,a5,a6,a7,a8,a9,a10,a11,a12,a13,a14,a15,a16,a17,a18,a19,a20,a21,a22,a23,a24⟩ := ha
  obtain ⟨h1,h2,h3,h4,h5,h6,h7,h8,h9,h10,h11,h13,h12⟩ := h
  have sm := @sub2_mem Ev s.tr
  have mts := mem_take_succ
  have gnm := getD_not_mem_take
  have mot := mem_of_mem_take'
  have hns := @nodup_snoc (Sub × Pid) (delivs s.tr)
  simp only [Before] at a24 h6 h7 h8 h11 h12
  simp only [delivs] at h9 h10 hns
  mstep_split hs
  all_goals minvb_auto

theorem invB_stopBegin (s s' : St) (ha : InvA s) (h : InvB s) (hs : step false s (.stopBegin) = some s') : InvB s' := by
  obtain ⟨a1,a2,a3,a4,a5,a6,a7,a8,a9,a10,a11,a12,a13,a14,a15,a16,a17,a18,a19,a20,a21,a22,a23,a24⟩ := ha
  obtain ⟨h1,h2,h3,h4,h5,h6,h7,h8,h9,h10,h11,h13,h12⟩ := h
  have sm := @sub2_mem Ev s.tr
  have mts := mem_take_succ
  have gnm := getD_not_mem_take
  have mot := mem_of_mem_take'
  have hns := @nodup_snoc (Sub × Pid) (delivs s.tr)
  simp only [Before] at a24 h6 h7 h8 h11 h12
  simp only [delivs] at h9 h10 hns
  mstep_split hs
  all_goals minvb_auto

theorem invB_stopCwBegin (s s' : St) (c : Nat) (ha : InvA s) (h : InvB s) (hs : step false s (.stopCwBegin c) = some s') : InvB s' := by
  obtain ⟨a1,a2,a3,a4,a5,a6,a7,a8,a9,a10,a11,a12,a13,a14,a15,a16,a17,a18,a19,a20,a21,a22,a23,a24⟩ := ha
  obtain ⟨h1,h2,h3,h4,h5,h6,h7,h8,h9,h10,h11,h13,h12⟩ := h
  have sm := @sub2_mem Ev s.tr
  have mts := mem_take_succ
  have gnm := getD_not_mem_take
  have mot := mem_of_mem_take'
  have hns := @nodup_snoc (Sub × Pid) (delivs s.tr)
  simp only [Before] at a24 h6 h7 h8 h11 h12
  simp only [delivs] at h9 h10 hns
  mstep_split hs
  all_goals minvb_auto

theorem invB_stopCwEnd (s s' : St) (ha : InvA s) (h : InvB s) (hs : step false s (.stopCwEnd) = some s') : InvB s' := by
  obtain ⟨a1,a2,a3,a4,a5,a6,a7,a8,a9,a10,a11,a12,a13,a14,a15,a16,a17,a18,a19,a20,a21,a22,a23,a24⟩ := ha
  obtain ⟨h1,h2,h3,h4,h5,h6,h7,h8,h9,h10,h11,h13,h12⟩ := h
  have sm := @sub2_mem Ev s.tr
  have mts := mem_take_succ
  have gnm := getD_not_mem_take
  have mot := mem_of_mem_take'
  have hns := @nodup_snoc (Sub × Pid) (delivs s.tr)
  simp only [Before] at a24 h6 h7 h8 h11 h12
  simp only [delivs] at h9 h10 hns
  mstep_split hs
  all_goals minvb_auto

theorem invB_stopEnd (s s' : St) (ha : InvA s) (h : InvB s) (hs : step false s (.stopEnd) = some s') : InvB s' := by
  obtain ⟨a1,a2,a3,a4,a5,a6,a7,a8,a9,a10,a11,a12,a13,a14,a15,a16,a17,a18,a19,a20,a21,a22,a23,a24⟩ := ha
  obtain ⟨h1,h2,h3,h4,h5,h6,h7,h8,h9,h10,h11,h13,h12⟩ := h
  have sm := @sub2_mem Ev s.tr
  have mts := mem_take_succ
  have gnm := getD_not_mem_take
  have mot := mem_of_mem_take'
  have hns := @nodup_snoc (Sub × Pid) (delivs s.tr)
  simp only [Before] at a24 h6 h7 h8 h11 h12
  simp only [delivs] at h9 h10 hns
  mstep_split hs
  all_goals minvb_auto

theorem invB_step (s s' : St) (a : Act) (ha : InvA s) (h : InvB s) (hs : step false s a = some s') : InvB s' := by
  cases a with
  | tick  => exact invB_tick s s'  ha h hs
  | subNew c t => exact invB_subNew s s' c t ha h hs
  | subReg c => exact invB_subReg s s' c ha h hs
  | postCall p t => exact invB_postCall s s' p t ha h hs
  | postSnap p => exact invB_postSnap s s' p ha h hs
  | postNext p => exact invB_postNext s s' p ha h hs
  | deliverSend p => exact invB_deliverSend s s' p ha h hs
  | deliverSkip p => exact invB_deliverSkip s s' p ha h hs
  | unsubCall c => exact invB_unsubCall s s' c ha h hs
  | unsubDel c => exact invB_unsubDel s s' c ha h hs
  | cwBegin c => exact invB_cwBegin s s' c ha h hs
  | cwEnd c => exact invB_cwEnd s s' c ha h hs
  | stopCall  => exact invB_stopCall s s'  ha h hs
  | stopBegin  => exact invB_stopBegin s s'  ha h hs
  | stopCwBegin c => exact invB_stopCwBegin s s' c ha h hs
  | stopCwEnd  => exact invB_stopCwEnd s s'  ha h hs
  | stopEnd  => exact invB_stopEnd s s'  ha h hs

theorem invB_reach {s : St} (h : Reach s) : InvB s := by
  induction h with
  | init => exact invB_init
  | step a hr hs ih => exact invB_step _ _ a (invA_reach hr) ih hs

end Aqv.Mux

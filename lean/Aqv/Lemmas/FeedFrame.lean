/-
  Aqv.Lemmas.FeedFrame — frame lemmas for the liveness argument: which steps can change the program counter of a Send
  or of a remove, the slice `cases` of the token holder, and the "a send on c can complete" status of a channel.
-/
import Aqv.Lemmas.FeedInvD
namespace Aqv.Feed
set_option linter.unusedSimpArgs false
set_option linter.unusedVariables false

/-- the Send whose goroutine executes the step, for the steps taken after the token has been acquired -/
def actSender : Act → Option Sid
  | .merge g | .tryOk g | .tryFail g | .sweepEnd g | .selPlace g _ | .selRecv g _ | .doRemove g => some g
  | _ => none

/-- the steps executed by the goroutine of `Send g` after it has taken the token -/
def IsSendAct (g : Sid) (x : Act) : Prop := actSender x = some g

/-- the subscription whose `remove` executes the step, for the steps that need nobody else: the inbox lookup and the
    two steps under the token -/
def actRemover : Act → Option Chan
  | .rmInbox c | .rmDelete c | .rmRelease c => some c
  | _ => none

def IsRemAct (c : Chan) (x : Act) : Prop := actRemover x = some c

/-- while Send g holds the token, no step of another goroutine changes its pc, `f.sendCases` or `cases` -/
theorem holder_frame {s s' : St} (g : Sid) (x : Act) (ha : InvA s) (hh : (s.spc g).held = true)
    (hx : ¬ IsSendAct g x) (hs : step s x = some s') :
    s'.spc g = s.spc g ∧ s'.sendCases = s.sendCases ∧ s'.active = s.active := by
  obtain ⟨a1,a2,a3,a4,a5,a6,a7,a8,a9,a10,a11,a12,a13,a14⟩ := ha
  have mh := merged_held
  simp only [IsSendAct] at hx
  cases x <;> simp only [actSender] at hx <;> step_split hs <;> simp only [] <;> grind [SPc.held, RPc.held, SPc.merged]

/-- … and a channel of `sendCases` on which a send can complete stays that way (receivers only help) -/
theorem canPlace_frame {s s' : St} (g : Sid) (x : Act) (c : Chan) (ha : InvA s) (hh : (s.spc g).held = true)
    (hx : ¬ IsSendAct g x) (hs : step s x = some s') (hc : c ∈ s.sendCases) (hp : canPlace s c = true) :
    canPlace s' c = true := by
  obtain ⟨a1,a2,a3,a4,a5,a6,a7,a8,a9,a10,a11,a12,a13,a14⟩ := ha
  have mh := merged_held
  have hsub := a5 c (Or.inr hc)
  simp only [IsSendAct] at hx
  simp only [canPlace, decide_eq_true_eq] at hp ⊢
  cases x <;> simp only [actSender] at hx <;> step_split hs <;> simp only [upd_apply, List.length_cons] at * <;> grind [SPc.held, RPc.held, SPc.merged]

theorem start_frame {s s' : St} (g : Sid) (x : Act) (h0 : s.spc g = .start) (hx : x ≠ .acquire g)
    (hs : step s x = some s') : s'.spc g = .start := by
  cases x <;> step_split hs <;> simp only [] <;> grind

theorem rpc_start_frame {s s' : St} (c : Chan) (x : Act) (h0 : s.rpc c = .start) (hx : x ≠ .rmInbox c)
    (hs : step s x = some s') : s'.rpc c = .start := by
  cases x <;> step_split hs <;> simp only [] <;> grind

theorem rpc_sel_frame {s s' : St} (c : Chan) (x : Act) (h0 : s.rpc c = .sel) (hx : x ≠ .rmToken c)
    (hx' : ∀ g, x ≠ .selRecv g c) (hs : step s x = some s') : s'.rpc c = .sel := by
  cases x <;> step_split hs <;> simp only [] <;> grind

theorem rpc_token_frame {s s' : St} (c : Chan) (x : Act) (h0 : s.rpc c = .token) (hx : x ≠ .rmDelete c)
    (hs : step s x = some s') : s'.rpc c = .token := by
  cases x <;> step_split hs <;> simp only [] <;> grind

theorem rpc_deleted_frame {s s' : St} (c : Chan) (x : Act) (h0 : s.rpc c = .deleted) (hx : x ≠ .rmRelease c)
    (hs : step s x = some s') : s'.rpc c = .deleted := by
  cases x <;> step_split hs <;> simp only [] <;> grind

end Aqv.Feed

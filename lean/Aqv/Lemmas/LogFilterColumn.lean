/-
  Aqv.Lemmas.LogFilterColumn — byte vectors are determined by their bits; the driver's `specColumn` is the generator's bit vector.
-/
import Aqv.Lemmas.LogFilterCompress
import Aqv.Lemmas.LogFilterGen
namespace Aqv.LogFilter

theorem byte_ext (a b : UInt8) (h : ∀ j, j < 8 → a.toNat.testBit j = b.toNat.testBit j) : a = b := by
  apply UInt8.toNat_inj.mp
  apply Nat.eq_of_testBit_eq
  intro j
  by_cases hj : j < 8
  · exact h j hj
  · have ha : a.toNat < 2 ^ j := Nat.lt_of_lt_of_le a.toNat_lt (Nat.pow_le_pow_right (by decide) (by omega : 8 ≤ j))
    have hb : b.toNat < 2 ^ j := Nat.lt_of_lt_of_le b.toNat_lt (Nat.pow_le_pow_right (by decide) (by omega : 8 ≤ j))
    rw [Nat.testBit_lt_two_pow ha, Nat.testBit_lt_two_pow hb]

/-- two bit vectors of the same length with the same bits are the same bytes. -/
theorem bytes_ext_vecBit (a b : Bytes) (hl : a.length = b.length) (h : ∀ n, vecBit a n = vecBit b n) : a = b := by
  apply List.ext_getElem hl
  intro k h1 h2
  apply byte_ext
  intro j hj
  have := h (8 * k + (7 - j))
  rw [vecBit_eq, vecBit_eq] at this
  have e1 : (8 * k + (7 - j)) / 8 = k := by omega
  have e2 : 7 - (8 * k + (7 - j)) % 8 = j := by omega
  rw [e1, e2, List.getD_eq_getElem?_getD, List.getD_eq_getElem?_getD, List.getElem?_eq_getElem h1, List.getElem?_eq_getElem h2] at this
  exact this

theorem specColumn_length (blooms : List Bytes) (size i : Nat) (h8 : size % 8 = 0) : (specColumn blooms size i).length = size / 8 := by
  unfold specColumn
  simp only [packBits_length, List.length_map, List.length_range]
  omega

theorem vecBit_specColumn (blooms : List Bytes) (size i n : Nat) :
    vecBit (specColumn blooms size i) n =
      (decide (n < size) && ((blooms[n]?).map (fun b => (beNat b).testBit i)).getD false) := by
  unfold specColumn
  simp only [vecBit_packBits, List.getElem?_toArray]
  by_cases hn : n < size
  · rw [List.getD_eq_getElem?_getD, List.getElem?_map, List.getElem?_range hn]
    simp [hn]
  · rw [List.getD_eq_getElem?_getD, List.getElem?_eq_none (by simp; omega)]
    simp [hn]

/-- the generator's bit vector `i` of a full section IS `specColumn` (byte for byte). -/
theorem bitset_eq_specColumn (size : Nat) (h8 : size % 8 = 0) (h2048 : 2048 ≤ size) (blooms : List Bytes)
    (hlen : blooms.length = size) (h256 : ∀ b ∈ blooms, b.length = 256) (vs : List Bytes)
    (hgen : generateSection size blooms = .ok vs) (i : Nat) (hi : i < 2048) : vs.getD i [] = specColumn blooms size i := by
  obtain ⟨vs', hgen', _, hspec⟩ := generateSection_spec size h8 h2048 blooms hlen
  rw [hgen] at hgen'
  cases hgen'
  apply bytes_ext_vecBit
  · rw [(hspec i hi).1, specColumn_length blooms size i h8]
  · intro n
    rw [(hspec i hi).2 n, vecBit_specColumn]
    unfold colBit
    by_cases hn : n < blooms.length
    · rw [List.getElem?_eq_getElem hn]
      simp only [Option.map_some, Option.getD_some]
      rw [bloomBit_eq_testBit _ (h256 _ (List.getElem_mem hn)) i hi]
      have : n < size := by omega
      simp [this]
    · rw [List.getElem?_eq_none (by omega)]
      simp

end Aqv.LogFilter

/-
  Aqv.Lemmas.VmConv — classification of the GENERATED big.Int → int64/uint64 conversion sites of the execute functions of
  core/vm (Gen.VmFlags.convs / helperCalls / fnRanges, derived from the source by go/extract/cmd/vmaccess) — property C07.
-/
import Aqv.Gen.VmFlags
namespace Aqv.Vm
open Aqv.Gen.VmFlags

/-- the converted integer is used as a VALUE only (compared, stored as data) or as an argument of a Memory accessor /
    memory.store index — the latter are the generated memory ranges, covered by the opcode's memorySize check -/
def ConvUse.valueOrMem : ConvUse → Bool
  | .cmp => true
  | .mem => true
  | .store => true
  | _ => false

/-- a conversion site is acceptable if
    A. a check of the FULL big.Int value (`fullValueChecks`: Cmp, BitLen, IsUint64, IsInt64, destinations.has — not a comparison of
       the already truncated value) dominates it (`direct`), or dominates a sum it is an addend of (`sum`), or it is clamped
       by math.BigMin to a slice length (`min`); or
    B. its result never becomes a slice bound / index / call argument: it is only compared, stored as data, or passed to a
       Memory accessor (whose range is covered by `mem_access_in_bounds`, and exact by `mem_operand_conversions_exact_partial`); or
    C. it is `bigUint64`, which returns the overflow flag `BitLen() > 64` together with the truncated value; or
    D. it is the `size` parameter of `getDataBig` (→ RightPadBytes), discharged per call site by `helperOK`. -/
def fullValueChecks : List String := ["Cmp", "BitLen", "IsUint64", "IsInt64", "has"]

def convOK (c : Conv) : Bool :=
  (c.guard == .min || ((c.guard == .direct || c.guard == .sum) && fullValueChecks.contains c.guardFn)) ||
  c.uses.all ConvUse.valueOrMem ||
  (c.fn == "bigUint64" && c.uses == [.ret]) ||
  (c.fn == "getDataBig" && c.src == .param 2)

/-- every `size` argument of a getDataBig call in an execute function is the package constant big32 or the SIZE operand of one
    of that function's generated memory ranges — hence 0 or ≤ 0xffffffffe0 by the memory-size check of Run -/
def helperOK (h : HelperCall) : Bool :=
  !(h.helper == "getDataBig" && h.arg == 2) ||
  h.global == "big32" ||
  (match h.opnd with
   | some k => fnRanges.any (fun p => p.1 == h.fn && p.2.any (fun r => r.2 == .back k 0))
   | none => false)

/-- every helper that receives an operand-derived big.Int is one whose conversions are in `convs` -/
def helperKnown (h : HelperCall) : Bool := convs.any (fun c => c.fn == h.helper)

theorem convs_ok : convs.all convOK = true := by decide
theorem helpers_ok : helperCalls.all (fun h => helperOK h && helperKnown h) = true := by decide
theorem conv_all_analysed : convUnanalysed = [] := by decide

end Aqv.Vm

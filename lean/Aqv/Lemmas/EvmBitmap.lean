/-
  Aqv.Lemmas.EvmBitmap — helper lemmas for property C08: core/vm/analysis.go codeBitmap / destinations.has
  (Aqv.Model.EvmOps) against "a JUMPDEST byte that is not inside PUSH data" (Aqv.Model.EvmSpec.validJumpdest).
-/
import Aqv.Lemmas.EvmGas
namespace Aqv.Evm
open Aqv Aqv.Big

theorem testBit_set1 (bits pos i : Nat) : (set1 bits pos).testBit i = (bits.testBit i || decide (i = pos)) := by
  unfold set1
  rw [Nat.testBit_or, Nat.one_shiftLeft, Nat.testBit_two_pow]
  congr 1
  rw [decide_eq_decide]; omega

theorem testBit_set8 (bits pos i : Nat) : (set8 bits pos).testBit i = (bits.testBit i || decide (pos ≤ i ∧ i < pos + 8)) := by
  unfold set8
  rw [Nat.testBit_or, Nat.testBit_shiftLeft]
  have : (0xff : Nat) = 2 ^ 8 - 1 := by decide
  rw [this, Nat.testBit_two_pow_sub_one]
  congr 1
  by_cases h : pos ≤ i
  · simp [h]; omega
  · simp [h]

/-- net effect of the two inner loops: positions pc … pc+numbits−1 are marked, pc advances by numbits -/
def inRange (lo n i : Nat) : Bool := decide (lo ≤ i ∧ i < lo + n)

theorem inRange_zero (lo i : Nat) : inRange lo 0 i = false := by
  unfold inRange; rw [decide_eq_false_iff_not]; omega

theorem loop8_spec (f numbits pc bits : Nat) (hf : numbits < 8 * (f + 1)) :
    ∃ nb pc' bits', loop8 f numbits pc bits = (nb, pc', bits') ∧ nb < 8 ∧ nb ≤ numbits ∧ pc' + nb = pc + numbits ∧
      ∀ i, bits'.testBit i = (bits.testBit i || inRange pc (numbits - nb) i) := by
  induction f generalizing numbits pc bits with
  | zero =>
    refine ⟨numbits, pc, bits, rfl, by omega, Nat.le_refl _, rfl, fun i => ?_⟩
    rw [Nat.sub_self, inRange_zero, Bool.or_false]
  | succ f ih =>
    unfold loop8
    by_cases h : numbits ≥ 8
    · rw [if_pos h]
      obtain ⟨nb, pc', bits', he, hnb, hle, hpc, hb⟩ := ih (numbits - 8) (pc + 8) (set8 bits pc) (by omega)
      refine ⟨nb, pc', bits', he, hnb, by omega, by omega, fun i => ?_⟩
      rw [hb, testBit_set8]
      unfold inRange
      rw [Bool.or_assoc]
      congr 1
      rw [← Bool.decide_or, decide_eq_decide]
      omega
    · rw [if_neg h]
      refine ⟨numbits, pc, bits, rfl, by omega, Nat.le_refl _, rfl, fun i => ?_⟩
      rw [Nat.sub_self, inRange_zero, Bool.or_false]

theorem loop1_spec (f numbits pc bits : Nat) (hf : numbits ≤ f) :
    ∃ bits', loop1 f numbits pc bits = (pc + numbits, bits') ∧
      ∀ i, bits'.testBit i = (bits.testBit i || inRange pc numbits i) := by
  induction f generalizing numbits pc bits with
  | zero =>
    have : numbits = 0 := by omega
    subst this
    refine ⟨bits, rfl, fun i => ?_⟩
    rw [inRange_zero, Bool.or_false]
  | succ f ih =>
    unfold loop1
    by_cases h : numbits > 0
    · rw [if_pos h]
      obtain ⟨bits', he, hb⟩ := ih (numbits - 1) (pc + 1) (set1 bits pc) (by omega)
      refine ⟨bits', by rw [he]; congr 1; omega, fun i => ?_⟩
      rw [hb, testBit_set1]
      unfold inRange
      rw [Bool.or_assoc]
      congr 1
      rw [← Bool.decide_or, decide_eq_decide]
      omega
    · rw [if_neg h]
      have : numbits = 0 := by omega
      subst this
      refine ⟨bits, rfl, fun i => ?_⟩
      rw [inRange_zero, Bool.or_false]

theorem inner_spec (numbits pc bits : Nat) (h : numbits ≤ 32) :
    ∃ bits', loop1 8 (loop8 4 numbits pc bits).1 (loop8 4 numbits pc bits).2.1 (loop8 4 numbits pc bits).2.2 = (pc + numbits, bits') ∧
      ∀ i, bits'.testBit i = (bits.testBit i || inRange pc numbits i) := by
  obtain ⟨nb, pc', b1, he, hnb, hle, hpc, hb⟩ := loop8_spec 4 numbits pc bits (by omega)
  rw [he]
  obtain ⟨b2, he2, hb2⟩ := loop1_spec 8 nb pc' b1 (by omega)
  refine ⟨b2, by rw [he2]; congr 1, fun i => ?_⟩
  rw [hb2, hb]
  unfold inRange
  rw [Bool.or_assoc]
  congr 1
  rw [← Bool.decide_or, decide_eq_decide]
  omega

open EvmSpec in
theorem isCodeFrom_length (n : Nat) (l : List UInt8) : (isCodeFrom n l).length = l.length := by
  induction l generalizing n with
  | nil => cases n <;> rfl
  | cons x xs ih => cases n <;> simp [isCodeFrom, ih]

open EvmSpec in
/-- the pending-data counter: the first n positions (as far as the code goes) are data, then instruction decoding resumes -/
theorem isCodeFrom_getD (n : Nat) (l : List UInt8) (j : Nat) :
    (isCodeFrom n l).getD j true =
      if j < n then (if j < l.length then false else true) else (isCodeFrom 0 (l.drop n)).getD (j - n) true := by
  induction n generalizing l j with
  | zero => simp
  | succ n ih =>
    cases l with
    | nil => simp [isCodeFrom]
    | cons x xs =>
      simp only [isCodeFrom, List.drop_succ_cons, List.length_cons]
      cases j with
      | zero => simp
      | succ j =>
        rw [List.getD_cons_succ, ih]
        have e3 : j + 1 - (n + 1) = j - n := by omega
        rw [e3]
        by_cases h1 : j < n
        · have h1' : j + 1 < n + 1 := by omega
          rw [if_pos h1, if_pos h1']
          by_cases h2 : j < xs.length
          · rw [if_pos h2, if_pos (by omega)]
          · rw [if_neg h2, if_neg (by omega)]
        · have h1' : ¬ j + 1 < n + 1 := by omega
          rw [if_neg h1, if_neg h1']

theorem pushLen_eq (op : UInt8) (h : op ≥ 0x60 ∧ op ≤ 0x7f) : (op - 0x60).toNat + 1 = EvmSpec.pushLen op ∧ EvmSpec.pushLen op ≤ 32 := by
  unfold EvmSpec.pushLen
  rw [if_pos h]
  obtain ⟨h1, h2⟩ := h
  rw [ge_iff_le, UInt8.le_iff_toNat_le] at h1
  rw [UInt8.le_iff_toNat_le] at h2
  have c1 : (0x60 : UInt8).toNat = 0x60 := by decide
  have c2 : (0x7f : UInt8).toNat = 0x7f := by decide
  rw [c1] at h1; rw [c2] at h2
  rw [UInt8.toNat_sub, c1]
  have := op.toNat_lt
  omega

open EvmSpec in
theorem bitmapLoop_spec (code : Array UInt8) : ∀ fuel pc bits, code.size ≤ pc + fuel →
    ∀ i, i < code.size → (bitmapLoop code fuel pc bits).testBit i =
      (bits.testBit i || (decide (pc ≤ i) && !((isCodeFrom 0 (code.toList.drop pc)).getD (i - pc) true))) := by
  intro fuel
  induction fuel with
  | zero =>
    intro pc bits hf i hi
    unfold bitmapLoop
    have : ¬ pc ≤ i := by omega
    simp [this]
  | succ f ih =>
    intro pc bits hf i hi
    unfold bitmapLoop
    by_cases hpc : pc < code.size
    · rw [dif_pos hpc]
      have hdrop : code.toList.drop pc = code[pc] :: code.toList.drop (pc + 1) := by
        rw [List.drop_eq_getElem_cons (by simpa using hpc)]
        simp
      rw [hdrop]
      simp only [isCodeFrom]
      by_cases hpush : code[pc] ≥ 0x60 ∧ code[pc] ≤ 0x7f
      · rw [if_pos hpush]
        obtain ⟨hn, hn32⟩ := pushLen_eq _ hpush
        rw [hn]
        generalize pushLen code[pc] = n at hn32 ⊢
        obtain ⟨bits', he, hb⟩ := inner_spec n (pc + 1) bits hn32
        rw [he]
        simp only []
        rw [ih (pc + 1 + n) bits' (by omega) i hi, hb]
        by_cases h1 : i < pc
        · have a1 : ¬ pc ≤ i := by omega
          have a2 : ¬ pc + 1 + n ≤ i := by omega
          have a3 : inRange (pc + 1) n i = false := by unfold inRange; rw [decide_eq_false_iff_not]; omega
          simp [a1, a2, a3]
        · by_cases h2 : i = pc
          · subst h2
            have a2 : ¬ i + 1 + n ≤ i := by omega
            have a3 : inRange (i + 1) n i = false := by unfold inRange; rw [decide_eq_false_iff_not]; omega
            simp [a2, a3]
          · have hj : i - pc = (i - pc - 1) + 1 := by omega
            have a1 : pc ≤ i := by omega
            rw [hj, List.getD_cons_succ, isCodeFrom_getD n (code.toList.drop (pc + 1)) (i - pc - 1), List.drop_drop]
            have hlen : (code.toList.drop (pc + 1)).length = code.size - (pc + 1) := by simp
            rw [hlen]
            by_cases h3 : i - pc - 1 < n
            · have a2 : ¬ pc + 1 + n ≤ i := by omega
              have a3 : inRange (pc + 1) n i = true := by unfold inRange; rw [decide_eq_true_eq]; omega
              have a4 : i - pc - 1 < code.size - (pc + 1) := by omega
              simp [a1, a2, a3, h3, a4]
            · have a2 : pc + 1 + n ≤ i := by omega
              have a3 : inRange (pc + 1) n i = false := by unfold inRange; rw [decide_eq_false_iff_not]; omega
              have e1 : i - pc - 1 - n = i - (pc + 1 + n) := by omega
              have e2 : n + (pc + 1) = pc + 1 + n := by omega
              simp [a1, a2, a3, h3, e1]
      · rw [if_neg hpush]
        have hpl : pushLen code[pc] = 0 := by unfold pushLen; rw [if_neg hpush]
        rw [hpl, ih (pc + 1) bits (by omega) i hi]
        by_cases h1 : i < pc
        · have a1 : ¬ pc ≤ i := by omega
          have a2 : ¬ pc + 1 ≤ i := by omega
          simp [a1, a2]
        · by_cases h2 : i = pc
          · subst h2
            have a2 : ¬ i + 1 ≤ i := by omega
            simp [a2]
          · have hj : i - pc = (i - (pc + 1)) + 1 := by omega
            have a1 : pc ≤ i := by omega
            have a2 : pc + 1 ≤ i := by omega
            rw [hj, List.getD_cons_succ]
            simp [a1, a2]
    · rw [dif_neg hpc]
      have a1 : ¬ pc ≤ i := by omega
      simp [a1]

open EvmSpec in
/-- codeBitmap marks exactly the PUSH-data positions of the code. -/
theorem codeBitmap_testBit (code : Array UInt8) (i : Nat) (hi : i < code.size) :
    codeSegment (codeBitmap code) i = (isCode code.toList).getD i false := by
  unfold codeSegment codeBitmap isCode
  rw [bitmapLoop_spec code code.size 0 0 (by omega) i hi]
  have hlen : i < (isCodeFrom 0 code.toList).length := by rw [isCodeFrom_length]; simpa using hi
  simp [List.getD_eq_getElem?_getD, List.getElem?_eq_getElem hlen]

/-- destinations.has = D(c) of the Yellow Paper, for every 256-bit destination (code shorter than 2^62 bytes). -/
theorem hasJumpdest_eq (code : Array UInt8) (dest : Nat) (hsize : code.size < 2 ^ 62) :
    hasJumpdest code (dest : Int) = EvmSpec.validJumpdest code.toList dest := by
  unfold hasJumpdest EvmSpec.validJumpdest
  simp only [Array.length_toList]
  by_cases hbig : dest ≥ 2 ^ 62
  · have h63 : bitLen (dest : Int) ≥ 63 := by
      have := (bitLen_natCast_gt dest 62).2 hbig; omega
    rw [if_pos (Or.inl h63)]
    have : ¬ dest < code.size := by omega
    simp [this]
  · have hlt : dest < 2 ^ 62 := by omega
    have h63 : ¬ bitLen (dest : Int) ≥ 63 := by
      intro h
      have := (bitLen_natCast_gt dest 62).1 (by omega); omega
    have hu : uint64 (dest : Int) = dest := by
      unfold uint64; simp only [Int.natAbs_natCast]; omega
    rw [hu]
    by_cases hin : dest < code.size
    · rw [if_neg (by intro h; rcases h with h | h; exact h63 h; omega)]
      rw [codeBitmap_testBit code dest hin]
      have hg : code[dest]! = code.toList.getD dest 0 := by
        rw [getElem!_pos code dest hin, List.getD_eq_getElem?_getD, List.getElem?_eq_getElem (by simpa using hin)]
        simp
      rw [hg]
      simp [hin]
    · rw [if_pos (Or.inr (by omega))]
      simp [hin]
end Aqv.Evm

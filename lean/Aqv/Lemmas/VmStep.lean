/-
  Aqv.Lemmas.VmStep — one iteration of Run in Aqv.Model.Vm (C07): what `pre` establishes, the frame invariant after
  UseGas/Resize, the per-step Spec checks, gas accounting around CALL-family and CREATE steps.
-/
import Aqv.Lemmas.VmCreate
set_option linter.unusedSimpArgs false
namespace Aqv.Vm
open Aqv.Gen.VmFlags
variable {W V : Type}

/-- the condition tested by enforceRestrictions -/
def restricted (env : Env) (fr : Frame) (f : OpF) (i : StepIn W) : Bool :=
  env.byzantium && fr.ro && (f.writes || (i.op == 0xf1 && back i.args 2 != 0))

theorem pre_go {env : Env} {i : StepIn W} {fr : Frame} {db : Db W} {t : Nat} {f : OpF} {g : GasOut} {ms : Nat} {db1 : Db W}
    (h : pre env i fr db t = .go f g ms db1) :
    lookup env.ep i.op = some f ∧ f.pops ≤ fr.stack ∧ restricted env fr f i = false ∧
    memorySizeOf (memReq f.memFn i.args) = .ok ms ∧ gasCost env f i fr.gas fr.mem ms = some g ∧ g.cost ≤ fr.gas ∧
    db1 = (if gasTouchesState f.gasFn then db.app i.gasEff else db) := by
  unfold pre at h
  split at h
  · cases h
  · next f' hl =>
    split at h
    · cases h
    · next hst =>
      split at h
      · cases h
      · split at h
        · cases h
        · next hre =>
          split at h
          · cases h
          · next ms' hms =>
            simp only at h
            split at h
            · cases h
            · next g' hg =>
              split at h
              · cases h
              · next hge =>
                cases h
                exact ⟨hl, by omega, by simpa [restricted] using hre, hms, hg, by omega, rfl⟩

theorem pre_stop {env : Env} {i : StepIn W} {fr : Frame} {db : Db W} {t : Nat} {r : Res W}
    (h : pre env i fr db t = .stop r) :
    r.gas = fr.gas ∧ r.trace = [] ∧ r.out ≠ .panic ∧ r.out ≠ .outOfFuel ∧
    (r.db = db ∨ ∃ f, lookup env.ep i.op = some f ∧ restricted env fr f i = false ∧ gasTouchesState f.gasFn = true ∧
      r.db = db.app i.gasEff) := by
  unfold pre at h
  split at h
  · cases h; simp
  · next f' hl =>
    split at h
    · cases h; simp
    · split at h
      · cases h; simp
      · split at h
        · cases h; simp
        · next hre =>
          have hre' : restricted env fr f' i = false := by simpa [restricted] using hre
          split at h
          · cases h; simp
          · simp only at h
            split at h
            · cases h
              refine ⟨rfl, rfl, by simp, by simp, ?_⟩
              by_cases hg : gasTouchesState f'.gasFn = true
              · exact .inr ⟨f', hl, hre', hg, by simp [hg]⟩
              · exact .inl (by simp [hg])
            · split at h
              · cases h
                refine ⟨rfl, rfl, by simp, by simp, ?_⟩
                by_cases hg : gasTouchesState f'.gasFn = true
                · exact .inr ⟨f', hl, hre', hg, by simp [hg]⟩
                · exact .inl (by simp [hg])
              · cases h

/-- the conjuncts of opOK -/
theorem opOK_split {f : OpF} (h : opOK f = true) :
    (match execKind f.execFn with
     | some .call => f.gasFn == .gasCall && f.op == 0xf1
     | some .callcode => f.gasFn == .gasCallCode
     | some .delegate => f.gasFn == .gasDelegateCall
     | some .static => f.gasFn == .gasStaticCall
     | none => !isCallGas f.gasFn) = true ∧
    (f.execFn != .opCreate || f.gasFn == .gasCreate) = true ∧
    (gasChargesMem f.gasFn || f.memFn == .none) = true ∧
    (f.halts || f.reverts || gasTables.all (fun gt => decide (1 ≤ gasFloor gt f))) = true ∧
    (((execKind f.execFn).isNone && f.execFn != .opCreate) || (!f.halts && !f.reverts)) = true ∧
    (f.memReads ≤ f.pops && f.gasReads ≤ f.pops) = true ∧
    (!(execWrites f.execFn || f.execFn == .opCreate || gasTouchesState f.gasFn) || f.writes) = true ∧
    f.execReads ≤ f.pops ∧
    f.execRanges.all (fun r => (memFnRanges f.memFn).contains r) = true := by
  simp only [opOK, Bool.and_eq_true] at h
  obtain ⟨⟨⟨⟨⟨⟨⟨⟨h1, h2⟩, h3⟩, h4⟩, h5⟩, h6⟩, h7⟩, h8⟩, h9⟩ := h
  exact ⟨h1, h2, h3, h4, h5, by simp only [Bool.and_eq_true]; exact h6, h7, by simpa using h8, h9⟩

/-- in static context under Byzantium rules an opcode that passed enforceRestrictions does not modify the world -/
theorem unrestricted_static {env : Env} {fr : Frame} {f : OpF} {i : StepIn W}
    (hl : lookup env.ep i.op = some f) (hr : restricted env fr f i = false) (hb : env.byzantium = true) (hro : fr.ro = true) :
    execWrites f.execFn = false ∧ f.execFn ≠ .opCreate ∧ gasTouchesState f.gasFn = false ∧
    (execKind f.execFn = some .call → valueNZOf f i.args = false) := by
  have hok := opOK_split (lookup_ok hl)
  have hop := (lookup_mem hl).2
  obtain ⟨h1, _, _, _, _, _, h7, _, _⟩ := hok
  simp only [restricted, hb, hro, Bool.true_and, Bool.or_eq_false_iff] at hr
  obtain ⟨hw, hcall⟩ := hr
  simp only [hw, Bool.or_false, Bool.not_eq_true', Bool.or_eq_false_iff] at h7
  refine ⟨h7.1.1, by have := h7.1.2; simpa using this, h7.2, ?_⟩
  intro hc
  have hne : f.execFn ≠ .opCreate := by intro h; simp [h, execKind] at hc
  rw [hc] at h1
  simp only [Bool.and_eq_true, beq_iff_eq] at h1
  have : (i.op == 0xf1) = true := by simp [← hop, h1.2]
  simp only [this, Bool.true_and] at hcall
  simp [valueNZOf, hne, hcall]

/-- what paying for a step establishes about memory: the frame's length becomes max(len, memorySize) and the increase of
    lastGasCost is covered by the cost -/
theorem paid_mem {env : Env} {i : StepIn W} {fr : Frame} {f : OpF} {g : GasOut} {ms : Nat}
    (hm : MemInv fr.mem) (hl : lookup env.ep i.op = some f)
    (hms : memorySizeOf (memReq f.memFn i.args) = .ok ms) (hg : gasCost env f i fr.gas fr.mem ms = some g) :
    MemInv (paidFrame fr f g ms).mem ∧ (paidFrame fr f g ms).mem.lastGasCost ≤ fr.mem.lastGasCost + g.cost := by
  obtain ⟨_, _, h3, _⟩ := opOK_split (lookup_ok hl)
  obtain ⟨hal, hms64⟩ := memorySizeOf_ok hms
  obtain ⟨_, hch, hnch, _, _⟩ := gasCost_spec hg
  obtain ⟨ha, hlc, hb⟩ := hm
  cases hcm : gasChargesMem f.gasFn with
  | true =>
    obtain ⟨fee, hmg, hfee⟩ := hch hcm
    obtain ⟨e1, e2, e3⟩ := memoryGasCost_spec ⟨ha, hlc, hb⟩ hal hmg
    have hlen : (paidFrame fr f g ms).mem.len = max fr.mem.len ms := by
      simp only [paidFrame, e1]
      split <;> omega
    refine ⟨⟨by rw [hlen]; omega, by rw [hlen]; simp only [paidFrame]; exact e2, by rw [hlen]; omega⟩, ?_⟩
    simp only [paidFrame]; omega
  | false =>
    have hmem := hnch hcm
    simp only [hcm, Bool.false_or, beq_iff_eq] at h3
    rw [h3] at hms
    have hms0 : ms = 0 := by simp [memReq, memorySizeOf] at hms; omega
    subst hms0
    have : (paidFrame fr f g 0).mem = fr.mem := by simp [paidFrame, hmem]
    rw [this]
    exact ⟨⟨ha, hlc, hb⟩, Nat.le_add_right _ _⟩

/-- after UseGas and Resize: the frame invariant holds again and the captured step satisfies the per-step Spec -/
theorem paid_inv {env : Env} {i : StepIn W} {fr : Frame} {db : Db W} {t : Nat} {f : OpF} {g : GasOut} {ms : Nat} {db1 : Db W}
    (hfr : FrameInv fr) (hpre : pre env i fr db t = .go f g ms db1) :
    FrameInv (paidFrame fr f g ms) ∧ EvOK env (eventOf fr i f g ms) ∧ (paidFrame fr f g ms).gas + g.cost = fr.gas := by
  obtain ⟨hl, hst, hre, hms, hg, hcost, _⟩ := pre_go hpre
  obtain ⟨h1, h2, h3, h4, h5⟩ := hfr
  obtain ⟨hmi, hlg⟩ := paid_mem h4 hl hms hg
  have hgas : (paidFrame fr f g ms).gas = fr.gas - g.cost := rfl
  have hinv : FrameInv (paidFrame fr f g ms) := by
    refine ⟨by rw [hgas]; omega, h2, ?_, hmi, h5⟩
    rw [hgas]; show _ ≤ fr.given; omega
  refine ⟨hinv, ⟨?_, ?_, ?_⟩, by rw [hgas]; omega⟩
  · -- memoryPaid
    obtain ⟨_, hlc, _⟩ := hmi
    have h3' := hinv.2.2.1
    have hgoal : memFee ((paidFrame fr f g ms).mem.len / 32) + (fr.gas - g.cost) ≤ fr.given := by
      rw [← hlc]
      rw [hgas] at h3'
      have : (paidFrame fr f g ms).given = fr.given := rfl
      omega
    exact decide_eq_true hgoal
  · exact decide_eq_true h5
  · -- staticOk
    simp only [Spec.staticOk, eventOf, Bool.not_eq_true', Bool.and_eq_false_iff]
    cases hb : env.byzantium with
    | false => simp
    | true =>
      cases hro : fr.ro with
      | false => simp
      | true =>
        obtain ⟨u1, u2, _, u4⟩ := unrestricted_static hl hre hb hro
        right
        simp only [u1, Bool.false_or, Bool.or_eq_false_iff, decide_eq_false_iff_not, Bool.and_eq_false_iff]
        refine ⟨u2, ?_⟩
        by_cases hc : f.execFn = .opCall
        · right; exact u4 (by simp [hc, execKind])
        · left; exact hc

theorem envOK_facts {env : Env} (hE : EnvOK env) : env.gt.createBySuicide > 0 ∧ 1 ≤ env.gt.calls := gasTables_ok env.gt hE

/-- a step after which the loop continues costs at least one gas -/
theorem continuing_costs {env : Env} {i : StepIn W} {fr : Frame} {f : OpF} {g : GasOut} {ms : Nat}
    (hE : EnvOK env) (hl : lookup env.ep i.op = some f) (hg : gasCost env f i fr.gas fr.mem ms = some g)
    (hh : f.halts = false) (hr : f.reverts = false) : 1 ≤ g.cost := by
  obtain ⟨_, _, _, h4, _⟩ := opOK_split (lookup_ok hl)
  simp only [hh, hr, Bool.false_or, List.all_eq_true, decide_eq_true_eq] at h4
  have := h4 env.gt hE
  have := (gasCost_spec hg).1
  omega

theorem call_kind_gas {f : OpF} {k : CallKind} (hok : opOK f = true) (hk : execKind f.execFn = some k) (a : List Nat) :
    isCallGas f.gasFn = true ∧ f.execFn ≠ .opCreate ∧
    valueCase f a = ((k == .call || k == .callcode) && valueNZOf f a) := by
  obtain ⟨h1, _⟩ := opOK_split hok
  have hne : f.execFn ≠ .opCreate := by intro h; simp [h, execKind] at hk
  rw [hk] at h1
  cases k <;> simp only [Bool.and_eq_true, beq_iff_eq] at h1
  · simp [isCallGas, valueCase, valueNZOf, h1.1, hne]
  · simp [isCallGas, valueCase, valueNZOf, h1, hne]
  · refine ⟨by simp [isCallGas, h1], hne, ?_⟩
    simp only [valueCase, h1]
    have e1 : (GasFn.gasDelegateCall == GasFn.gasCall || GasFn.gasDelegateCall == GasFn.gasCallCode) = false := by decide
    have e2 : (GasFn.gasStaticCall == GasFn.gasCall || GasFn.gasStaticCall == GasFn.gasCallCode) = false := by decide
    have e3 : (CallKind.delegate == CallKind.call || CallKind.delegate == CallKind.callcode) = false := by decide
    have e4 : (CallKind.static == CallKind.call || CallKind.static == CallKind.callcode) = false := by decide
    simp only [e1, e2, e3, e4, Bool.false_and]
  · refine ⟨by simp [isCallGas, h1], hne, ?_⟩
    simp only [valueCase, h1]
    have e1 : (GasFn.gasDelegateCall == GasFn.gasCall || GasFn.gasDelegateCall == GasFn.gasCallCode) = false := by decide
    have e2 : (GasFn.gasStaticCall == GasFn.gasCall || GasFn.gasStaticCall == GasFn.gasCallCode) = false := by decide
    have e3 : (CallKind.delegate == CallKind.call || CallKind.delegate == CallKind.callcode) = false := by decide
    have e4 : (CallKind.static == CallKind.call || CallKind.static == CallKind.callcode) = false := by decide
    simp only [e1, e2, e3, e4, Bool.false_and]

/-- gas accounting around a CALL-family step: the callee gets less than the caller had, and whatever it returns
    (at most what it got) leaves the caller with less than before, memory fee still covered -/
theorem call_acct {env : Env} {i : StepIn W} {fr : Frame} {db : Db W} {t : Nat} {f : OpF} {g : GasOut} {ms : Nat} {db1 : Db W}
    {k : CallKind} (hE : EnvOK env) (hfr : FrameInv fr) (hpre : pre env i fr db t = .go f g ms db1)
    (hk : execKind f.execFn = some k) (cg : Nat)
    (hcg : cg = if ((k == .call || k == .callcode) && valueNZOf f i.args) = true then (g.callGasTemp + callStipend) % two64
                 else g.callGasTemp) :
    cg < two64 ∧ cg < fr.gas ∧
    ∀ rg, rg ≤ cg → (paidFrame fr f g ms).gas + rg < fr.gas ∧
      (paidFrame fr f g ms).gas + rg + (paidFrame fr f g ms).mem.lastGasCost ≤ fr.given := by
  obtain ⟨hl, _, _, hms, hg, hcost, _⟩ := pre_go hpre
  obtain ⟨h1, h2, h3, h4, h5⟩ := hfr
  obtain ⟨hcb, hcalls⟩ := envOK_facts hE
  obtain ⟨hstip, _⟩ := consts_ok
  obtain ⟨hicg, _, hvc⟩ := call_kind_gas (lookup_ok hl) hk i.args
  obtain ⟨_, _, _, _, hcall⟩ := gasCost_spec hg
  obtain ⟨fee, base, hmg, hc, hb, hcgas⟩ := hcall hicg
  obtain ⟨hal, _⟩ := memorySizeOf_ok hms
  obtain ⟨_, _, e3⟩ := memoryGasCost_spec h4 hal hmg
  have htmp := callGas_le hcb h1 (by omega) hcgas
  have hgas : (paidFrame fr f g ms).gas = fr.gas - g.cost := rfl
  have hlgc : (paidFrame fr f g ms).mem.lastGasCost = g.mem.lastGasCost := rfl
  rw [hgas, hlgc, e3]
  rw [hvc] at hb
  cases hv : ((k == .call || k == .callcode) && valueNZOf f i.args) with
  | true =>
    simp only [hv, if_true] at hb hcg
    have hlt : g.callGasTemp + callStipend < two64 := by unfold two64 at *; omega
    have : cg = g.callGasTemp + callStipend := by rw [hcg]; unfold two64 at *; omega
    refine ⟨by omega, by omega, fun rg hrg => ⟨by omega, by omega⟩⟩
  | false =>
    simp only [hv, if_false, Bool.false_eq_true] at hb hcg
    refine ⟨by omega, by omega, fun rg hrg => ⟨by omega, by omega⟩⟩

/-- gas accounting around a CREATE step -/
theorem create_acct {env : Env} {i : StepIn W} {fr : Frame} {db : Db W} {t : Nat} {f : OpF} {g : GasOut} {ms : Nat} {db1 : Db W}
    (hfr : FrameInv fr) (hpre : pre env i fr db t = .go f g ms db1) (hc : f.execFn = .opCreate) (fwd : Nat)
    (hfwd : fwd ≤ (paidFrame fr f g ms).gas) :
    fwd < two64 ∧ fwd < fr.gas ∧
    ∀ rg, rg ≤ fwd → (paidFrame fr f g ms).gas - fwd + rg < fr.gas ∧
      (paidFrame fr f g ms).gas - fwd + rg + (paidFrame fr f g ms).mem.lastGasCost ≤ fr.given := by
  obtain ⟨hl, _, _, _, hg, hcost, _⟩ := pre_go hpre
  obtain ⟨hinv, _, hsum⟩ := paid_inv hfr hpre
  obtain ⟨_, h2, _⟩ := opOK_split (lookup_ok hl)
  simp only [hc, bne_self_eq_false, Bool.false_or, beq_iff_eq] at h2
  have hfl := (gasCost_spec hg).1
  simp only [gasFloor, h2] at hfl
  obtain ⟨_, hcg, _⟩ := consts_ok
  obtain ⟨i1, _, i3, _, _⟩ := hinv
  obtain ⟨f1, _⟩ := hfr
  have : (paidFrame fr f g ms).given = fr.given := rfl
  refine ⟨by omega, by omega, fun rg hrg => ⟨by omega, by omega⟩⟩

end Aqv.Vm

/-
  Aqv.Lemmas.TxVmNonce — the signer's nonce over the C07 machine: `SenderIsEOA` derived from "no code at the signer".

  A transaction's signer is an address somebody holds the key of. It has code only if an earlier CREATE produced exactly that
  address, i.e. keccak(rlp(creator, nonce))[12:] collided with a key-controlled address — excluded as a hash assumption. What
  the fee machinery needs from this is stated on the PRE-STATE (`hasCode w.rest sender = false`) together with the discipline the
  oracle's effects obey towards a code-less signer (`CodeDiscipline`): they never install code there and never move its
  nonce — the nonce of an account moves only when a frame executing AS that account runs CREATE, and a code-less account executes
  no frame except the depth-0 `evm.Create` of its own transaction (entry 0's `nonceEff`, pinned by `OracleOk`).
-/
import Aqv.Lemmas.TxVm
import Aqv.Lemmas.TxVmInvT
namespace Aqv.TxVm
open Aqv.Tx

variable {ρ : Type}

structure CodeDiscipline (hasCode : ρ → Addr → Bool) (orc : Oracle ρ) : Prop where
  /-- no effect installs code at a code-less signer -/
  keepsCodeless : ∀ m g w t w', hasCode w'.rest m.sender = false →
    hasCode ((orc m g w t).eff w').rest m.sender = false ∧ hasCode ((orc m g w t).gasEff w').rest m.sender = false ∧
    hasCode ((orc m g w t).neutralEff w').rest m.sender = false ∧ hasCode ((orc m g w t).xferEff w').rest m.sender = false ∧
    hasCode ((orc m g w t).nonceEff w').rest m.sender = false ∧ hasCode ((orc m g w t).setCodeEff w').rest m.sender = false
  /-- no effect moves the nonce of a code-less signer, except the depth-0 Create's own bump (entry 0's nonceEff) -/
  keepsNonce : ∀ m g w t w', hasCode w'.rest m.sender = false →
    lookup ((orc m g w t).eff w').nonce m.sender = lookup w'.nonce m.sender ∧
    lookup ((orc m g w t).gasEff w').nonce m.sender = lookup w'.nonce m.sender ∧
    lookup ((orc m g w t).neutralEff w').nonce m.sender = lookup w'.nonce m.sender ∧
    lookup ((orc m g w t).xferEff w').nonce m.sender = lookup w'.nonce m.sender ∧
    lookup ((orc m g w t).setCodeEff w').nonce m.sender = lookup w'.nonce m.sender ∧
    (1 ≤ t → lookup ((orc m g w t).nonceEff w').nonce m.sender = lookup w'.nonce m.sender)

/-- the assumption on the PRE-STATE of a transaction: no code at the address that signed it. -/
def NoCodeAtSigner (hasCode : ρ → Addr → Bool) (m : Msg) (w : World ρ) : Prop := hasCode w.rest m.sender = false

/-- the invariant: the signer is code-less and its nonce is n. -/
def SignerAt (hasCode : ρ → Addr → Bool) (s : Addr) (n : Nat) (w : World ρ) : Prop :=
  hasCode w.rest s = false ∧ lookup w.nonce s = n

theorem signerAt_effOkT {hasCode : ρ → Addr → Bool} {orc : Oracle ρ} (hC : CodeDiscipline hasCode orc) (m : Msg) (g : Nat) (w : World ρ) (n : Nat) :
    EffOkT (SignerAt hasCode m.sender n) (orc m g w) := by
  intro t ht w' hw'
  obtain ⟨c1, c2, c3, c4, c5, c6⟩ := hC.keepsCodeless m g w t w' hw'.1
  obtain ⟨n1, n2, n3, n4, n6, n5⟩ := hC.keepsNonce m g w t w' hw'.1
  exact ⟨⟨c1, by rw [n1]; exact hw'.2⟩, ⟨c2, by rw [n2]; exact hw'.2⟩, ⟨c3, by rw [n3]; exact hw'.2⟩, ⟨c4, by rw [n4]; exact hw'.2⟩,
    ⟨c5, by rw [n5 ht]; exact hw'.2⟩, ⟨c6, by rw [n6]; exact hw'.2⟩⟩

/-- **signer_nonce_over_vm.** Over the C07 machine, from a pre-state without code at the signer: the signer is still code-less
    afterwards and its nonce is unchanged by `evm.Call`, bumped exactly once by `evm.Create` — the statement `SenderIsEOA` makes,
    derived instead of assumed. -/
theorem signer_nonce_over_vm {hasCode : ρ → Addr → Bool} (venv : Vm.Env) (orc : Oracle ρ) (hO : OracleOk orc) (hC : CodeDiscipline hasCode orc)
    (m : Msg) (g : Nat) (w : World ρ) (hno : hasCode w.rest m.sender = false)
    (hne : (vmRun venv orc m g w).err ≠ some .insufficientBalance) :
    hasCode (vmRun venv orc m g w).world.rest m.sender = false ∧
    lookup (vmRun venv orc m g w).world.nonce m.sender =
      if m.to.isSome then lookup w.nonce m.sender else nonceInc (lookup w.nonce m.sender) := by
  show hasCode (machine venv orc m g w).db.cur.rest m.sender = false ∧ lookup (machine venv orc m g w).db.cur.nonce m.sender = _
  have hE0 := fun n => signerAt_effOkT hC m g w n
  cases hto : m.to with
  | some t =>
    have hx : ∀ w', SignerAt hasCode m.sender (lookup w.nonce m.sender) w' → SignerAt hasCode m.sender (lookup w.nonce m.sender) ((orc m g w 0).xferEff w') :=
      fun w' hw' => ⟨(hC.keepsCodeless m g w 0 w' hw'.1).2.2.2.1, by rw [(hC.keepsNonce m g w 0 w' hw'.1).2.2.2.1]; exact hw'.2⟩
    have hn : ∀ w', SignerAt hasCode m.sender (lookup w.nonce m.sender) w' → SignerAt hasCode m.sender (lookup w.nonce m.sender) ((orc m g w 0).neutralEff w') :=
      fun w' hw' => ⟨(hC.keepsCodeless m g w 0 w' hw'.1).2.2.1, by rw [(hC.keepsNonce m g w 0 w' hw'.1).2.2.1]; exact hw'.2⟩
    have := (topCall_invT venv (hE0 _) hx hn (gasOf g + 1) .call (gasOf g) (m.value != 0) (db := ⟨w, [], 0⟩)
      ⟨⟨hno, rfl⟩, fun _ h => by cases h⟩).cur
    unfold machine; rw [hto]
    simpa [SignerAt] using this
  | none =>
    have hx : ∀ w', SignerAt hasCode m.sender (nonceInc (lookup w.nonce m.sender)) w' →
        SignerAt hasCode m.sender (nonceInc (lookup w.nonce m.sender)) ((orc m g w 0).xferEff w') :=
      fun w' hw' => ⟨(hC.keepsCodeless m g w 0 w' hw'.1).2.2.2.1, by rw [(hC.keepsNonce m g w 0 w' hw'.1).2.2.2.1]; exact hw'.2⟩
    have hs : ∀ w', SignerAt hasCode m.sender (nonceInc (lookup w.nonce m.sender)) w' →
        SignerAt hasCode m.sender (nonceInc (lookup w.nonce m.sender)) ((orc m g w 0).setCodeEff w') :=
      fun w' hw' => ⟨(hC.keepsCodeless m g w 0 w' hw'.1).2.2.2.2.2, by rw [(hC.keepsNonce m g w 0 w' hw'.1).2.2.2.2.1]; exact hw'.2⟩
    have h0 : SignerAt hasCode m.sender (nonceInc (lookup w.nonce m.sender)) ((orc m g w 0).nonceEff w) := by
      rw [hO.nonceEff]
      exact ⟨by simpa using hno, setNonce_nonce_eq _ _ _⟩
    rcases topCreate_invT venv (hE0 _) hx hs (gasOf g + 1) (gasOf g) (db := ⟨w, [], 0⟩) (fun _ h => by cases h) h0 with h | h
    · unfold machine; rw [hto]
      simpa [SignerAt] using h.cur
    · exfalso
      apply hne
      show readErr (machine venv orc m g w).out (orc m g w 0).canTransfer = some .insufficientBalance
      rw [(machine_cannot_transfer venv orc m g w h).1, h]; rfl

end Aqv.TxVm

/-
  Aqv.Lemmas.TxPriced — the price heap (`txPricedList`) refines the eviction oracle.
  Part 1: the checked heap operations and the three queries Underpriced / Discard / Cap.
-/
import Aqv.Lemmas.TxPoolCount
import Aqv.Lemmas.TxHeap
namespace Aqv.TxPool

/-! ### the heap operations and their monitor bit -/

theorem sameMembers_of_perm {a b : List Tx} (h : a.Perm b) : sameMembers a b = true := by
  unfold sameMembers
  simp only [Bool.and_eq_true, List.all_eq_true, decide_eq_true_eq, beq_iff_eq]
  exact ⟨⟨h.length_eq, fun x hx => h.mem_iff.mp hx⟩, fun x hx => h.mem_iff.mpr hx⟩

/-- the monitor bit of Push never fires -/
theorem pushC_eq (t : Tx) (l : List Tx) : pushC t l = (hPush t l, true) := by
  unfold pushC
  simp only
  rw [sameMembers_of_perm ((hPush_perm t l).trans (List.perm_append_comm (l₁ := [t]) (l₂ := l)))]

/-- the monitor bit of Init never fires -/
theorem initC_eq (l : List Tx) : initC l = (hInit l, true) := by
  unfold initC
  simp only
  rw [sameMembers_of_perm (hInit_perm l)]

theorem pushC_mem (t : Tx) (l : List Tx) : ∀ x, x ∈ (pushC t l).1 ↔ x = t ∨ x ∈ l := by
  intro x
  rw [pushC_eq]
  simp only
  rw [(hPush_perm t l).mem_iff, List.mem_cons]

theorem initC_mem (l : List Tx) : ∀ x, x ∈ (initC l).1 ↔ x ∈ l := by
  intro x
  rw [initC_eq]
  exact (hInit_perm l).mem_iff

/-- what a pop of the priority queue guarantees -/
structure PopSpec (l : List Tx) (x : Tx) (rest : List Tx) : Prop where
  mem   : x ∈ l
  min   : ∀ y ∈ l, x.price ≤ y.price
  len   : rest.length + 1 = l.length
  sub   : ∀ y ∈ rest, y ∈ l
  cover : ∀ y ∈ l, y = x ∨ y ∈ rest

theorem popOK_of_spec {l : List Tx} {x : Tx} {rest : List Tx} (h : PopSpec l x rest) : popOK l x rest = true := by
  unfold popOK
  simp only [Bool.and_eq_true, decide_eq_true_eq, List.all_eq_true, beq_iff_eq, Bool.or_eq_true]
  exact ⟨⟨⟨⟨h.mem, h.min⟩, h.len⟩, h.sub⟩, h.cover⟩

/-- Pop on a heap, proved from the array algorithm (no run-time check involved): the popped element is a minimum, the rest
    is the array without it and a heap again, and the monitor bit does not fire. -/
theorem popC_spec {l : List Tx} {x : Tx} {rest : List Tx} {ok : Bool} (hh : IsHeap l) (h : popC l = some (x, rest, ok)) :
    PopSpec l x rest ∧ IsHeap rest ∧ ok = true := by
  unfold popC at h
  cases hp : hPop l with
  | none => rw [hp] at h; cases h
  | some pr =>
    obtain ⟨y, r⟩ := pr
    rw [hp] at h
    simp only [Option.some.injEq, Prod.mk.injEq] at h
    obtain ⟨rfl, rfl, hok⟩ := h
    obtain ⟨hperm, hmin, hrest⟩ := heap_pop_spec l y r hh hp
    have hs : PopSpec l y r :=
      { mem := hperm.mem_iff.mpr List.mem_cons_self
        min := hmin
        len := by have := hperm.length_eq; simp only [List.length_cons] at this; omega
        sub := fun z hz => hperm.mem_iff.mpr (List.mem_cons_of_mem _ hz)
        cover := fun z hz => List.mem_cons.mp (hperm.mem_iff.mp hz) }
    exact ⟨hs, hrest, by rw [← hok]; exact popOK_of_spec hs⟩

theorem popC_none {l : List Tx} (h : popC l = none) : l = [] := by
  unfold popC at h
  cases hp : hPop l with
  | none => exact hPop_none hp
  | some pr =>
    obtain ⟨y, r⟩ := pr
    rw [hp] at h
    cases h

/-- the price list is in order: its array is a heap and (for `b = true`) the driver's assertion has not fired; the
    `b = false` instance is the plain heap order, showing that nothing proved below depends on the monitor bit -/
def PricedOK (b : Bool) (P : Priced) : Prop := IsHeap P.items ∧ (b = true → P.exact = true)

variable {b : Bool}

theorem pricedOK_pop {P : Priced} {x : Tx} {rest : List Tx} {ok : Bool} (hok : PricedOK b P)
    (hp : popC P.items = some (x, rest, ok)) (st : Int) :
    PricedOK b { items := rest, stales := st, exact := P.exact && ok } := by
  obtain ⟨_, h2, h3⟩ := popC_spec hok.1 hp
  exact ⟨h2, fun hb => by simp [hok.2 hb, h3]⟩

/-! ### Put / Removed -/

theorem put_mem (P : Priced) (t : Tx) : ∀ x, x ∈ (P.put t).items ↔ x = t ∨ x ∈ P.items := pushC_mem t P.items

theorem put_ok (P : Priced) (t : Tx) (h : PricedOK b P) : PricedOK b (P.put t) := by
  unfold Priced.put
  simp only
  rw [pushC_eq]
  exact ⟨hPush_heap t P.items h.1, fun hb => by simp [h.2 hb]⟩

theorem removed_ok (P : Priced) (A : List Tx) (h : PricedOK b P) : PricedOK b (P.removed A) := by
  unfold Priced.removed
  simp only
  split
  · exact h
  · rw [initC_eq]
    exact ⟨heap_init_establishes A, fun hb => by simp [h.2 hb]⟩

/-- after `delete; Removed()` the heap still covers whatever of the new table it covered before — or exactly the table -/
theorem removed_cov (P : Priced) (A : List Tx) (x : Tx) (hx : x ∈ A) :
    (x ∈ P.items → x ∈ (P.removed A).items) ∧ ((P.removed A).items = P.items ∨ ∀ y, y ∈ (P.removed A).items ↔ y ∈ A) := by
  unfold Priced.removed
  simp only
  split
  · exact ⟨fun h => h, Or.inl rfl⟩
  · exact ⟨fun _ => (initC_mem A x).mpr hx, Or.inr (fun y => initC_mem A y)⟩

theorem putAll_ok (ts : List Tx) : ∀ (P : Priced), PricedOK b P → PricedOK b (ts.foldl (fun P x => P.put x) P) := by
  induction ts with
  | nil => intro P h; exact h
  | cons t rest ih => intro P h; exact ih _ (put_ok P t h)

theorem putAll_mem (P : Priced) (ts : List Tx) : ∀ x, x ∈ (ts.foldl (fun P x => P.put x) P).items ↔ x ∈ ts ∨ x ∈ P.items := by
  induction ts generalizing P with
  | nil => intro x; simp
  | cons t rest ih =>
    intro x
    simp only [List.foldl_cons]
    rw [ih (P.put t) x, put_mem P t x]
    simp only [List.mem_cons]
    constructor
    · rintro (h | h | h)
      · exact Or.inl (Or.inr h)
      · exact Or.inl (Or.inl h)
      · exact Or.inr h
    · rintro ((h | h) | h)
      · exact Or.inr (Or.inl h)
      · exact Or.inl h
      · exact Or.inr (Or.inr h)

/-! ### Underpriced -/

theorem dropStaleHeads_spec : ∀ (fuel : Nat) (P : Priced) (all : List Tx), P.items.length < fuel → PricedOK b P →
    (∀ x ∈ (Priced.dropStaleHeads fuel P all).items, x ∈ P.items) ∧
    (∀ x ∈ all, x ∈ P.items → x ∈ (Priced.dropStaleHeads fuel P all).items) ∧
    (∀ x rest ok, popC (Priced.dropStaleHeads fuel P all).items = some (x, rest, ok) → x ∈ all) ∧
    PricedOK b (Priced.dropStaleHeads fuel P all) := by
  intro fuel
  induction fuel with
  | zero => intro P all h; omega
  | succ f ih =>
    intro P all hlen hok
    unfold Priced.dropStaleHeads
    cases hp : popC P.items with
    | none =>
      simp only
      refine ⟨fun x h => h, fun x _ h => h, fun x rest ok h => ?_, hok⟩
      rw [hp] at h; cases h
    | some pr =>
      obtain ⟨y, rest, ok⟩ := pr
      simp only
      have hs := (popC_spec hok.1 hp).1
      by_cases hy : y ∈ all
      · rw [if_pos hy]
        refine ⟨fun x h => h, fun x _ h => h, fun x r o h => ?_, hok⟩
        rw [hp] at h; simp only [Option.some.injEq, Prod.mk.injEq] at h; rw [← h.1]; exact hy
      · rw [if_neg hy]
        have := ih { items := rest, stales := P.stales - 1, exact := P.exact && ok } all (by simp only; have := hs.len; omega)
          (pricedOK_pop hok hp _)
        refine ⟨fun x h => hs.sub x (this.1 x h), fun x hx h => this.2.1 x hx ?_, this.2.2.1, this.2.2.2⟩
        rcases hs.cover x h with e | e
        · subst e; exact absurd hx hy
        · exact e

theorem minPrice_spec : ∀ (l : List Tx), (minPrice l = none ↔ l = []) ∧
    ∀ m, minPrice l = some m → (∃ y ∈ l, y.price = m) ∧ ∀ y ∈ l, m ≤ y.price := by
  intro l
  induction l with
  | nil => exact ⟨by simp [minPrice], fun m h => by simp [minPrice] at h⟩
  | cons x xs ih =>
    refine ⟨?_, fun m h => ?_⟩
    · unfold minPrice; cases minPrice xs <;> simp
    · unfold minPrice at h
      cases hm : minPrice xs with
      | none =>
        rw [hm] at h; simp only [Option.some.injEq] at h; subst h
        have : xs = [] := ih.1.mp hm
        subst this
        exact ⟨⟨x, List.mem_cons_self, rfl⟩, fun y hy => by simp at hy; subst hy; exact Nat.le_refl _⟩
      | some m' =>
        rw [hm] at h; simp only [Option.some.injEq] at h; subst h
        obtain ⟨⟨y, hy, hye⟩, hmin⟩ := ih.2 m' hm
        refine ⟨?_, fun z hz => ?_⟩
        · by_cases hc : x.price ≤ m'
          · exact ⟨x, List.mem_cons_self, by omega⟩
          · exact ⟨y, List.mem_cons_of_mem _ hy, by omega⟩
        · rcases List.mem_cons.mp hz with rfl | hz'
          · exact Nat.min_le_left _ _
          · have := hmin z hz'; omega

/-- **Underpriced refines the oracle-free definition**: when the heap covers `all`, the heap-based answer is the
    model's `underpriced` (compare with the cheapest pooled price), and the heap keeps covering `all`. -/
theorem underpriced_refines (s : Pool) (P : Priced) (t : Tx) (hcov : ∀ x ∈ s.all, x ∈ P.items) (hok : PricedOK b P) :
    (P.underpriced s.all s.locals t).1 = s.underpriced t ∧ (∀ x ∈ s.all, x ∈ (P.underpriced s.all s.locals t).2.items) ∧
    PricedOK b (P.underpriced s.all s.locals t).2 := by
  unfold Priced.underpriced Pool.underpriced Pool.isLocal
  by_cases hl : t.sender ∈ s.locals
  · simp only [hl, if_true, decide_true]; exact ⟨trivial, hcov, hok⟩
  · simp only [hl, if_false, decide_false, Bool.false_eq_true]
    obtain ⟨d1, d2, d3, d4⟩ := dropStaleHeads_spec (P.items.length + 1) P s.all (Nat.lt_succ_self _) hok
    have hcov' : ∀ x ∈ s.all, x ∈ (Priced.dropStaleHeads (P.items.length + 1) P s.all).items := fun x hx => d2 x hx (hcov x hx)
    cases hp : popC (Priced.dropStaleHeads (P.items.length + 1) P s.all).items with
    | none =>
      simp only
      have hnil := popC_none hp
      have hall : s.all = [] := by
        cases ha : s.all with
        | nil => rfl
        | cons y ys => have := hcov' y (by rw [ha]; exact List.mem_cons_self); rw [hnil] at this; cases this
      refine ⟨?_, hcov', d4⟩
      rw [(minPrice_spec s.all).1.mpr hall]
    | some pr =>
      obtain ⟨x, rest, ok⟩ := pr
      simp only
      have hs := (popC_spec d4.1 hp).1
      have hxall := d3 x rest ok hp
      refine ⟨?_, hcov', d4⟩
      cases hm : minPrice s.all with
      | none => have := (minPrice_spec s.all).1.mp hm; rw [this] at hxall; cases hxall
      | some m =>
        simp only
        obtain ⟨⟨y, hy, hye⟩, hmin⟩ := (minPrice_spec s.all).2 m hm
        have h1 : m ≤ x.price := hmin x hxall
        have h2 : x.price ≤ y.price := hs.min y (hcov' y hy)
        have : x.price = m := by omega
        rw [this]

/-! ### Discard and Cap -/

structure LoopInv2 (b : Bool) (all : List Tx) (locals : List Addr) (P : Priced) (drop save : List Tx) : Prop where
  cover : ∀ u ∈ all, u ∈ drop ∨ u ∈ save ∨ u ∈ P.items
  cheap : ∀ v ∈ drop, ∀ u ∈ P.items, v.price ≤ u.price
  dperm : ∀ v ∈ drop, v ∈ all ∧ v.sender ∉ locals
  sperm : ∀ v ∈ save, v ∈ all ∧ v.sender ∈ locals
  ok    : PricedOK b P

theorem discardLoop_spec : ∀ (fuel : Nat) (P : Priced) (all : List Tx) (locals : List Addr) (count : Nat) (drop save : List Tx),
    P.items.length < fuel → LoopInv2 b all locals P drop save →
    LoopInv2 b all locals (Priced.discardLoop fuel P all locals count drop save).2.2
      (Priced.discardLoop fuel P all locals count drop save).1 (Priced.discardLoop fuel P all locals count drop save).2.1 ∧
    (Priced.discardLoop fuel P all locals count drop save).1.length ≤ drop.length + count := by
  intro fuel
  induction fuel with
  | zero => intro P all locals count drop save h; omega
  | succ f ih =>
    intro P all locals count drop save hlen hinv
    unfold Priced.discardLoop
    by_cases hc : count = 0
    · rw [if_pos hc]; exact ⟨hinv, Nat.le_add_right _ _⟩
    · rw [if_neg hc]
      cases hp : popC P.items with
      | none => exact ⟨hinv, Nat.le_add_right _ _⟩
      | some pr =>
        obtain ⟨x, rest, ok⟩ := pr
        simp only
        have hs := (popC_spec hinv.ok.1 hp).1
        have hok' := fun st => pricedOK_pop hinv.ok hp st
        have hl : rest.length < f := by have := hs.len; omega
        by_cases hx : x ∈ all
        · rw [if_neg (fun h : x ∉ all => h hx)]
          by_cases hloc : x.sender ∈ locals
          · rw [if_pos hloc]
            apply ih _ all locals count drop (save ++ [x]) hl
            exact { cover := fun u hu => by
                      rcases hinv.cover u hu with h | h | h
                      · exact Or.inl h
                      · exact Or.inr (Or.inl (List.mem_append_left _ h))
                      · rcases hs.cover u h with e | e
                        · exact Or.inr (Or.inl (by rw [e]; simp))
                        · exact Or.inr (Or.inr e)
                    cheap := fun v hv u hu => hinv.cheap v hv u (hs.sub u hu)
                    dperm := hinv.dperm
                    ok := hok' _
                    sperm := fun v hv => by
                      rcases List.mem_append.mp hv with h | h
                      · exact hinv.sperm v h
                      · simp at h; subst h; exact ⟨hx, hloc⟩ }
          · rw [if_neg hloc]
            have := ih { P with items := rest, exact := P.exact && ok } all locals (count - 1) (drop ++ [x]) save hl
              { cover := fun u hu => by
                  rcases hinv.cover u hu with h | h | h
                  · exact Or.inl (List.mem_append_left _ h)
                  · exact Or.inr (Or.inl h)
                  · rcases hs.cover u h with e | e
                    · exact Or.inl (by rw [e]; simp)
                    · exact Or.inr (Or.inr e)
                cheap := fun v hv u hu => by
                  rcases List.mem_append.mp hv with h | h
                  · exact hinv.cheap v h u (hs.sub u hu)
                  · simp at h; subst h; exact hs.min u (hs.sub u hu)
                dperm := fun v hv => by
                  rcases List.mem_append.mp hv with h | h
                  · exact hinv.dperm v h
                  · simp at h; subst h; exact ⟨hx, hloc⟩
                ok := hok' _
                sperm := hinv.sperm }
            refine ⟨this.1, ?_⟩
            have := this.2
            simp only [List.length_append, List.length_cons, List.length_nil] at this
            omega
        · rw [if_pos hx]
          apply ih _ all locals count drop save hl
          exact { cover := fun u hu => by
                    rcases hinv.cover u hu with h | h | h
                    · exact Or.inl h
                    · exact Or.inr (Or.inl h)
                    · rcases hs.cover u h with e | e
                      · subst e; exact absurd hu hx
                      · exact Or.inr (Or.inr e)
                  cheap := fun v hv u hu => hinv.cheap v hv u (hs.sub u hu)
                  dperm := hinv.dperm, sperm := hinv.sperm, ok := hok' _ }

/-- **Discard refines the oracle**: what the heap drops is pooled, not local, at most `count` many (so the model's `add`
    with these victims performs exactly these removals), cheapest first (no pooled non-local transaction that survives is
    cheaper than a dropped one), and afterwards the heap covers everything pooled except what it dropped. -/
theorem discard_refines (s : Pool) (P : Priced) (count : Nat) (hcov : ∀ x ∈ s.all, x ∈ P.items) (hok : PricedOK b P) :
    let d := P.discard s.all s.locals count
    (∀ v ∈ d.1, v ∈ s.all ∧ v.sender ∉ s.locals) ∧ d.1.length ≤ count ∧
    s.sanitizeVictims count d.1 = d.1 ∧
    (∀ v ∈ d.1, ∀ u ∈ s.all, u.sender ∉ s.locals → u ∉ d.1 → v.price ≤ u.price) ∧
    (∀ u ∈ s.all, u ∉ d.1 → u ∈ d.2.items) ∧ PricedOK b d.2 := by
  simp only
  unfold Priced.discard
  simp only
  obtain ⟨hinv, hlen⟩ := discardLoop_spec (P.items.length + 1) P s.all s.locals count [] [] (Nat.lt_succ_self _)
    { cover := fun u hu => Or.inr (Or.inr (hcov u hu)), cheap := by simp, dperm := by simp, sperm := by simp, ok := hok }
  generalize Priced.discardLoop (P.items.length + 1) P s.all s.locals count [] [] = r at hinv hlen
  simp only [List.length_nil, Nat.zero_add] at hlen
  have hcovf : ∀ u ∈ s.all, u ∉ r.1 → u ∈ (r.2.1.foldl (fun P x => P.put x) r.2.2).items := by
    intro u hu hnd
    rw [putAll_mem]
    rcases hinv.cover u hu with h | h | h
    · exact absurd h hnd
    · exact Or.inl h
    · exact Or.inr h
  refine ⟨hinv.dperm, hlen, ?_, ?_, hcovf, putAll_ok _ _ hinv.ok⟩
  · unfold Pool.sanitizeVictims
    have : r.1.filter (fun t => decide (t ∈ s.all) && !s.isLocal t.sender) = r.1 := by
      rw [List.filter_eq_self]
      intro v hv
      have := hinv.dperm v hv
      simp [Pool.isLocal, this.1, this.2]
    rw [this, List.take_of_length_le hlen]
  · intro v hv u hu hnl hnd
    rcases hinv.cover u hu with h | h | h
    · exact absurd h hnd
    · exact absurd (hinv.sperm u h).2 hnl
    · exact hinv.cheap v hv u h

structure LoopInvC (b : Bool) (all : List Tx) (locals : List Addr) (th : Nat) (P : Priced) (drop save : List Tx) : Prop where
  cover : ∀ u ∈ all, u ∈ drop ∨ u ∈ save ∨ u ∈ P.items
  dperm : ∀ v ∈ drop, v ∈ all ∧ v.sender ∉ locals ∧ v.price < th
  sperm : ∀ v ∈ save, v ∈ all ∧ (v.sender ∈ locals ∨ th ≤ v.price)
  ok    : PricedOK b P

theorem capLoop_spec : ∀ (fuel : Nat) (P : Priced) (all : List Tx) (locals : List Addr) (th : Nat) (drop save : List Tx),
    P.items.length < fuel → LoopInvC b all locals th P drop save →
    LoopInvC b all locals th (Priced.capLoop fuel P all locals th drop save).2.2
      (Priced.capLoop fuel P all locals th drop save).1 (Priced.capLoop fuel P all locals th drop save).2.1 ∧
    (∀ u ∈ all, u.sender ∉ locals → u.price < th → u ∈ (Priced.capLoop fuel P all locals th drop save).1) := by
  intro fuel
  induction fuel with
  | zero => intro P all locals th drop save h; omega
  | succ f ih =>
    intro P all locals th drop save hlen hinv
    unfold Priced.capLoop
    cases hp : popC P.items with
    | none =>
      simp only
      refine ⟨hinv, fun u hu hnl hlt => ?_⟩
      rcases hinv.cover u hu with h | h | h
      · exact h
      · rcases (hinv.sperm u h).2 with h' | h'
        · exact absurd h' hnl
        · omega
      · rw [popC_none hp] at h; cases h
    | some pr =>
      obtain ⟨x, rest, ok⟩ := pr
      simp only
      have hs := (popC_spec hinv.ok.1 hp).1
      have hok' := fun st => pricedOK_pop hinv.ok hp st
      have hl : rest.length < f := by have := hs.len; omega
      have hcover : ∀ (d sv : List Tx), (∀ u ∈ drop, u ∈ d) → (∀ u ∈ save, u ∈ sv) → (x ∈ all → x ∈ d ∨ x ∈ sv) →
          ∀ u ∈ all, u ∈ d ∨ u ∈ sv ∨ u ∈ rest := by
        intro d sv hd hsv hxx u hu
        rcases hinv.cover u hu with h | h | h
        · exact Or.inl (hd u h)
        · exact Or.inr (Or.inl (hsv u h))
        · rcases hs.cover u h with e | e
          · subst e
            rcases hxx hu with h' | h'
            · exact Or.inl h'
            · exact Or.inr (Or.inl h')
          · exact Or.inr (Or.inr e)
      by_cases hx : x ∈ all
      · rw [if_neg (fun h : x ∉ all => h hx)]
        by_cases hth : th ≤ x.price
        · rw [if_pos hth]
          refine ⟨?_, fun u hu hnl hlt => ?_⟩
          · exact { cover := hcover drop (save ++ [x]) (fun _ h => h) (fun _ h => List.mem_append_left _ h) (fun _ => Or.inr (by simp))
                    dperm := hinv.dperm
                    ok := hok' _
                    sperm := fun v hv => by
                      rcases List.mem_append.mp hv with h | h
                      · exact hinv.sperm v h
                      · simp at h; subst h; exact ⟨hx, Or.inr hth⟩ }
          · rcases hinv.cover u hu with h | h | h
            · exact h
            · rcases (hinv.sperm u h).2 with h' | h'
              · exact absurd h' hnl
              · omega
            · have := hs.min u h; omega
        · rw [if_neg hth]
          by_cases hloc : x.sender ∈ locals
          · rw [if_pos hloc]
            apply ih _ all locals th drop (save ++ [x]) hl
            exact { cover := hcover drop (save ++ [x]) (fun _ h => h) (fun _ h => List.mem_append_left _ h) (fun _ => Or.inr (by simp))
                    dperm := hinv.dperm
                    ok := hok' _
                    sperm := fun v hv => by
                      rcases List.mem_append.mp hv with h | h
                      · exact hinv.sperm v h
                      · simp at h; subst h; exact ⟨hx, Or.inl hloc⟩ }
          · rw [if_neg hloc]
            apply ih _ all locals th (drop ++ [x]) save hl
            exact { cover := hcover (drop ++ [x]) save (fun _ h => List.mem_append_left _ h) (fun _ h => h) (fun _ => Or.inl (by simp))
                    dperm := fun v hv => by
                      rcases List.mem_append.mp hv with h | h
                      · exact hinv.dperm v h
                      · simp at h; subst h; exact ⟨hx, hloc, by omega⟩
                    ok := hok' _
                    sperm := hinv.sperm }
      · rw [if_pos hx]
        apply ih _ all locals th drop save hl
        exact { cover := hcover drop save (fun _ h => h) (fun _ h => h) (fun h => absurd h hx)
                dperm := hinv.dperm, sperm := hinv.sperm, ok := hok' _ }

/-- **Cap refines SetGasPrice**: what the heap drops is pooled, not local and cheaper than the new floor (so the model's
    `setGasPriceO` performs exactly these removals), it is *every* such transaction (the set `setGasPrice` removes), and
    afterwards the heap covers everything pooled except what it dropped. -/
theorem cap_refines (s : Pool) (P : Priced) (th : Nat) (hcov : ∀ x ∈ s.all, x ∈ P.items) (hok : PricedOK b P) :
    let d := P.cap s.all s.locals th
    (∀ v, v ∈ d.1 ↔ v ∈ s.all ∧ v.price < th ∧ v.sender ∉ s.locals) ∧ (∀ u ∈ s.all, u ∉ d.1 → u ∈ d.2.items) ∧
    PricedOK b d.2 := by
  simp only
  unfold Priced.cap
  simp only
  obtain ⟨hinv, hcomp⟩ := capLoop_spec (P.items.length + 1) P s.all s.locals th [] [] (Nat.lt_succ_self _)
    { cover := fun u hu => Or.inr (Or.inr (hcov u hu)), dperm := by simp, sperm := by simp, ok := hok }
  generalize Priced.capLoop (P.items.length + 1) P s.all s.locals th [] [] = r at hinv hcomp
  refine ⟨fun v => ⟨fun hv => ?_, fun hv => hcomp v hv.1 hv.2.2 hv.2.1⟩, fun u hu hnd => ?_, putAll_ok _ _ hinv.ok⟩
  · have := hinv.dperm v hv; exact ⟨this.1, this.2.2, this.2.1⟩
  · rw [putAll_mem]
    rcases hinv.cover u hu with h | h | h
    · exact absurd h hnd
    · exact Or.inl h
    · exact Or.inr h

end Aqv.TxPool

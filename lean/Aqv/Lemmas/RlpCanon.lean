import Aqv.Lemmas.Rlp
namespace Aqv.Rlp
open Aqv

theorem u8_ofNat_toNat (b : UInt8) : UInt8.ofNat b.toNat = b := by simp

/-- a successful `readSize` consumed the minimal big-endian form of the size it returns. -/
theorem readSize_ok (ll : Nat) (rest : Bytes) (n : Nat) (r : Bytes) (h : readSize ll rest = .ok (n, r)) :
    rest = beBytes n ++ r ∧ (beBytes n).length = ll ∧ 56 ≤ n := by
  unfold readSize at h
  by_cases hl : rest.length < ll
  · simp [hl] at h
  · simp only [hl, if_false] at h
    cases hb : rest.take ll with
    | nil => simp [hb] at h
    | cons b0 t =>
      simp only [hb] at h
      by_cases h0 : b0 = 0
      · simp [h0] at h
      · simp only [h0, if_false] at h
        by_cases h56 : beNat (b0 :: t) < 56
        · simp [h56] at h
        · simp only [h56, if_false, Except.ok.injEq, Prod.mk.injEq] at h
          obtain ⟨hn, hr⟩ := h
          have hcanon : beBytes (beNat (b0 :: t)) = b0 :: t := by
            apply beBytes_beNat
            intro b rest' hbr
            simp at hbr
            rw [← hbr.1]; exact h0
          have hge : 56 ≤ n := by omega
          rw [← hn, hcanon, ← hb, ← hr]
          refine ⟨(List.take_append_drop ll rest).symm, ?_, by rw [hb, hn]; exact hge⟩
          rw [List.length_take]; omega

theorem readHead_ok_byte (bs : Bytes) (b : UInt8) (rest : Bytes) (h : readHead bs = .ok (.byte b rest)) :
    bs = b :: rest ∧ b < 0x80 := by
  cases bs with
  | nil => simp [readHead] at h
  | cons c cs =>
    simp only [readHead] at h
    split at h
    · simp at h; rename_i hc; exact ⟨by rw [h.1, h.2], by rw [← h.1]; exact hc⟩
    · split at h
      · simp at h
      · split at h
        · split at h <;> simp at h
        · split at h
          · simp at h
          · split at h <;> simp at h

theorem readHead_ok_str (bs : Bytes) (n : Nat) (rest : Bytes) (h : readHead bs = .ok (.str n rest)) :
    bs = header 0x80 n ++ rest ∧ n < 2 ^ 64 := by
  cases bs with
  | nil => simp [readHead] at h
  | cons c cs =>
    simp only [readHead] at h
    split at h
    · simp at h
    · rename_i h1
      split at h
      · rename_i h2
        simp only [Except.ok.injEq, Hd.str.injEq] at h
        obtain ⟨hn, hr⟩ := h
        rw [u8_lt_iff] at h1 h2
        have hc1 : (128:UInt8).toNat = 128 := rfl
        have hc2 : (184:UInt8).toNat = 184 := rfl
        rw [hc1] at h1; rw [hc2] at h2
        have hn56 : n < 56 := by omega
        refine ⟨?_, by omega⟩
        unfold header
        simp only [hn56, if_true, List.singleton_append]
        rw [← hr, ← hn]
        have : 0x80 + (c.toNat - 0x80) = c.toNat := by omega
        rw [this, u8_ofNat_toNat]
      · rename_i h2
        split at h
        · rename_i h3
          split at h
          · rename_i n' r' hrs
            simp only [Except.ok.injEq, Hd.str.injEq] at h
            obtain ⟨hn, hr⟩ := h
            subst hn; subst hr
            obtain ⟨hcs, hlen, h56⟩ := readSize_ok _ _ _ _ hrs
            rw [u8_lt_iff] at h2 h3
            have hc2 : (184:UInt8).toNat = 184 := rfl
            have hc3 : (192:UInt8).toNat = 192 := rfl
            rw [hc2] at h2; rw [hc3] at h3
            have hlt : n' < 2 ^ 64 := by
              have := beNat_lt (beBytes n')
              rw [beNat_beBytes] at this
              have hl8 : (beBytes n').length ≤ 8 := by omega
              calc n' < 256 ^ (beBytes n').length := this
                _ ≤ 256 ^ 8 := Nat.pow_le_pow_right (by omega) hl8
                _ = 2 ^ 64 := by decide
            refine ⟨?_, hlt⟩
            unfold header
            rw [if_neg (by omega)]
            simp only [List.cons_append]
            rw [hcs, hlen]
            have : 0x80 + 55 + (c.toNat - 0xB7) = c.toNat := by omega
            rw [this, u8_ofNat_toNat]
          · simp at h
        · split at h
          · simp at h
          · split at h <;> simp at h

theorem readHead_ok_list (bs : Bytes) (n : Nat) (rest : Bytes) (h : readHead bs = .ok (.list n rest)) :
    bs = header 0xC0 n ++ rest ∧ n < 2 ^ 64 := by
  cases bs with
  | nil => simp [readHead] at h
  | cons c cs =>
    simp only [readHead] at h
    split at h
    · simp at h
    · rename_i h1
      split at h
      · simp at h
      · rename_i h2
        split at h
        · split at h <;> simp at h
        · rename_i h3
          split at h
          · rename_i h4
            simp only [Except.ok.injEq, Hd.list.injEq] at h
            obtain ⟨hn, hr⟩ := h
            rw [u8_lt_iff] at h3 h4
            have hc3 : (192:UInt8).toNat = 192 := rfl
            have hc4 : (248:UInt8).toNat = 248 := rfl
            rw [hc3] at h3; rw [hc4] at h4
            have hn56 : n < 56 := by omega
            refine ⟨?_, by omega⟩
            unfold header
            simp only [hn56, if_true, List.singleton_append]
            rw [← hr, ← hn]
            have : 0xC0 + (c.toNat - 0xC0) = c.toNat := by omega
            rw [this, u8_ofNat_toNat]
          · rename_i h4
            split at h
            · rename_i n' r' hrs
              simp only [Except.ok.injEq, Hd.list.injEq] at h
              obtain ⟨hn, hr⟩ := h
              subst hn; subst hr
              obtain ⟨hcs, hlen, h56⟩ := readSize_ok _ _ _ _ hrs
              rw [u8_lt_iff] at h4
              have hc4 : (248:UInt8).toNat = 248 := rfl
              rw [hc4] at h4
              have hc255 := c.toNat_lt
              have hlt : n' < 2 ^ 64 := by
                have := beNat_lt (beBytes n')
                rw [beNat_beBytes] at this
                have hl8 : (beBytes n').length ≤ 8 := by omega
                calc n' < 256 ^ (beBytes n').length := this
                  _ ≤ 256 ^ 8 := Nat.pow_le_pow_right (by omega) hl8
                  _ = 2 ^ 64 := by decide
              refine ⟨?_, hlt⟩
              unfold header
              rw [if_neg (by omega)]
              simp only [List.cons_append]
              rw [hcs, hlen]
              have : 0xC0 + 55 + (c.toNat - 0xF7) = c.toNat := by omega
              rw [this, u8_ofNat_toNat]
            · simp at h

/-- Canonicity, fuel-indexed: whatever the decoder accepts is the encoder's output for the value it returns. -/
theorem dec_canon (f : Nat) :
    (∀ bs it rest, decItem f bs = .ok (it, rest) → bs = enc it ++ rest ∧ it.sizeOk = true) ∧
    (∀ bs xs, decList f bs = .ok xs → bs = encList xs ∧ Item.sizeOkList xs = true) := by
  induction f with
  | zero => constructor <;> intros <;> simp_all [decItem, decList]
  | succ f ih =>
    obtain ⟨ihI, ihL⟩ := ih
    constructor
    · intro bs it rest h
      simp only [decItem] at h
      split at h
      · simp at h
      · rename_i b r hh
        simp only [Except.ok.injEq, Prod.mk.injEq] at h
        obtain ⟨hit, hr⟩ := h
        obtain ⟨hbs, hb⟩ := readHead_ok_byte _ _ _ hh
        subst hit; subst hr
        simp [enc, encStr, hb, hbs, Item.sizeOk]
      · rename_i n r hh
        obtain ⟨hbs, hn⟩ := readHead_ok_str _ _ _ hh
        by_cases hl : r.length < n
        · simp [hl] at h
        · simp only [hl, if_false] at h
          have hlen : (r.take n).length = n := by rw [List.length_take]; omega
          split at h
          · rename_i x hx
            by_cases hx80 : x < 0x80
            · simp [hx80] at h
            · simp only [hx80, if_false, Except.ok.injEq, Prod.mk.injEq] at h
              obtain ⟨hit, hr⟩ := h
              subst hit; subst hr
              have hn1 : n = 1 := by rw [hx] at hlen; simpa using hlen.symm
              subst hn1
              refine ⟨?_, by simp [Item.sizeOk, hx]⟩
              rw [hbs]
              simp only [enc, encStr, hx, hx80, if_false]
              rw [List.append_assoc]
              congr 1
              rw [← hx, List.take_append_drop]
          · rename_i hns
            simp only [Except.ok.injEq, Prod.mk.injEq] at h
            obtain ⟨hit, hr⟩ := h
            subst hit; subst hr
            refine ⟨?_, by simp [Item.sizeOk, hlen, hn]⟩
            rw [hbs]
            simp only [enc]
            unfold encStr
            split
            · rename_i x heq
              exact absurd heq (hns x)
            · rw [hlen, List.append_assoc, List.take_append_drop]
      · rename_i n r hh
        obtain ⟨hbs, hn⟩ := readHead_ok_list _ _ _ hh
        by_cases hl : r.length < n
        · simp [hl] at h
        · simp only [hl, if_false] at h
          have hlen : (r.take n).length = n := by rw [List.length_take]; omega
          split at h
          · rename_i xs hxs
            simp only [Except.ok.injEq, Prod.mk.injEq] at h
            obtain ⟨hit, hr⟩ := h
            subst hit; subst hr
            obtain ⟨hp, hso⟩ := ihL _ _ hxs
            have hpl : (encList xs).length = n := by rw [← hp]; exact hlen
            refine ⟨?_, by simp [Item.sizeOk, hso, hpl, hn]⟩
            rw [hbs]
            simp only [enc]
            rw [hpl, ← hp, List.append_assoc, List.take_append_drop]
          · simp at h
    · intro bs xs h
      cases bs with
      | nil => simp only [decList, Except.ok.injEq] at h; subst h; simp [encList, Item.sizeOkList]
      | cons b bs' =>
        simp only [decList] at h
        split at h
        · rename_i x rest hx
          split at h
          · rename_i ys hys
            simp only [Except.ok.injEq] at h
            subst h
            obtain ⟨h1, s1⟩ := ihI _ _ _ hx
            obtain ⟨h2, s2⟩ := ihL _ _ hys
            refine ⟨?_, by simp [Item.sizeOkList, s1, s2]⟩
            rw [h1, h2]; simp [encList]
          · simp at h
        · simp at h

end Aqv.Rlp

/-
  Aqv.Lemmas.EvmInv — helper lemmas for property C08: what one executed instruction preserves (in-range stack words, memory
  length, gas, lastGasCost, a bounded program counter) — the invariant that carries the whole-program induction.
-/
import Aqv.Lemmas.EvmExec
namespace Aqv.Evm
open Aqv Aqv.Big Aqv.Gen.VmTable

structure EnvOk (env : Env) (H : Bytes → Bytes) : Prop where
  hH : ∀ x, (H x).length = 32
  hcode : env.code.size < 2 ^ 62
  hrd : env.returndata.length < 2 ^ 64
  hcd : env.calldata.length < 2 ^ 256
  haddr : env.address < 2 ^ 256
  hcaller : env.caller < 2 ^ 256
  horigin : env.origin < 2 ^ 256
  hvalue : env.callvalue < 2 ^ 256
  hprice : env.gasprice < 2 ^ 256
  hcoinbase : env.coinbase < 2 ^ 256
  htime : env.timestamp < 2 ^ 256
  hnumber : env.number < 2 ^ 256
  hdiff : env.difficulty < 2 ^ 256
  hlimit : env.gaslimit < 2 ^ 256

theorem inRange_ofNat {n : Nat} (h : n < 2 ^ 256) : InRange (Int.ofNat n) := by
  constructor
  · exact Int.natCast_nonneg n
  · show (n : Int) < 2 ^ 256; omega

theorem beNat_lt_256 (bs : Bytes) (h : bs.length ≤ 32) : beNat bs < 2 ^ 256 := by
  have h1 := beNat_lt bs
  have h2 : 256 ^ bs.length ≤ 256 ^ 32 := Nat.pow_le_pow_right (by decide) h
  have h3 : (256 : Nat) ^ 32 = 2 ^ 256 := by decide
  omega

theorem specAlu_inRange (opc : Nat) (a : List Int) (r : Int) (h : specAlu opc a = some r) : InRange r := by
  unfold specAlu at h
  cases hs : specAluW opc (a.map w256) with
  | none => rw [hs] at h; cases h
  | some v =>
    rw [hs] at h
    simp only [Option.map_some, Option.some.injEq] at h
    subst h
    exact inRange_ofNat v.isLt

/-- what one executed instruction does to the machine besides its result: in-range stack, memory length, gas and lastGasCost
    untouched, and where the program counter can go -/
theorem exec_inv (env : Env) (H : Bytes → Bytes) (hE : EnvOk env H) (en : Entry) (opc : Nat) (m : Machine)
    (hst : ∀ v ∈ m.stack, InRange v) (hpc : m.pc < 2 ^ 62) (hmem : m.mem.length < 2 ^ 62) (hgas : m.gas < 2 ^ 60)
    (ret : Bytes) (m2 : Machine) (h : specExec env H en opc m = .cont ret m2) :
    (∀ v ∈ m2.stack, InRange v) ∧ m2.mem.length = m.mem.length ∧ m2.gas = m.gas ∧ m2.last = m.last ∧ m2.pc < 2 ^ 62 + 33 := by
  have hd := decode_sound opc
  have hb := back_inRange m.stack hst
  have hrest : ∀ v ∈ m.stack.drop en.pops, InRange v := fun v hv => hst v (List.mem_of_mem_drop hv)
  have hcons : ∀ (x : Int) (l : List Int), InRange x → (∀ v ∈ l, InRange v) → ∀ v ∈ x :: l, InRange v := by
    intro x l hx hl v hv
    rcases List.mem_cons.1 hv with rfl | hv
    · exact hx
    · exact hl v hv
  have hcode := hE.hcode
  unfold specExec at h
  cases hdec : decode opc with
  | push n =>
    rw [hdec] at h hd; simp only [instrOk] at hd
    simp only [Step.cont.injEq] at h
    obtain ⟨_, rfl⟩ := h
    refine ⟨hcons _ _ (inRange_ofNat (beNat_lt_256 _ (by rw [specRead_length]; omega))) hst, rfl, rfl, rfl, ?_⟩
    show m.pc + n < _; omega
  | dup n =>
    rw [hdec] at h
    simp only [Step.cont.injEq] at h
    obtain ⟨_, rfl⟩ := h
    exact ⟨hcons _ _ (hb _) hst, rfl, rfl, rfl, by show m.pc < _; omega⟩
  | swap k =>
    rw [hdec] at h
    simp only [Step.cont.injEq] at h
    obtain ⟨_, rfl⟩ := h
    refine ⟨?_, rfl, rfl, rfl, by show m.pc < _; omega⟩
    intro v hv
    rcases List.mem_or_eq_of_mem_set hv with hv | rfl
    · rcases List.mem_or_eq_of_mem_set hv with hv | rfl
      · exact hst v hv
      · exact hb _
    · exact hb _
  | stop =>
    rw [hdec] at h
    simp only [Step.cont.injEq] at h
    obtain ⟨_, rfl⟩ := h
    exact ⟨hst, rfl, rfl, rfl, by omega⟩
  | jumpdest =>
    rw [hdec] at h
    simp only [Step.cont.injEq] at h
    obtain ⟨_, rfl⟩ := h
    exact ⟨hst, rfl, rfl, rfl, by omega⟩
  | alu =>
    rw [hdec] at h
    simp only [] at h
    cases hs : specAlu opc (m.stack.take en.pops) with
    | none => rw [hs] at h; cases h
    | some r =>
      rw [hs] at h
      simp only [pushI, Step.cont.injEq] at h
      obtain ⟨_, rfl⟩ := h
      exact ⟨hcons _ _ (specAlu_inRange _ _ _ hs) hrest, rfl, rfl, rfl, by show m.pc < _; omega⟩
  | sha3 =>
    rw [hdec] at h
    simp only [pushN, pushI, Step.cont.injEq] at h
    obtain ⟨_, rfl⟩ := h
    exact ⟨hcons _ _ (inRange_ofNat (beNat_lt_256 _ (by rw [hE.hH]; omega))) hrest, rfl, rfl, rfl, by show m.pc < _; omega⟩
  | address =>
    rw [hdec] at h
    simp only [pushN, pushI, Step.cont.injEq] at h
    obtain ⟨_, rfl⟩ := h
    exact ⟨hcons _ _ (inRange_ofNat hE.haddr) hrest, rfl, rfl, rfl, by show m.pc < _; omega⟩
  | origin =>
    rw [hdec] at h
    simp only [pushN, pushI, Step.cont.injEq] at h
    obtain ⟨_, rfl⟩ := h
    exact ⟨hcons _ _ (inRange_ofNat hE.horigin) hrest, rfl, rfl, rfl, by show m.pc < _; omega⟩
  | caller =>
    rw [hdec] at h
    simp only [pushN, pushI, Step.cont.injEq] at h
    obtain ⟨_, rfl⟩ := h
    exact ⟨hcons _ _ (inRange_ofNat hE.hcaller) hrest, rfl, rfl, rfl, by show m.pc < _; omega⟩
  | callvalue =>
    rw [hdec] at h
    simp only [pushN, pushI, Step.cont.injEq] at h
    obtain ⟨_, rfl⟩ := h
    exact ⟨hcons _ _ (inRange_ofNat hE.hvalue) hrest, rfl, rfl, rfl, by show m.pc < _; omega⟩
  | gasprice =>
    rw [hdec] at h
    simp only [pushN, pushI, Step.cont.injEq] at h
    obtain ⟨_, rfl⟩ := h
    exact ⟨hcons _ _ (inRange_ofNat hE.hprice) hrest, rfl, rfl, rfl, by show m.pc < _; omega⟩
  | coinbase =>
    rw [hdec] at h
    simp only [pushN, pushI, Step.cont.injEq] at h
    obtain ⟨_, rfl⟩ := h
    exact ⟨hcons _ _ (inRange_ofNat hE.hcoinbase) hrest, rfl, rfl, rfl, by show m.pc < _; omega⟩
  | timestamp =>
    rw [hdec] at h
    simp only [pushN, pushI, Step.cont.injEq] at h
    obtain ⟨_, rfl⟩ := h
    exact ⟨hcons _ _ (inRange_ofNat hE.htime) hrest, rfl, rfl, rfl, by show m.pc < _; omega⟩
  | number =>
    rw [hdec] at h
    simp only [pushN, pushI, Step.cont.injEq] at h
    obtain ⟨_, rfl⟩ := h
    exact ⟨hcons _ _ (inRange_ofNat hE.hnumber) hrest, rfl, rfl, rfl, by show m.pc < _; omega⟩
  | difficulty =>
    rw [hdec] at h
    simp only [pushN, pushI, Step.cont.injEq] at h
    obtain ⟨_, rfl⟩ := h
    exact ⟨hcons _ _ (inRange_ofNat hE.hdiff) hrest, rfl, rfl, rfl, by show m.pc < _; omega⟩
  | gaslimit =>
    rw [hdec] at h
    simp only [pushN, pushI, Step.cont.injEq] at h
    obtain ⟨_, rfl⟩ := h
    exact ⟨hcons _ _ (inRange_ofNat hE.hlimit) hrest, rfl, rfl, rfl, by show m.pc < _; omega⟩
  | calldatasize =>
    rw [hdec] at h
    simp only [pushN, pushI, Step.cont.injEq] at h
    obtain ⟨_, rfl⟩ := h
    exact ⟨hcons _ _ (inRange_ofNat hE.hcd) hrest, rfl, rfl, rfl, by show m.pc < _; omega⟩
  | calldataload =>
    rw [hdec] at h
    simp only [pushN, pushI, Step.cont.injEq] at h
    obtain ⟨_, rfl⟩ := h
    exact ⟨hcons _ _ (inRange_ofNat (beNat_lt_256 _ (by rw [specRead_length]; omega))) hrest, rfl, rfl, rfl, by show m.pc < _; omega⟩
  | codesize =>
    rw [hdec] at h
    simp only [pushN, pushI, Step.cont.injEq] at h
    obtain ⟨_, rfl⟩ := h
    exact ⟨hcons _ _ (inRange_ofNat (by omega)) hrest, rfl, rfl, rfl, by show m.pc < _; omega⟩
  | returndatasize =>
    rw [hdec] at h
    simp only [pushN, pushI, Step.cont.injEq] at h
    obtain ⟨_, rfl⟩ := h
    exact ⟨hcons _ _ (inRange_ofNat (by have := hE.hrd; omega)) hrest, rfl, rfl, rfl, by show m.pc < _; omega⟩
  | mload =>
    rw [hdec] at h
    simp only [pushN, pushI, Step.cont.injEq] at h
    obtain ⟨_, rfl⟩ := h
    exact ⟨hcons _ _ (inRange_ofNat (beNat_lt_256 _ (by rw [specRead_length]; omega))) hrest, rfl, rfl, rfl, by show m.pc < _; omega⟩
  | pc =>
    rw [hdec] at h
    simp only [pushN, pushI, Step.cont.injEq] at h
    obtain ⟨_, rfl⟩ := h
    exact ⟨hcons _ _ (inRange_ofNat (by omega)) hrest, rfl, rfl, rfl, by show m.pc < _; omega⟩
  | msize =>
    rw [hdec] at h
    simp only [pushN, pushI, Step.cont.injEq] at h
    obtain ⟨_, rfl⟩ := h
    exact ⟨hcons _ _ (inRange_ofNat (by omega)) hrest, rfl, rfl, rfl, by show m.pc < _; omega⟩
  | gas =>
    rw [hdec] at h
    simp only [pushN, pushI, Step.cont.injEq] at h
    obtain ⟨_, rfl⟩ := h
    exact ⟨hcons _ _ (inRange_ofNat (by omega)) hrest, rfl, rfl, rfl, by show m.pc < _; omega⟩
  | calldatacopy =>
    rw [hdec] at h
    simp only [Step.cont.injEq] at h
    obtain ⟨_, rfl⟩ := h
    exact ⟨hrest, by show (specWrite _ _ _).length = _; rw [specWrite_length], rfl, rfl, by show m.pc < _; omega⟩
  | codecopy =>
    rw [hdec] at h
    simp only [Step.cont.injEq] at h
    obtain ⟨_, rfl⟩ := h
    exact ⟨hrest, by show (specWrite _ _ _).length = _; rw [specWrite_length], rfl, rfl, by show m.pc < _; omega⟩
  | mstore =>
    rw [hdec] at h
    simp only [Step.cont.injEq] at h
    obtain ⟨_, rfl⟩ := h
    exact ⟨hrest, by show (specWrite _ _ _).length = _; rw [specWrite_length], rfl, rfl, by show m.pc < _; omega⟩
  | mstore8 =>
    rw [hdec] at h
    simp only [Step.cont.injEq] at h
    obtain ⟨_, rfl⟩ := h
    exact ⟨hrest, by show (specWrite _ _ _).length = _; rw [specWrite_length], rfl, rfl, by show m.pc < _; omega⟩
  | returndatacopy =>
    rw [hdec] at h
    simp only [] at h
    split at h
    · cases h
    · simp only [Step.cont.injEq] at h
      obtain ⟨_, rfl⟩ := h
      exact ⟨hrest, by show (specWrite _ _ _).length = _; rw [specWrite_length], rfl, rfl, by show m.pc < _; omega⟩
  | pop =>
    rw [hdec] at h
    simp only [Step.cont.injEq] at h
    obtain ⟨_, rfl⟩ := h
    exact ⟨hrest, rfl, rfl, rfl, by show m.pc < _; omega⟩
  | ret =>
    rw [hdec] at h
    simp only [Step.cont.injEq] at h
    obtain ⟨_, rfl⟩ := h
    exact ⟨hrest, rfl, rfl, rfl, by show m.pc < _; omega⟩
  | jump =>
    rw [hdec] at h
    simp only [] at h
    split at h
    · rename_i hv
      simp only [Step.cont.injEq] at h
      obtain ⟨_, rfl⟩ := h
      refine ⟨hrest, rfl, rfl, rfl, ?_⟩
      unfold EvmSpec.validJumpdest at hv
      simp only [Bool.and_eq_true, decide_eq_true_eq, Array.length_toList] at hv
      show (back m.stack 0).toNat < _; omega
    · cases h
  | jumpi =>
    rw [hdec] at h
    simp only [] at h
    split at h
    · split at h
      · rename_i hv
        simp only [Step.cont.injEq] at h
        obtain ⟨_, rfl⟩ := h
        refine ⟨hrest, rfl, rfl, rfl, ?_⟩
        unfold EvmSpec.validJumpdest at hv
        simp only [Bool.and_eq_true, decide_eq_true_eq, Array.length_toList] at hv
        show (back m.stack 0).toNat < _; omega
      · cases h
    · simp only [Step.cont.injEq] at h
      obtain ⟨_, rfl⟩ := h
      exact ⟨hrest, rfl, rfl, rfl, by show m.pc + 1 < _; omega⟩
  | other => rw [hdec] at h; cases h
end Aqv.Evm

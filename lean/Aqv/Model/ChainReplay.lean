/-
  Aqv.Model.ChainReplay — replay of harness histories on `Aqv.Model.Chain` (shared by the drivers of C02 and C03).
  Core Lean only.

  A case line is  `hist <prop> <mode> <tree> <ops>` TAB `<dump>;<dump>;…`  (one dump per operation):
    tree   id:parent:number:difficulty:tx.tx.tx | …          (node 0 is the genesis block)
    ops    I1.2.3 (InsertChain)  H1.2 (InsertHeaderChain)  S4 (SetHead)  R (Stop + reopen), separated by `;`
    dump   e=…/h=…/hh=…/fh=…/c=…/td=…/lk=…/st=…/rc=…/sa=…/od=…   (see go/harness/c0203)
  The model is run on the same operations.  Where the Go code flips a coin (exact total-difficulty tie at equal height)
  every resolution is followed, and the set of candidate model states is filtered by the observed dump: the replay
  agrees iff after every operation at least one candidate renders exactly to what the real chain showed.
  On a mismatch the Go dump is judged by the executable Spec (`specC03` / `specC02`).
-/
import Aqv.Base.Proto
import Aqv.Model.Chain
import Aqv.Model.ChainMixed
namespace Aqv.ChainReplay
open Aqv.Chain Aqv.Proto

structure Tree where
  nodes : List Blk
  maxH : Nat
  ntx : Nat

def natOr (s : String) (d : Nat) : Nat := (s.toNat?).getD d

def splitNonEmpty (s : String) (sep : String) : List String := (s.splitOn sep).filter (· ≠ "")

def parseBlk (s : String) : Option Blk :=
  match s.splitOn ":" with
  | [i, p, n, d, txs] =>
    match i.toNat?, p.toNat?, n.toNat?, d.toNat? with
    | some i, some p, some n, some d => some ⟨i, p, n, d, (splitNonEmpty txs ".").map (natOr · 0)⟩
    | _, _, _, _ => none
  | _ => none

def parseTree (s : String) : Option Tree :=
  let bs := (s.splitOn "|").map parseBlk
  if bs.all Option.isSome then
    let nodes := bs.filterMap id
    let maxH := nodes.foldl (fun m b => max m b.number) 0
    let ntx := nodes.foldl (fun m b => b.txs.foldl (fun m t => max m (t + 1)) m) 0
    some ⟨nodes, maxH, ntx⟩
  else none

inductive Op
  | ins (ids : List Nat)
  | hdr (ids : List Nat)
  | setHead (n : Nat)
  | reopen

def parseOp (s : String) : Option Op :=
  match s.toList with
  | 'I' :: r => some (.ins ((splitNonEmpty (String.ofList r) ".").map (natOr · 0)))
  | 'H' :: r => some (.hdr ((splitNonEmpty (String.ofList r) ".").map (natOr · 0)))
  | 'S' :: r => (String.ofList r).toNat?.map .setHead
  | ['R'] => some .reopen
  | _ => none

def errStr : Err → String
  | .unknownAncestor => "unknown-ancestor"
  | .unknownGrandparent => "unknown-grandparent"
  | .reorgFail => "reorg-fail"
  | .nonContiguous => "non-contiguous"
  | .missingState => "missing-state"
  | .modelPanic => "panic"

def joinWith (sep : String) (xs : List String) : String := sep.intercalate xs

def idsWhere (t : Tree) (p : Nat → Bool) : String :=
  joinWith "." ((t.nodes.filter (fun b => p b.id)).map (fun b => toString b.id))

def optId : Option Nat → String
  | some i => toString i
  | none => "-"

def renderCanon (t : Tree) (canon : Map Nat) : String :=
  joinWith "." ((List.range (t.maxH + 3)).map (fun n => optId (canon n)))

def renderTd (t : Tree) (td : Map Nat) : String :=
  joinWith "," (t.nodes.filterMap (fun b => (td b.id).map (fun x => toString b.id ++ ":" ++ toString x)))

/-- the dump of a full chain, field by field as the harness prints it -/
def render (t : Tree) (res : String) (s : St) : String :=
  let lk := joinWith "," ((List.range t.ntx).filterMap (fun x => (s.lookup x).map (fun l =>
    toString x ++ ":" ++ toString l.blk ++ ":" ++ toString l.num ++ ":" ++ toString l.idx)))
  "e=" ++ res ++ "/h=" ++ toString s.head ++ "/hh=" ++ toString s.hhead ++ "/fh=" ++ toString s.fhead ++
  "/c=" ++ renderCanon t s.canon ++ "/td=" ++ renderTd t s.td ++ "/lk=" ++ lk ++
  "/st=" ++ idsWhere t (fun i => (s.store i).isSome) ++ "/rc=" ++ idsWhere t s.receipts ++
  "/sa=" ++ idsWhere t s.hasState ++ "/od=" ++ idsWhere t s.onDisk

/-- the dump of a header-only chain: block head, fast head, receipts and state stay those of the genesis block -/
def hrender (t : Tree) (res : String) (s : HSt) : String :=
  let g := toString s.genesis.id
  "e=" ++ res ++ "/h=" ++ g ++ "/hh=" ++ toString s.hhead ++ "/fh=" ++ g ++
  "/c=" ++ renderCanon t s.canon ++ "/td=" ++ renderTd t s.td ++ "/lk=" ++
  "/st=" ++ idsWhere t (fun i => (s.store i).isSome) ++ "/rc=" ++ g ++ "/sa=" ++ g ++ "/od=" ++ g

/-- the dump of a chain fed through both import paths, restricted to what the td-level model `MSt` describes -/
def mrender (t : Tree) (res : String) (s : MSt) : String :=
  "e=" ++ res ++ "/h=" ++ toString s.head ++ "/hh=" ++ toString s.hhead ++ "/td=" ++ renderTd t s.td ++
  "/st=" ++ idsWhere t (fun i => (s.hdr i).isSome) ++ "/bk=" ++ idsWhere t s.blk

/-- the full dump of a chain fed through both paths (index-level model `XSt`): `st` lists the headers present, `bk` the
    blocks with bodies -/
def xrender (t : Tree) (res : String) (s : XSt) : String :=
  let lk := joinWith "," ((List.range t.ntx).filterMap (fun x => (s.full.lookup x).map (fun l =>
    toString x ++ ":" ++ toString l.blk ++ ":" ++ toString l.num ++ ":" ++ toString l.idx)))
  "e=" ++ res ++ "/h=" ++ toString s.full.head ++ "/hh=" ++ toString s.full.hhead ++ "/fh=" ++ toString s.full.fhead ++
  "/c=" ++ renderCanon t s.full.canon ++ "/td=" ++ renderTd t s.full.td ++ "/lk=" ++ lk ++
  "/st=" ++ idsWhere t (fun i => (s.hdrs i).isSome) ++ "/rc=" ++ idsWhere t s.full.receipts ++
  "/sa=" ++ idsWhere t s.full.hasState ++ "/od=" ++ idsWhere t s.full.onDisk ++
  "/bk=" ++ idsWhere t (fun i => (s.full.store i).isSome)

/-- the same fields of an observed dump -/
def projMixed (d : String) : String :=
  joinWith "/" ((d.splitOn "/").filter (fun f =>
    f.startsWith "e=" || f.startsWith "h=" || f.startsWith "hh=" || f.startsWith "td=" || f.startsWith "st=" ||
    f.startsWith "bk="))

/-- fields of a dump compared for C02 (fork choice, total difficulties, what is stored / validated) -/
def projC02 (d : String) : String :=
  joinWith "/" ((d.splitOn "/").filter (fun f =>
    f.startsWith "e=" || f.startsWith "h=" || f.startsWith "hh=" || f.startsWith "td=" || f.startsWith "st=" ||
    f.startsWith "sa=" || f.startsWith "od="))

def proj (prop : String) (d : String) : String := if prop == "C02" then projC02 d else d

def boolVecs : Nat → List (List Bool)
  | 0 => [[]]
  | k + 1 => (boolVecs k).flatMap fun v => [false :: v, true :: v]

/-- coin vectors of length `n` with at most `k` coins `true` -/
def sparseVecs : Nat → Nat → List (List Bool)
  | 0, _ => [[]]
  | n + 1, k =>
    (sparseVecs n k).map (false :: ·) ++ (if k = 0 then [] else (sparseVecs n (k - 1)).map (true :: ·))

/-- The coin resolutions followed for one `importOne` that makes up to `n` `WriteBlockWithState` calls (the re-import of
    `n - 1` stateless ancestors plus the block itself).  A coin is only looked at by a call that meets an exact
    total-difficulty tie at equal height, so all `2^n` vectors are followed up to 6 calls and, beyond that, every vector with
    at most 3 heads (no generated tree has more than 3 exact ties along one ancestry) — NOT a truncation to the first calls:
    the block itself uses the LAST coin. -/
def coinVecs (n : Nat) : List (List Bool) := if n ≤ 6 then boolVecs n else sparseVecs n 3

/-- the same for a header batch of `n` headers (one coin per header written): all vectors up to 8, at most 3 heads beyond -/
def hdrCoinVecs (n : Nat) : List (List Bool) := if n ≤ 8 then boolVecs n else sparseVecs n 3

def dedupBy {α : Type} (key : α → String) (xs : List α) : List α :=
  (xs.foldl (fun (acc : List String × List α) x =>
    let k := key x
    if acc.1.contains k then acc else (k :: acc.1, x :: acc.2)) ([], [])).2.reverse

def blocksOf (t : Tree) (ids : List Nat) : List Blk :=
  ids.filterMap (fun i => t.nodes.find? (fun b => b.id == i))

/-- number of `WriteBlockWithState` calls one `importOne` can make (coins to enumerate) -/
def coinSlots (s : St) (b : Blk) : Nat :=
  match parentOf s.store b with
  | some p =>
    match statelessAncestors s (p.number + 1) p with
    | some w => w.length + 1
    | none => 1
  | none => 1

/-- all outcomes of `importChain` over the resolutions of the coin, as (state, result string) -/
def importChainND (t : Tree) (s : St) (chain : List Blk) (wide : Bool := false) : List (St × String) :=
  let rec go (cands : List St) (bs : List Blk) (i : Nat) (fin : List (St × String)) : List (St × String) :=
    match bs with
    | [] => fin ++ cands.map (fun c => (c, "ok"))
    | b :: rest =>
      let outs := cands.flatMap fun c => (if wide then boolVecs (min (coinSlots c b) 12) else coinVecs (coinSlots c b)).map fun v => importOne c b v
      let errs := outs.filterMap fun o => o.err.map fun e =>
        (o.st, if e == .modelPanic then "panic" else errStr e ++ "@" ++ toString i)
      let oks := dedupBy (render t "") ((outs.filter (fun o => o.err.isNone)).map (·.st))
      go oks rest (i + 1) (fin ++ errs)
  go [s] (contigPrefix chain) 0 []

def hImportChainND (t : Tree) (s : HSt) (chain : List Blk) (wide : Bool := false) : List (HSt × String) :=
  let outs := (if wide then boolVecs (min chain.length 12) else hdrCoinVecs chain.length).map fun v => hImportChain s chain v
  dedupBy (fun x => hrender t x.2 x.1) (outs.map fun (o, i) =>
    match o.err with
    | some .modelPanic => (o.st, "panic")
    | some e => (o.st, errStr e ++ "@" ++ toString i)
    | none => (o.st, "ok"))

/-- all outcomes of `mImportChain` over the coin and over `updateHeads` -/
def mImportChainND (t : Tree) (s : MSt) (chain : List Blk) : List (MSt × String) :=
  let rec go (cands : List MSt) (bs : List Blk) (i : Nat) (fin : List (MSt × String)) : List (MSt × String) :=
    match bs with
    | [] => fin ++ cands.map (fun c => (c, "ok"))
    | b :: rest =>
      let hhs : List (Option Nat) := none :: (List.range (b.number + 1)).map some
      let outs := cands.flatMap fun c =>
        hhs.flatMap fun hh => [false, true].map fun coin => mImportOne c b coin hh
      let errs := outs.filterMap fun o => o.err.map fun e =>
        (o.st, if e == .modelPanic then "panic" else errStr e ++ "@" ++ toString i)
      let oks := dedupBy (mrender t "") ((outs.filter (fun o => o.err.isNone)).map (·.st))
      go oks rest (i + 1) (fin ++ errs)
  go [s] (contigPrefix chain) 0 []

def mImportHeadersND (t : Tree) (s : MSt) (chain : List Blk) (wide : Bool := false) : List (MSt × String) :=
  let outs := (if wide then boolVecs (min chain.length 12) else hdrCoinVecs chain.length).map fun v => mImportHeaders s chain v
  dedupBy (fun x => mrender t x.2 x.1) (outs.map fun (o, i) =>
    match o.err with
    | some .modelPanic => (o.st, "panic")
    | some e => (o.st, errStr e ++ "@" ++ toString i)
    | none => (o.st, "ok"))

/-! ### executable Spec on an observed dump -/

structure Dump where
  e : String
  h : Nat
  hh : Nat
  fh : Nat
  canon : List (Option Nat)
  td : List (Nat × Nat)
  lk : List (Nat × Nat × Nat × Nat)
  st : List Nat
  rc : List Nat
  sa : List Nat

def fieldOf (fs : List String) (k : String) : String :=
  match fs.find? (·.startsWith (k ++ "=")) with
  | some f => strDrop f (k.length + 1)
  | none => ""

def parseDump (d : String) : Option Dump :=
  let fs := d.splitOn "/"
  let ids := fun k => (splitNonEmpty (fieldOf fs k) ".").map (natOr · 0)
  match (fieldOf fs "h").toNat?, (fieldOf fs "hh").toNat?, (fieldOf fs "fh").toNat? with
  | some h, some hh, some fh =>
    let canon := (splitNonEmpty (fieldOf fs "c") ".").map (fun x => x.toNat?)
    let td := (splitNonEmpty (fieldOf fs "td") ",").filterMap (fun x =>
      match x.splitOn ":" with
      | [a, b] => match a.toNat?, b.toNat? with | some a, some b => some (a, b) | _, _ => none
      | _ => none)
    let lk := (splitNonEmpty (fieldOf fs "lk") ",").filterMap (fun x =>
      match (x.splitOn ":").map String.toNat? with
      | [some a, some b, some c, some d] => some (a, b, c, d)
      | _ => none)
    some ⟨fieldOf fs "e", h, hh, fh, canon, td, lk, ids "st", ids "rc", ids "sa"⟩
  | _, _, _ => none

def blkOf (t : Tree) (i : Nat) : Option Blk := t.nodes.find? (fun b => b.id == i)

/-- ancestor of node `i` at height `n` in the TREE (the builder's parent relation, not the database) -/
def ancestorAt (t : Tree) : Nat → Nat → Nat → Option Nat
  | 0, _, _ => none
  | f + 1, i, n =>
    match blkOf t i with
    | none => none
    | some b => if b.number = n then some i else if b.number < n then none else ancestorAt t f b.parent n

def tdOf (d : Dump) (i : Nat) : Option Nat := (d.td.find? (fun p => p.1 == i)).map (·.2)

/-- C03 on a dump: index = ancestors of the header head, nothing above; block head on that chain; header, body,
    receipts and td for every canonical block up to the block head; lookups exactly the canonical transactions. -/
def specC03 (t : Tree) (headers : Bool) (d : Dump) : Option String :=
  match blkOf t d.hh, blkOf t d.h with
  | some hb, some bb =>
    let fuel := t.maxH + 2
    let idxBad := (List.range (t.maxH + 3)).any fun n =>
      let got := (d.canon.getD n none)
      if n ≤ hb.number then got != ancestorAt t fuel d.hh n else got != none
    if idxBad then some "index-does-not-describe-the-chain-of-the-head"
    else if !headers && ancestorAt t fuel d.hh bb.number != some d.h then some "block-head-not-on-header-chain"
    else
      let blockTop := if headers then 0 else bb.number
      let missing := (List.range (hb.number + 1)).any fun n =>
        match ancestorAt t fuel d.hh n with
        | none => true
        | some i => (tdOf d i).isNone || !d.st.contains i || (n ≤ blockTop && !headers && !d.rc.contains i)
      if missing then some "canonical-block-not-retrievable"
      else if headers then (if d.lk.isEmpty then none else some "lookup-on-header-chain")
      else
        -- expected lookups: transactions of canonical blocks whose body is stored
        let want : List (Nat × Nat × Nat × Nat) := (List.range (hb.number + 1)).flatMap fun n =>
          match ancestorAt t fuel d.hh n with
          | none => []
          | some i =>
            match blkOf t i with
            | none => []
            | some b => (b.txs.zipIdx).map fun (tx, k) => (tx, i, n, k)
        if want.all (fun w => d.lk.contains w) && d.lk.all (fun l => want.contains l) then none
        else some "lookups-differ-from-canonical-transactions"
  | _, _ => some "head-unknown"

/-- C03 on the dump of a mixed history: the number index is the ancestry of the header head and nothing is indexed
    above it (what only full imports provide is judged by the harness against the chain of the block head) -/
def specC03Mixed (t : Tree) (d : Dump) : Option String :=
  match blkOf t d.hh with
  | some hb =>
    let fuel := t.maxH + 2
    let idxBad := (List.range (t.maxH + 3)).any fun n =>
      let got := (d.canon.getD n none)
      if n ≤ hb.number then got != ancestorAt t fuel d.hh n else got != none
    if idxBad then some "index-does-not-describe-the-chain-of-the-header-head" else none
  | none => some "head-unknown"

/-- C02 on a dump: td recurrence for every stored block whose parent td is recorded; the head is at least as heavy as
    every stored block that has its state (fully validated), when `importsOnly`. -/
def specC02 (t : Tree) (headers importsOnly : Bool) (d : Dump) : Option String :=
  let recBad := d.st.any fun i =>
    match blkOf t i, tdOf d i with
    | some b, some x =>
      if i == 0 then x != b.diff
      else match tdOf d b.parent with
        | some p => x != p + b.diff
        | none => false
    | _, _ => true
  if recBad then some "td-recurrence"
  else
    let hd := if headers then d.hh else d.h
    match tdOf d hd with
    | none => some "head-without-td"
    | some htd =>
      let cand := if headers then d.st else d.st.filter (fun i => d.sa.contains i)
      if importsOnly && cand.any (fun i => match tdOf d i with | some x => x > htd | none => false)
      then some "head-not-heaviest" else none

/-! ### the replay -/

inductive Cands
  | full (cs : List St)
  | hdrs (cs : List HSt)
  | mixed (cs : List MSt)
  | xmixed (cs : List XSt)

def stepND (t : Tree) (c : Cands) (op : Op) (wide : Bool := false) : List (Cands × String) :=
  match c, op with
  | .full cs, .ins ids =>
    (cs.flatMap fun s => importChainND t s (blocksOf t ids) wide).map fun (s, r) => (.full [s], render t r s)
  | .full cs, .setHead n =>
    cs.map fun s =>
      let o := setHead s n
      (.full [o.st], render t (match o.err with | some e => errStr e | none => "ok") o.st)
  | .full cs, .reopen => cs.map fun s => (.full [reopen s], render t "ok" (reopen s))
  | .hdrs cs, .hdr ids =>
    (cs.flatMap fun s => hImportChainND t s (blocksOf t ids) wide).map fun (s, r) => (.hdrs [s], hrender t r s)
  | .hdrs cs, .setHead n =>
    cs.map fun s =>
      let o := hSetHead s n
      (.hdrs [o.st], hrender t (match o.err with | some e => errStr e | none => "ok") o.st)
  | .hdrs cs, .reopen => cs.map fun s => (.hdrs [s], hrender t "ok" s)
  | .mixed cs, .ins ids =>
    (cs.flatMap fun s => mImportChainND t s (blocksOf t ids)).map fun (s, r) => (.mixed [s], mrender t r s)
  | .mixed cs, .hdr ids =>
    (cs.flatMap fun s => mImportHeadersND t s (blocksOf t ids) wide).map fun (s, r) => (.mixed [s], mrender t r s)
  | .xmixed cs, .ins ids =>
    (cs.flatMap fun s =>
      let chain := blocksOf t ids
      (importChainND t (raiseTop s.full chain) chain wide).map fun (st, r) =>
        (({ full := st, hdrs := fun k => match st.store k with | some b => some b | none => s.hdrs k } : XSt), r)).map
      fun (s, r) => (.xmixed [s], xrender t r s)
  | .xmixed cs, .hdr ids =>
    (cs.flatMap fun s =>
      let chain := blocksOf t ids
      (hImportChainND t (toH s) chain wide).map fun (h, r) =>
        (({ full := { raiseTop s.full chain with td := h.td, canon := h.canon, hhead := h.hhead }, hdrs := h.store } : XSt), r)).map
      fun (s, r) => (.xmixed [s], xrender t r s)
  | _, _ => []

def mergeCands (xs : List Cands) : Cands :=
  xs.foldl (fun acc c =>
    match acc, c with
    | .full a, .full b => .full (a ++ b)
    | .hdrs a, .hdrs b => .hdrs (a ++ b)
    | .mixed a, .mixed b => .mixed (a ++ b)
    | .xmixed a, .xmixed b => .xmixed (a ++ b)
    | a, _ => a) (match xs with
      | (.hdrs _) :: _ => .hdrs [] | (.mixed _) :: _ => .mixed [] | (.xmixed _) :: _ => .xmixed [] | _ => .full [])

def tooManyTies : String := "too-many-ties:the-driver-follows-at-most-3-heads-beyond-6-block-or-8-header-coins"

/-- replay; returns (model output, agreed?, index of first mismatch, spec verdict on the Go dump at the mismatch) -/
def replay (prop : String) (t : Tree) (headers : Bool) (c0 : Cands) (ops : List Op) (dumps : List String)
    (mixed : Bool := false) :
    String × Bool × Option String :=
  let rec go (c : Cands) (ops : List Op) (dumps : List String) (k : Nat) (importsOnly : Bool) (acc : List String) :
      String × Bool × Option String :=
    match ops, dumps with
    | [], _ => (joinWith ";" acc.reverse, true, none)
    | _ :: _, [] => (joinWith ";" acc.reverse ++ ";missing-dump", false, some "harness-emitted-fewer-dumps-than-ops")
    | op :: ops', d :: dumps' =>
      let importsOnly := importsOnly && (match op with | .setHead _ => false | _ => true)
      let outs := stepND t c op
      let isHit : Cands × String → Bool := fun x =>
        if mixed && prop == "C02" then x.2 == projMixed d else proj prop x.2 == proj prop d
      let good := outs.filter isHit
      match good with
      | [] =>
        let shown := match outs with | x :: _ => x.2 | [] => "no-model-outcome"
        -- Is the observed outcome one that the model produces under a coin resolution the driver did not follow (more than 3
        -- exact ties within one import of more than 6 resp. 8 calls, `coinVecs_complete`)?  Then say so instead of
        -- reporting a model disagreement.
        let why := if (stepND t c op true).any isHit then some tooManyTies else match parseDump d with
          | none => some "unparsable-dump"
          | some pd =>
            if mixed && prop == "C02" then specC02 t true false pd
            else if mixed then specC03Mixed t pd
            else if prop == "C02" then specC02 t headers importsOnly pd else specC03 t headers pd
        (joinWith ";" acc.reverse ++ ";mismatch@" ++ toString k ++ ":" ++ shown, false, why)
      | _ =>
        let keyOf : Cands × String → String := fun x => x.2
        let good := dedupBy keyOf good
        -- Once the observed database violates C03 (the harness has reported it: a known finding or a violation), the
        -- rest of the history is not compared: the model bounds Go's unbounded deletion loops by the height of the
        -- header head, which is only justified while nothing is indexed above it.
        let broken := prop == "C03" && (match parseDump d with
          | some pd => if mixed then (specC03Mixed t pd).isSome else (specC03 t headers pd).isSome
          | none => false)
        if broken then (joinWith ";" (d :: acc).reverse, true, none)
        else go (mergeCands (good.map (·.1))) ops' dumps' (k + 1) importsOnly (d :: acc)
  go c0 ops dumps 0 true []

/-- handler of one case line for property `prop` ("C02" | "C03") -/
def handle (prop : String) (l : String) : String :=
  let (inp, goOut) := splitCase l
  match fields inp with
  | ["hist", _, mode, tree, opsS] =>
    match parseTree tree with
    | none => "bad-tree\tagree"
    | some t =>
      match t.nodes.head? with
      | none => "bad-tree\tagree"
      | some g =>
        let ops := (splitNonEmpty opsS ";").map parseOp
        -- the hypothesis `World` of the theorems (positive difficulty, no transaction twice along one chain, numbers
        -- consistent with parents) is checked on every generated tree
        if !(worldCheck t.nodes && t.nodes.all (fun b => b.id == g.id || (parentOf (mapOf t.nodes) b).isSome)) then
          "inadmissible-tree\tspec-reject:generated-tree-violates-the-World-assumption-of-the-theorems"
        else if !ops.all Option.isSome then "bad-op\tagree"
        else
          let ops := ops.filterMap id
          let headers := mode == "headers"
          let mixed := mode == "mixed"
          let c0 := if mixed && prop == "C03" then Cands.xmixed [xinit g]
            else if mixed then Cands.mixed [minit g]
            else if headers then Cands.hdrs [hinit g] else Cands.full [init g (mode == "archive")]
          let dumps := goOut.splitOn ";"
          if dumps.length != ops.length then
            "dump-count\tspec-reject:harness-emitted-" ++ toString dumps.length ++ "-dumps-for-" ++ toString ops.length ++ "-ops"
          else
            let (m, ok, why) := replay prop t headers c0 ops dumps mixed
            if ok then goOut ++ "\tagree"
            else
              match why with
              | none => m ++ "\tspec-ok"
              | some w => if w == tooManyTies then m ++ "\t" ++ w else m ++ "\tspec-reject:" ++ w
  | _ => "bad-op\tagree"

end Aqv.ChainReplay

/-
  Aqv.Model.EvmRun — program-level model for property C08 (core-only): Interpreter.Run of core/vm/interpreter.go restricted
  to the opcodes that need no state database (arithmetic, comparison, bitwise, shifts, SHA3, environment constants,
  call-data / code access, stack, memory, control flow, RETURN / REVERT / STOP), one frame, no calls.

  One loop (`run`), two instantiations of its per-step "prologue":
    * Impl (`implPre`)  — driven by the GENERATED table (Aqv.Gen.VmTable): validity, validateStack arities, the memory-size
                          function and the gas function are looked up BY THE NAMES the compiled table holds and evaluated with
                          the UInt64 models of Aqv.Model.EvmOps (overflow outcomes included); results from the op* models.
    * Spec (`specPre`)  — driven by the hand-written table (Aqv.Model.EvmSpec): Yellow-Paper memory expansion and gas on Nat,
                          results from the BitVec 256 semantics, D(c) for jumps.
  The data-movement part of `exec` (PUSH/DUP/SWAP/MLOAD/MSTORE/MSTORE8/CALLDATA*/CODECOPY/SHA3/PC/MSIZE/GAS/RETURN) is shared:
  it is a transcription of both the Go bodies and the Yellow-Paper definitions (they coincide wherever the gas paid allows
  the access at all).
-/
import Aqv.Base.Keccak
import Aqv.Model.EvmOps
import Aqv.Model.EvmSpec
import Aqv.Model.EvmSelect
namespace Aqv.Evm
open Aqv.Big Aqv.Gen.VmTable

inductive Fail where
  | invalid | underflow | limit | oog | overflow | badjump
deriving DecidableEq, Repr

def Fail.name : Fail → String
  | .invalid => "invalid" | .underflow => "underflow" | .limit => "limit" | .oog => "oog" | .overflow => "overflow" | .badjump => "badjump"

inductive Outcome where
  | ok (ret : Bytes) (gasLeft : Nat) (stack : List Int)      -- stack as the halting instruction found it
  | revert (ret : Bytes) (gasLeft : Nat) (stack : List Int)
  | fail (f : Fail)
  | skip (op : Nat)      -- valid opcode outside the modelled subset
  | fuel                 -- cannot happen: every non-halting step costs gas
deriving Repr

structure Env where
  code : Array UInt8
  calldata : Array UInt8
  address : Nat
  caller : Nat
  origin : Nat
  callvalue : Nat
  gasprice : Nat
  coinbase : Nat
  timestamp : Nat
  number : Nat
  difficulty : Nat
  gaslimit : Nat

structure Machine where
  pc : Nat
  stack : List Int          -- head = top
  mem : Array UInt8
  last : UInt64             -- Memory.lastGasCost
  gas : Nat

/-- what the prologue of one step decides: bytes the memory must have (word multiple; 0 = no resize), the cost, and the
    new `lastGasCost` -/
structure Pre where
  memorySize : Nat
  cost : Nat
  last : UInt64

/-- validity / arity / flags of an opcode as seen by the loop -/
structure OpRow where
  pops : Nat
  pushes : Nat
  halts : Bool
  jumps : Bool
  reverts : Bool

abbrev back (st : List Int) (n : Nat) : Int := st.getD n 0

/-- opcode-indexed views of the tables (closed terms: built once per process) -/
def mkIndex {α : Type} (key : α → Nat) (rows : List α) : Array (Option α) :=
  rows.foldl (fun acc r => if key r < 256 then acc.set! (key r) (some r) else acc) (Array.replicate 256 none)

def specIndex : Array (Array (Option EvmSpec.Row)) :=
  #[mkIndex (·.op) (EvmSpec.opcodeTable 0), mkIndex (·.op) (EvmSpec.opcodeTable 1), mkIndex (·.op) (EvmSpec.opcodeTable 2),
    mkIndex (·.op) (EvmSpec.opcodeTable 3)]

def specRowAt (level opc : Nat) : Option EvmSpec.Row := ((specIndex.getD (min level 3) #[]).getD opc none)

def implIndexFrontier : Array (Option OpInfo) := mkIndex (·.op) frontier
def implIndexHomestead : Array (Option OpInfo) := mkIndex (·.op) homestead
def implIndexByzantium : Array (Option OpInfo) := mkIndex (·.op) byzantium
def implIndexConstantinople : Array (Option OpInfo) := mkIndex (·.op) constantinople
def implIndexSpring : Array (Option OpInfo) := mkIndex (·.op) spring

def implInfoAt (e : Epoch) (opc : Nat) : Option OpInfo :=
  (match e with
   | .frontier => implIndexFrontier
   | .homestead => implIndexHomestead
   | .byzantium => implIndexByzantium
   | .constantinople => implIndexConstantinople
   | .spring => implIndexSpring).getD opc none

-- ---------------------------------------------------------------------------------------------------------------------
-- results of the computational opcodes, by opcode

def implAlu (opc : Nat) (a : List Int) : Option Int :=
  match opc, a with
  | 0x01, [x, y] => some (opAdd x y)
  | 0x02, [x, y] => some (opMul x y)
  | 0x03, [x, y] => some (opSub x y)
  | 0x04, [x, y] => some (opDiv x y)
  | 0x05, [x, y] => some (opSdiv x y)
  | 0x06, [x, y] => some (opMod x y)
  | 0x07, [x, y] => some (opSmod x y)
  | 0x08, [x, y, z] => some (opAddmod x y z)
  | 0x09, [x, y, z] => some (opMulmod x y z)
  | 0x0a, [x, y] => some (opExp x y)
  | 0x0b, [x, y] => some (opSignExtend x y)
  | 0x10, [x, y] => some (opLt x y)
  | 0x11, [x, y] => some (opGt x y)
  | 0x12, [x, y] => some (opSlt x y)
  | 0x13, [x, y] => some (opSgt x y)
  | 0x14, [x, y] => some (opEq x y)
  | 0x15, [x] => some (opIszero x)
  | 0x16, [x, y] => some (opAnd x y)
  | 0x17, [x, y] => some (opOr x y)
  | 0x18, [x, y] => some (opXor x y)
  | 0x19, [x] => some (opNot x)
  | 0x1a, [x, y] => some (opByte x y)
  | 0x1b, [x, y] => some (opSHL x y)
  | 0x1c, [x, y] => some (opSHR x y)
  | 0x1d, [x, y] => some (opSAR x y)
  | _, _ => none

def w256 (x : Int) : EvmSpec.W := BitVec.ofNat 256 x.toNat

/-- `sarKnown` = evaluate the Spec with the one recorded deviation (SAR of zero by ≥ 256 gives 2²⁵⁶−1) patched in, so that
    the driver can tell "differs from the Spec only by the known finding" from any other difference. -/
def specAlu (sarKnown : Bool) (opc : Nat) (a : List Int) : Option Int :=
  let r : Option EvmSpec.W :=
    match opc, a.map w256 with
    | 0x01, [x, y] => some (EvmSpec.add x y)
    | 0x02, [x, y] => some (EvmSpec.mul x y)
    | 0x03, [x, y] => some (EvmSpec.sub x y)
    | 0x04, [x, y] => some (EvmSpec.div x y)
    | 0x05, [x, y] => some (EvmSpec.sdiv x y)
    | 0x06, [x, y] => some (EvmSpec.mod x y)
    | 0x07, [x, y] => some (EvmSpec.smod x y)
    | 0x08, [x, y, z] => some (EvmSpec.addmod x y z)
    | 0x09, [x, y, z] => some (EvmSpec.mulmod x y z)
    | 0x0a, [x, y] => some (EvmSpec.exp x y)
    | 0x0b, [x, y] => some (EvmSpec.signextend x y)
    | 0x10, [x, y] => some (EvmSpec.lt x y)
    | 0x11, [x, y] => some (EvmSpec.gt x y)
    | 0x12, [x, y] => some (EvmSpec.slt x y)
    | 0x13, [x, y] => some (EvmSpec.sgt x y)
    | 0x14, [x, y] => some (EvmSpec.eq x y)
    | 0x15, [x] => some (EvmSpec.iszero x)
    | 0x16, [x, y] => some (EvmSpec.and x y)
    | 0x17, [x, y] => some (EvmSpec.or x y)
    | 0x18, [x, y] => some (EvmSpec.xor x y)
    | 0x19, [x] => some (EvmSpec.not x)
    | 0x1a, [x, y] => some (EvmSpec.byte x y)
    | 0x1b, [x, y] => some (EvmSpec.shl x y)
    | 0x1c, [x, y] => some (EvmSpec.shr x y)
    | 0x1d, [x, y] =>
      if sarKnown ∧ x.toNat ≥ 256 ∧ y = 0 then some (BitVec.allOnes 256) else some (EvmSpec.sar x y)
    | _, _ => none
  r.map fun v => Int.ofNat v.toNat

-- ---------------------------------------------------------------------------------------------------------------------
-- data movement shared by Impl and Spec

def padTo (bs : Bytes) (n : Nat) : Bytes := bs ++ List.replicate (n - bs.length) 0

/-- getDataBig(data, start, size): `data[min(start,len) : min(start+size,len)]` right-padded to size -/
def getData (data : Array UInt8) (start size : Nat) : Bytes :=
  let s := min start data.size
  let e := min (s + size) data.size
  padTo ((data.extract s e).toList) size

def memSlice (mem : Array UInt8) (off size : Nat) : Bytes := (mem.extract off (off + size)).toList

def memWrite (mem : Array UInt8) (off : Nat) (bs : Bytes) : Array UInt8 :=
  (mem.extract 0 off) ++ bs.toArray ++ (mem.extract (off + bs.length) mem.size)

def word32 (v : Nat) : Bytes :=
  let b := beBytes (v % 2 ^ 256)
  List.replicate (32 - b.length) 0 ++ b

def memGrow (mem : Array UInt8) (size : Nat) : Array UInt8 :=
  if mem.size < size then mem ++ Array.replicate (size - mem.size) 0 else mem

inductive Step where
  | next (m : Machine)
  | halt (ret : Bytes)
  | fail (f : Fail)
  | skip

/-- execute one (already validated, charged, memory-resized) instruction. `alu` gives the computational results,
    `jumpOk` the jump-destination predicate. -/
def exec (env : Env) (alu : Nat → List Int → Option Int) (jumpOk : Int → Bool) (row : OpRow) (opc : Nat) (m : Machine) : Step :=
  let st := m.stack
  let args := st.take row.pops
  let rest := st.drop row.pops
  let push (v : Int) : Step := .next { m with stack := v :: rest, pc := m.pc + 1 }
  let pushN (v : Nat) : Step := push (Int.ofNat v)
  if 0x60 ≤ opc ∧ opc ≤ 0x7f then
    -- makePush: code[pc+1 : pc+1+n] right-padded with zeros
    let n := opc - 0x5f
    let v := beNat (getData env.code (m.pc + 1) n)
    .next { m with stack := Int.ofNat v :: st, pc := m.pc + n + 1 }
  else if 0x80 ≤ opc ∧ opc ≤ 0x8f then
    .next { m with stack := back st (opc - 0x80) :: st, pc := m.pc + 1 }
  else if 0x90 ≤ opc ∧ opc ≤ 0x9f then
    let n := opc - 0x8f
    let top := back st 0
    let nth := back st n
    .next { m with stack := nth :: ((st.drop 1).set (n - 1) top), pc := m.pc + 1 }
  else
    match opc with
    | 0x00 => .halt []
    | 0x20 => pushN (beNat (Aqv.Keccak.keccak256 (memSlice m.mem (back st 0).toNat (back st 1).toNat)))
    | 0x30 => pushN env.address
    | 0x32 => pushN env.origin
    | 0x33 => pushN env.caller
    | 0x34 => pushN env.callvalue
    | 0x35 => pushN (beNat (getData env.calldata (back st 0).toNat 32))
    | 0x36 => pushN env.calldata.size
    | 0x37 =>
      let len := (back st 2).toNat
      .next { m with stack := rest, pc := m.pc + 1,
                     mem := if len = 0 then m.mem else memWrite m.mem (back st 0).toNat (getData env.calldata (back st 1).toNat len) }
    | 0x38 => pushN env.code.size
    | 0x39 =>
      let len := (back st 2).toNat
      .next { m with stack := rest, pc := m.pc + 1,
                     mem := if len = 0 then m.mem else memWrite m.mem (back st 0).toNat (getData env.code (back st 1).toNat len) }
    | 0x3a => pushN env.gasprice
    | 0x3d => pushN 0                    -- RETURNDATASIZE: no call has been made in this frame
    | 0x41 => pushN env.coinbase
    | 0x42 => pushN env.timestamp
    | 0x43 => pushN env.number
    | 0x44 => pushN env.difficulty
    | 0x45 => pushN env.gaslimit
    | 0x50 => .next { m with stack := rest, pc := m.pc + 1 }
    | 0x51 => pushN (beNat (memSlice m.mem (back st 0).toNat 32))
    | 0x52 => .next { m with stack := rest, pc := m.pc + 1, mem := memWrite m.mem (back st 0).toNat (word32 (back st 1).toNat) }
    | 0x53 => .next { m with stack := rest, pc := m.pc + 1, mem := memWrite m.mem (back st 0).toNat [UInt8.ofNat ((back st 1).toNat % 256)] }
    | 0x56 =>
      if jumpOk (back st 0) then .next { m with stack := rest, pc := (back st 0).toNat } else .fail .badjump
    | 0x57 =>
      if back st 1 ≠ 0 then
        (if jumpOk (back st 0) then .next { m with stack := rest, pc := (back st 0).toNat } else .fail .badjump)
      else .next { m with stack := rest, pc := m.pc + 1 }
    | 0x58 => pushN m.pc
    | 0x59 => pushN m.mem.size
    | 0x5a => pushN m.gas
    | 0x5b => .next { m with pc := m.pc + 1 }
    | 0xf3 | 0xfd =>
      let size := (back st 1).toNat
      .halt (if size = 0 then [] else memSlice m.mem (back st 0).toNat size)
    | _ =>
      match alu opc args with
      | some r => push r
      | none => .skip

/-- Interpreter.Run: fetch (STOP past the end), table lookup, validateStack, prologue (memory size, gas), resize, execute. -/
def run (env : Env) (lookup : Nat → Option OpRow) (pre : Nat → Machine → Except Outcome Pre)
    (alu : Nat → List Int → Option Int) (jumpOk : Int → Bool) : Nat → Machine → Outcome
  | 0, _ => .fuel
  | fuel + 1, m =>
    let opc := if h : m.pc < env.code.size then env.code[m.pc].toNat else 0
    match lookup opc with
    | none => .fail .invalid
    | some row =>
      if m.stack.length < row.pops then .fail .underflow
      else if m.stack.length + row.pushes - row.pops > 1024 then .fail .limit
      else
        match pre opc m with
        | .error o => o
        | .ok p =>
          if p.cost > m.gas then .fail .oog
          else
            let m1 := { m with gas := m.gas - p.cost, last := p.last, mem := if p.memorySize > 0 then memGrow m.mem p.memorySize else m.mem }
            match exec env alu jumpOk row opc m1 with
            | .skip => .skip opc
            | .fail f => .fail f
            | .halt ret => if row.reverts then .revert ret m1.gas m1.stack else .ok ret m1.gas m1.stack
            | .next m2 => run env lookup pre alu jumpOk fuel m2

-- ---------------------------------------------------------------------------------------------------------------------
-- Impl instantiation: everything table-dependent comes from the generated table, by function name

def implLookup (e : Epoch) (opc : Nat) : Option OpRow :=
  (implInfoAt e opc).map fun i => { pops := i.pops, pushes := i.pushes, halts := i.halts, jumps := i.jumps, reverts := i.reverts }

/-- operation.memorySize by the name the compiled table holds -/
def implMemSize (memFn : String) (st : List Int) : Option Int :=
  match memFn with
  | "" => some 0
  | "memorySha3" => some (calcMemSize (back st 0) (back st 1))
  | "memoryCallDataCopy" | "memoryCodeCopy" | "memoryReturnDataCopy" => some (calcMemSize (back st 0) (back st 2))
  | "memoryMLoad" | "memoryMStore" => some (calcMemSize (back st 0) 32)
  | "memoryMStore8" => some (calcMemSize (back st 0) 1)
  | "memoryReturn" | "memoryRevert" => some (calcMemSize (back st 0) (back st 1))
  | _ => none

def implPre (e : Epoch) (gt : GasTable) (opc : Nat) (m : Machine) : Except Outcome Pre :=
  match implInfoAt e opc with
  | none => .error (.fail .invalid)
  | some info =>
    match implMemSize info.memFn m.stack with
    | none => .error (.skip opc)
    | some msz =>
      let memorySize? : Option UInt64 := if info.memFn == "" then some 0 else memorySizeOf msz
      match memorySize? with
      | none => .error (.fail .overflow)
      | some ms =>
        let mem : Mem := ⟨UInt64.ofNat m.mem.size, m.last⟩
        let cost? : Option (Option UInt64) :=
          match info.constGas with
          | some g => some (some (UInt64.ofNat g))
          | none =>
            match info.gasFn with
            | "gasExp" => some (gasExp (UInt64.ofNat gt.expByte) (back m.stack 1))
            | "gasSha3" => some (gasSha3 mem ms (back m.stack 1))
            | "gasCallDataCopy" | "gasCodeCopy" => some (gasCopy gasFastestStep mem ms (back m.stack 2))
            | "gasMLoad" | "gasMStore" | "gasMStore8" => some (gasMemVeryLow mem ms)
            | "gasReturn" | "gasRevert" => some (gasReturn mem ms)
            | _ => none
        match cost? with
        | none => .error (.skip opc)
        | some none => .error (.fail .oog)
        | some (some c) =>
          let last := if info.memFn == "" then m.last else
            match memoryGasCost mem ms with
            | some (_, mem') => mem'.lastGasCost
            | none => m.last
          .ok { memorySize := ms.toNat, cost := c.toNat, last := last }

-- ---------------------------------------------------------------------------------------------------------------------
-- Spec instantiation: hand-written table, Yellow-Paper memory and gas on Nat

def specLookup (level : Nat) (opc : Nat) : Option OpRow :=
  (specRowAt level opc).map fun r =>
    { pops := r.pops, pushes := r.pushes, halts := r.halts, jumps := r.jumps, reverts := r.reverts }

/-- the memory range an instruction touches (offset, length) -/
def specTouch (opc : Nat) (st : List Int) : Option (Nat × Nat) :=
  match opc with
  | 0x20 | 0xf3 | 0xfd => some ((back st 0).toNat, (back st 1).toNat)
  | 0x37 | 0x39 => some ((back st 0).toNat, (back st 2).toNat)
  | 0x51 | 0x52 => some ((back st 0).toNat, 32)
  | 0x53 => some ((back st 0).toNat, 1)
  | _ => none

def specPre (level expByte : Nat) (opc : Nat) (m : Machine) : Except Outcome Pre :=
  match specRowAt level opc with
  | none => .error (.fail .invalid)
  | some row =>
    let cur := m.mem.size / 32
    let new := match specTouch opc m.stack with
      | some (off, len) => EvmSpec.memExpand cur off len
      | none => cur
    let memFee := EvmSpec.cmem new - EvmSpec.cmem cur
    let extra? : Option Nat :=
      match row.gas with
      | some g => some g
      | none =>
        match opc with
        | 0x0a => some (EvmSpec.gasExp expByte (back m.stack 1).toNat)
        | 0x20 => some (EvmSpec.gasSha3 (back m.stack 1).toNat)
        | 0x37 | 0x39 => some (EvmSpec.gasCopy 3 (back m.stack 2).toNat)
        | 0x51 | 0x52 | 0x53 => some 3
        | 0xf3 | 0xfd => some 0
        | _ => none
    match extra? with
    | none => .error (.skip opc)
    | some extra =>
      let cost := memFee + extra
      -- an unpayable expansion is never materialised
      if cost > m.gas then .error (.fail .oog)
      else .ok { memorySize := if new > cur then new * 32 else 0, cost := cost, last := m.last }

def startMachine (gas : Nat) : Machine := { pc := 0, stack := [], mem := #[], last := 0, gas := gas }

def runImpl (env : Env) (e : Epoch) (gt : GasTable) (gas : Nat) : Outcome :=
  run env (implLookup e) (implPre e gt) implAlu (fun d => hasJumpdest env.code d) (gas + 2) (startMachine gas)

def runSpec (env : Env) (level expByte : Nat) (sarKnown : Bool) (gas : Nat) : Outcome :=
  run env (specLookup level) (specPre level expByte) (specAlu sarKnown)
    (fun d => EvmSpec.validJumpdest env.code.toList d.toNat) (gas + 2) (startMachine gas)

end Aqv.Evm

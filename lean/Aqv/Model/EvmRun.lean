/-
  Aqv.Model.EvmRun — program-level model for property C08 (core-only): Interpreter.Run of core/vm/interpreter.go restricted
  to the opcodes that need no state database (arithmetic, comparison, bitwise, shifts, SHA3, environment constants,
  call-data / code / return-data access, stack, memory, control flow, RETURN / REVERT / STOP), one frame, no calls.

  One loop (`run`), instantiated twice:
    * Impl — `implLookup` / `implPre` / `implExec`: the Go code. The table is the GENERATED one (Aqv.Gen.VmTable); which
      memory-size and gas function an opcode uses is decided BY THE FUNCTION NAMES the compiled table holds (`implEntry`); gas
      and memory sizes are computed with the UInt64 models of Aqv.Model.EvmOps (overflow outcomes included); data movement
      mirrors makePush / Stack.dup / Stack.swap / Memory.Get / GetPtr / Set / getDataBig / PaddedBigBytes / opReturnDataCopy
      including their Uint64() truncations and the places where Go would panic (explicit outcome `panic`).
    * Spec — `specLookup` / `specPre` / `specExec`: the Yellow Paper. Hand-written table (Aqv.Model.EvmSpec), memory expansion
      and gas on Nat, results from the BitVec 256 semantics, D(c) for jumps, data movement defined pointwise
      (`specRead`: byte i of the result is data[off+i] or 0; `specWrite`: memory with [off, off+n) replaced).
  `Aqv.Props.C08.run_refines_spec_partial`: for every program, epoch and gas budget the two produce the same outcome unless a
  step with operands in one of the two recorded deviation sets (`devSet`) is reached.
  Keccak is a parameter `H` (the driver passes Aqv.Keccak.keccak256).
-/
import Aqv.Model.EvmOps
import Aqv.Model.EvmSpec
import Aqv.Model.EvmSelect
namespace Aqv.Evm
open Aqv.Big Aqv.Gen.VmTable

inductive Fail where
  | invalid | underflow | limit | oog | overflow | badjump | rdoob | panic
deriving DecidableEq, Repr

def Fail.name : Fail → String
  | .invalid => "invalid" | .underflow => "underflow" | .limit => "limit" | .oog => "oog" | .overflow => "overflow"
  | .badjump => "badjump" | .rdoob => "rdoob" | .panic => "panic"

inductive Outcome where
  | ok (ret : Bytes) (gasLeft : Nat) (stack : List Int)      -- stack as the halting instruction found it
  | revert (ret : Bytes) (gasLeft : Nat) (stack : List Int)
  | fail (f : Fail)
  | skip (op : Nat)      -- valid opcode outside the modelled subset
  | deviation            -- only with a guard: a step with operands in a recorded deviation set was reached
  | fuel                 -- cannot happen with fuel > gas: every non-halting step costs gas
deriving DecidableEq, Repr

/-- the specification does not distinguish the kinds of exceptional halt -/
def Outcome.norm : Outcome → Outcome
  | .fail _ => .fail .oog
  | o => o

structure Env where
  code : Array UInt8
  calldata : Bytes
  returndata : Bytes      -- Interpreter.returnData (empty unless a call has returned; fixed here: no calls)
  address : Nat
  caller : Nat
  origin : Nat
  callvalue : Nat
  gasprice : Nat
  coinbase : Nat
  timestamp : Nat
  number : Nat
  difficulty : Nat
  gaslimit : Nat

structure Machine where
  pc : Nat
  stack : List Int          -- head = top
  mem : Bytes
  last : UInt64             -- Memory.lastGasCost (the Spec keeps C_mem(active words) here so that machines can be compared)
  gas : Nat

/-- what the prologue of one step decides: bytes the memory must span (word multiple; 0 = nothing), the cost, and the new
    `lastGasCost` -/
structure Pre where
  memorySize : Nat
  cost : Nat
  last : UInt64
deriving DecidableEq

/-- which operands give the memory range an instruction touches -/
inductive MemKind where
  | none | b0b1 | b0b2 | b0c32 | b0c1 | unknown
deriving DecidableEq, Repr

/-- which gas function an instruction has -/
inductive GasKind where
  | const (g : Nat) | exp | sha3 | copy | veryLowMem | memOnly | unknown
deriving DecidableEq, Repr

/-- an instruction-table entry as the loop uses it -/
structure Entry where
  pops : Nat
  pushes : Nat
  halts : Bool
  jumps : Bool
  reverts : Bool
  memK : MemKind
  gasK : GasKind
deriving DecidableEq, Repr

abbrev back (st : List Int) (n : Nat) : Int := st.getD n 0

/-- (offset, length) operands of the touched memory range -/
def touchOf (k : MemKind) (st : List Int) : Int × Int :=
  match k with
  | .b0b1 => (back st 0, back st 1)
  | .b0b2 => (back st 0, back st 2)
  | .b0c32 => (back st 0, 32)
  | .b0c1 => (back st 0, 1)
  | _ => (0, 0)

-- ---------------------------------------------------------------------------------------------------------------------
-- instruction decoding (shared)

inductive Instr where
  | stop | alu | sha3 | address | origin | caller | callvalue | calldataload | calldatasize | calldatacopy | codesize | codecopy
  | gasprice | returndatasize | returndatacopy | coinbase | timestamp | number | difficulty | gaslimit | pop | mload | mstore
  | mstore8 | jump | jumpi | pc | msize | gas | jumpdest | push (n : Nat) | dup (n : Nat) | swap (n : Nat) | ret | other
deriving DecidableEq, Repr

def decode (opc : Nat) : Instr :=
  if 0x60 ≤ opc ∧ opc ≤ 0x7f then .push (opc - 0x5f)
  else if 0x80 ≤ opc ∧ opc ≤ 0x8f then .dup (opc - 0x7f)
  else if 0x90 ≤ opc ∧ opc ≤ 0x9f then .swap (opc - 0x8f)
  else if (0x01 ≤ opc ∧ opc ≤ 0x0b) ∨ (0x10 ≤ opc ∧ opc ≤ 0x1d) then .alu
  else
    match opc with
    | 0x00 => .stop | 0x20 => .sha3 | 0x30 => .address | 0x32 => .origin | 0x33 => .caller | 0x34 => .callvalue
    | 0x35 => .calldataload | 0x36 => .calldatasize | 0x37 => .calldatacopy | 0x38 => .codesize | 0x39 => .codecopy
    | 0x3a => .gasprice | 0x3d => .returndatasize | 0x3e => .returndatacopy | 0x41 => .coinbase | 0x42 => .timestamp
    | 0x43 => .number | 0x44 => .difficulty | 0x45 => .gaslimit | 0x50 => .pop | 0x51 => .mload | 0x52 => .mstore
    | 0x53 => .mstore8 | 0x56 => .jump | 0x57 => .jumpi | 0x58 => .pc | 0x59 => .msize | 0x5a => .gas | 0x5b => .jumpdest
    | 0xf3 => .ret | 0xfd => .ret
    | _ => .other

-- ---------------------------------------------------------------------------------------------------------------------
-- results of the computational opcodes, by opcode

def implAlu1 (opc : Nat) (x : Int) : Option Int :=
  if opc = 0x15 then some (opIszero x)
  else if opc = 0x19 then some (opNot x)
  else none

def implAlu2 (opc : Nat) (x y : Int) : Option Int :=
  if opc = 0x01 then some (opAdd x y)
  else if opc = 0x02 then some (opMul x y)
  else if opc = 0x03 then some (opSub x y)
  else if opc = 0x04 then some (opDiv x y)
  else if opc = 0x05 then some (opSdiv x y)
  else if opc = 0x06 then some (opMod x y)
  else if opc = 0x07 then some (opSmod x y)
  else if opc = 0x0a then some (opExp x y)
  else if opc = 0x0b then some (opSignExtend x y)
  else if opc = 0x10 then some (opLt x y)
  else if opc = 0x11 then some (opGt x y)
  else if opc = 0x12 then some (opSlt x y)
  else if opc = 0x13 then some (opSgt x y)
  else if opc = 0x14 then some (opEq x y)
  else if opc = 0x16 then some (opAnd x y)
  else if opc = 0x17 then some (opOr x y)
  else if opc = 0x18 then some (opXor x y)
  else if opc = 0x1a then some (opByte x y)
  else if opc = 0x1b then some (opSHL x y)
  else if opc = 0x1c then some (opSHR x y)
  else if opc = 0x1d then some (opSAR x y)
  else none

def implAlu3 (opc : Nat) (x y z : Int) : Option Int :=
  if opc = 0x08 then some (opAddmod x y z)
  else if opc = 0x09 then some (opMulmod x y z)
  else none

/-- the op* function of a computational opcode applied to the popped operands (first = top of stack) -/
def implAlu (opc : Nat) (a : List Int) : Option Int :=
  match a with
  | [x] => implAlu1 opc x
  | [x, y] => implAlu2 opc x y
  | [x, y, z] => implAlu3 opc x y z
  | _ => none

def w256 (x : Int) : EvmSpec.W := BitVec.ofNat 256 x.toNat

def specAlu1 (opc : Nat) (x : EvmSpec.W) : Option EvmSpec.W :=
  if opc = 0x15 then some (EvmSpec.iszero x)
  else if opc = 0x19 then some (EvmSpec.not x)
  else none

def specAlu2 (opc : Nat) (x y : EvmSpec.W) : Option EvmSpec.W :=
  if opc = 0x01 then some (EvmSpec.add x y)
  else if opc = 0x02 then some (EvmSpec.mul x y)
  else if opc = 0x03 then some (EvmSpec.sub x y)
  else if opc = 0x04 then some (EvmSpec.div x y)
  else if opc = 0x05 then some (EvmSpec.sdiv x y)
  else if opc = 0x06 then some (EvmSpec.mod x y)
  else if opc = 0x07 then some (EvmSpec.smod x y)
  else if opc = 0x0a then some (EvmSpec.exp x y)
  else if opc = 0x0b then some (EvmSpec.signextend x y)
  else if opc = 0x10 then some (EvmSpec.lt x y)
  else if opc = 0x11 then some (EvmSpec.gt x y)
  else if opc = 0x12 then some (EvmSpec.slt x y)
  else if opc = 0x13 then some (EvmSpec.sgt x y)
  else if opc = 0x14 then some (EvmSpec.eq x y)
  else if opc = 0x16 then some (EvmSpec.and x y)
  else if opc = 0x17 then some (EvmSpec.or x y)
  else if opc = 0x18 then some (EvmSpec.xor x y)
  else if opc = 0x1a then some (EvmSpec.byte x y)
  else if opc = 0x1b then some (EvmSpec.shl x y)
  else if opc = 0x1c then some (EvmSpec.shr x y)
  else if opc = 0x1d then some (EvmSpec.sar x y)
  else none

def specAlu3 (opc : Nat) (x y z : EvmSpec.W) : Option EvmSpec.W :=
  if opc = 0x08 then some (EvmSpec.addmod x y z)
  else if opc = 0x09 then some (EvmSpec.mulmod x y z)
  else none

def specAluW (opc : Nat) (a : List EvmSpec.W) : Option EvmSpec.W :=
  match a with
  | [x] => specAlu1 opc x
  | [x, y] => specAlu2 opc x y
  | [x, y, z] => specAlu3 opc x y z
  | _ => none

def specAlu (opc : Nat) (a : List Int) : Option Int :=
  (specAluW opc (a.map w256)).map fun v => Int.ofNat v.toNat

-- ---------------------------------------------------------------------------------------------------------------------
-- Impl data movement (Go)

/-- common.RightPadBytes(slice, l) -/
def rightPad (slice : Bytes) (l : Nat) : Bytes :=
  if l < slice.length then slice else slice ++ List.replicate (l - slice.length) 0

/-- getDataBig(data, start, size): `data[min(start,len) : min(s+size,len)]`, `RightPadBytes(…, int(size.Uint64()))` -/
def getDataBig (data : Bytes) (start size : Nat) : Bytes :=
  let dlen := data.length
  let s := min start dlen
  let e := min (s + size) dlen
  rightPad ((data.drop s).take (e - s)) (size % 2 ^ 64)

/-- Memory.Get / GetPtr(offset, size): nil for size 0, nil if the store does not reach offset, `store[offset:offset+size]`
    otherwise (`none` = slice bounds panic) -/
def memGet (mem : Bytes) (off size : Nat) : Option Bytes :=
  if size = 0 then some []
  else if mem.length > off then
    (if off + size ≤ mem.length then some ((mem.drop off).take size) else none)
  else some []

/-- Memory.Set(offset, size, value): panics if size > len(store); for size > 0 `copy(store[offset:offset+size], value)` -/
def memSet (mem : Bytes) (off size : Nat) (value : Bytes) : Option Bytes :=
  if size > mem.length then none
  else if size > 0 then
    (if off + size ≤ mem.length then
      let n := min size value.length
      some (mem.take off ++ value.take n ++ mem.drop (off + n))
    else none)
  else some mem

/-- math.PaddedBigBytes(v, n) -/
def paddedBigBytes (v : Nat) (n : Nat) : Bytes :=
  if natBitLen v / 8 ≥ n then beBytes v
  else
    let b := beBytes v
    List.replicate (n - b.length) 0 ++ b

/-- Memory.Resize -/
def memGrow (mem : Bytes) (size : Nat) : Bytes :=
  if mem.length < size then mem ++ List.replicate (size - mem.length) 0 else mem

-- ---------------------------------------------------------------------------------------------------------------------
-- Spec data movement (pointwise)

/-- n bytes starting at `off`; positions past the end read as zero
    (`specRead_meaning`: byte i of the result is data[off+i], or 0 if there is no such position) -/
def specRead (data : Bytes) (off n : Nat) : Bytes :=
  let d := (data.drop off).take n
  d ++ List.replicate (n - d.length) 0

/-- memory with positions [off, off + |bs|) replaced by bs; positions outside the memory do not exist
    (`specWrite_meaning`: position i holds bs[i-off] if off ≤ i < off+|bs|, else what it held) -/
def specWrite (mem : Bytes) (off : Nat) (bs : Bytes) : Bytes :=
  if off ≥ mem.length then mem
  else mem.take off ++ bs.take (mem.length - off) ++ mem.drop (off + bs.length)

/-- the 32 bytes of a word, most significant first -/
def specWord (v : Nat) : Bytes := (List.range 32).map fun i => UInt8.ofNat (v / 256 ^ (31 - i) % 256)

inductive Step where
  | cont (ret : Bytes) (m : Machine)
  | fail (f : Fail)
  | skip

def pushI (m : Machine) (rest : List Int) (v : Int) : Step := .cont [] { m with stack := v :: rest }
def pushN (m : Machine) (rest : List Int) (v : Nat) : Step := pushI m rest (Int.ofNat v)

/-- Impl: execute one (already validated, charged, memory-resized) instruction; `pc` is left to the loop unless the
    instruction sets it (`*pc = …` in Go). -/
def implExec (env : Env) (H : Bytes → Bytes) (en : Entry) (opc : Nat) (m : Machine) : Step :=
  let st := m.stack
  let rest := st.drop en.pops
  match decode opc with
  | .push n =>
    -- makePush: startMin = min(codeLen, pc+1), endMin = min(codeLen, startMin+n), RightPadBytes, *pc += n
    let code := env.code.toList
    let startMin := min code.length (m.pc + 1)
    let endMin := min code.length (startMin + n)
    let v := beNat (rightPad ((code.drop startMin).take (endMin - startMin)) n)
    .cont [] { m with stack := Int.ofNat v :: st, pc := m.pc + n }
  | .dup n =>
    -- Stack.dup: push(data[len-n]) on the slice whose LAST element is the top
    let data := st.reverse
    .cont [] { m with stack := data.getD (data.length - n) 0 :: st }
  | .swap k =>
    -- Stack.swap(k+1): data[len-(k+1)], data[len-1] = data[len-1], data[len-(k+1)]
    let data := st.reverse
    let len := data.length
    let a := data.getD (len - (k + 1)) 0
    let b := data.getD (len - 1) 0
    .cont [] { m with stack := ((data.set (len - (k + 1)) b).set (len - 1) a).reverse }
  | .stop => .cont [] m
  | .alu =>
    match implAlu opc (st.take en.pops) with
    | some r => pushI m rest r
    | none => .skip
  | .sha3 =>
    match memGet m.mem (uint64 (back st 0)) (uint64 (back st 1)) with
    | some data => pushN m rest (beNat (H data))
    | none => .fail .panic
  | .address => pushN m rest env.address
  | .origin => pushN m rest env.origin
  | .caller => pushN m rest env.caller
  | .callvalue => pushN m rest env.callvalue
  | .calldataload => pushN m rest (beNat (getDataBig env.calldata (back st 0).toNat 32))
  | .calldatasize => pushN m rest env.calldata.length
  | .calldatacopy =>
    match memSet m.mem (uint64 (back st 0)) (uint64 (back st 2)) (getDataBig env.calldata (back st 1).toNat (back st 2).toNat) with
    | some mem' => .cont [] { m with stack := rest, mem := mem' }
    | none => .fail .panic
  | .codesize => pushN m rest env.code.size
  | .codecopy =>
    match memSet m.mem (uint64 (back st 0)) (uint64 (back st 2)) (getDataBig env.code.toList (back st 1).toNat (back st 2).toNat) with
    | some mem' => .cont [] { m with stack := rest, mem := mem' }
    | none => .fail .panic
  | .gasprice => pushN m rest env.gasprice
  | .returndatasize => pushN m rest env.returndata.length
  | .returndatacopy =>
    -- end := dataOffset + length; if end.BitLen() > 64 || len(returnData) < end.Uint64() → errReturnDataOutOfBounds
    let dend := back st 1 + back st 2
    if bitLen dend > 64 ∨ env.returndata.length < uint64 dend then .fail .rdoob
    else
      let doff := uint64 (back st 1)
      match memSet m.mem (uint64 (back st 0)) (uint64 (back st 2)) ((env.returndata.drop doff).take (uint64 dend - doff)) with
      | some mem' => .cont [] { m with stack := rest, mem := mem' }
      | none => .fail .panic
  | .coinbase => pushN m rest env.coinbase
  | .timestamp => pushN m rest env.timestamp
  | .number => pushN m rest env.number
  | .difficulty => pushN m rest env.difficulty
  | .gaslimit => pushN m rest env.gaslimit
  | .pop => .cont [] { m with stack := rest }
  | .mload =>
    match memGet m.mem (uint64 (back st 0)) 32 with
    | some data => pushN m rest (beNat data)
    | none => .fail .panic
  | .mstore =>
    match memSet m.mem (uint64 (back st 0)) 32 (paddedBigBytes (back st 1).toNat 32) with
    | some mem' => .cont [] { m with stack := rest, mem := mem' }
    | none => .fail .panic
  | .mstore8 =>
    -- memory.store[off] = byte(val & 0xff)
    let off := uint64 (back st 0)
    if off < m.mem.length then .cont [] { m with stack := rest, mem := m.mem.set off (UInt8.ofNat (uint64 (back st 1) % 256)) }
    else .fail .panic
  | .jump =>
    if hasJumpdest env.code (back st 0) then .cont [] { m with stack := rest, pc := uint64 (back st 0) } else .fail .badjump
  | .jumpi =>
    if back st 1 ≠ 0 then
      (if hasJumpdest env.code (back st 0) then .cont [] { m with stack := rest, pc := uint64 (back st 0) } else .fail .badjump)
    else .cont [] { m with stack := rest, pc := m.pc + 1 }
  | .pc => pushN m rest m.pc
  | .msize => pushN m rest m.mem.length
  | .gas => pushN m rest m.gas
  | .jumpdest => .cont [] m
  | .ret =>
    match memGet m.mem (uint64 (back st 0)) (uint64 (back st 1)) with
    | some data => .cont data { m with stack := rest }
    | none => .fail .panic
  | .other => .skip

/-- Spec: the Yellow Paper's definitions -/
def specExec (env : Env) (H : Bytes → Bytes) (en : Entry) (opc : Nat) (m : Machine) : Step :=
  let st := m.stack
  let rest := st.drop en.pops
  match decode opc with
  | .push n => .cont [] { m with stack := Int.ofNat (beNat (specRead env.code.toList (m.pc + 1) n)) :: st, pc := m.pc + n }
  | .dup n => .cont [] { m with stack := back st (n - 1) :: st }
  | .swap k => .cont [] { m with stack := (st.set 0 (back st k)).set k (back st 0) }
  | .stop => .cont [] m
  | .alu =>
    match specAlu opc (st.take en.pops) with
    | some r => pushI m rest r
    | none => .skip
  | .sha3 => pushN m rest (beNat (H (specRead m.mem (back st 0).toNat (back st 1).toNat)))
  | .address => pushN m rest env.address
  | .origin => pushN m rest env.origin
  | .caller => pushN m rest env.caller
  | .callvalue => pushN m rest env.callvalue
  | .calldataload => pushN m rest (beNat (specRead env.calldata (back st 0).toNat 32))
  | .calldatasize => pushN m rest env.calldata.length
  | .calldatacopy =>
    .cont [] { m with stack := rest, mem := specWrite m.mem (back st 0).toNat (specRead env.calldata (back st 1).toNat (back st 2).toNat) }
  | .codesize => pushN m rest env.code.size
  | .codecopy =>
    .cont [] { m with stack := rest, mem := specWrite m.mem (back st 0).toNat (specRead env.code.toList (back st 1).toNat (back st 2).toNat) }
  | .gasprice => pushN m rest env.gasprice
  | .returndatasize => pushN m rest env.returndata.length
  | .returndatacopy =>
    -- EIP-211: reading past the end of the return data buffer is an exceptional halt
    if (back st 1).toNat + (back st 2).toNat > env.returndata.length then .fail .rdoob
    else .cont [] { m with stack := rest, mem := specWrite m.mem (back st 0).toNat (specRead env.returndata (back st 1).toNat (back st 2).toNat) }
  | .coinbase => pushN m rest env.coinbase
  | .timestamp => pushN m rest env.timestamp
  | .number => pushN m rest env.number
  | .difficulty => pushN m rest env.difficulty
  | .gaslimit => pushN m rest env.gaslimit
  | .pop => .cont [] { m with stack := rest }
  | .mload => pushN m rest (beNat (specRead m.mem (back st 0).toNat 32))
  | .mstore => .cont [] { m with stack := rest, mem := specWrite m.mem (back st 0).toNat (specWord (back st 1).toNat) }
  | .mstore8 => .cont [] { m with stack := rest, mem := specWrite m.mem (back st 0).toNat [UInt8.ofNat ((back st 1).toNat % 256)] }
  | .jump =>
    if EvmSpec.validJumpdest env.code.toList (back st 0).toNat then .cont [] { m with stack := rest, pc := (back st 0).toNat }
    else .fail .badjump
  | .jumpi =>
    if back st 1 ≠ 0 then
      (if EvmSpec.validJumpdest env.code.toList (back st 0).toNat then .cont [] { m with stack := rest, pc := (back st 0).toNat }
       else .fail .badjump)
    else .cont [] { m with stack := rest, pc := m.pc + 1 }
  | .pc => pushN m rest m.pc
  | .msize => pushN m rest m.mem.length
  | .gas => pushN m rest m.gas
  | .jumpdest => .cont [] m
  | .ret => .cont (specRead m.mem (back st 0).toNat (back st 1).toNat) { m with stack := rest }
  | .other => .skip

-- ---------------------------------------------------------------------------------------------------------------------
-- the loop

def fetch (env : Env) (pc : Nat) : Nat := if h : pc < env.code.size then env.code[pc].toNat else 0

/-- Interpreter.Run: fetch (STOP past the end), table lookup, validateStack, [guard], prologue (memory size, gas), resize,
    execute, then `reverts` / `halts` / `!jumps → pc++` from the table flags. -/
def run (env : Env) (lookup : Nat → Option Entry) (pre : Entry → Nat → Machine → Except Outcome Pre)
    (exec : Entry → Nat → Machine → Step) (guard : Entry → Nat → Machine → Bool) : Nat → Machine → Outcome
  | 0, _ => .fuel
  | fuel + 1, m =>
    let opc := fetch env m.pc
    match lookup opc with
    | none => .fail .invalid
    | some en =>
      if m.stack.length < en.pops then .fail .underflow
      else if m.stack.length + en.pushes - en.pops > 1024 then .fail .limit
      else if guard en opc m then .deviation
      else
        match pre en opc m with
        | .error o => o
        | .ok p =>
          if p.cost > m.gas then .fail .oog
          else
            let m1 := { m with gas := m.gas - p.cost, last := p.last, mem := if p.memorySize > 0 then memGrow m.mem p.memorySize else m.mem }
            match exec en opc m1 with
            | .skip => .skip opc
            | .fail f => .fail f
            | .cont ret m2 =>
              if en.reverts then .revert ret m1.gas m1.stack
              else if en.halts then .ok ret m1.gas m1.stack
              else run env lookup pre exec guard fuel (if en.jumps then m2 else { m2 with pc := m2.pc + 1 })

def noGuard : Entry → Nat → Machine → Bool := fun _ _ _ => false

/-- the two recorded deviation operand sets:
    (1) SAR with shift ≥ 256 and value 0;
    (2) an instruction whose memory request, rounded up to words, lies in (0x1fffffffe0, 0xffffffffe0] bytes. -/
def devSet (en : Entry) (opc : Nat) (m : Machine) : Bool :=
  (opc == 0x1d && decide (back m.stack 0 ≥ 256) && decide (back m.stack 1 = 0)) ||
  (let t := touchOf en.memK m.stack
   decide (t.2 ≠ 0) &&
   (let r := 32 * EvmSpec.words (t.1.toNat + t.2.toNat)
    decide (0x1fffffffe0 < r) && decide (r ≤ 0xffffffffe0)))

-- ---------------------------------------------------------------------------------------------------------------------
-- Impl instantiation: the generated table, read by function name

def memKindOfName (s : String) : MemKind :=
  if s == "" then .none
  else if s == "memorySha3" || s == "memoryReturn" || s == "memoryRevert" then .b0b1
  else if s == "memoryCallDataCopy" || s == "memoryCodeCopy" || s == "memoryReturnDataCopy" then .b0b2
  else if s == "memoryMLoad" || s == "memoryMStore" then .b0c32
  else if s == "memoryMStore8" then .b0c1
  else .unknown

def gasKindOfName (s : String) : GasKind :=
  if s == "gasExp" then .exp
  else if s == "gasSha3" then .sha3
  else if s == "gasCallDataCopy" || s == "gasCodeCopy" || s == "gasReturnDataCopy" then .copy
  else if s == "gasMLoad" || s == "gasMStore" || s == "gasMStore8" then .veryLowMem
  else if s == "gasReturn" || s == "gasRevert" then .memOnly
  else .unknown

def implEntry (i : OpInfo) : Entry :=
  { pops := i.pops, pushes := i.pushes, halts := i.halts, jumps := i.jumps, reverts := i.reverts,
    memK := memKindOfName i.memFn,
    gasK := match i.constGas with
      | some g => .const g
      | none => gasKindOfName i.gasFn }

def implLookup (e : Epoch) (opc : Nat) : Option Entry := ((table e).find? (fun i => i.op == opc)).map implEntry

/-- operation.gasCost by kind, on the UInt64 models -/
def implCost (gt : GasTable) (k : GasKind) (mem : Mem) (ms : UInt64) (st : List Int) : Option UInt64 :=
  match k with
  | .const g => some (UInt64.ofNat g)
  | .exp => gasExp (UInt64.ofNat gt.expByte) (back st 1)
  | .sha3 => gasSha3 mem ms (back st 1)
  | .copy => gasCopy gasFastestStep mem ms (back st 2)
  | .veryLowMem => gasMemVeryLow mem ms
  | .memOnly => gasReturn mem ms
  | .unknown => none

/-- `cost, err = operation.gasCost(...); if err != nil → ErrOutOfGas` -/
def implFinish (co : Option UInt64) (ms : Nat) (last : UInt64) : Except Outcome Pre :=
  match co with
  | none => .error (.fail .oog)
  | some c => .ok { memorySize := ms, cost := c.toNat, last := last }

/-- Memory.lastGasCost after the gas function ran -/
def implLast (mem : Mem) (ms : UInt64) : UInt64 :=
  match memoryGasCost mem ms with
  | some r => r.2.lastGasCost
  | none => mem.lastGasCost

def implPre (gt : GasTable) (en : Entry) (opc : Nat) (m : Machine) : Except Outcome Pre :=
  if en.memK = .unknown ∨ en.gasK = .unknown then .error (.skip opc)
  else
    let t := touchOf en.memK m.stack
    -- memSize, overflow := bigUint64(operation.memorySize(stack)); memorySize = SafeMul(toWordSize(memSize), 32)
    let ms? : Option UInt64 := if en.memK = .none then some 0 else memorySizeOf (calcMemSize t.1 t.2)
    match ms? with
    | none => .error (.fail .overflow)
    | some ms =>
      let mem : Mem := ⟨UInt64.ofNat m.mem.length, m.last⟩
      implFinish (implCost gt en.gasK mem ms m.stack) ms.toNat (implLast mem ms)

-- ---------------------------------------------------------------------------------------------------------------------
-- Spec instantiation: hand-written table, Yellow-Paper memory and gas on Nat

def specMemKind (op : Nat) : MemKind :=
  if op = 0x20 ∨ op = 0xf3 ∨ op = 0xfd then .b0b1
  else if op = 0x37 ∨ op = 0x39 ∨ op = 0x3e then .b0b2
  else if op = 0x51 ∨ op = 0x52 then .b0c32
  else if op = 0x53 then .b0c1
  else if op = 0x3c ∨ (0xa0 ≤ op ∧ op ≤ 0xa4) ∨ op = 0xf0 ∨ op = 0xf1 ∨ op = 0xf2 ∨ op = 0xf4 ∨ op = 0xfa then .unknown
  else .none

def specGasKind (r : EvmSpec.Row) : GasKind :=
  match r.gas with
  | some g => .const g
  | none =>
    if r.op = 0x0a then .exp
    else if r.op = 0x20 then .sha3
    else if r.op = 0x37 ∨ r.op = 0x39 ∨ r.op = 0x3e then .copy
    else if r.op = 0x51 ∨ r.op = 0x52 ∨ r.op = 0x53 then .veryLowMem
    else if r.op = 0xf3 ∨ r.op = 0xfd then .memOnly
    else .unknown

def specEntry (r : EvmSpec.Row) : Entry :=
  { pops := r.pops, pushes := r.pushes, halts := r.halts, jumps := r.jumps, reverts := r.reverts,
    memK := specMemKind r.op, gasK := specGasKind r }

def specTab0 : List EvmSpec.Row := EvmSpec.opcodeTable 0
def specTab1 : List EvmSpec.Row := EvmSpec.opcodeTable 1
def specTab2 : List EvmSpec.Row := EvmSpec.opcodeTable 2
def specTab3 : List EvmSpec.Row := EvmSpec.opcodeTable 3

/-- the table of a fork level (levels above 3 do not exist), as constants so that the driver builds each once -/
def specTab (level : Nat) : List EvmSpec.Row :=
  match level with
  | 0 => specTab0
  | 1 => specTab1
  | 2 => specTab2
  | _ => specTab3

def specRowAt (level opc : Nat) : Option EvmSpec.Row := (specTab level).find? (fun r => r.op == opc)

def specLookup (level : Nat) (opc : Nat) : Option Entry := (specRowAt level opc).map specEntry

/-- the part of the cost that is not memory expansion -/
def specExtra (expByte : Nat) (k : GasKind) (st : List Int) : Nat :=
  match k with
  | .const g => g
  | .exp => EvmSpec.gasExp expByte (back st 1).toNat
  | .sha3 => EvmSpec.gasSha3 (back st 1).toNat
  | .copy => EvmSpec.gasCopy 3 (back st 2).toNat
  | .veryLowMem => 3
  | .memOnly => 0
  | .unknown => 0

/-- an unpayable expansion is never materialised -/
def specFinish (gas cost ms : Nat) (last : UInt64) : Except Outcome Pre :=
  if cost > gas then .error (.fail .oog) else .ok { memorySize := ms, cost := cost, last := last }

def specPre (expByte : Nat) (en : Entry) (opc : Nat) (m : Machine) : Except Outcome Pre :=
  if en.memK = .unknown ∨ en.gasK = .unknown then .error (.skip opc)
  else
    let t := touchOf en.memK m.stack
    let off := t.1.toNat
    let len := t.2.toNat
    let cur := m.mem.length / 32
    let new := EvmSpec.memExpand cur off len
    let memFee := EvmSpec.cmem new - EvmSpec.cmem cur
    specFinish m.gas (memFee + specExtra expByte en.gasK m.stack) (if len = 0 then 0 else 32 * EvmSpec.words (off + len))
      (UInt64.ofNat (EvmSpec.cmem new))

def startMachine (gas : Nat) : Machine := { pc := 0, stack := [], mem := [], last := 0, gas := gas }

def runImpl (env : Env) (H : Bytes → Bytes) (e : Epoch) (gt : GasTable) (guard : Entry → Nat → Machine → Bool) (fuel : Nat) (m : Machine) : Outcome :=
  run env (implLookup e) (implPre gt) (implExec env H) guard fuel m

def runSpec (env : Env) (H : Bytes → Bytes) (level expByte : Nat) (guard : Entry → Nat → Machine → Bool) (fuel : Nat) (m : Machine) : Outcome :=
  run env (specLookup level) (specPre expByte) (specExec env H) guard fuel m

end Aqv.Evm

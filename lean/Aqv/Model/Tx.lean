/-
  Aqv.Model.Tx — executable model of transaction application (properties C06 and C05). Core-only.

  Mirrors, step by step:
    core/state_transition.go   IntrinsicGas, preCheck, buyGas, TransitionDb, refundGas, gasUsed
    core/gaspool.go            GasPool.AddGas / SubGas
    core/state_processor.go    ApplyTransaction, StateProcessor.Process
    core/block_validator.go    ValidateState (the gas-used comparison)
    core/types/receipt.go      NewReceipt (status / post-state root, cumulative gas)
    core/state/state_object.go AddBalance / SubBalance (zero amounts return early)

  The EVM (`evm.Call` / `evm.Create` at depth 0) is a PARAMETER `Env.run`; the theorems of C06 assume only the contract
  `EvmOk` (C07): gas left ≤ gas given, `ErrInsufficientBalance` iff the caller cannot pay the value (in which case nothing
  happened), and "state reverted to the snapshot on error". Balances and nonces are finite maps Addr → Nat (default 0);
  everything else the StateDB holds (storage, code, logs, suicide flags, refund counter) is the opaque component `rest : ρ`.

  uint64 quantities (gas, pool, nonce) are `Nat`s; every place where the Go code can overflow or guards against overflow is
  explicit (`intrinsicGasN` guards, `addGas` panic, `nonceInc` wrap).
-/
import Aqv.Gen.TxParams
namespace Aqv.Tx

abbrev Addr := Nat

/-- finite map Addr → Nat with default 0 (association list; first match wins). -/
abbrev AMap := List (Addr × Nat)

def lookup : AMap → Addr → Nat
  | [], _ => 0
  | (k, v) :: t, a => if k = a then v else lookup t a

def update : AMap → Addr → Nat → AMap
  | [], a, v => [(a, v)]
  | (k, x) :: t, a, v => if k = a then (k, v) :: t else (k, x) :: update t a v

/-- Σ of all stored values (the supply when the map is the balance map). -/
def total : AMap → Nat
  | [] => 0
  | (_, v) :: t => v + total t

def uint64Max : Nat := 18446744073709551615

/-- `nonce + 1` on a uint64. -/
def nonceInc (n : Nat) : Nat := (n + 1) % (uint64Max + 1)

structure World (ρ : Type) where
  bal : AMap
  nonce : AMap
  rest : ρ

/-- `StateDB.AddBalance(a, v)`; `stateObject.AddBalance` returns early for a zero amount (it only touches). -/
def addBal {ρ : Type} (w : World ρ) (a : Addr) (v : Nat) : World ρ :=
  if v = 0 then w else { w with bal := update w.bal a (lookup w.bal a + v) }

/-- `StateDB.SubBalance(a, v)`; zero amounts return early. Callers guard `v ≤ balance`. -/
def subBal {ρ : Type} (w : World ρ) (a : Addr) (v : Nat) : World ρ :=
  if v = 0 then w else { w with bal := update w.bal a (lookup w.bal a - v) }

def setNonce {ρ : Type} (w : World ρ) (a : Addr) (n : Nat) : World ρ :=
  { w with nonce := update w.nonce a n }

/-- classes of `vmerr` that TransitionDb distinguishes. -/
inductive VmErr
  | insufficientBalance   -- vm.ErrInsufficientBalance: the only consensus error
  | reverted              -- errExecutionReverted (gas is returned)
  | other                 -- out of gas, invalid opcode, stack, depth, collision, code store, max code size, ...
  deriving DecidableEq, Repr

structure Msg where
  sender : Addr
  to : Option Addr
  nonce : Nat
  checkNonce : Bool
  gasPrice : Nat
  gas : Nat
  value : Nat
  data : List UInt8
  deriving Repr

/-! ## IntrinsicGas -/

def countNz : List UInt8 → Nat
  | [] => 0
  | b :: t => (if b != 0 then 1 else 0) + countNz t

/-- `IntrinsicGas` on the byte counts (nz non-zero bytes, z zero bytes); `none` = `vm.ErrOutOfGas` from an overflow guard. -/
def intrinsicGasN (nz z : Nat) (contractCreation homestead : Bool) : Option Nat :=
  let gas := if contractCreation && homestead then Gen.TxParams.txGasContractCreation else Gen.TxParams.txGas
  if nz + z > 0 then
    if (uint64Max - gas) / Gen.TxParams.txDataNonZeroGas < nz then none
    else
      let gas := gas + nz * Gen.TxParams.txDataNonZeroGas
      if (uint64Max - gas) / Gen.TxParams.txDataZeroGas < z then none
      else some (gas + z * Gen.TxParams.txDataZeroGas)
  else some gas

def intrinsicGas (data : List UInt8) (contractCreation homestead : Bool) : Option Nat :=
  intrinsicGasN (countNz data) (data.length - countNz data) contractCreation homestead

/-! ## GasPool -/

/-- `GasPool.AddGas`; `none` = panic("gas pool pushed above uint64"). -/
def addGas (gp amount : Nat) : Option Nat :=
  if gp > uint64Max - amount then none else some (gp + amount)

/-- `GasPool.SubGas`; `none` = ErrGasLimitReached. -/
def subGas (gp amount : Nat) : Option Nat :=
  if gp < amount then none else some (gp - amount)

/-! ## the EVM as a parameter -/

structure EvmOut (ρ : Type) where
  world : World ρ
  gasLeft : Nat
  err : Option VmErr

/-- everything `TransitionDb`/`ApplyTransaction` need from their surroundings. -/
structure Env (ρ : Type) where
  /-- `evm.Call(sender, to, data, gas, value)` / `evm.Create(sender, data, gas, value)` at depth 0 -/
  run : Msg → Nat → World ρ → EvmOut ρ
  /-- `statedb.GetRefund()` -/
  refund : World ρ → Nat
  /-- `statedb.Finalise(true)` / `IntermediateRoot(eip158)` between transactions -/
  fin : World ρ → World ρ
  coinbase : Addr
  homestead : Bool
  byzantium : Bool

inductive TxErr
  | nonceTooHigh | nonceTooLow
  | insufficientFundsForGas     -- errInsufficientBalanceForGas
  | gasLimitReached             -- ErrGasLimitReached (block gas pool)
  | intrinsicOverflow           -- vm.ErrOutOfGas from IntrinsicGas' overflow guards
  | belowIntrinsic              -- vm.ErrOutOfGas from useGas(intrinsic)
  | insufficientBalance         -- vm.ErrInsufficientBalance (cannot pay the value)
  | poolPanic                   -- GasPool.AddGas panics
  deriving DecidableEq, Repr

structure TxOk (ρ : Type) where
  world : World ρ
  gp : Nat
  usedGas : Nat
  failed : Bool

/-- the world after `preCheck`/`buyGas` (and, for a call, the nonce bump) — what the EVM is started on. -/
def preWorld {ρ : Type} (m : Msg) (w : World ρ) : World ρ :=
  let w1 := subBal w m.sender (m.gas * m.gasPrice)
  if m.to.isSome then setNonce w1 m.sender (nonceInc (lookup w1.nonce m.sender)) else w1

/-- `refundGas`' refund: min(gasUsed/2, GetRefund()). -/
def refundOf (gas gasLeft counter : Nat) : Nat := min ((gas - gasLeft) / 2) counter

/-- `StateTransition.TransitionDb` (`ApplyMessage`). -/
def transitionDb {ρ : Type} (env : Env ρ) (m : Msg) (gp : Nat) (w : World ρ) : Except TxErr (TxOk ρ) :=
  -- preCheck
  let n := lookup w.nonce m.sender
  if m.checkNonce && n < m.nonce then .error .nonceTooHigh
  else if m.checkNonce && n > m.nonce then .error .nonceTooLow
  -- buyGas
  else if lookup w.bal m.sender < m.gas * m.gasPrice then .error .insufficientFundsForGas
  else
    match subGas gp m.gas with
    | none => .error .gasLimitReached
    | some gp1 =>
      -- intrinsic gas
      match intrinsicGas m.data m.to.isNone env.homestead with
      | none => .error .intrinsicOverflow
      | some ig =>
        if m.gas < ig then .error .belowIntrinsic
        else
          let out := env.run m (m.gas - ig) (preWorld m w)
          if out.err = some .insufficientBalance then .error .insufficientBalance
          else
            -- refundGas
            let gas' := out.gasLeft + refundOf m.gas out.gasLeft (env.refund out.world)
            let w3 := addBal out.world m.sender (gas' * m.gasPrice)
            match addGas gp1 gas' with
            | none => .error .poolPanic
            | some gp2 =>
              let used := m.gas - gas'
              .ok { world := addBal w3 env.coinbase (used * m.gasPrice), gp := gp2, usedGas := used, failed := out.err.isSome }

/-! ## receipts, ApplyTransaction, Process -/

structure Receipt where
  /-- pre-Byzantium format: `PostState` holds the intermediate root; otherwise the status byte is the consensus field -/
  hasRoot : Bool
  failed : Bool
  cumulativeGasUsed : Nat
  gasUsed : Nat
  creation : Bool
  deriving DecidableEq, Repr

structure ApplyOk (ρ : Type) where
  receipt : Receipt
  world : World ρ
  gp : Nat
  usedGas : Nat

/-- `core.ApplyTransaction` (after `tx.AsMessage`). -/
def applyTransaction {ρ : Type} (env : Env ρ) (m : Msg) (gp : Nat) (w : World ρ) (usedGas : Nat) : Except TxErr (ApplyOk ρ) :=
  match transitionDb env m gp w with
  | .error e => .error e
  | .ok r =>
    let used' := usedGas + r.usedGas
    .ok { receipt := { hasRoot := !env.byzantium, failed := r.failed, cumulativeGasUsed := used', gasUsed := r.usedGas, creation := m.to.isNone }
          world := env.fin r.world, gp := r.gp, usedGas := used' }

structure BlockOk (ρ : Type) where
  receipts : List Receipt
  world : World ρ
  gp : Nat
  usedGas : Nat

/-- the transaction loop of `StateProcessor.Process`. -/
def processTxs {ρ : Type} (env : Env ρ) : List Msg → Nat → World ρ → Nat → Except TxErr (BlockOk ρ)
  | [], gp, w, used => .ok { receipts := [], world := w, gp := gp, usedGas := used }
  | m :: ms, gp, w, used =>
    match applyTransaction env m gp w used with
    | .error e => .error e
    | .ok a =>
      match processTxs env ms a.gp a.world a.usedGas with
      | .error e => .error e
      | .ok b => .ok { b with receipts := a.receipt :: b.receipts }

/-- `StateProcessor.Process`: pool := block gas limit; hard-fork state edits; the loop; `engine.Finalize`. -/
def process {ρ : Type} (env : Env ρ) (hardFork finalize : World ρ → World ρ) (blockGasLimit : Nat) (txs : List Msg) (w : World ρ) :
    Except TxErr (BlockOk ρ) :=
  match addGas 0 blockGasLimit with
  | none => .error .poolPanic
  | some gp =>
    match processTxs env txs gp (hardFork w) 0 with
    | .error e => .error e
    | .ok b => .ok { b with world := finalize b.world }

/-! ## receipts on the fast-sync import path -/

/-- `core.SetReceiptsData`, the gas part: the per-transaction gas is derived from the cumulative values the consensus encoding
    carries — `receipts[0].GasUsed = cumulative[0]`, `receipts[j].GasUsed = cumulative[j] − cumulative[j−1]` (uint64 subtraction).
    `prev` = cumulative gas of the previous receipt (0 for the first). -/
def setReceiptsData_spec : Nat → List Nat → List Nat
  | _, [] => []
  | prev, c :: cs => ((c + (uint64Max + 1) - prev) % (uint64Max + 1)) :: setReceiptsData_spec c cs

def listSum : List Nat → Nat
  | [] => 0
  | x :: xs => x + listSum xs

/-- cumulative values as they occur in a valid block: non-decreasing from `prev`, all uint64. -/
def CumMonotone : Nat → List Nat → Prop
  | _, [] => True
  | prev, c :: cs => prev ≤ c ∧ c ≤ uint64Max ∧ CumMonotone c cs

/-- the last cumulative value (`prev` for an empty block). -/
def lastCum : Nat → List Nat → Nat
  | prev, [] => prev
  | _, c :: cs => lastCum c cs

/-- `BlockValidator.ValidateState`, first check: header.GasUsed must equal the gas Process reports. -/
def validateGasUsed (headerGasUsed usedGas : Nat) : Bool := headerGasUsed == usedGas

/-! ## the contract the EVM parameter has to obey (C07), and the EOA assumption -/

structure EvmOk {ρ : Type} (env : Env ρ) : Prop where
  /-- gas left ≤ gas given -/
  gas_le : ∀ m g w, (env.run m g w).gasLeft ≤ g
  /-- `ErrInsufficientBalance` is returned exactly when `CanTransfer` fails (depth 0) -/
  insufficient_iff : ∀ m g w, (env.run m g w).err = some .insufficientBalance ↔ lookup w.bal m.sender < m.value
  /-- a failed call leaves the state at the snapshot taken on entry (`evm.Call`) -/
  call_fail_reverts : ∀ m g w e, m.to.isSome → (env.run m g w).err = some e → e ≠ .insufficientBalance →
    (env.run m g w).world = w
  /-- a failed creation keeps only the caller's nonce bump, which precedes the snapshot (`evm.Create`; Homestead rules:
      pre-Homestead a code-store-out-of-gas error is NOT reverted, see `Gen.TxParams.switches`) -/
  create_fail_reverts : env.homestead = true → ∀ m g w e, m.to = none → (env.run m g w).err = some e → e ≠ .insufficientBalance →
    (env.run m g w).world = setNonce w m.sender (nonceInc (lookup w.nonce m.sender))

/-- the sender is an externally owned account: execution cannot run code *as* the sender, so the only change to the
    sender's nonce is the one `evm.Create` makes itself. (Not provable from the fee machinery; checked on every harness case.) -/
def SenderIsEOA {ρ : Type} (env : Env ρ) : Prop :=
  ∀ m g w, (env.run m g w).err ≠ some .insufficientBalance →
    lookup (env.run m g w).world.nonce m.sender =
      if m.to.isSome then lookup w.nonce m.sender else nonceInc (lookup w.nonce m.sender)

/-! ## Spec: the equations of the property as an executable acceptor over an observed outcome -/

/-- what an observer sees of one included transaction. `evm*` are the EVM's own effects (the balances it left behind). -/
structure Observed where
  senderBefore : Nat
  nonceBefore : Nat
  coinbaseBefore : Nat
  senderAfter : Nat
  nonceAfter : Nat
  coinbaseAfter : Nat
  /-- sender/coinbase balance as the EVM left them, and the balance it was started with -/
  evmSender : Nat
  evmSenderIn : Nat
  evmCoinbase : Nat
  evmCoinbaseIn : Nat
  gasUsed : Nat
  failed : Bool
  gasLeft : Nat
  refundCounter : Nat
  gpBefore : Nat
  gpAfter : Nat

/-- Spec for an included transaction (the literal clause `intrinsic ≤ gasUsed` is separate: `specIntrinsicLiteral`). -/
def specTx (m : Msg) (coinbase : Addr) (ig : Nat) (o : Observed) : Bool :=
  let fee := o.gasUsed * m.gasPrice
  -- nonce
  (!m.checkNonce || o.nonceBefore == m.nonce) && o.nonceAfter == nonceInc o.nonceBefore
  -- gas bounds
  && o.gasUsed ≤ m.gas && ig ≤ m.gas - o.gasLeft && o.gasLeft ≤ m.gas - ig
  && (m.gas - o.gasLeft) - o.gasUsed ≤ (m.gas - o.gasLeft) / 2
  && (m.gas - o.gasLeft) - o.gasUsed ≤ o.refundCounter
  && o.gasUsed ≤ m.gas - o.gasLeft
  -- pool
  && o.gpAfter + o.gasUsed == o.gpBefore
  -- sender: prepaid gas·price, got back (gas − used)·price, plus whatever the EVM did to it
  && (if m.sender = coinbase then
        o.senderAfter == o.evmSender + (m.gas - o.gasUsed) * m.gasPrice + fee
      else
        o.senderAfter == o.evmSender + (m.gas - o.gasUsed) * m.gasPrice && o.coinbaseAfter == o.evmCoinbase + fee)
  && o.evmSenderIn + m.gas * m.gasPrice == o.senderBefore
  -- failure: the EVM left sender and coinbase exactly as it found them
  && (!o.failed || (o.evmSender == o.evmSenderIn && o.evmCoinbase == o.evmCoinbaseIn))

/-- the literal clause of the statement; false on refund-heavy transactions (see `Props.C06.gas_below_intrinsic_witness`). -/
def specIntrinsicLiteral (ig gasUsed : Nat) : Bool := ig ≤ gasUsed

end Aqv.Tx

/-
  Aqv.Model.Net — codec-level model of the network input paths of property C17.

  * Go slice / index expressions are explicit partial operations (`slice`, `sliceFrom`, `sliceTo`, `index`):
    outside their domain they yield the outcome `panic`; nothing is totalised.
  * discovery   p2p/discover/udp.go   encodePacket / decodePacket / expired (+ typed RLP bodies via `Aqv.Rlp.readHead`)
  * RLPx frames p2p/rlpx.go           rlpxFrameRW.WriteMsg / ReadMsg / updateMAC / putInt24 / readInt24
  * handshake   p2p/rlpx.go           readHandshakeMsg (size logic; ECIES is a parameter)
  * sub-protocol aqua/handler.go      handleMsg front (ProtocolMaxMsgSize, decode-error path), p2p/peer.go readProtocolHandshake size
  Cryptographic primitives (Keccak, secp256k1 recovery, AES block / CTR keystream, snappy, ECIES) are parameters.
  Core-only.
-/
import Aqv.Base.Bytes
import Aqv.Model.Rlp
namespace Aqv.Net
open Aqv Aqv.Rlp

/-! ## Outcomes and Go slice operations -/

inductive Err where
  | tooSmall | emptySigdata | badHash | badSig | unknownType | rlp      -- discovery
  | eof | badHeaderMAC | badFrameMAC | plainTooLarge | sizeOverflow | snappy | msgCode   -- rlpx frames
  | sizeUnderflow | decrypt | badRemoteID | ecdh                        -- handshake
  | msgTooLarge | extraStatus | decode | invalidCode | discRequested   -- handlers
  deriving Repr, DecidableEq, Inhabited

inductive Panic where
  | sliceBounds (lo hi len : Nat)       -- "slice bounds out of range [lo:hi]" (capacity taken as len: conservative)
  | indexRange (i len : Nat)            -- "index out of range [i] with length len"
  deriving Repr, DecidableEq, Inhabited

/-- result of running a piece of Go code: normal return, error return, run-time panic. -/
inductive Out (α : Type) where
  | ok (a : α)
  | err (e : Err)
  | panic (p : Panic)
  deriving Repr, DecidableEq

namespace Out
def bind {α β : Type} (x : Out α) (f : α → Out β) : Out β :=
  match x with
  | .ok a => f a
  | .err e => .err e
  | .panic p => .panic p
instance : Monad Out where
  pure := .ok
  bind := Out.bind
def isPanic {α : Type} : Out α → Bool
  | .panic _ => true
  | _ => false
def isOk {α : Type} : Out α → Bool
  | .ok _ => true
  | _ => false
end Out

/-- `b[lo:hi]` -/
def slice (b : Bytes) (lo hi : Nat) : Out Bytes :=
  if lo ≤ hi ∧ hi ≤ b.length then .ok ((b.take hi).drop lo) else .panic (.sliceBounds lo hi b.length)
/-- `b[lo:]` -/
def sliceFrom (b : Bytes) (lo : Nat) : Out Bytes :=
  if lo ≤ b.length then .ok (b.drop lo) else .panic (.sliceBounds lo b.length b.length)
/-- `b[:hi]` -/
def sliceTo (b : Bytes) (hi : Nat) : Out Bytes :=
  if hi ≤ b.length then .ok (b.take hi) else .panic (.sliceBounds 0 hi b.length)
/-- `b[i]` -/
def index (b : Bytes) (i : Nat) : Out UInt8 :=
  match b[i]? with
  | some x => .ok x
  | none => .panic (.indexRange i b.length)

/-- `copy(dst[off:], src)`: overwrites `min (len dst - off) (len src)` bytes. -/
def copyAt (dst : Bytes) (off : Nat) (src : Bytes) : Out Bytes :=
  match sliceFrom dst off with
  | .ok tail => .ok (dst.take off ++ src.take tail.length ++ tail.drop src.length)
  | .err e => .err e
  | .panic p => .panic p

/-! ## Typed RLP readers (rlp.Stream on a length-limited input), on top of `Aqv.Rlp.readHead`

Each reader takes the unread input of the innermost list (or of the whole limited stream) and returns the value and
the unread rest; `none` = any decoding error (the callers drop the packet / peer on every error alike). -/

/-- `Stream.uint(8*maxBytes)`. -/
def rUint (maxBytes : Nat) (bs : Bytes) : Option (Nat × Bytes) :=
  match readHead bs with
  | .ok (.byte b rest) => if b = 0 then none else some (b.toNat, rest)
  | .ok (.str n rest) =>
    if maxBytes < n then none
    else if rest.length < n then none
    else
      match rest.take n with
      | [] => some (0, rest.drop n)
      | b0 :: t =>
        if b0 = 0 then none
        else if t = [] ∧ b0 < 0x80 then none
        else some (beNat (b0 :: t), rest.drop n)
  | _ => none

/-- `Stream.Bytes()`. -/
def rBytes (bs : Bytes) : Option (Bytes × Bytes) :=
  match readHead bs with
  | .ok (.byte b rest) => some ([b], rest)
  | .ok (.str n rest) =>
    if rest.length < n then none
    else
      match rest.take n with
      | [x] => if x < 0x80 then none else some ([x], rest.drop n)
      | s => some (s, rest.drop n)
  | _ => none

/-- `decodeByteArray` into `[len]byte` for `len ≥ 2` (NodeID). -/
def rArray (len : Nat) (bs : Bytes) : Option (Bytes × Bytes) :=
  match readHead bs with
  | .ok (.str n rest) => if n ≠ len then none else if rest.length < n then none else some (rest.take n, rest.drop n)
  | _ => none

/-- `Stream.List()`: payload of the list and the input after it. -/
def rList (bs : Bytes) : Option (Bytes × Bytes) :=
  match readHead bs with
  | .ok (.list n rest) => if rest.length < n then none else some (rest.take n, rest.drop n)
  | _ => none

/-- `Stream.Raw()`: the value with its (canonical, hence original) header. -/
def rRaw (bs : Bytes) : Option (Bytes × Bytes) :=
  match readHead bs with
  | .ok (.byte b rest) => some ([b], rest)
  | .ok (.str n rest) => if rest.length < n then none else some (header 0x80 n ++ rest.take n, rest.drop n)
  | .ok (.list n rest) => if rest.length < n then none else some (header 0xC0 n ++ rest.take n, rest.drop n)
  | .error _ => none

/-- `Rest []rlp.RawValue "tail"`: raw values until the end of the list. -/
def rRawAll : Nat → Bytes → Option (List Bytes)
  | _, [] => some []
  | 0, _ :: _ => none
  | f+1, b :: bs =>
    match rRaw (b :: bs) with
    | some (r, rest) =>
      match rRawAll f rest with
      | some rs => some (r :: rs)
      | none => none
    | none => none

/-- size of the buffer `Stream.Bytes()` allocates (`make([]byte, size)`) on this input; 0 when it returns before. -/
def rBytesAlloc (bs : Bytes) : Nat :=
  match readHead bs with
  | .ok (.str n rest) => if rest.length < n then 0 else n
  | _ => 0

/-- size of the buffer `Stream.Raw()` allocates (`make([]byte, headsize(size)+size)`); 0 when it returns before. -/
def rRawAlloc (bs : Bytes) : Nat :=
  match readHead bs with
  | .ok (.str n rest) => if rest.length < n then 0 else (header 0x80 n).length + n
  | .ok (.list n rest) => if rest.length < n then 0 else (header 0xC0 n).length + n
  | _ => 0

/-- `ListEnd`: the list payload must be used up. -/
def atEnd {α : Type} (a : α) (rest : Bytes) : Option α := if rest = [] then some a else none

/-! ## Discovery packets -/

def macSize : Nat := 32
def sigSize : Nat := 65
def headSize : Nat := macSize + sigSize

structure Endpoint where
  ip : Bytes
  udp : Nat
  tcp : Nat
  deriving Repr, DecidableEq

structure RpcNode where
  ip : Bytes
  udp : Nat
  tcp : Nat
  id : Bytes
  deriving Repr, DecidableEq

inductive Packet where
  | ping (version : Nat) (src dst : Endpoint) (exp : Nat) (rest : List Bytes)
  | pong (dst : Endpoint) (tok : Bytes) (exp : Nat) (rest : List Bytes)
  | findnode (target : Bytes) (exp : Nat) (rest : List Bytes)
  | neighbors (nodes : List RpcNode) (exp : Nat) (rest : List Bytes)
  deriving Repr, DecidableEq

inductive Kind where
  | ping | pong | findnode | neighbors
  deriving Repr, DecidableEq

def Packet.kind : Packet → Kind
  | .ping .. => .ping
  | .pong .. => .pong
  | .findnode .. => .findnode
  | .neighbors .. => .neighbors

def Packet.exp : Packet → Nat
  | .ping _ _ _ e _ => e
  | .pong _ _ e _ => e
  | .findnode _ e _ => e
  | .neighbors _ e _ => e

/-- rpcEndpoint{IP, UDP uint16, TCP uint16} -/
def rEndpoint (bs : Bytes) : Option (Endpoint × Bytes) :=
  match rList bs with
  | none => none
  | some (pl, rest) =>
    match rBytes pl with
    | none => none
    | some (ip, p1) =>
      match rUint 2 p1 with
      | none => none
      | some (udp, p2) =>
        match rUint 2 p2 with
        | none => none
        | some (tcp, p3) => atEnd ({ ip := ip, udp := udp, tcp := tcp }, rest) p3

/-- rpcNode{IP, UDP, TCP, ID [64]byte} -/
def rNode (bs : Bytes) : Option (RpcNode × Bytes) :=
  match rList bs with
  | none => none
  | some (pl, rest) =>
    match rBytes pl with
    | none => none
    | some (ip, p1) =>
      match rUint 2 p1 with
      | none => none
      | some (udp, p2) =>
        match rUint 2 p2 with
        | none => none
        | some (tcp, p3) =>
          match rArray 64 p3 with
          | none => none
          | some (id, p4) => atEnd ({ ip := ip, udp := udp, tcp := tcp, id := id }, rest) p4

/-- elements of `rpcNodes` until the end of the list payload. -/
def rNodes : Nat → Bytes → Option (List RpcNode)
  | _, [] => some []
  | 0, _ :: _ => none
  | f+1, b :: bs =>
    match rNode (b :: bs) with
    | some (n, rest) =>
      match rNodes f rest with
      | some ns => some (n :: ns)
      | none => none
    | none => none

/-- `s.Decode(req)` for the request struct selected by the type byte; bytes after the first value are not read. -/
def decodeBody (k : Kind) (body : Bytes) : Option Packet :=
  match rList body with
  | none => none
  | some (pl, _) =>
    match k with
    | .ping =>
      match rUint 8 pl with
      | none => none
      | some (v, p1) =>
        match rEndpoint p1 with
        | none => none
        | some (src, p2) =>
          match rEndpoint p2 with
          | none => none
          | some (dst, p3) =>
            match rUint 8 p3 with
            | none => none
            | some (e, p4) =>
              match rRawAll p4.length p4 with
              | none => none
              | some rest => some (.ping v src dst e rest)
    | .pong =>
      match rEndpoint pl with
      | none => none
      | some (dst, p1) =>
        match rBytes p1 with
        | none => none
        | some (tok, p2) =>
          match rUint 8 p2 with
          | none => none
          | some (e, p3) =>
            match rRawAll p3.length p3 with
            | none => none
            | some rest => some (.pong dst tok e rest)
    | .findnode =>
      match rArray 64 pl with
      | none => none
      | some (t, p1) =>
        match rUint 8 p1 with
        | none => none
        | some (e, p2) =>
          match rRawAll p2.length p2 with
          | none => none
          | some rest => some (.findnode t e rest)
    | .neighbors =>
      match rList pl with
      | none => none
      | some (npl, p1) =>
        match rNodes npl.length npl with
        | none => none
        | some ns =>
          match rUint 8 p1 with
          | none => none
          | some (e, p2) =>
            match rRawAll p2.length p2 with
            | none => none
            | some rest => some (.neighbors ns e rest)

/-- `switch ptype := sigdata[0]` over aquapingPacket.. = 134..137 -/
def kindOfType (t : UInt8) : Option Kind :=
  if t = 134 then some .ping
  else if t = 135 then some .pong
  else if t = 136 then some .findnode
  else if t = 137 then some .neighbors
  else none

/-- primitives of the discovery codec: Keccak-256 and `recoverNodeID` (secp256k1 public-key recovery). -/
structure DiscPrims where
  H : Bytes → Bytes
  recover : Bytes → Bytes → Option Bytes      -- hash → signature → NodeID (64 bytes) or error

/-- what `decodePacket` returns on success: the request, the sender's NodeID, the packet hash. -/
structure Decoded where
  pkt : Packet
  from_ : Bytes
  hash : Bytes
  deriving Repr, DecidableEq

/-- `decodePacket(netcompat, buf)`. `guardTag = true` is the code at HEAD (with the length check before the tag strip,
    commit 5ac0fad); `guardTag = false` is the code before that commit. -/
def decodePacketG (guardTag : Bool) (P : DiscPrims) (netcompat : Bool) (buf : Bytes) : Out Decoded :=
  if buf.length < headSize + 1 then .err .tooSmall
  else do
    let hash ← sliceTo buf macSize
    let sig ← slice buf macSize headSize
    let sigdata ← sliceFrom buf headSize
    if sigdata.length = 0 then .err .emptySigdata
    else do
      let hashed ← sliceFrom buf macSize
      if hash ≠ P.H hashed then .err .badHash
      else do
        let signed ← sliceFrom buf headSize
        match P.recover (P.H signed) sig with
        | none => .err .badSig
        | some fromID => do
          let t0 ← index sigdata 0
          let t : UInt8 := if netcompat ∧ t0 < 133 then t0 + 133 else t0
          match kindOfType t with
          | none => .err .unknownType
          | some k =>
            let x : Nat := if netcompat then 0 else 4     -- len("aqua")
            if guardTag ∧ sigdata.length < 1 + x then .err .tooSmall
            else do
              let body ← sliceFrom sigdata (1 + x)
              match decodeBody k body with
              | none => .err .rlp
              | some p => .ok { pkt := p, from_ := fromID, hash := hash }

/-- the code at HEAD -/
def decodePacket (P : DiscPrims) (netcompat : Bool) (buf : Bytes) : Out Decoded := decodePacketG true P netcompat buf

/-! ### Encoding -/

/-- `rlp` encoding of an unsigned integer: minimal big-endian bytes as a string. -/
def encUint (n : Nat) : Bytes := encStr (beBytes n)

def encListOf (payload : Bytes) : Bytes := header 0xC0 payload.length ++ payload

def encEndpoint (e : Endpoint) : Bytes := encListOf (encStr e.ip ++ encUint e.udp ++ encUint e.tcp)
def encNode (n : RpcNode) : Bytes := encListOf (encStr n.ip ++ encUint n.udp ++ encUint n.tcp ++ encStr n.id)
def encNodes : List RpcNode → Bytes
  | [] => []
  | n :: ns => encNode n ++ encNodes ns
def concatRaw : List Bytes → Bytes
  | [] => []
  | r :: rs => r ++ concatRaw rs

/-- `rlp.Encode(b, req)` for the four request structs (`tail` fields are written inline). -/
def encodeBody : Packet → Bytes
  | .ping v s d e rest => encListOf (encUint v ++ encEndpoint s ++ encEndpoint d ++ encUint e ++ concatRaw rest)
  | .pong d tok e rest => encListOf (encEndpoint d ++ encStr tok ++ encUint e ++ concatRaw rest)
  | .findnode t e rest => encListOf (encStr t ++ encUint e ++ concatRaw rest)
  | .neighbors ns e rest => encListOf (encListOf (encNodes ns) ++ encUint e ++ concatRaw rest)

def aquaTag : Bytes := [0x61, 0x71, 0x75, 0x61]    -- "aqua"

/-- the wire type byte the senders use: eth* = 1..4 in netcompat mode, aqua* = 134..137 otherwise. -/
def typeByte (netcompat : Bool) : Kind → UInt8
  | .ping => if netcompat then 1 else 134
  | .pong => if netcompat then 2 else 135
  | .findnode => if netcompat then 3 else 136
  | .neighbors => if netcompat then 4 else 137

/-- `encodePacket(netcompat, priv, ptype, req)`; `sign` is `crypto.Sign(·, priv)`. Returns (packet, hash). -/
def encodePacket (H : Bytes → Bytes) (sign : Bytes → Bytes) (netcompat : Bool) (ptype : UInt8) (req : Packet) :
    Out (Bytes × Bytes) := do
  let b := List.replicate headSize (0 : UInt8) ++ [ptype] ++ (if netcompat then [] else aquaTag) ++ encodeBody req
  let signed ← sliceFrom b headSize
  let sig := sign (H signed)
  let b1 ← copyAt b macSize sig
  let hashed ← sliceFrom b1 macSize
  let hash := H hashed
  let b2 ← copyAt b1 0 hash
  .ok (b2, hash)

/-! ### Expiry (`expired(ts)`: `time.Since(time.Unix(int64(ts), 0)) >= 0`)

`time.Unix` adds 62135596800 to the seconds in int64 arithmetic (wrapping); `now` is the wall clock in Unix seconds. -/

def toInt64 (n : Nat) : Int :=
  let m : Nat := n % 2 ^ 64
  if m < 2 ^ 63 then (m : Int) else (m : Int) - 2 ^ 64
def wrapInt64 (i : Int) : Int := toInt64 (i % 2 ^ 64).toNat
def unixToInternal : Int := 62135596800
/-- true = the packet is rejected as expired. -/
def expired (now : Nat) (ts : Nat) : Bool :=
  decide (wrapInt64 (toInt64 ts + unixToInternal) ≤ (now : Int) + unixToInternal)

/-! ## RLPx frames -/

def maxUint24 : Nat := 2 ^ 24 - 1

structure Prims where
  H : Bytes → Bytes                 -- Keccak-256 of everything written to a MAC hash so far (hash.Hash.Sum)
  E : Bytes → Bytes                 -- AES block encryption under the MAC secret (cipher.Block.Encrypt), 16 bytes
  ks : Nat → UInt8                  -- AES-CTR key stream of the session (zero IV)
  snapEnc : Bytes → Bytes           -- snappy.Encode
  snapLen : Bytes → Option Nat      -- snappy.DecodedLen
  snapDec : Bytes → Option Bytes    -- snappy.Decode

/-- one direction of a session: bytes absorbed by the MAC hash so far, and the CTR stream position. -/
structure Dir where
  mac : Bytes
  pos : Nat
  deriving Repr, DecidableEq

structure Msg where
  code : Nat
  size : Nat
  payload : Bytes
  deriving Repr, DecidableEq

/-- `XORKeyStream` starting at stream position `pos`. -/
def xorKs (P : Prims) : Nat → Bytes → Bytes
  | _, [] => []
  | pos, b :: t => (b ^^^ P.ks pos) :: xorKs P (pos + 1) t

/-- `for i := range dst { dst[i] ^= seed[i] }` -/
def xorInto : Bytes → Bytes → Nat → Out Bytes
  | [], _, _ => .ok []
  | d :: ds, seed, i =>
    match index seed i with
    | .ok s =>
      match xorInto ds seed (i + 1) with
      | .ok r => .ok ((d ^^^ s) :: r)
      | .err e => .err e
      | .panic p => .panic p
    | .err e => .err e
    | .panic p => .panic p

/-- `updateMAC(mac, block, seed)`: returns the new absorbed bytes and the 16-byte tag. -/
def updateMAC (P : Prims) (mac seed : Bytes) : Out (Bytes × Bytes) := do
  let blk ← sliceTo (P.H mac) 16            -- Block.Encrypt consumes src[:16]
  let aesbuf ← xorInto (P.E blk) seed 0
  let mac' := mac ++ aesbuf
  let tag ← sliceTo (P.H mac') 16
  .ok (mac', tag)

def putInt24 (v : Nat) : Bytes := [UInt8.ofNat (v / 65536), UInt8.ofNat (v / 256), UInt8.ofNat v]
def readInt24 (b : Bytes) : Out Nat := do
  let b2 ← index b 2
  let b1 ← index b 1
  let b0 ← index b 0
  .ok (b2.toNat + b1.toNat * 256 + b0.toNat * 65536)

def zeroHeader : Bytes := [0xC2, 0x80, 0x80]

/-- frame size rounded up to the 16-byte boundary -/
def rsizeOf (fsize : Nat) : Nat := if fsize % 16 > 0 then fsize + (16 - fsize % 16) else fsize

/-- `rlpxFrameRW.WriteMsg`. Returns the new egress state and the bytes written to the connection. -/
def writeMsg (P : Prims) (snappy : Bool) (d : Dir) (m : Msg) : Out (Dir × Bytes) :=
  let ptype := encUint m.code
  let sp : Out (Nat × Bytes) :=
    if snappy then
      if m.size > maxUint24 then .err .plainTooLarge
      else let p := P.snapEnc m.payload; .ok (p.length % 2 ^ 32, p)
    else .ok (m.size, m.payload)
  match sp with
  | .err e => .err e
  | .panic p => .panic p
  | .ok (size, payload) =>
    let fsize := (ptype.length + size) % 2 ^ 32          -- uint32 arithmetic
    if fsize > maxUint24 then .err .sizeOverflow
    else do
      let headbuf := putInt24 fsize ++ zeroHeader ++ List.replicate 26 (0 : UInt8)
      let h16 ← sliceTo headbuf 16
      let ench := xorKs P d.pos h16
      let (mac1, tag) ← updateMAC P d.mac ench
      let header ← copyAt (ench ++ headbuf.drop 16) 16 tag
      let pad := if fsize % 16 > 0 then List.replicate (16 - fsize % 16) (0 : UInt8) else []
      let frame := xorKs P (d.pos + 16) (ptype ++ payload ++ pad)
      let mac2 := mac1 ++ frame
      let (mac3, ftag) ← updateMAC P mac2 (P.H mac2)
      .ok ({ mac := mac3, pos := d.pos + 16 + frame.length }, header ++ frame ++ ftag)

/-- `io.ReadFull(conn, buf[:n])` on the bytes that will ever arrive. -/
def readFull (conn : Bytes) (n : Nat) : Out (Bytes × Bytes) :=
  if conn.length < n then .err .eof else .ok (conn.take n, conn.drop n)

/-- `rlp.Decode(content, &msg.Code)`: uint64 at the front of the frame content. -/
def decCode (content : Bytes) : Out (Nat × Bytes) :=
  match rUint 8 content with
  | some r => .ok r
  | none => .err .msgCode

/-- header stage of ReadMsg: returns the ingress MAC bytes, the declared frame size and the unread connection. -/
def readHeader (P : Prims) (d : Dir) (conn : Bytes) : Out (Bytes × Nat × Bytes) := do
  let (headbuf, conn1) ← readFull conn 32
  let h16 ← sliceTo headbuf 16
  let (mac1, should) ← updateMAC P d.mac h16
  let got ← sliceFrom headbuf 16
  if should ≠ got then .err .badHeaderMAC
  else do
    let dech := xorKs P d.pos h16
    let fsize ← readInt24 (dech ++ headbuf.drop 16)
    .ok (mac1, fsize, conn1)

/-- frame stage of ReadMsg: returns the new ingress MAC bytes, the decrypted frame buffer and the unread connection. -/
def readFrame (P : Prims) (mac1 : Bytes) (pos : Nat) (fsize : Nat) (conn1 : Bytes) : Out (Bytes × Bytes × Bytes) := do
  let (framebuf, conn2) ← readFull conn1 (rsizeOf fsize)
  let mac2 := mac1 ++ framebuf
  let seed := P.H mac2
  let (got, conn3) ← readFull conn2 16
  let (mac3, should) ← updateMAC P mac2 seed
  if should ≠ got then .err .badFrameMAC
  else .ok (mac3, xorKs P pos framebuf, conn3)

/-- content stage: message code, size accounting, snappy. Second component: sizes of the buffers allocated. -/
def decodeContent (P : Prims) (snappy : Bool) (content : Bytes) : List Nat × Out Msg :=
  match decCode content with
  | .err e => ([], .err e)
  | .panic p => ([], .panic p)
  | .ok (code, payload) =>
    if snappy then
      match P.snapLen payload with
      | none => ([payload.length], .err .snappy)
      | some size =>
        if size > maxUint24 then ([payload.length], .err .plainTooLarge)
        else
          match P.snapDec payload with
          | none => ([payload.length, size], .err .snappy)
          | some p => ([payload.length, size], .ok { code := code, size := size % 2 ^ 32, payload := p })
    else ([], .ok { code := code, size := payload.length, payload := payload })

/-- `rlpxFrameRW.ReadMsg` with the sizes of all buffers it allocates (`make`, `ReadAll`, `snappy.Decode`). -/
def readMsgT (P : Prims) (snappy : Bool) (d : Dir) (conn : Bytes) : List Nat × Out (Dir × Msg × Bytes) :=
  match readHeader P d conn with
  | .err e => ([32], .err e)
  | .panic p => ([32], .panic p)
  | .ok (mac1, fsize, conn1) =>
    match readFrame P mac1 (d.pos + 16) fsize conn1 with
    | .err e => ([32, rsizeOf fsize], .err e)
    | .panic p => ([32, rsizeOf fsize], .panic p)
    | .ok (mac3, plain, conn3) =>
      match sliceTo plain fsize with
      | .err e => ([32, rsizeOf fsize], .err e)
      | .panic p => ([32, rsizeOf fsize], .panic p)
      | .ok content =>
        let (al, r) := decodeContent P snappy content
        ([32, rsizeOf fsize] ++ al,
          match r with
          | .ok m => .ok ({ mac := mac3, pos := d.pos + 16 + plain.length }, m, conn3)
          | .err e => .err e
          | .panic p => .panic p)

def readMsg (P : Prims) (snappy : Bool) (d : Dir) (conn : Bytes) : Out (Dir × Msg × Bytes) := (readMsgT P snappy d conn).2
def readAllocs (P : Prims) (snappy : Bool) (d : Dir) (conn : Bytes) : List Nat := (readMsgT P snappy d conn).1

/-- write a sequence of messages; the concatenated wire bytes. -/
def writeAll (P : Prims) (snappy : Bool) : Dir → List Msg → Out (Dir × Bytes)
  | d, [] => .ok (d, [])
  | d, m :: ms =>
    match writeMsg P snappy d m with
    | .ok (d1, w) =>
      match writeAll P snappy d1 ms with
      | .ok (d2, ws) => .ok (d2, w ++ ws)
      | .err e => .err e
      | .panic p => .panic p
    | .err e => .err e
    | .panic p => .panic p

/-- read `n` messages. -/
def readN (P : Prims) (snappy : Bool) : Nat → Dir → Bytes → Out (Dir × List Msg × Bytes)
  | 0, d, conn => .ok (d, [], conn)
  | n+1, d, conn =>
    match readMsg P snappy d conn with
    | .ok (d1, m, conn1) =>
      match readN P snappy n d1 conn1 with
      | .ok (d2, ms, conn2) => .ok (d2, m :: ms, conn2)
      | .err e => .err e
      | .panic p => .panic p
    | .err e => .err e
    | .panic p => .panic p

/-! ## Encryption-handshake packet reader (`readHandshakeMsg`) — size logic; ECIES and the RLP body are parameters -/

def eciesOverhead : Nat := 65 + 16 + 32

structure HsPrims where
  decrypt : Bytes → Bytes → Option Bytes      -- ciphertext → shared-info s2 → plaintext
  decodeEip8 : Bytes → Bool                   -- rlp stream decode of the EIP-8 body succeeded

/-- `authMsgV4.decodePlain` (`sigLen`=65, `shaLen`=32, `pubLen`=64): the slice expressions only. -/
def decodePlainAuth (input : Bytes) : Out Unit := do
  let n := min 65 input.length + 32
  let t ← sliceFrom input n
  let n2 := n + min 64 t.length
  let _ ← sliceFrom input n2
  .ok ()

/-- `authRespV4.decodePlain` (`pubLen`=64). -/
def decodePlainResp (input : Bytes) : Out Unit := do
  let n := min 64 input.length
  let _ ← sliceFrom input n
  .ok ()

/-- `readHandshakeMsg(msg, plainSize, prv, r)`: returns the final buffer length (what the peer made us allocate). -/
def readHandshakeMsg (P : HsPrims) (isAuth : Bool) (plainSize : Nat) (conn : Bytes) : List Nat × Out Nat :=
  match readFull conn plainSize with
  | .err e => ([plainSize], .err e)
  | .panic p => ([plainSize], .panic p)
  | .ok (buf, conn1) =>
    match P.decrypt buf [] with
    | some dec =>
      ([plainSize], match (if isAuth then decodePlainAuth dec else decodePlainResp dec) with
        | .ok _ => .ok buf.length
        | .err e => .err e
        | .panic p => .panic p)
    | none =>
      match sliceTo buf 2 with
      | .err e => ([plainSize], .err e)
      | .panic p => ([plainSize], .panic p)
      | .ok prefix_ =>
        let size := beNat prefix_                                   -- binary.BigEndian.Uint16
        if size < plainSize % 65536 then ([plainSize], .err .sizeUnderflow)
        else
          let extra := (size + 65536 - plainSize % 65536 + 2) % 65536     -- uint16 arithmetic
          match readFull conn1 extra with
          | .err e => ([plainSize, plainSize + extra], .err e)
          | .panic p => ([plainSize, plainSize + extra], .panic p)
          | .ok (more, _) =>
            let buf2 := buf ++ more
            match sliceFrom buf2 2 with
            | .err e => ([plainSize, plainSize + extra], .err e)
            | .panic p => ([plainSize, plainSize + extra], .panic p)
            | .ok ct =>
              match P.decrypt ct prefix_ with
              | none => ([plainSize, plainSize + extra], .err .decrypt)
              | some dec => ([plainSize, plainSize + extra], if P.decodeEip8 dec then .ok buf2.length else .err .rlp)

/-! ## Sub-protocol handler front (`ProtocolManager.handleMsg`, `peer.readStatus`, `readProtocolHandshake`) -/

def protocolMaxMsgSize : Nat := 10 * 1024 * 1024
def baseProtocolMaxMsgSize : Nat := 2 * 1024

/-- message codes with a handler case (aqua/protocol.go) other than StatusMsg. -/
def handledCodes : List Nat := [0x01, 0x02, 0x03, 0x04, 0x05, 0x06, 0x07, 0x0d, 0x0e, 0x0f, 0x10]

inductive Handled where
  | processed (code : Nat) (payload : Bytes)       -- decoded and handed to the node's logic
  deriving Repr, DecidableEq

/-- `handleMsg` after `ReadMsg`: size limit, status, dispatch, decode-error path. `decodes code payload` is the
    RLP decoding of the payload into the message's wire type with input limit `msg.Size`. -/
def handleMsg (decodes : Nat → Bytes → Bool) (m : Msg) : Out Handled :=
  if m.size > protocolMaxMsgSize then .err .msgTooLarge
  else if m.code = 0 then .err .extraStatus
  else if handledCodes.contains m.code then
    if decodes m.code (m.payload.take m.size) then .ok (.processed m.code (m.payload.take m.size)) else .err .decode
  else .err .invalidCode

/-- `readProtocolHandshake` front: size limit of the base protocol, disconnect, code check, decode. -/
def readProtoHandshake (decodes : Bytes → Bool) (m : Msg) : Out Unit :=
  if m.size > baseProtocolMaxMsgSize then .err .msgTooLarge
  else if m.code = 1 then .err .discRequested
  else if m.code ≠ 0 then .err .invalidCode
  else if decodes (m.payload.take m.size) then .ok () else .err .decode

/-! ## Identity validation and the responder side of the encryption handshake (`handleAuthMsg`)

`NodeID.Pubkey()` is the only validation of the static key an initiator claims (p2p/rlpx.go handleAuthMsg) and of the
keys of nodes learned from the network (p2p/discover/node.go validateComplete): the 64 bytes must be the affine
coordinates of a point of secp256k1. -/

def secpP : Nat := 2 ^ 256 - 2 ^ 32 - 977

/-- the curve equation y² = x³ + 7 over GF(P), on the two big-endian halves of the identity. btcec reduces the
    coordinates modulo P before testing them (an identity `x + P` names the same point as `x`). -/
def idOnCurve (id : Bytes) : Bool :=
  let x := beNat (id.take 32) % secpP
  let y := beNat (id.drop 32) % secpP
  id.length == 64 && (y * y) % secpP == (x * x * x + 7) % secpP

/-- the decoded `authMsgV4` -/
structure AuthMsg where
  sig : Bytes
  pub : Bytes
  nonce : Bytes
  deriving Repr, DecidableEq

/-- primitives of the responder: identity validation, ECDH with the claimed static key, public-key recovery. -/
structure AuthPrims where
  validID : Bytes → Bool                       -- `h.remoteID.Pubkey()` succeeds
  ecdh : Bytes → Option Bytes                 -- `staticSharedSecret(prv)` against the claimed key (32 bytes)
  recover : Bytes → Bytes → Option Bytes      -- `crypto.Ecrecover(signedMsg, sig)`: the initiator's ephemeral key

/-- what the responder keeps and derives its session secrets from. -/
structure AuthResult where
  remoteID : Bytes
  token : Bytes
  remoteEph : Bytes
  initNonce : Bytes
  deriving Repr, DecidableEq

/-- `encHandshake.handleAuthMsg(msg, prv)` (the random ephemeral key generation cannot fail on input). -/
def handleAuthMsg (P : AuthPrims) (m : AuthMsg) : Out AuthResult :=
  if !P.validID m.pub then .err .badRemoteID
  else
    match P.ecdh m.pub with
    | none => .err .ecdh
    | some token =>
      match xorInto token m.nonce 0 with          -- xor(token, h.initNonce): other[i] for i < len(one)
      | .err e => .err e
      | .panic p => .panic p
      | .ok signed =>
        match P.recover signed m.sig with
        | none => .err .badSig
        | some eph => .ok { remoteID := m.pub, token := token, remoteEph := eph, initNonce := m.nonce }

/-! ## Discovery endpoint proof (bonding): `findnode.handle` serves only nodes with a bond, and only a pong that
matches one of OUR pings (`ReplyTok` = hash of that ping, checked by the pending-reply callback of `udp.ping`) creates
one (`Table.ping`: `updateBondTime` after `tab.net.ping` returned nil). Expiry of bonds (24 h) is not modelled. -/

inductive DEv where
  | pingSent (id tok : Bytes)        -- we pinged `id`; `tok` is the hash of our ping packet
  | pongRecv (id tok : Bytes)        -- a pong signed by `id` carrying ReplyTok `tok` arrived
  | pingTimeout (id : Bytes)         -- respTimeout elapsed for our pings to `id`
  | pingRecv (id : Bytes)            -- a ping signed by `id` arrived (answered with a pong; proves nothing about `id`'s address)
  | findnode (id : Bytes)            -- a findnode signed by `id` arrived
  deriving Repr, DecidableEq

structure BondSt where
  pending : List (Bytes × Bytes) := []
  bonded : List Bytes := []
  deriving Repr, DecidableEq

def bondStep (s : BondSt) : DEv → BondSt
  | .pingSent id tok => { s with pending := (id, tok) :: s.pending }
  | .pongRecv id tok =>
    if s.pending.contains (id, tok) then { pending := s.pending.filter (fun p => p != (id, tok)), bonded := id :: s.bonded } else s
  | .pingTimeout id => { s with pending := s.pending.filter (fun p => p.1 != id) }
  | .pingRecv _ => s
  | .findnode _ => s

def bondRun (s : BondSt) (evs : List DEv) : BondSt := evs.foldl bondStep s

/-- `findnode.handle`: answered with neighbors iff `db.hasBond(fromID)`; otherwise `errUnknownNode`. -/
def findnodeServed (s : BondSt) (id : Bytes) : Bool := s.bonded.contains id

/-- Spec of a sub-protocol payload consumer behind the handler (`downloader.queue.DeliverHeaders` and its siblings):
    total — a delivery that was requested (`pending`) and maps onto what was asked for is accepted, every other one is
    refused with an error; there is no third outcome. -/
def deliverSpec (pending mapsOntoRequest : Bool) : Out Unit :=
  if pending && mapsOntoRequest then .ok () else .err .decode

end Aqv.Net

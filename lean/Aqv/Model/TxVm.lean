/-
  Aqv.Model.TxVm — the transaction model (Aqv.Model.Tx, C06) instantiated with the metered EVM model of C07
  (Aqv.Model.Vm): the environment whose `run` IS `Vm.topCall` / `Vm.topCreate`. Core-only.

  core/state_transition.go TransitionDb:   ret, st.gas, vmerr = evm.Call(sender, to, data, st.gas, value)      (msg.To() != nil)
                                           ret, _, st.gas, vmerr = evm.Create(sender, data, st.gas, value)     (msg.To() == nil)
  The C07 machine is generic in the world type and takes everything data dependent from an oracle; here the world type is
  the C06 state `World ρ` and the oracle may depend on the message, the gas and the state the EVM is started on.
-/
import Aqv.Model.Tx
import Aqv.Model.Vm
namespace Aqv.TxVm
open Aqv.Tx

/-- for every (message, gas, entry state): the C07 oracle (program, inputs, StateDB answers, effects). -/
abbrev Oracle (ρ : Type) := Msg → Nat → World ρ → (Nat → Vm.StepIn (World ρ))

/-- how TransitionDb reads the `vmerr` of a machine result (`vmerr == vm.ErrInsufficientBalance` is the only consensus error).
    `canTransfer` is the top-level answer of `evm.Context.CanTransfer`: core/vm returns ErrInsufficientBalance from the depth-0
    wrapper only, and only when that answer is false; an ErrInsufficientBalance with `canTransfer = true` would have to come out
    of the interpreter loop, which no path of the machine produces — it is read as an ordinary VM error.
    outOfFuel / panic are model artefacts, unreachable by C07 `call_terminates` / `no_modelled_panic`. -/
def readErr (out : Vm.Outcome) (canTransfer : Bool) : Option VmErr :=
  match out with
  | .ok => none
  | .revert => some .reverted
  | .fail .insufficientBalance => if canTransfer then some .other else some .insufficientBalance
  | _ => some .other

/-- gas is a uint64. -/
def gasOf (g : Nat) : Nat := g % Vm.two64

/-- the machine run TransitionDb starts: `evm.Call` at depth 0 for a message with a recipient, `evm.Create` otherwise;
    fuel = gas + 1 suffices (C07 `call_terminates`); the Db starts with no live snapshot (Finalise cleared the journal). -/
def machine {ρ : Type} (venv : Vm.Env) (orc : Oracle ρ) (m : Msg) (g : Nat) (w : World ρ) : Vm.Res (World ρ) :=
  match m.to with
  | some _ => Vm.topCall venv (orc m g w) (gasOf g + 1) .call (gasOf g) (m.value != 0) ⟨w, [], 0⟩
  | none => Vm.topCreate venv (orc m g w) (gasOf g + 1) (gasOf g) ⟨w, [], 0⟩

def vmRun {ρ : Type} (venv : Vm.Env) (orc : Oracle ρ) (m : Msg) (g : Nat) (w : World ρ) : EvmOut ρ :=
  { world := (machine venv orc m g w).db.cur, gasLeft := (machine venv orc m g w).gas,
    err := readErr (machine venv orc m g w).out (orc m g w 0).canTransfer }

/-- the C06 environment over the C07 machine. -/
def vmEnv {ρ : Type} (venv : Vm.Env) (orc : Oracle ρ) (refund : World ρ → Nat) (fin : World ρ → World ρ) (coinbase : Addr) : Env ρ :=
  { run := vmRun venv orc, refund := refund, fin := fin, coinbase := coinbase, homestead := venv.homestead, byzantium := venv.byzantium }

/-- the two places where the machine's oracle has to tell the truth about the C06 state (the machine itself does not
    interpret the world): the top-level `CanTransfer` answer, and `evm.Create`'s `SetNonce(caller, nonce+1)`. -/
structure OracleOk {ρ : Type} (orc : Oracle ρ) : Prop where
  canTransfer : ∀ m g w, (orc m g w 0).canTransfer = decide (m.value ≤ lookup w.bal m.sender)
  nonceEff : ∀ m g w w', (orc m g w 0).nonceEff w' = setNonce w' m.sender (nonceInc (lookup w'.nonce m.sender))

end Aqv.TxVm

/-
  Aqv.Model.TxSortedMap — `txSortedMap` (core/tx_list.go) together with its sorted-list cache.  Core-only.

  The rest of the model (Aqv.Model.TxPool) represents a txSortedMap by its contents in canonical form: the nonce-sorted
  list of its transactions (a Go map has no order; `Flatten` defines the order that matters).  Here the cache field
  `m.cache` is added as state of its own: `none` = Go's nil, `some c` = a slice that `Flatten` will hand out without
  looking at `items` again.  Every method updates the cache the way the Go code does — `Put`, `Remove`, `Ready` and a
  `Filter` that removed something drop it, `Forward` shifts its front by the number of removed transactions, `Cap` cuts
  its back by the number of drops, `Flatten` fills it — and the contents by the list functions of Aqv.Model.TxPool
  (`put forward capL ready`), so the pool model's lists are by construction the `items` of this machine.
  Not modelled: the nonce heap `index` (its order is never observable).
-/
import Aqv.Model.TxPool
namespace Aqv.TxPool

structure SMap where
  items : List Tx
  cache : Option (List Tx)
deriving Repr

def SMap.empty : SMap := ⟨[], none⟩

inductive SOp
  | put (t : Tx)
  | forward (th : Nat)
  | filter (p : Tx → Bool)   -- removes the transactions satisfying `p`
  | cap (k : Nat)
  | remove (n : Nat)
  | ready (start : Nat)
  | flatten

/-- one method call: (returned transactions, map afterwards) -/
def SMap.step (m : SMap) : SOp → List Tx × SMap
  | .put t => ([], ⟨put t m.items, none⟩)
  | .forward th =>
    let r := forward th m.items
    (r.1, ⟨r.2, m.cache.map (fun c => c.drop r.1.length)⟩)
  | .filter p =>
    let removed := m.items.filter p
    if removed.isEmpty then ([], m) else (removed, ⟨m.items.filter (fun t => !p t), none⟩)
  | .cap k =>
    if m.items.length ≤ k then ([], m)
    else
      let r := capL k m.items
      (r.1, ⟨r.2, m.cache.map (fun c => c.take (c.length - r.1.length))⟩)
  | .remove n =>
    match getN m.items n with
    | none => ([], m)
    | some t => ([t], ⟨m.items.filter (fun x => !decide (x.nonce = n)), none⟩)
  | .ready start =>
    match m.items with
    | [] => ([], m)
    | x :: _ => if start < x.nonce then ([], m) else ((ready start m.items).1, ⟨(ready start m.items).2, none⟩)
  | .flatten =>
    match m.cache with
    | some c => (c, m)
    | none => (m.items, ⟨m.items, some m.items⟩)

def SMap.run (m : SMap) (ops : List SOp) : SMap := ops.foldl (fun m op => (m.step op).2) m

/-- Spec: a cache, when present, is the nonce-sorted contents -/
def SMap.Coherent (m : SMap) : Prop := ∀ c, m.cache = some c → c = m.items

def SMap.coherentB (m : SMap) : Bool :=
  match m.cache with
  | none => true
  | some c => c == m.items

/-- the `Put` of seeded change C15-8: keeps the cache alive and appends when the new nonce is not below the cache's last -/
def SMap.putKeepCache (m : SMap) (t : Tx) : SMap :=
  ⟨put t m.items,
   match m.cache with
   | none => none
   | some c => match c.getLast? with
     | some l => if l.nonce ≤ t.nonce then some (c ++ [t]) else none
     | none => none⟩

end Aqv.TxPool

/-
  Aqv.Model.ChainWriter — the write log the WRITERS of the chain database emit (property C04).  Core Lean only.

  `WriteBlockWithState`, `reorg`, `insert`, `Stop`, `SetHead` of core/blockchain.go + core/headerchain.go as functions
  that append database events (with the ghost in-memory head) to a log while applying them to the modelled store,
  because the real functions read back what they wrote (`insert` reads the canonical number, `reorg` walks stored
  blocks, the canonical-number clean-up scans until the first gap).

  Variants (two independent switches, so that a tree with only one of the two changes is still recognised):
  * `Variant.head`   — the code as written (fix commits 141a732, deec78d, 3f14ce8): the incoming block's batch is flushed
    before `reorg` re-points the head; `insert` writes the canonical number and the head markers in ONE batch which, when
    the heads move, also deletes the number entries above the block, drops the lookups of the displaced blocks and
    re-points stale entries below; `reorg` has no clean-up loop.
  * `Variant.fix1`   — the same without 3f14ce8 (plain atomic insert, clean-up loop in `reorg`).
  * `Variant.preFix` — the tree before those commits: `reorg` ran (re-pointing canonical numbers and the three head
    markers block by block, each with separate puts) BEFORE the incoming block's own batch was flushed.  Kept as
    documentation of the two crash windows it had (witness theorems in Props/C04) and so that a revert is recognised.

  Inputs that are not determined by the stored data are parameters of a step: the block, the fork-choice outcome
  (`canon`: total-difficulty comparison / coin flip), and the batches flushed by `trie.Database.Commit` (which tries are
  flushed when is the archive/pruning policy plus timing; their content is the memory layer of trie.Database).
-/
import Aqv.Model.ChainDb
namespace Aqv.ChainDb

/-- `batchFirst`: the incoming block's batch is flushed before `reorg` re-points the head (141a732); `atomicInsert`: `insert`
    writes the canonical number and the head markers in one batch (deec78d); `insertCleans`: when it moves the heads, that
    batch also deletes the number entries above the block, drops the lookups of the blocks it displaces and re-points
    stale entries below, and `reorg` has no clean-up loop of its own any more (3f14ce8; only meaningful with
    `atomicInsert`). -/
structure Variant where
  batchFirst : Bool
  atomicInsert : Bool
  insertCleans : Bool := false
  deriving DecidableEq, Repr

def Variant.head : Variant := ⟨true, true, true⟩
/-- the tree between deec78d/141a732 and 3f14ce8 -/
def Variant.fix1 : Variant := ⟨true, true, false⟩
def Variant.preFix : Variant := ⟨false, false, false⟩

structure Blk where
  hash : Hash
  parent : Hash
  num : Nat
  root : Hash
  txs : List Nat
  deriving DecidableEq, Repr

abbrev Writes := List (Key × Option Val)

inductive Step
  | importBlock (b : Blk) (canon : Bool) (flush : List Writes)   -- one `WriteBlockWithState`
  | sideNoState (b : Blk)                                       -- `WriteBlockWithoutState` (side block on a pruned ancestor)
  | stop (flush : List Writes)                                  -- `Stop`: the recent tries of a pruning node
  | setHead (n : Nat)                                           -- `SetHead` (outside the property's quantifier)
  | opened                                                      -- `NewBlockChain` on the store (start, or reopen after Stop)
  deriving Repr

/-- emitter state: the store, the in-memory head block (ghost) and head header, the log so far -/
structure Em where
  db : Db
  head : Hash
  hhdr : Hash                 -- hc.currentHeader (in memory)
  log : List GEvent := []

def Em.emit (s : Em) (e : Event) : Em :=
  { s with db := apply s.db e, log := s.log ++ [(e, s.head)] }

/-- emit an event after which the in-memory head is `h` (`currentBlock.Store` directly follows the write) -/
def Em.emitHead (s : Em) (e : Event) (h : Hash) : Em :=
  { s with db := apply s.db e, head := h, log := s.log ++ [(e, h)] }

def Em.emitAll (s : Em) (es : List Event) : Em := es.foldl Em.emit s

/-! ### block data -/

/-- `WriteBlock` (body; hash→number; header) + `WriteBlockReceipts` -/
def blockData (b : Blk) : Writes :=
  [(.body b.hash, some (.txs b.txs)), (.hashNum b.hash, some (.num b.num)),
   (.header b.hash, some (.hdr b.parent b.num b.root)), (.receipts b.hash, some .blob)]

/-- `WriteTxLookupEntries` -/
def lookupWrites (h : Hash) (txs : List Nat) : Writes := txs.map fun t => (Key.lookup t, some (Val.ref h))

def bodyTxs (db : Db) (h : Hash) : List Nat :=
  match get db (.body h) with
  | some (.txs ts) => ts
  | _ => []

/-! ### insert -/

/-- `dropLookups(hash, number)` of `insert`: the lookup entries of the block's transactions that point at this block -/
def dropLookupsW (db : Db) (h : Hash) : Writes :=
  ((bodyTxs db h).filter fun t => get db (.lookup t) == some (.ref h)).map fun t => (Key.lookup t, none)

/-- `for i := n+1; ; i++ { old := GetCanonicalHash(i); if old == {} { break }; dropLookups(old, i); DeleteCanonicalHash(batch, i) }`
    (reads go to the database, writes to the batch) -/
def cleanAboveW (db : Db) : Nat → Nat → Writes
  | 0, _ => []
  | fuel + 1, i =>
    match canonHash db i with
    | none => []
    | some old => dropLookupsW db old ++ [(Key.canon i, none)] ++ cleanAboveW db fuel (i + 1)

/-- "overwrite any stale assignments below": walk parents from (hash, number) until the index agrees or a header is missing -/
def repointBelowW (db : Db) : Nat → Hash → Nat → Writes
  | 0, _, _ => []
  | fuel + 1, h, n =>
    if canonHash db n = some h then []
    else
      match getHeader db h n with
      | none => []
      | some hd =>
        (match canonHash db n with | some old => dropLookupsW db old | none => []) ++ [(Key.canon n, some (Val.ref h))] ++
          (if n = 0 then [] else repointBelowW db fuel hd.parent (n - 1))

/-- the extra writes of `insert` since 3f14ce8 (only when the heads move) -/
def insertCleanW (db : Db) (parent : Option Hash) (n : Nat) (aboveFuel : Nat) : Writes :=
  (match canonHash db n with | some old => dropLookupsW db old | none => []) ++
  cleanAboveW db aboveFuel (n + 1) ++
  (match n, parent with
   | k + 1, some p => repointBelowW db (k + 1) p k
   | _, _ => [])

/-- `BlockChain.insert`: canonical number, LastBlock, and — if the number was not already assigned to this block —
    LastHeader and LastFast.  As written (`atomicInsert`): one batch, the in-memory heads move after the flush; before deec78d:
    separate puts, the in-memory head moved right after the LastBlock put.  `parent` is the block's parent hash (the
    block is in memory), `aboveFuel` bounds the (unbounded) scan above. -/
def insertW (v : Variant) (s : Em) (h : Hash) (n : Nat) (parent : Option Hash := none) (aboveFuel : Nat := 0) : Em :=
  let upd := canonHash s.db n != some h
  if !v.atomicInsert then
    let s := s.emit (.put (.canon n) (.ref h))
    let s := s.emitHead (.put .lastBlock (.ref h)) h
    if upd then
      let s := { s.emit (.put .lastHeader (.ref h)) with hhdr := h }
      s.emit (.put .lastFast (.ref h))
    else s
  else
    let ws : Writes := [(.canon n, some (.ref h)), (.lastBlock, some (.ref h))] ++
      (if upd then (if v.insertCleans then insertCleanW s.db parent n aboveFuel else []) ++
        [(.lastHeader, some (.ref h)), (.lastFast, some (.ref h))] else [])
    let s := s.emitHead (.batch ws) h
    if upd then { s with hhdr := h } else s

/-! ### reorg -/

/-- the two loops of `reorg` that collect the dropped and the added blocks: first the higher side is reduced, then both
    in lockstep until the hashes meet.  `none` = "invalid old chain"/"invalid new chain" (a block is missing). -/
def reorgChains (db : Db) : Nat → Hash × Hdr → Hash × Hdr → List (Hash × Hdr) → List (Hash × Hdr) →
    Option (List (Hash × Hdr) × List (Hash × Hdr))
  | 0, _, _, _, _ => none
  | fuel + 1, (o, ho), (n, hn), oa, na =>
    if ho.num > hn.num then
      match getBlock db ho.parent (ho.num - 1) with
      | none => none
      | some ho' => reorgChains db fuel (ho.parent, ho') (n, hn) (oa ++ [(o, ho)]) na
    else if hn.num > ho.num then
      match getBlock db hn.parent (hn.num - 1) with
      | none => none
      | some hn' => reorgChains db fuel (o, ho) (hn.parent, hn') oa (na ++ [(n, hn)])
    else if o = n then some (oa, na)
    else if ho.num = 0 then none
    else
      match getBlock db ho.parent (ho.num - 1), getBlock db hn.parent (hn.num - 1) with
      | some ho', some hn' => reorgChains db fuel (ho.parent, ho') (hn.parent, hn') (oa ++ [(o, ho)]) (na ++ [(n, hn)])
      | _, _ => none

/-- "Delete any canonical number assignments above the new head": scan upwards until the first gap -/
def delCanonAbove : Nat → Em → Nat → Em
  | 0, s, _ => s
  | fuel + 1, s, i =>
    match canonHash s.db i with
    | none => s
    | some _ => delCanonAbove fuel (s.emit (.del (.canon i))) (i + 1)

/-- re-point the chain block by block, oldest first: `insert` + `WriteTxLookupEntries(bc.db, …)` -/
def reinsertAll (v : Variant) (xTxs : Hash → Option (List Nat)) (aboveFuel : Nat) : List (Hash × Hdr) → Em → Em
  | [], s => s
  | (h, hd) :: rest, s =>
    let s := insertW v s h hd.num (some hd.parent) aboveFuel
    let txs := (xTxs h).getD (bodyTxs s.db h)
    let s := s.emitAll ((lookupWrites h txs).map fun w => Event.put w.1 (Val.ref h))
    reinsertAll v xTxs aboveFuel rest s

/-- `reorg(oldBlock, newBlock)`; the incoming block is not necessarily stored (before 141a732 it was not), so its header
    and transactions come from memory. `none` = returned an error before writing anything. -/
def reorgW (v : Variant) (s : Em) (old : Hash × Hdr) (b : Blk) : Option Em :=
  match reorgChains s.db (old.2.num + b.num + 2) old (b.hash, ⟨b.parent, b.num, b.root⟩) [] [] with
  | none => none
  | some (oldChain, newChain) =>
    let xTxs : Hash → Option (List Nat) := fun h => if h = b.hash then some b.txs else none
    let deleted := oldChain.flatMap fun p => bodyTxs s.db p.1
    let added := newChain.flatMap fun p => (xTxs p.1).getD (bodyTxs s.db p.1)
    let s := reinsertAll v xTxs (old.2.num + 2) newChain.reverse s
    let s := if v.insertCleans || newChain.isEmpty then s else delCanonAbove (old.2.num + 2) s (b.num + 1)
    let diff := deleted.filter fun t => !added.contains t
    some (s.emitAll (diff.map fun t => Event.del (.lookup t)))

/-! ### WriteBlockWithState -/

def flushEventsOf (flush : List Writes) : List Event := flush.map Event.batch

/-- `WriteBlockWithState(block, receipts, state)` given the fork-choice outcome.  Returns the emitter state; when
    `reorg` fails the function returns its error after the writes made so far. -/
def writeBlock (v : Variant) (s : Em) (b : Blk) (canon : Bool) (flush : List Writes) : Em :=
  let s := s.emit (.put (.td b.hash) .blob)                         -- hc.WriteTd
  let s := s.emitAll (flushEventsOf flush)                          -- state.Commit + triedb.Commit / periodic flush
  if !canon then
    s.emit (.batch (blockData b))                                   -- side block: batch only
  else
    let cur := s.head
    if b.parent = cur then
      let s := s.emit (.batch (blockData b ++ lookupWrites b.hash b.txs))
      insertW v s b.hash b.num (some b.parent) (b.num + 2)
    else
      match blockNumber s.db cur with
      | none => s
      | some cn =>
        match getBlock s.db cur cn with
        | none => s
        | some chd =>
          if !v.batchFirst then
            match reorgW v s (cur, chd) b with
            | none => s
            | some s =>
              let s := s.emit (.batch (blockData b ++ lookupWrites b.hash b.txs))
              insertW v s b.hash b.num (some b.parent) (b.num + 2)
          else
            let s := s.emit (.batch (blockData b))                  -- flush the block first, then Reset
            match reorgW v s (cur, chd) b with
            | none => s
            | some s =>
              let s := s.emit (.batch (lookupWrites b.hash b.txs))
              insertW v s b.hash b.num (some b.parent) (b.num + 2)

/-! ### Stop, SetHead -/

/-- `hc.SetHead(head, delFn)` + the head markers written by `BlockChain.SetHead` (as written, incl. the lookup clean-up) -/
def setHeadLoop : Nat → Em → Nat → Em
  | 0, s, _ => s
  | fuel + 1, s, target =>
    match blockNumber s.db s.hhdr with
    | none => s
    | some n =>
      if n ≤ target then s
      else
        match getHeader s.db s.hhdr n with
        | none => s
        | some hd =>
          let h := s.hhdr
          let txs := (bodyTxs s.db h).filter fun t => get s.db (.lookup t) == some (.ref h)
          let s := s.emitAll (txs.map fun t => Event.del (.lookup t))
          let s := s.emitAll [.del (.body h), .del (.hashNum h), .del (.header h), .del (.td h)]
          setHeadLoop fuel { s with hhdr := hd.parent } target

def delCanonDown (s : Em) : Nat → Nat → Em
  | 0, _ => s
  | k + 1, target => if k + 1 > target then delCanonDown (s.emit (.del (.canon (k + 1)))) k target else s

def setHeadW (s : Em) (target : Nat) : Em :=
  match blockNumber s.db s.hhdr with
  | none => s
  | some height =>
    let s := setHeadLoop (height + 1) s target
    let s := delCanonDown s height target
    let s := s.emit (.put .lastHeader (.ref s.hhdr))
    -- currentBlock is rewound to the header chain's head when that is lower (and has state; genesis otherwise)
    let newHead := s.hhdr
    let s := s.emitHead (.put .lastBlock (.ref newHead)) newHead
    s.emit (.put .lastFast (.ref newHead))

def step (v : Variant) (s : Em) : Step → Em
  | .importBlock b canon flush => writeBlock v s b canon flush
  | .sideNoState b =>
    -- hc.WriteTd; WriteBlock(bc.db, block): body, hash→number, header as three separate puts
    (s.emit (.put (.td b.hash) .blob)).emitAll
      [.put (.body b.hash) (.txs b.txs), .put (.hashNum b.hash) (.num b.num), .put (.header b.hash) (.hdr b.parent b.num b.root)]
  | .stop flush => s.emitAll (flushEventsOf flush)
  | .setHead n => setHeadW s n
  | .opened =>
    -- loadLastState → hc.SetCurrentHeader(currentHeader) re-writes LastHeader: the stored marker if its header exists,
    -- the head block's header otherwise
    let hh := match get s.db .lastHeader with
      | some (.ref h) => if (get s.db (.header h)).isSome && (get s.db (.hashNum h)).isSome then h else s.head
      | _ => s.head
    { s.emit (.put .lastHeader (.ref hh)) with hhdr := hh }

def run (v : Variant) (db : Db) (head : Hash) (steps : List Step) : Em :=
  steps.foldl (step v) { db := db, head := head, hhdr := head }

/-- the write log of a history -/
def writeLog (v : Variant) (db : Db) (head : Hash) (steps : List Step) : List GEvent := (run v db head steps).log

end Aqv.ChainDb

/-
  Aqv.Model.TrieLoadFast — the executable shortcuts the C10 model driver uses instead of the specification-level
  `commitDb` / `storeList` / `loadP` of Model.TrieLoad (which re-hash subtrees and return lazily evaluated closures):
  a hash-map node database, a one-pass commit, and a loader that materialises the children of every branch.
  Core + Std only. Each is PROVED equal to its specification (Lemmas.TrieLoadFast, Props.C10 `commit_fast_refines`,
  `load_fast_refines`), so replaying a history with them is replaying it in the model.
-/
import Std.Data.HashMap
import Aqv.Model.TrieLoad
namespace Aqv.Trie
open Aqv Aqv.Rlp

/-- node database as a hash map; the model functions see it as `fun h => m[h]?`. -/
abbrev DbMap := Std.HashMap Bytes Bytes

def dbFun (m : DbMap) : Bytes → Option Bytes := fun h => m[h]?

/-- one bottom-up pass: (reference item of the node, what `storeList` lists), each node hashed once. -/
def storePass (H : Bytes → Bytes) : PNode → Item × List (Bytes × Bytes)
  | .nil => (.str [], [])
  | .value v => (.str v, [])
  | .hash h => (.str h, [])
  | .short k c =>
    let rc := storePass H c
    let it : Item := .list [.str (hexToCompact k), rc.1]
    let e := enc it
    if 32 ≤ e.length then (.str (H e), (H e, e) :: rc.2) else (it, rc.2)
  | .full cs =>
    let parts := (List.finRange 17).map fun i => storePass H (cs i)
    let it : Item := .list (parts.map (·.1))
    let es := parts.flatMap (·.2)
    let e := enc it
    if 32 ≤ e.length then (.str (H e), (H e, e) :: es) else (it, es)

/-- `commitDb` on the hash map (`insertIfNew` = `db.insert`: the first blob under a hash is kept). -/
def commitMap (H : Bytes → Bytes) (m : DbMap) (x : PNode) : DbMap :=
  match x with
  | .nil => m
  | .value _ => m
  | .hash _ => m
  | x =>
    let e := enc (bodyX H x)
    ((storePass H x).2).foldl (fun m kv => m.insertIfNew kv.1 kv.2) (m.insertIfNew (H e) e)

/-- `loadP` with the 17 children of every branch computed once and kept in an array. -/
def loadFast (db : Bytes → Option Bytes) : Nat → PNode → Option Node
  | 0, _ => none
  | _ + 1, .nil => some .nil
  | _ + 1, .value v => some (.value v)
  | f + 1, .hash h =>
    match db h with
    | none => none
    | some blob =>
      match decodeNode (blob.length + 1) blob with
      | .ok pn => loadFast db f pn
      | .error _ => none
  | f + 1, .short k c => (loadFast db f c).map (Node.short k)
  | f + 1, .full cs =>
    let arr := ((List.finRange 17).map fun i => loadFast db f (cs i)).toArray
    if arr.all (·.isSome) then some (.full fun i => (arr.getD i.val none).getD .nil) else none

end Aqv.Trie

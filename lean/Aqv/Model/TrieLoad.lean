/-
  Aqv.Model.TrieLoad — the trie over PARTIALLY LOADED nodes: trie/trie.go tryGet / insert / delete / resolve / resolveHash
  with `hashNode` children resolved on demand through the node database, trie/hasher.go on such nodes (a `hashNode` is its
  own reference), Commit (store every loaded node) and unloading (hasher replaces a clean, old enough node by its hash).
  Core-only.

  * a partially loaded trie is a `PNode` (Model.TrieProof: nil / value / hash / short / full);
  * the node database is `db : Bytes → Option Bytes` (hash ↦ RLP blob; trie.Database.Node over memory cache + disk);
  * outcomes: `ok`, `missing h` (MissingNodeError: the database has no blob under `h`), `panic` (mustDecodeNode on an
    undecodable blob; the index panics of the workers), `fuel` (model artefact: recursion budget exhausted — shown
    unreachable for budget ≥ 2·|key|+2);
  * cache flags are not modelled: "clean" is read as "stored in the database" (`StoredX`), and WHICH clean nodes the
    hasher unloads (cachegen − gen ≥ cachelimit) is left nondeterministic (`Unload`): every choice is shown harmless.
-/
import Aqv.Model.TrieProof
namespace Aqv.Trie
open Aqv Aqv.Rlp

inductive XRes (α : Type) where
  | ok (a : α)
  | missing (h : Bytes)
  | panic
  | fuel

def XRes.cast {α β : Type} : XRes α → XRes β
  | .ok _ => .panic
  | .missing h => .missing h
  | .panic => .panic
  | .fuel => .fuel

/-- `resolveHash`: `db.Node(hash)`; absent → MissingNodeError; `mustDecodeNode` panics on a bad blob. -/
def resolveHash (db : Bytes → Option Bytes) (h : Bytes) : XRes PNode :=
  match db h with
  | none => .missing h
  | some blob =>
    match decodeNode (blob.length + 1) blob with
    | .ok n => .ok n
    | .error _ => .panic

/-- `t.resolve(n, prefix)`: only hash nodes are looked up. -/
def resolveX (db : Bytes → Option Bytes) : PNode → XRes PNode
  | .hash h => resolveHash db h
  | n => .ok n

def PNode.isNil : PNode → Bool
  | .nil => true
  | _ => false

def emptyX : Nib → PNode := fun _ => .nil

def setX (cs : Nib → PNode) (i : Nib) (n : PNode) : Nib → PNode := fun j => if j = i then n else cs j

def insertNilX (key : List Nib) (value : PNode) : PNode :=
  if key = [] then value else .short key value

/-- `tryGet` with on-demand resolution; returns the value and the node with the resolved path loaded. -/
def xget (db : Bytes → Option Bytes) : Nat → PNode → List Nib → XRes (Option Bytes × PNode)
  | 0, _, _ => .fuel
  | _ + 1, .nil, _ => .ok (none, .nil)
  | _ + 1, .value v, _ => .ok (some v, .value v)
  | f + 1, .short p c, key =>
    if key.take p.length = p then
      match xget db f c (key.drop p.length) with
      | .ok (v, c') => .ok (v, .short p c')
      | e => e.cast
    else .ok (none, .short p c)
  | _ + 1, .full _, [] => .panic
  | f + 1, .full cs, x :: key =>
    match xget db f (cs x) key with
    | .ok (v, c') => .ok (v, .full (setX cs x c'))
    | e => e.cast
  | f + 1, .hash h, key =>
    match resolveHash db h with
    | .ok n => xget db f n key
    | e => e.cast

/-- `insert` with on-demand resolution. -/
def xinsert (db : Bytes → Option Bytes) : Nat → PNode → List Nib → Bytes → XRes (Bool × PNode)
  | 0, _, _, _ => .fuel
  | _ + 1, .value w, [], v => .ok (w != v, .value v)
  | _ + 1, _, [], v => .ok (true, .value v)
  | f + 1, .short nk c, key@(_ :: _), v =>
    let m := prefixLen key nk
    if m = nk.length then
      match xinsert db f c (key.drop m) v with
      | .ok (dirty, nn) => if dirty then .ok (true, .short nk nn) else .ok (false, .short nk c)
      | e => e.cast
    else
      match nk[m]?, key[m]? with
      | some b, some a =>
        let branch : PNode := .full (setX (setX emptyX b (insertNilX (nk.drop (m + 1)) c)) a
                                      (insertNilX (key.drop (m + 1)) (.value v)))
        if m = 0 then .ok (true, branch) else .ok (true, .short (key.take m) branch)
      | _, _ => .panic
  | f + 1, .full cs, x :: rest, v =>
    match xinsert db f (cs x) rest v with
    | .ok (dirty, nn) => if dirty then .ok (true, .full (setX cs x nn)) else .ok (false, .full cs)
    | e => e.cast
  | _ + 1, .nil, key@(_ :: _), v => .ok (true, .short key (.value v))
  | _ + 1, .value _, _ :: _, _ => .panic
  | f + 1, .hash h, key@(_ :: _), v =>
    match resolveHash db h with
    | .ok rn =>
      match xinsert db f rn key v with
      | .ok (dirty, nn) => if dirty then .ok (true, nn) else .ok (false, rn)
      | e => e.cast
    | e => e.cast

def onlyChildX (cs : Nib → PNode) : Option Nib :=
  match (List.finRange 17).filter (fun i => !(cs i).isNil) with
  | [i] => some i
  | _ => none

/-- the collapse step of `delete`: the single remaining child is resolved "just for this check". -/
def xcollapse (db : Bytes → Option Bytes) (cs' : Nib → PNode) : XRes PNode :=
  match onlyChildX cs' with
  | some pos =>
    if pos ≠ T then
      match resolveX db (cs' pos) with
      | .ok (.short ck cv) => .ok (.short (pos :: ck) cv)
      | .ok _ => .ok (.short [pos] (cs' pos))
      | e => e.cast
    else .ok (.short [pos] (cs' pos))
  | none => .ok (.full cs')

/-- `delete` with on-demand resolution. -/
def xdelete (db : Bytes → Option Bytes) : Nat → PNode → List Nib → XRes (Bool × PNode)
  | 0, _, _ => .fuel
  | f + 1, .short nk c, key =>
    let m := prefixLen key nk
    if m < nk.length then .ok (false, .short nk c)
    else if m = key.length then .ok (true, .nil)
    else
      match xdelete db f c (key.drop nk.length) with
      | .ok (dirty, child) =>
        if !dirty then .ok (false, .short nk c)
        else
          match child with
          | .short ck cv => .ok (true, .short (nk ++ ck) cv)
          | _ => .ok (true, .short nk child)
      | e => e.cast
  | _ + 1, .full _, [] => .panic
  | f + 1, .full cs, x :: rest =>
    match xdelete db f (cs x) rest with
    | .ok (dirty, nn) =>
      if !dirty then .ok (false, .full cs)
      else
        match xcollapse db (setX cs x nn) with
        | .ok n => .ok (true, n)
        | e => e.cast
    | e => e.cast
  | _ + 1, .value _, _ => .ok (true, .nil)
  | _ + 1, .nil, _ => .ok (false, .nil)
  | f + 1, .hash h, key =>
    match resolveHash db h with
    | .ok rn =>
      match xdelete db f rn key with
      | .ok (dirty, nn) => if dirty then .ok (true, nn) else .ok (false, rn)
      | e => e.cast
    | e => e.cast

/-- recursion budget that always suffices (each step consumes a nibble or resolves a hash node). -/
def xfuel (key : List Nib) : Nat := 2 * key.length + 2

/-! ## hasher on partially loaded nodes, Commit, unloading -/

/-- child reference: a hash node is its own reference. -/
def refX (H : Bytes → Bytes) : PNode → Item
  | .nil => .str []
  | .value v => .str v
  | .hash h => .str h
  | .short k c => wrap H (.list [.str (hexToCompact k), refX H c])
  | .full cs => wrap H (.list ((List.finRange 17).map fun i => refX H (cs i)))

def bodyX (H : Bytes → Bytes) : PNode → Item
  | .nil => .str []
  | .value v => .str v
  | .hash h => .str h
  | .short k c => .list [.str (hexToCompact k), refX H c]
  | .full cs => .list ((List.finRange 17).map fun i => refX H (cs i))

/-- `Trie.Hash` on a partially loaded trie: an unloaded root is its own hash. -/
def hashRootX (H : Bytes → Bytes) : PNode → Bytes
  | .hash h => h
  | x => H (enc (bodyX H x))

/-- the (hash, blob) pairs `Commit` hands to `db.insert`: every loaded short/full node whose RLP is ≥ 32 bytes, and
    (forced) the root. -/
def storeList (H : Bytes → Bytes) : PNode → List (Bytes × Bytes)
  | .nil => []
  | .value _ => []
  | .hash _ => []
  | .short k c =>
    let e := enc (bodyX H (.short k c))
    (if 32 ≤ e.length then [(H e, e)] else []) ++ storeList H c
  | .full cs =>
    let e := enc (bodyX H (.full cs))
    (if 32 ≤ e.length then [(H e, e)] else []) ++ (List.finRange 17).flatMap fun i => storeList H (cs i)

/-- `db.insert`: an existing entry is kept. -/
def dbInsert (db : Bytes → Option Bytes) (kv : Bytes × Bytes) : Bytes → Option Bytes :=
  fun h => match db h with
    | some b => some b
    | none => if h = kv.1 then some kv.2 else none

/-- `Trie.Commit`: store the root (forced) and every loaded node. -/
def commitDb (H : Bytes → Bytes) (db : Bytes → Option Bytes) (x : PNode) : Bytes → Option Bytes :=
  match x with
  | .nil => db
  | .value _ => db
  | .hash _ => db
  | x => (storeList H x).foldl dbInsert (dbInsert db (H (enc (bodyX H x)), enc (bodyX H x)))

/-- every loaded node that `Commit` would store is in the database under its hash — the model's reading of "clean". -/
def StoredX (H : Bytes → Bytes) (db : Bytes → Option Bytes) (x : PNode) : Prop :=
  ∀ kv ∈ storeList H x, db kv.1 = some kv.2

def isSFX : PNode → Bool
  | .short _ _ => true
  | .full _ => true
  | _ => false

/-- one unloading step of the hasher (`hash`: "Unload the node from cache"): ANY loaded short/full node that is clean
    (itself and everything loaded below it stored in the database) and has a hash (RLP ≥ 32 bytes, or the root) may be
    replaced by its hash node. Which nodes Go picks (cachegen − gen ≥ cachelimit) is deliberately left open. -/
inductive Unload (H : Bytes → Bytes) (db : Bytes → Option Bytes) : Bool → PNode → PNode → Prop
  | here (r : Bool) (x : PNode) : isSFX x = true → (r = true ∨ 32 ≤ (enc (bodyX H x)).length) →
      db (H (enc (bodyX H x))) = some (enc (bodyX H x)) → StoredX H db x →
      Unload H db r x (.hash (H (enc (bodyX H x))))
  | short (r : Bool) (k : List Nib) {c c' : PNode} : Unload H db false c c' → Unload H db r (.short k c) (.short k c')
  | full (r : Bool) {cs : Nib → PNode} (i : Nib) {c' : PNode} : Unload H db false (cs i) c' →
      Unload H db r (.full cs) (.full (setX cs i c'))

/-! ## histories over partially loaded states -/

structure XState where
  db : Bytes → Option Bytes
  root : PNode

/-- `Reach H ops s`: the partially loaded state `s` (node database + in-memory root) can be reached by the real trie
    after the history whose content-relevant projection is `ops` (`Op.other` stands for get / Hash / Commit / an
    unloading step / reopen). Every worker call is the on-demand version with the standard budget `xfuel`. -/
inductive Reach (H : Bytes → Bytes) : List Op → XState → Prop
  | init : Reach H [] ⟨fun _ => none, .nil⟩
  | insert {ops : List Op} {s : XState} (k v : Bytes) (d : Bool) (n : PNode) : Reach H ops s → v.length ≠ 0 →
      xinsert s.db (xfuel (keybytesToHex k)) s.root (keybytesToHex k) v = .ok (d, n) →
      Reach H (ops ++ [.update k v]) ⟨s.db, n⟩
  | updateEmpty {ops : List Op} {s : XState} (k v : Bytes) (d : Bool) (n : PNode) : Reach H ops s → ¬ v.length ≠ 0 →
      xdelete s.db (xfuel (keybytesToHex k)) s.root (keybytesToHex k) = .ok (d, n) →
      Reach H (ops ++ [.update k v]) ⟨s.db, n⟩
  | delete {ops : List Op} {s : XState} (k : Bytes) (d : Bool) (n : PNode) : Reach H ops s →
      xdelete s.db (xfuel (keybytesToHex k)) s.root (keybytesToHex k) = .ok (d, n) →
      Reach H (ops ++ [.delete k]) ⟨s.db, n⟩
  | get {ops : List Op} {s : XState} (k : Bytes) (v : Option Bytes) (n : PNode) : Reach H ops s →
      xget s.db (xfuel (keybytesToHex k)) s.root (keybytesToHex k) = .ok (v, n) →
      Reach H (ops ++ [.other]) ⟨s.db, n⟩
  | commit {ops : List Op} {s : XState} : Reach H ops s → Reach H (ops ++ [.other]) ⟨commitDb H s.db s.root, s.root⟩
  | unload {ops : List Op} {s : XState} (x' : PNode) : Reach H ops s → Unload H s.db true s.root x' →
      Reach H (ops ++ [.other]) ⟨s.db, x'⟩

end Aqv.Trie

/-
  Aqv.Model.Supply — executable model of everything that can change an account balance (property C05). Core-only.

  The alphabet of balance-changing primitives, exactly as the code has them:
    transfer a b v      core.Transfer (SubBalance a v; AddBalance b v) guarded by core.CanTransfer — evm.Call / evm.Create
    suicide a b         opSuicide: AddBalance(b, balance(a)); StateDB.Suicide(a) zeroes a and marks it   (a = b burns)
    createAccount a     StateDB.CreateAccount: a fresh object that carries the old balance over; the suicide mark is reset
    snapshot / revert   StateDB.Snapshot / RevertToSnapshot (journal; exactness is property C09)
    buyGas / refund / fee   StateTransition.buyGas, refundGas, TransitionDb — modelled in Aqv.Model.Tx (transitionDb)
    finalise            StateDB.Finalise: accounts marked suicided are deleted together with whatever balance they hold
    hf4                 misc.ApplyHardFork4: SetBalance(a, 0) for the listed accounts
    rewards             aquahash.accumulateRewards
  `modelledSites` ties this alphabet to the call-site inventory regenerated from the source tree (Gen.Supply).
-/
import Aqv.Model.Tx
import Aqv.Gen.Supply
namespace Aqv.Supply
open Aqv.Tx

/-- the part of the state a snapshot captures, as far as balances are concerned. -/
structure SState where
  bal : AMap
  suicided : List Addr
  deriving Repr

inductive Op
  | transfer (a b : Addr) (v : Nat)
  | suicide (a b : Addr)
  | createAccount (a : Addr)
  | snapshot
  | revert (k : Nat)        -- RevertToSnapshot to the k-th live snapshot (0 = oldest); later snapshots are dropped
  deriving Repr, DecidableEq

structure Machine where
  cur : SState
  snaps : List SState       -- oldest first
  deriving Repr

def Op.isSuicide : Op → Bool
  | .suicide _ _ => true
  | _ => false

/-- `core.Transfer` behind `core.CanTransfer`: refused (no effect) when the balance does not cover the value. -/
def transfer (s : SState) (a b : Addr) (v : Nat) : SState :=
  if lookup s.bal a < v then s
  else
    let b1 := update s.bal a (lookup s.bal a - v)       -- SubBalance
    { s with bal := update b1 b (lookup b1 b + v) }      -- AddBalance

/-- `opSuicide`: the beneficiary is credited first, then the account is zeroed and marked. -/
def suicide (s : SState) (a b : Addr) : SState :=
  let b1 := update s.bal b (lookup s.bal b + lookup s.bal a)
  { bal := update b1 a 0, suicided := a :: s.suicided }

/-- `StateDB.CreateAccount`: new object, balance carried over (`new.setBalance(prev.data.Balance)`), suicide mark gone. -/
def createAccount (s : SState) (a : Addr) : SState :=
  { s with suicided := s.suicided.filter (· ≠ a) }

def step (M : Machine) : Op → Machine
  | .transfer a b v => { M with cur := transfer M.cur a b v }
  | .suicide a b => { M with cur := suicide M.cur a b }
  | .createAccount a => { M with cur := createAccount M.cur a }
  | .snapshot => { M with snaps := M.snaps ++ [M.cur] }
  | .revert k =>
    match M.snaps[k]? with
    | some s => { cur := s, snaps := M.snaps.take k }
    | none => M      -- Go panics ("revision id cannot be reverted"); never produced by the EVM

def runOps (M : Machine) : List Op → Machine
  | [] => M
  | op :: ops => runOps (step M op) ops

/-- zero every listed account. -/
def zeroAll (m : AMap) : List Addr → AMap
  | [] => m
  | a :: as => zeroAll (update m a 0) as

/-- `StateDB.Finalise` on balances: suicided accounts disappear with whatever they hold (empty-account deletion removes 0). -/
def finalise (s : SState) : SState := { bal := zeroAll s.bal s.suicided, suicided := [] }

/-! ## the world of `Aqv.Tx` specialised: `rest` = the suicide marks -/

abbrev SWorld := World (List Addr)

def toS (w : SWorld) : SState := { bal := w.bal, suicided := w.rest }

/-- `env.fin` of a supply environment. -/
def finWorld (w : SWorld) : SWorld := { w with bal := (finalise (toS w)).bal, rest := [] }

/-- an EVM all of whose balance effects are a finite word over the alphabet (any program, any nesting, any reverts). -/
def TraceEvm (env : Env (List Addr)) : Prop :=
  ∀ m g w, ∃ ops : List Op,
    (env.run m g w).world.bal = (runOps { cur := toS w, snaps := [] } ops).cur.bal ∧
    (env.run m g w).world.rest = (runOps { cur := toS w, snaps := [] } ops).cur.suicided

/-- … and never executes SELFDESTRUCT. -/
def TraceEvmNoSuicide (env : Env (List Addr)) : Prop :=
  ∀ m g w, ∃ ops : List Op, (∀ op ∈ ops, op.isSuicide = false) ∧
    (env.run m g w).world.bal = (runOps { cur := toS w, snaps := [] } ops).cur.bal ∧
    (env.run m g w).world.rest = (runOps { cur := toS w, snaps := [] } ops).cur.suicided

/-! ## hard fork 4 and block rewards -/

/-- `misc.ApplyHardFork4`: `SetBalance(a, 0)` for every listed account that exists (a missing account has balance 0 anyway). -/
def applyHF4 (dealloc : List Addr) (w : SWorld) : SWorld := { w with bal := zeroAll w.bal dealloc }

/-- an uncle as `accumulateRewards` sees it: (height, coinbase). -/
abbrev Uncle := Nat × Addr

/-- reward of one uncle's miner: (u + 8 − h)·R / 8 (the large literal is kept on the LEFT of every product: `x * literal`
    makes Lean's definitional unfolding count the literal down). Nat arithmetic; equals the big.Int computation whenever h ≤ u + 8
    (guaranteed by VerifyUncles: the uncle's parent is one of the 7 previous ancestors). -/
def uncleReward (h u : Nat) : Nat := Gen.Supply.blockReward * (u + Gen.Supply.big8 - h) / Gen.Supply.big8

def nephewReward : Nat := Gen.Supply.blockReward / Gen.Supply.big32

def payUncles (h : Nat) : List Uncle → SWorld → SWorld
  | [], w => w
  | (u, c) :: us, w => payUncles h us (addBal w c (uncleReward h u))

/-- `aquahash.accumulateRewards` (called by `Finalize`). -/
def accumulateRewards (h : Nat) (coinbase : Addr) (uncles : List Uncle) (w : SWorld) : SWorld :=
  if h < Gen.Supply.maxMoney then
    addBal (payUncles h uncles w) coinbase (Gen.Supply.blockReward + nephewReward * uncles.length)
  else w

def uncleSum (h : Nat) : List Uncle → Nat
  | [] => 0
  | (u, _) :: us => uncleReward h u + uncleSum h us

/-- the issuance scheduled for a block. -/
def issuance (h : Nat) (uncles : List Uncle) : Nat :=
  if h < Gen.Supply.maxMoney then Gen.Supply.blockReward + nephewReward * uncles.length + uncleSum h uncles else 0

/-- the domain on which the Nat model of the uncle reward equals the Go code. -/
def UnclesInWindow (h : Nat) (uncles : List Uncle) : Prop := ∀ u ∈ uncles, h ≤ u.1 + Gen.Supply.big8

structure BlockCtx where
  height : Nat
  coinbase : Addr
  uncles : List Uncle
  hf4Height : Option Nat
  hf5Height : Option Nat := none
  dealloc : List Addr
  gasLimit : Nat

/-- `StateDB.Empty(a)`: a QUERY (EIP-161 emptiness of the balance/nonce part); it changes nothing. -/
def isEmptyAccount (w : SWorld) (a : Addr) : Bool := lookup w.bal a == 0 && lookup w.nonce a == 0

/-- `misc.ApplyHardFork5` AS WRITTEN: `for addr in DeallocListHF4 { if statedb.Exist(addr) { statedb.Empty(addr) } }`. The doc
    comment says "removes eth presale accounts (not just balances)", but `StateDB.Empty` is the emptiness getter, so the loop
    evaluates a Bool per listed account and discards it: hard fork 5 does not touch the state (`Props.C05.hf5_is_noop`).
    Consensus history from the HF5 height on was produced by this code; turning the call into a real removal would burn
    whatever those accounts hold and fork the chain. -/
def applyHF5 : List Addr → SWorld → SWorld
  | [], w => w
  | a :: as, w => let _queried := isEmptyAccount w a; applyHF5 as w

/-- the state edits `Process` makes before the transactions: HF4 at its height, then HF5 at its height. -/
def hardForkEdits (c : BlockCtx) (w : SWorld) : SWorld :=
  let w1 := if c.hf4Height = some c.height then applyHF4 c.dealloc w else w
  if c.hf5Height = some c.height then applyHF5 c.dealloc w1 else w1

/-- `StateProcessor.Process` + `Aquahash.Finalize` for the supply: HF4/HF5 at their heights, the transactions, the rewards. -/
def processBlock (env : Env (List Addr)) (c : BlockCtx) (txs : List Msg) (w : SWorld) : Except TxErr (BlockOk (List Addr)) :=
  process env (hardForkEdits c) (accumulateRewards c.height c.coinbase c.uncles) c.gasLimit txs w

/-! ## the modelled call sites (compared with the regenerated inventory by `Props.C05.sites_eq_alphabet`) -/

/-- every mention of a balance mutator outside core/state, with the primitive of the alphabet it implements. The first four
    components must equal `Gen.Supply.balanceMutatorSites`. -/
def modelledSitesDoc : List (String × String × String × Nat × String) :=
  [("aqua/accounts/abi/bind/backends/simulated.go", "SimulatedBackend.callContract", "SetBalance", 1, "not consensus: eth_call on a throw-away state copy"),
   ("aqua/api_backend.go", "AquaApiBackend.GetEVM", "SetBalance", 1, "not consensus: eth_call on a throw-away state copy"),
   ("consensus/aquahash/consensus.go", "accumulateRewards", "AddBalance", 2, "rewards"),
   ("consensus/misc/hf.go", "ApplyHardFork4", "SetBalance", 1, "hf4"),
   ("core/evm.go", "Transfer", "AddBalance", 1, "transfer (credit leg)"),
   ("core/evm.go", "Transfer", "SubBalance", 1, "transfer (debit leg)"),
   ("core/genesis.go", "Genesis.ToBlock", "AddBalance", 1, "genesis allocation: builds the state of block 0, not a block application"),
   ("core/state_transition.go", "StateTransition.TransitionDb", "AddBalance", 1, "fee (Tx.transitionDb)"),
   ("core/state_transition.go", "StateTransition.buyGas", "SubBalance", 1, "buyGas (Tx.transitionDb)"),
   ("core/state_transition.go", "StateTransition.from", "CreateAccount", 1, "createAccount"),
   ("core/state_transition.go", "StateTransition.refundGas", "AddBalance", 1, "refund (Tx.transitionDb)"),
   ("core/state_transition.go", "StateTransition.to", "CreateAccount", 1, "createAccount"),
   ("core/vm/evm.go", "EVM.Call", "CreateAccount", 1, "createAccount"),
   ("core/vm/evm.go", "EVM.Create", "CreateAccount", 1, "createAccount"),
   ("core/vm/gas_table.go", "gasSuicide", "Suicide", 1, "not a mutator: the GasTable field `Suicide`"),
   ("core/vm/instructions.go", "opSuicide", "AddBalance", 1, "suicide (credit of the beneficiary)"),
   ("core/vm/instructions.go", "opSuicide", "Suicide", 1, "suicide (zeroing + mark)"),
   ("core/vm/runtime/runtime.go", "Execute", "CreateAccount", 1, "not consensus: stand-alone EVM runner"),
   ("opt/tests/state_test_util.go", "MakePreState", "SetBalance", 1, "not consensus: test fixture loader")]

def modelledSites : List (String × String × String × Nat) := modelledSitesDoc.map (fun (f, fn, s, n, _) => (f, fn, s, n))

/-- the functions of core/state that write a balance: the mutators of the alphabet plus their journal undo entries. -/
def modelledStateWriters : List String :=
  ["StateDB.CreateAccount", "StateDB.Suicide", "balanceChange.undo", "newObject", "stateObject.SetBalance", "stateObject.setBalance",
   "suicideChange.undo"]

end Aqv.Supply

/-
  Aqv.Model.TxSign — model of core/types/transaction_signing.go, transaction.go (signature part), gen_tx_json.go and
  crypto.ValidateSignatureValues.  Core-only.

  * the signed payloads are RLP items built with `Aqv.Rlp` (FrontierSigner.Hash: 6 fields; EIP155Signer.Hash: 6 fields +
    chainId, 0, 0); the hash function `H` (Keccak-256) is a PARAMETER;
  * ECDSA is a PARAMETER (`Ecdsa`): `sign key hash = (r, s, recid)`, `recover hash r s recid = some address | none`,
    `addr key`; what the theorems need about it is stated as explicit hypotheses (`Ecdsa.SignOK`, `Ecdsa.Symmetric`);
  * integers are `Nat` (`*big.Int` fields decoded from RLP / hexutil JSON are never negative); the one subtraction that can
    go negative (EIP155Signer.Sender: V - 2*chainId - 8) is an `Int`.
-/
import Aqv.Base.Bytes
import Aqv.Model.Rlp
import Aqv.Model.Keystore   -- hexEncode / hexDecode / nibVal / hexNib / ascii (encoding/hex)
namespace Aqv.TxSign
open Aqv Aqv.Rlp

def secpN : Nat := 0xfffffffffffffffffffffffffffffffebaaedce6af48a03bbfd25e8cd0364141
def secpHalfN : Nat := secpN / 2

/-- txdata (core/types/transaction.go). `to = none` is contract creation. -/
structure Tx where
  nonce : Nat
  price : Nat
  gas : Nat
  to : Option Bytes
  value : Nat
  data : Bytes
  v : Nat
  r : Nat
  s : Nat
  deriving DecidableEq, Repr

/-- the fields covered by the signature. -/
structure Signed where
  nonce : Nat
  price : Nat
  gas : Nat
  to : Option Bytes
  value : Nat
  data : Bytes
  deriving DecidableEq, Repr

def Tx.signed (t : Tx) : Signed := ⟨t.nonce, t.price, t.gas, t.to, t.value, t.data⟩

/-- shape restrictions of the Go types: uint64 nonce / gas, a recipient is 20 bytes. -/
def Tx.WF (t : Tx) : Prop :=
  t.nonce < 2 ^ 64 ∧ t.gas < 2 ^ 64 ∧ (∀ a, t.to = some a → a.length = 20)

inductive Signer
  | frontier
  | homestead
  | eip155 (chainId : Nat)
  deriving DecidableEq, Repr

inductive Err
  | invalidSig        -- ErrInvalidSig
  | invalidChainId    -- ErrInvalidChainId
  | recover           -- crypto.Ecrecover failed
  | mismatch          -- SignTx: sender mismatch
  deriving DecidableEq, Repr

structure Ecdsa where
  sign : Nat → Bytes → Nat × Nat × Nat          -- key, hash -> r, s, recovery id (crypto.Sign: [R || S || V], V in {0,1})
  recover : Bytes → Nat → Nat → Nat → Option Bytes   -- hash, r, s, recovery id -> address (Ecrecover + Keccak[12:])
  addr : Nat → Bytes                            -- PubkeyToAddress(key.PubKey())

/-- what crypto.Sign guarantees and Ecrecover inverts: components in range, canonical low S, recovery id 0/1. -/
structure Ecdsa.SignOK (E : Ecdsa) : Prop where
  r_range : ∀ k h, 1 ≤ (E.sign k h).1 ∧ (E.sign k h).1 < secpN
  s_range : ∀ k h, 1 ≤ (E.sign k h).2.1 ∧ (E.sign k h).2.1 ≤ secpHalfN
  v_range : ∀ k h, (E.sign k h).2.2 ≤ 1
  recover_sign : ∀ k h, E.recover h (E.sign k h).1 (E.sign k h).2.1 (E.sign k h).2.2 = some (E.addr k)

/-- the ECDSA symmetry behind signature malleability: (r, N-s, 1-v) verifies for the same key as (r, s, v). -/
def Ecdsa.Symmetric (E : Ecdsa) : Prop :=
  ∀ h r s v, 1 ≤ s → s < secpN → v ≤ 1 → E.recover h r (secpN - s) (1 - v) = E.recover h r s v

/-! ### signed payloads -/

def toBytes (to : Option Bytes) : Bytes := to.getD []

def baseFields (t : Signed) : List Item :=
  [.str (beBytes t.nonce), .str (beBytes t.price), .str (beBytes t.gas), .str (toBytes t.to), .str (beBytes t.value), .str t.data]

/-- FrontierSigner.Hash / HomesteadSigner.Hash payload. -/
def payloadFrontier (t : Signed) : Item := .list (baseFields t)

/-- EIP155Signer.Hash payload: ..., chainId, uint(0), uint(0). -/
def payload155 (t : Signed) (chainId : Nat) : Item := .list (baseFields t ++ [.str (beBytes chainId), .str [], .str []])

def Signer.payload : Signer → Signed → Item
  | .frontier, t => payloadFrontier t
  | .homestead, t => payloadFrontier t
  | .eip155 c, t => payload155 t c

/-- signer.Hash(tx). -/
def sigHash (H : Bytes → Bytes) (sg : Signer) (t : Tx) : Bytes := H (enc (sg.payload t.signed))

/-- the full transaction as RLP (EncodeRLP of txdata; Hash is `rlp:"-"`). -/
def itemOfTx (t : Tx) : Item :=
  .list (baseFields t.signed ++ [.str (beBytes t.v), .str (beBytes t.r), .str (beBytes t.s)])

def encodeTx (t : Tx) : Bytes := enc (itemOfTx t)

/-- tx.Hash(). -/
def txHash (H : Bytes → Bytes) (t : Tx) : Bytes := H (encodeTx t)

/-! ### typed RLP decoding of txdata -/

/-- canonical integer content: no leading zero byte (rlp decodeBigInt / uint). -/
def canonInt (b : Bytes) : Bool := b.head? != some 0

def decUint64 (b : Bytes) : Option Nat := if canonInt b && b.length ≤ 8 then some (beNat b) else none
def decBig (b : Bytes) : Option Nat := if canonInt b then some (beNat b) else none
/-- Recipient *common.Address `rlp:"nil"`: empty string -> nil, otherwise exactly 20 bytes. -/
def decTo (b : Bytes) : Option (Option Bytes) := if b = [] then some none else if b.length = 20 then some (some b) else none

def txOfItem : Item → Option Tx
  | .list [.str n, .str p, .str g, .str to, .str val, .str d, .str v, .str r, .str s] =>
    match decUint64 n, decBig p, decUint64 g, decTo to, decBig val, decBig v, decBig r, decBig s with
    | some n, some p, some g, some to, some val, some v, some r, some s => some ⟨n, p, g, to, val, d, v, r, s⟩
    | _, _, _, _, _, _, _, _ => none
  | _ => none

/-- rlp.DecodeBytes(bs, &tx). -/
def decodeTx (bs : Bytes) : Option Tx :=
  match dec bs with
  | .ok it => txOfItem it
  | .error _ => none

/-! ### V arithmetic -/

/-- isProtectedV. -/
def isProtectedV (v : Nat) : Bool := if v < 256 then v != 27 && v != 28 else true

/-- deriveChainId (the uint64 path wraps for v < 35). -/
def deriveChainId (v : Nat) : Nat :=
  if v < 2 ^ 64 then
    if v = 27 ∨ v = 28 then 0 else ((v + 2 ^ 64 - 35) % 2 ^ 64) / 2
  else (v - 35) / 2

/-- crypto.ValidateSignatureValues. -/
def validateSignatureValues (v : Nat) (r s : Nat) (homestead : Bool) : Bool :=
  if v != 0 && v != 1 then false
  else if r < 1 || s < 1 then false
  else if homestead && s > secpHalfN then false
  else r < secpN && s < secpN

/-- recoverPlain: `Vb.BitLen() > 8` looks at the magnitude; `byte(Vb.Uint64() - 27)` takes the low 64 bits of the
    magnitude, subtracts with wrap-around and truncates to a byte. -/
def recoverPlain (E : Ecdsa) (sighash : Bytes) (r s : Nat) (vb : Int) (homestead : Bool) : Except Err Bytes :=
  if vb.natAbs ≥ 256 then .error .invalidSig
  else
    let v := (vb.natAbs + 229) % 256
    if !validateSignatureValues v r s homestead then .error .invalidSig
    else
      match E.recover sighash r s v with
      | some a => .ok a
      | none => .error .recover

/-- Signer.Sender(tx). -/
def senderOf (E : Ecdsa) (H : Bytes → Bytes) (sg : Signer) (t : Tx) : Except Err Bytes :=
  match sg with
  | .frontier => recoverPlain E (sigHash H .frontier t) t.r t.s t.v false
  | .homestead => recoverPlain E (sigHash H .homestead t) t.r t.s t.v true
  | .eip155 c =>
    if !isProtectedV t.v then recoverPlain E (sigHash H .homestead t) t.r t.s t.v true
    else if deriveChainId t.v ≠ c then .error .invalidChainId
    else recoverPlain E (sigHash H (.eip155 c) t) t.r t.s ((t.v : Int) - 2 * (c : Int) - 8) false

/-- Signer.SignatureValues for a 65-byte [R || S || V] signature with V = `rid`. (`sig[64] + 27` is byte arithmetic.) -/
def signatureValues (sg : Signer) (r s rid : Nat) : Nat × Nat × Nat :=
  match sg with
  | .frontier => (r, s, (rid + 27) % 256)
  | .homestead => (r, s, (rid + 27) % 256)
  | .eip155 c => if c ≠ 0 then (r, s, (rid + 35) % 256 + 2 * c) else (r, s, (rid + 27) % 256)

/-- tx.WithSignature. -/
def withSignature (sg : Signer) (t : Tx) (r s rid : Nat) : Tx :=
  let (r', s', v') := signatureValues sg r s rid
  { t with v := v', r := r', s := s' }

/-- types.SignTx (including its final sender check). -/
def signTx (E : Ecdsa) (H : Bytes → Bytes) (sg : Signer) (t : Tx) (key : Nat) : Except Err Tx :=
  let sig := E.sign key (sigHash H sg t)
  let signed := withSignature sg t sig.1 sig.2.1 sig.2.2
  match senderOf E H sg signed with
  | .error e => .error e
  | .ok a => if a ≠ E.addr key then .error .mismatch else .ok signed

/-! ### the `from` cache (types.Sender) -/

/-- `s.Equal(s2)`: a type assertion on the concrete signer type (+ chain id). -/
def Signer.equal : Signer → Signer → Bool
  | .frontier, .frontier => true
  | .homestead, .homestead => true
  | .eip155 c, .eip155 c' => c == c'
  | _, _ => false

abbrev Cache := Option (Signer × Bytes)

/-- types.Sender(signer, tx) with the tx's `from` cache as explicit state. -/
def senderCached (E : Ecdsa) (H : Bytes → Bytes) (cache : Cache) (sg : Signer) (t : Tx) : Except Err Bytes × Cache :=
  let compute : Except Err Bytes × Cache :=
    match senderOf E H sg t with
    | .ok a => (.ok a, some (sg, a))
    | .error e => (.error e, cache)
  match cache with
  | some (cs, a) => if cs.equal sg then (.ok a, cache) else compute
  | none => compute

/-- a sequence of Sender calls on one transaction object. -/
def senderSeq (E : Ecdsa) (H : Bytes → Bytes) (t : Tx) : Cache → List Signer → List (Except Err Bytes)
  | _, [] => []
  | c, sg :: rest => let (res, c') := senderCached E H c sg t; res :: senderSeq E H t c' rest

/-! ### the transaction OBJECT: data + the three caches (hash, size, from) -/

/-- `types.Transaction`: `data` and the atomic.Value caches `hash`, `size`, `from` (`none` = not yet stored). -/
structure TxObj where
  data : Tx
  hashC : Option Bytes
  sizeC : Option Nat
  fromC : Cache

/-- a freshly built object (NewTransaction / a decoder's `*tx = Transaction{data: dec}`): empty caches.
    (DecodeRLP also stores the size of the list it read, which is the size of the encoding: `ObjOK` covers it.) -/
def TxObj.fresh (t : Tx) : TxObj := ⟨t, none, none, none⟩

/-- tx.Hash(). -/
def objHash (H : Bytes → Bytes) (o : TxObj) : Bytes × TxObj :=
  match o.hashC with
  | some h => (h, o)
  | none => let h := txHash H o.data; (h, { o with hashC := some h })

/-- tx.Size(). -/
def objSize (o : TxObj) : Nat × TxObj :=
  match o.sizeC with
  | some n => (n, o)
  | none => let n := (encodeTx o.data).length; (n, { o with sizeC := some n })

/-- types.Sender(signer, tx) on the object. -/
def objSender (E : Ecdsa) (H : Bytes → Bytes) (o : TxObj) (sg : Signer) : Except Err Bytes × TxObj :=
  let (res, c') := senderCached E H o.fromC sg o.data
  (res, { o with fromC := c' })

/-- tx.WithSignature: `cpy := &Transaction{data: tx.data}` — a NEW object whose caches are empty, whatever the old one held. -/
def objWithSignature (sg : Signer) (o : TxObj) (r s rid : Nat) : TxObj :=
  TxObj.fresh (withSignature sg o.data r s rid)

inductive Op
  | hash
  | size
  | sender (sg : Signer)
  | withSig (sg : Signer) (r s rid : Nat)     -- continue on the object WithSignature returns

inductive Obs
  | hash (h : Bytes)
  | size (n : Nat)
  | sender (r : Except Err Bytes)
  | resigned

/-- a life of operations on one object (following the new object after each WithSignature). -/
def runOps (E : Ecdsa) (H : Bytes → Bytes) : TxObj → List Op → List Obs
  | _, [] => []
  | o, .hash :: rest => let (h, o') := objHash H o; .hash h :: runOps E H o' rest
  | o, .size :: rest => let (n, o') := objSize o; .size n :: runOps E H o' rest
  | o, .sender sg :: rest => let (r, o') := objSender E H o sg; .sender r :: runOps E H o' rest
  | o, .withSig sg r s rid :: rest => .resigned :: runOps E H (objWithSignature sg o r s rid) rest

/-- the same life without any cache: every observation is a function of the current data. -/
def pureOps (E : Ecdsa) (H : Bytes → Bytes) : Tx → List Op → List Obs
  | _, [] => []
  | t, .hash :: rest => .hash (txHash H t) :: pureOps E H t rest
  | t, .size :: rest => .size (encodeTx t).length :: pureOps E H t rest
  | t, .sender sg :: rest => .sender (senderOf E H sg t) :: pureOps E H t rest
  | t, .withSig sg r s rid :: rest => .resigned :: pureOps E H (withSignature sg t r s rid) rest

/-! ### MakeSigner -/

/-- params.isForked(s, head). -/
def isForked (s head : Option Nat) : Bool :=
  match s, head with
  | some s, some h => s ≤ h
  | _, _ => false

def makeSigner (homesteadBlock eip155Block : Option Nat) (chainId : Nat) (num : Option Nat) : Signer :=
  if isForked eip155Block num then .eip155 chainId
  else if isForked homesteadBlock num then .homestead
  else .frontier

/-! ### JSON (gen_tx_json.go + hexutil) -/

open Aqv.Keystore (hexEncode hexDecode nibVal hexNib ascii)

/-- base-16 digits, most significant first, `[]` for 0. -/
def hexDigitsF : Nat → Nat → List Nat
  | 0, _ => []
  | f+1, n => if n = 0 then [] else hexDigitsF f (n / 16) ++ [n % 16]

def ofDigits (ds : List Nat) : Nat := ds.foldl (fun acc d => acc * 16 + d) 0

/-- hexutil.EncodeBig / EncodeUint64: "0x" + hex without leading zeros, "0x0" for zero. -/
def encQuantity (n : Nat) : Bytes :=
  ascii "0x" ++ (if n = 0 then [48] else (hexDigitsF n n).map hexNib)

def digitsOf : Bytes → Option (List Nat)
  | [] => some []
  | c :: r => match nibVal c, digitsOf r with
    | some d, some ds => some (d :: ds)
    | _, _ => none

/-- hexutil number decoding (checkNumberText): "0x" prefix, non-empty, no leading zero except "0x0"; at most `maxDigits`. -/
def decQuantity (maxDigits : Nat) (b : Bytes) : Option Nat :=
  match b with
  | [] => some 0                         -- hexutil: "empty strings are allowed" and decode to zero
  | 48 :: x :: rest =>
    if x ≠ 120 ∧ x ≠ 88 then none
    else if rest = [] then none
    else if rest.length > 1 ∧ rest.head? = some 48 then none
    else if rest.length > maxDigits then none
    else (digitsOf rest).map ofDigits
  | _ => none

/-- hexutil.Bytes: "0x" + hex. -/
def encData (b : Bytes) : Bytes := ascii "0x" ++ hexEncode b
def decData (b : Bytes) : Option Bytes :=
  match b with
  | [] => some []                        -- hexutil: empty strings are allowed
  | 48 :: x :: rest => if x ≠ 120 ∧ x ≠ 88 then none else hexDecode rest
  | _ => none

/-- the JSON object of a transaction: the values of "nonce", "gasPrice", "gas", "to" (none = null), "value", "input",
    "v", "r", "s" as JSON strings ("hash" is output only). -/
structure TxJson where
  nonce : Bytes
  gasPrice : Bytes
  gas : Bytes
  to : Option Bytes
  value : Bytes
  input : Bytes
  v : Bytes
  r : Bytes
  s : Bytes
  deriving DecidableEq, Repr

/-- txdata.MarshalJSON. -/
def jsonOfTx (t : Tx) : TxJson :=
  ⟨encQuantity t.nonce, encQuantity t.price, encQuantity t.gas, t.to.map encData, encQuantity t.value, encData t.data,
   encQuantity t.v, encQuantity t.r, encQuantity t.s⟩

/-- the recovery id Transaction.UnmarshalJSON computes in uint64 / byte arithmetic before validating. -/
def jsonRecId (v : Nat) : Nat :=
  if isProtectedV v then
    let chainID := deriveChainId v % 2 ^ 64
    ((v % 2 ^ 64 + 2 * 2 ^ 64 - 35 + (2 ^ 64 - (2 * chainID) % 2 ^ 64)) % 2 ^ 64) % 256
  else ((v % 2 ^ 64 + 2 ^ 64 - 27) % 2 ^ 64) % 256

/-- Transaction.UnmarshalJSON: field decoding (hexutil.Uint64: 16 digits, hexutil.Big: 64 digits, address: 20 bytes) and
    the signature-range validation. -/
def txOfJson (j : TxJson) : Option Tx :=
  match decQuantity 16 j.nonce, decQuantity 64 j.gasPrice, decQuantity 16 j.gas, decQuantity 64 j.value, decData j.input,
        decQuantity 64 j.v, decQuantity 64 j.r, decQuantity 64 j.s with
  | some n, some p, some g, some val, some d, some v, some r, some s =>
    let to : Option (Option Bytes) := match j.to with
      | none => some none
      | some a => match decData a with
        | some b => if b.length = 20 then some (some b) else none
        | none => none
    match to with
    | none => none
    | some to =>
      if validateSignatureValues (jsonRecId v) r s false then some ⟨n, p, g, to, val, d, v, r, s⟩ else none
  | _, _, _, _, _, _, _, _ => none

end Aqv.TxSign

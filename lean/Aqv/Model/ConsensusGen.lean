/-
  Aqv.Model.ConsensusGen — the consensus model instantiated with the constants REGENERATED from the Go packages
  (Aqv.Gen.Params: package params; Aqv.Gen.Pow: unexported constants of consensus/aquahash).  Core-only.
-/
import Aqv.Model.Consensus
import Aqv.Gen.Params
import Aqv.Gen.Pow
namespace Aqv.Consensus

/-- `params.*` difficulty constants as the code has them now. -/
def Gen.diffParams : DiffParams :=
  { mainnetChainId := Aqv.Gen.Params.mainnetChainId
    minGenesis := Aqv.Gen.Params.minimumDifficultyGenesis
    minHF1 := Aqv.Gen.Params.minimumDifficultyHF1
    minHF3 := Aqv.Gen.Params.minimumDifficultyHF3
    minHF5 := Aqv.Gen.Params.minimumDifficultyHF5
    minHF5Testnet := Aqv.Gen.Params.minimumDifficultyHF5Testnet
    div := Aqv.Gen.Params.difficultyBoundDivisor
    divHF5 := Aqv.Gen.Params.difficultyBoundDivisorHF5
    divHF6 := Aqv.Gen.Params.difficultyBoundDivisorHF6
    divHF8 := Aqv.Gen.Params.difficultyBoundDivisorHF8
    durLimit := Aqv.Gen.Params.durationLimit
    durLimitHF6 := Aqv.Gen.Params.durationLimitHF6 }

/-- header-rule constants as the code has them now. -/
def Gen.vParams : VParams :=
  { maxExtra := Aqv.Gen.Params.maximumExtraDataSize
    gasDivisor := Aqv.Gen.Params.gasLimitBoundDivisor
    minGasLimit := Aqv.Gen.Params.minGasLimit
    future := Aqv.Gen.Pow.allowedFutureBlockTime
    maxUncles := Aqv.Gen.Pow.maxUncles
    maxUnclesHF5 := Aqv.Gen.Pow.maxUnclesHF5 }

def cfgOf (n : Aqv.Gen.Params.NetCfg) : Config := { chainId := n.chainId, forks := n.forks }

/-- the generated built-in configuration with the given name. -/
def Gen.config? (name : String) : Option Config :=
  (Aqv.Gen.Params.configs.find? (fun n => n.name == name)).map cfgOf

/-- the schedule of record for the named networks of the statement (mainnet, testnet, test); other built-in
    configurations have no independent record and are taken as generated. -/
def Spec.config? (name : String) : Option Config :=
  if name == "mainnet" then some { chainId := 61717561, forks := Spec.mainnetForks }
  else if name == "testnet" then some { chainId := 617175611, forks := Spec.testnetForks }
  else if name == "test" then some { chainId := 3, forks := Spec.testForks }
  else Gen.config? name

end Aqv.Consensus

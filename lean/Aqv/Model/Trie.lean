/-
  Aqv.Model.Trie — the Merkle-Patricia trie of /repo/trie over fully loaded nodes.  Core-only.

  Mirrors, function by function:
    trie/encoding.go   keybytesToHex, hexToCompact, compactToHex, hexToKeybytes, decodeNibbles, prefixLen, hasTerm
    trie/trie.go       tryGet, insert, delete (the three recursive workers) and TryGet/TryUpdate/TryDelete
    trie/hasher.go     hash/hashChildren/store: collapse, embed when the RLP is < 32 bytes and not forced, else hash reference
    trie/iterator.go   the (key, value) sequence the leaf iterator yields (child order 0..16)
  Spec side:           `lookup` (denotation of a trie as a partial map), `build`/`mptRoot` (Yellow-Paper construction of the
                       canonical trie from a key/value list, independent of insert/delete).

  Representation choices (each is a refinement of a Go type, not a change of behaviour):
  * a hex nibble is `Fin 17` (Go: one byte holding 0..15, or 16 = terminator; every producer in the package —
    keybytesToHex, compactToHex — yields only such bytes);
  * `fullNode.Children [17]node` is a function `Fin 17 → Node`;
  * cache flags (hash, gen, dirty) are not state of the model: they are pure caching and the correspondence harness
    checks (by the root hash) that the cached hashes are never stale;
  * a Go panic (index out of range, "invalid node") is the explicit outcome `none` of the worker functions
    (`no_panic` theorems show it is unreachable from the public API).
-/
import Aqv.Base.Bytes
import Aqv.Model.Rlp
namespace Aqv.Trie
open Aqv Aqv.Rlp

abbrev Nib := Fin 17

/-- the terminator nibble (Go: 16). -/
abbrev T : Nib := 16

inductive Node where
  | nil
  | value (v : Bytes)
  | short (key : List Nib) (val : Node)
  | full (cs : Nib → Node)

instance : Inhabited Node := ⟨.nil⟩

def Node.isNil : Node → Bool
  | .nil => true
  | _ => false

/-! ## trie/encoding.go -/

def nibOf (n : Nat) : Nib := ⟨n % 16, by omega⟩

/-- `keybytesToHex` without the trailing terminator: two nibbles per byte (`b / 16`, `b % 16`). -/
def bytesToNibs : Bytes → List Nib
  | [] => []
  | b :: bs => nibOf (b.toNat / 16) :: nibOf b.toNat :: bytesToNibs bs

def keybytesToHex (s : Bytes) : List Nib := bytesToNibs s ++ [T]

/-- `hasTerm`: non-empty and the last nibble is 16. -/
def hasTerm (k : List Nib) : Bool := k.getLast? == some T

def nibByte (n : Nib) : UInt8 := UInt8.ofNat n.val

/-- `decodeNibbles`: `bytes[bi] = nibbles[ni]<<4 | nibbles[ni+1]` (byte arithmetic, wrap-around kept).
    Both callers pass an even number of nibbles (hexToCompact by construction, hexToKeybytes after its explicit check). -/
def decodeNibbles : List Nib → Bytes
  | a :: b :: rest => ((nibByte a <<< 4) ||| nibByte b) :: decodeNibbles rest
  | _ => []

/-- the body of `hexToCompact` once the terminator flag `t` has been split off: flag byte (`t<<5`, odd flag `1<<4`,
    first nibble when the count is odd) followed by the packed nibbles. -/
def compactOf (t : UInt8) (hex : List Nib) : Bytes :=
  if hex.length % 2 = 1 then
    match hex with
    | h :: rest => ((t <<< 5) ||| ((1 : UInt8) <<< 4) ||| nibByte h) :: decodeNibbles rest
    | [] => [t <<< 5]
  else (t <<< 5) :: decodeNibbles hex

def hexToCompact (hex : List Nib) : Bytes :=
  if hasTerm hex then compactOf 1 hex.dropLast else compactOf 0 hex

/-- `compactToHex`; `none` = the Go function panics (`base[0]` on an empty input: index out of range). -/
def compactToHex (compact : Bytes) : Option (List Nib) :=
  let base := bytesToNibs compact
  match base with
  | [] => none
  | b0 :: _ =>
    let base := if 2 ≤ b0.val then base ++ [T] else base
    some (base.drop (2 - b0.val % 2))

/-- `hexToKeybytes`; `none` = the explicit panic "can't convert hex key of odd length". -/
def hexToKeybytes (hex : List Nib) : Option Bytes :=
  let hex := if hasTerm hex then hex.dropLast else hex
  if hex.length % 2 ≠ 0 then none else some (decodeNibbles hex)

def prefixLen : List Nib → List Nib → Nat
  | a :: as, b :: bs => if a = b then prefixLen as bs + 1 else 0
  | _, _ => 0

/-! ## trie/trie.go -/

def emptyCs : Nib → Node := fun _ => .nil

def setChild (cs : Nib → Node) (i : Nib) (n : Node) : Nib → Node := fun j => if j = i then n else cs j

/-- `t.insert(nil, prefix, key, value)` as used when a short node is split: an empty key returns `value` itself. -/
def insertNil (key : List Nib) (value : Node) : Node :=
  if key = [] then value else .short key value

/-- `tryGet`. Outer `none` = Go panic (`key[pos]` at a full node with the key exhausted). Inner `none` = not found.
    Note the `valueNode` case returns the value whatever is left of the key, exactly as the Go code does. -/
def get : Node → List Nib → Option (Option Bytes)
  | .nil, _ => some none
  | .value v, _ => some (some v)
  | .short k c, key => if key.take k.length = k then get c (key.drop k.length) else some none
  | .full _, [] => none
  | .full cs, x :: key => get (cs x) key

/-- `(*Trie).insert` with a `valueNode` value; result `(dirty, newnode)`, `none` = Go panic
    (`key[matchlen]` out of range when the key is a proper prefix of a short node's key; `default:` invalid node
    when a value node is reached with key left). When the recursive call is not dirty the ORIGINAL node is returned. -/
def insert : Node → List Nib → Bytes → Option (Bool × Node)
  | .value w, [], v => some (w != v, .value v)
  | _, [], v => some (true, .value v)
  | .short nk c, key@(_ :: _), v =>
    let m := prefixLen key nk
    if m = nk.length then
      match insert c (key.drop m) v with
      | none => none
      | some (dirty, nn) => if dirty then some (true, .short nk nn) else some (false, .short nk c)
    else
      match nk[m]?, key[m]? with
      | some b, some a =>
        let branch : Node := .full (setChild (setChild emptyCs b (insertNil (nk.drop (m + 1)) c)) a
                                      (insertNil (key.drop (m + 1)) (.value v)))
        if m = 0 then some (true, branch) else some (true, .short (key.take m) branch)
      | _, _ => none
  | .full cs, x :: rest, v =>
    match insert (cs x) rest v with
    | none => none
    | some (dirty, nn) => if dirty then some (true, .full (setChild cs x nn)) else some (false, .full cs)
  | .nil, key@(_ :: _), v => some (true, .short key (.value v))
  | .value _, _ :: _, _ => none

/-- the `pos` loop of `delete`: `some i` iff child `i` is the only non-nil child. -/
def onlyChild (cs : Nib → Node) : Option Nib :=
  match (List.finRange 17).filter (fun i => !(cs i).isNil) with
  | [i] => some i
  | _ => none

/-- `(*Trie).delete`; result `(dirty, newnode)`, `none` = Go panic (`key[0]` at a full node with the key exhausted). -/
def delete : Node → List Nib → Option (Bool × Node)
  | .short nk c, key =>
    let m := prefixLen key nk
    if m < nk.length then some (false, .short nk c)
    else if m = key.length then some (true, .nil)
    else
      match delete c (key.drop nk.length) with
      | none => none
      | some (dirty, child) =>
        if !dirty then some (false, .short nk c)
        else
          match child with
          | .short ck cv => some (true, .short (nk ++ ck) cv)
          | _ => some (true, .short nk child)
  | .full _, [] => none
  | .full cs, x :: rest =>
    match delete (cs x) rest with
    | none => none
    | some (dirty, nn) =>
      if !dirty then some (false, .full cs)
      else
        let cs' := setChild cs x nn
        match onlyChild cs' with
        | some pos =>
          if pos ≠ T then
            match cs' pos with
            | .short ck cv => some (true, .short (pos :: ck) cv)
            | _ => some (true, .short [pos] (cs' pos))
          else some (true, .short [pos] (cs' pos))
        | none => some (true, .full cs')
  | .value _, _ => some (true, .nil)
  | .nil, _ => some (false, .nil)

/-- `TryGet`. -/
def tryGet (t : Node) (key : Bytes) : Option (Option Bytes) := get t (keybytesToHex key)

/-- `TryUpdate`: a zero-length value deletes. -/
def tryUpdate (t : Node) (key value : Bytes) : Option Node :=
  if value.length ≠ 0 then (insert t (keybytesToHex key) value).map (·.2)
  else (delete t (keybytesToHex key)).map (·.2)

/-- `TryDelete`. -/
def tryDelete (t : Node) (key : Bytes) : Option Node := (delete t (keybytesToHex key)).map (·.2)

/-! ## Spec: canonical-shape invariant (DESIGN Appendix A.1) -/

/-- no terminator inside. -/
def Hex (k : List Nib) : Prop := ∀ x ∈ k, x ≠ T

/-- a terminated hex key: nibbles below 16 followed by exactly one terminator (what `keybytesToHex` produces). -/
def Term : List Nib → Prop
  | [] => False
  | [x] => x = T
  | x :: y :: r => x ≠ T ∧ Term (y :: r)

/-- canonical shape of a non-empty (sub)trie: leaves carry terminated keys and non-empty values, extensions carry
    non-empty unterminated keys and point to a branch (never short→short), a branch has at least two non-nil
    children, children 0..15 are nil/short/full, child 16 is nil or a non-empty value. -/
inductive WF : Node → Prop
  | leaf (k : List Nib) (v : Bytes) : Term k → v ≠ [] → WF (.short k (.value v))
  | ext (k : List Nib) (cs : Nib → Node) : k ≠ [] → Hex k → WF (.full cs) → WF (.short k (.full cs))
  | full (cs : Nib → Node) : (∀ i, i ≠ T → cs i ≠ .nil → WF (cs i)) →
      (cs T = .nil ∨ ∃ v, v ≠ [] ∧ cs T = .value v) →
      (∃ i j, i ≠ j ∧ cs i ≠ .nil ∧ cs j ≠ .nil) → WF (.full cs)

def WFRoot (t : Node) : Prop := t = .nil ∨ WF t

/-! ## Functional reading of insert/delete (no dirty flag, no panic outcome) — a proof device: `insert`/`delete`
    are shown to return exactly these whenever they return at all (Lemmas.Trie `insert_eq_ins`, `delete_eq_del`). -/

def ins : Node → List Nib → Bytes → Node
  | _, [], v => .value v
  | .short nk c, key@(_ :: _), v =>
    let m := prefixLen key nk
    if m = nk.length then .short nk (ins c (key.drop m) v)
    else
      match nk[m]?, key[m]? with
      | some b, some a =>
        let branch : Node := .full (setChild (setChild emptyCs b (insertNil (nk.drop (m + 1)) c)) a
                                      (insertNil (key.drop (m + 1)) (.value v)))
        if m = 0 then branch else .short (key.take m) branch
      | _, _ => .nil
  | .full cs, x :: rest, v => .full (setChild cs x (ins (cs x) rest v))
  | .nil, key@(_ :: _), v => .short key (.value v)
  | .value _, _ :: _, _ => .nil

/-- the collapse step of `delete` on a branch whose child has just been replaced. -/
def collapse (cs' : Nib → Node) : Node :=
  match onlyChild cs' with
  | some pos =>
    if pos ≠ T then
      match cs' pos with
      | .short ck cv => .short (pos :: ck) cv
      | _ => .short [pos] (cs' pos)
    else .short [pos] (cs' pos)
  | none => .full cs'

/-- the merge step of `delete` on a short node whose child has just been replaced. -/
def mergeShort (nk : List Nib) (child : Node) : Node :=
  match child with
  | .short ck cv => .short (nk ++ ck) cv
  | _ => .short nk child

def del : Node → List Nib → Node
  | .short nk c, key =>
    let m := prefixLen key nk
    if m < nk.length then .short nk c
    else if m = key.length then .nil
    else mergeShort nk (del c (key.drop nk.length))
  | .full cs, [] => .full cs
  | .full cs, x :: rest => collapse (setChild cs x (del (cs x) rest))
  | .value _, _ => .nil
  | .nil, _ => .nil

/-! ## public API histories -/

/-- one operation of a history. Everything that is not an update or delete (get, Hash, Commit, reopen from the
    committed root, SetCacheLimit, iterate, Prove) must leave the content unchanged: the model treats it as a no-op and
    the correspondence harness checks that the real code agrees. -/
inductive Op where
  | update (k v : Bytes)
  | delete (k : Bytes)
  | other

def step (t : Node) : Op → Option Node
  | .update k v => tryUpdate t k v
  | .delete k => tryDelete t k
  | .other => some t

/-- run a history from trie `t`; `none` = some step panicked. -/
def runFrom (t : Node) : List Op → Option Node
  | [] => some t
  | op :: ops =>
    match step t op with
    | none => none
    | some t' => runFrom t' ops

def run (ops : List Op) : Option Node := runFrom .nil ops

/-- the reference finite map (as a function) after a history: the Spec of the content. -/
def absStep (m : Bytes → Option Bytes) : Op → Bytes → Option Bytes
  | .update k v => fun k' => if k' = k then (if v.length ≠ 0 then some v else none) else m k'
  | .delete k => fun k' => if k' = k then none else m k'
  | .other => m

def absFrom (m : Bytes → Option Bytes) : List Op → Bytes → Option Bytes
  | [] => m
  | op :: ops => absFrom (absStep m op) ops

def absOf (ops : List Op) : Bytes → Option Bytes := absFrom (fun _ => none) ops

/-! ## trie/hasher.go — collapsed node as an RLP item, embedding rule, root hash (for an arbitrary hash function `H`) -/

/-- `store`: a collapsed node whose RLP is shorter than 32 bytes stays embedded in its parent, else it is replaced
    by the hash of its RLP (a 32-byte string for Keccak). -/
def wrap (H : Bytes → Bytes) (it : Item) : Item :=
  if (enc it).length < 32 then it else .str (H (enc it))

/-- what a node contributes to its parent's RLP (`hash(n, db, force=false)` then `rlp.Encode`):
    nil → empty string, value → string, short/full → embedded list or hash reference. -/
def ref (H : Bytes → Bytes) : Node → Item
  | .nil => .str []
  | .value v => .str v
  | .short k c => wrap H (.list [.str (hexToCompact k), ref H c])
  | .full cs => wrap H (.list ((List.finRange 17).map fun i => ref H (cs i)))

/-- the collapsed node itself (`hashChildren`): children replaced by their references, key hex-prefix encoded. -/
def body (H : Bytes → Bytes) : Node → Item
  | .nil => .str []
  | .value v => .str v
  | .short k c => .list [.str (hexToCompact k), ref H c]
  | .full cs => .list ((List.finRange 17).map fun i => ref H (cs i))

/-- `Trie.Hash` (`hashRoot`, force = true): the hash of the root's RLP whatever its size; the empty trie hashes
    the RLP of the empty string (`emptyRoot` = Keccak(0x80)). -/
def hashRoot (H : Bytes → Bytes) (t : Node) : Bytes := H (enc (body H t))

/-! ## trie/iterator.go — leaf sequence -/

/-- (hex path incl. terminator, value) of every leaf, in the order `nodeIterator` visits them (children 0..16). -/
def toList : Node → List (List Nib × Bytes)
  | .nil => []
  | .value v => [([], v)]
  | .short k c => (toList c).map fun kv => (k ++ kv.1, kv.2)
  | .full cs => (List.finRange 17).flatMap fun i => (toList (cs i)).map fun kv => (i :: kv.1, kv.2)

/-- iteration order on hex keys: lexicographic on nibbles (the terminator 16 sorts last at its position). -/
def keyLt : List Nib → List Nib → Bool
  | [], [] => false
  | [], _ :: _ => true
  | _ :: _, [] => false
  | a :: as, b :: bs => if a.val < b.val then true else if b.val < a.val then false else keyLt as bs

/-! ## Spec: denotation, canonical shape, Yellow-Paper construction -/

/-- the partial map a trie denotes (strict: a value is found only when the key is exactly consumed). -/
def lookup : Node → List Nib → Option Bytes
  | .nil, _ => none
  | .value v, k => if k = [] then some v else none
  | .short p c, k => if k.take p.length = p then lookup c (k.drop p.length) else none
  | .full _, [] => none
  | .full cs, x :: k => lookup (cs x) k

/-- longest common prefix of two / of all keys. -/
def lcp2 : List Nib → List Nib → List Nib
  | a :: as, b :: bs => if a = b then a :: lcp2 as bs else []
  | _, _ => []

def lcpAll : List (List Nib × Bytes) → List Nib
  | [] => []
  | [kv] => kv.1
  | kv :: rest => lcp2 kv.1 (lcpAll rest)

def dropKeys (n : Nat) (kvs : List (List Nib × Bytes)) : List (List Nib × Bytes) :=
  kvs.map fun kv => (kv.1.drop n, kv.2)

/-- Yellow-Paper style construction of the canonical trie of a list of (hex key, value) pairs (Appendix D,
    `c(J, i)`): one pair → leaf; a non-empty common prefix → extension; otherwise a branch on the next nibble.
    Fuel: one unit per level. Does not use `insert`/`delete`. -/
def build : Nat → List (List Nib × Bytes) → Node
  | 0, _ => .nil
  | _ + 1, [] => .nil
  | _ + 1, [kv] => if kv.1 = [] then .value kv.2 else .short kv.1 (.value kv.2)
  | f + 1, kvs =>
    let p := lcpAll kvs
    if p ≠ [] then .short p (build f (dropKeys p.length kvs))
    else .full fun i => build f (dropKeys 1 (kvs.filter fun kv => kv.1.head? == some i))

def keyLenSum (kvs : List (List Nib × Bytes)) : Nat := kvs.foldr (fun kv a => kv.1.length + a) 0

/-- the Merkle-Patricia root the specification defines for a content given as a (hex key, value) list. -/
def mptRoot (H : Bytes → Bytes) (kvs : List (List Nib × Bytes)) : Bytes :=
  hashRoot H (build (keyLenSum kvs + 2) kvs)

end Aqv.Trie

/-
  Aqv.Model.FeedMu — the prologues of `Feed.Send` and `Feed.Subscribe` (aqua/event/feed.go) with `f.mu`, the sendLock
  token and the lazily initialised element type `f.etype` made explicit, as sequences of primitive operations.
  The main model (Aqv.Model.Feed) treats every `f.mu` section as one atomic step and only has well-typed calls; this file
  names two facts about the code as written:
  * `f.etype` is read and WRITTEN (first use) by `typecheck`, and both callers run it with `f.mu` held — the obligation
    whose violation is a data race between the first Send and the first Subscribe/Send on a fresh feed
    (`accessesGuarded`, theorem `etype_write_requires_mu`);
  * on the misuse path "value of the wrong type" Send puts the token back and panics WITHOUT unlocking `f.mu`
    (`send_type_mismatch_panics_with_lock_held_witness`).
-/
namespace Aqv.FeedMu

/-- the part of the Feed touched by the prologues; element types are numbered -/
structure Pro where
  tokenFree : Bool          -- sendLock holds its token
  muLocked : Bool           -- f.mu is held
  etype : Option Nat        -- f.etype (nil until the first Subscribe/Send)
  deriving DecidableEq, Repr

inductive Outcome
  | proceeds | panics
  deriving DecidableEq, Repr

inductive Op
  | takeToken               -- <-f.sendLock
  | putToken                -- f.sendLock <- struct{}{}
  | lockMu | unlockMu       -- f.mu.Lock() / f.mu.Unlock()
  | readEtype               -- typecheck: `f.etype == nil`, `f.etype == typ`
  | writeEtype (ty : Nat)   -- typecheck: `f.etype = typ` (first use only)
  | panic
  deriving DecidableEq, Repr

def apply (s : Pro) : Op → Pro
  | .takeToken => { s with tokenFree := false }
  | .putToken => { s with tokenFree := true }
  | .lockMu => { s with muLocked := true }
  | .unlockMu => { s with muLocked := false }
  | .readEtype => s
  | .writeEtype ty => { s with etype := some ty }
  | .panic => s

/-- `typecheck(ty)` on a feed whose element type is `et`: the accesses it makes, and whether it succeeds -/
def typecheckOps (et : Option Nat) (ty : Nat) : List Op × Bool :=
  match et with
  | none => ([.readEtype, .writeEtype ty], true)
  | some t => ([.readEtype], t == ty)

/-- Send, from `<-f.sendLock` to the `f.mu.Unlock()` after the inbox merge, as written:
    `<-f.sendLock; f.mu.Lock(); merge; if !f.typecheck(T) { f.sendLock <- struct{}{}; panic(...) }; f.mu.Unlock()` -/
def sendOps (et : Option Nat) (ty : Nat) : List Op :=
  let (tc, ok) := typecheckOps et ty
  [.takeToken, .lockMu] ++ tc ++ (if ok then [.unlockMu] else [.putToken, .panic])

/-- Subscribe: `f.mu.Lock(); defer f.mu.Unlock(); if !f.typecheck(T) { panic(...) }; f.inbox = append(...)` -/
def subscribeOps (et : Option Nat) (ty : Nat) : List Op :=
  let (tc, ok) := typecheckOps et ty
  [.lockMu] ++ tc ++ (if ok then [.unlockMu] else [.panic, .unlockMu])     -- the deferred Unlock also runs on panic

def runOps (s : Pro) (ops : List Op) : Pro × Outcome :=
  (ops.foldl apply s, if ops.contains .panic then .panics else .proceeds)

def sendPrologue (s : Pro) (ty : Nat) : Pro × Outcome := runOps s (sendOps s.etype ty)

/-- every access to `f.etype` in the sequence is made while this goroutine holds `f.mu` -/
def accessesGuarded (held : Bool) : List Op → Bool
  | [] => true
  | .lockMu :: r => accessesGuarded true r
  | .unlockMu :: r => accessesGuarded false r
  | .readEtype :: r => held && accessesGuarded held r
  | .writeEtype _ :: r => held && accessesGuarded held r
  | _ :: r => accessesGuarded held r

/-- the shape of seeded change C19-3: the type check hoisted in front of `<-f.sendLock` and `f.mu.Lock()` -/
def sendOpsHoisted (et : Option Nat) (ty : Nat) : List Op :=
  let (tc, ok) := typecheckOps et ty
  tc ++ (if ok then [.takeToken, .lockMu, .unlockMu] else [.panic])

/-- Subscribe, Send and remove all begin a critical section with `f.mu.Lock()` -/
def canLockMu (s : Pro) : Bool := !s.muLocked

end Aqv.FeedMu

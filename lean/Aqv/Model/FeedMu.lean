/-
  Aqv.Model.FeedMu — the prologue of `Feed.Send` (aqua/event/feed.go) with `f.mu` and the element-type check made
  explicit.  The main model (Aqv.Model.Feed) treats every `f.mu` section as one atomic step and only has well-typed
  calls; this file documents what the code does on the misuse path "value of the wrong type": it puts the sendLock token
  back and panics WITHOUT unlocking `f.mu`.
-/
namespace Aqv.FeedMu

/-- the part of the Feed touched by the prologue of Send; element types are numbered -/
structure Pro where
  tokenFree : Bool          -- sendLock holds its token
  muLocked : Bool           -- f.mu is held
  etype : Option Nat        -- f.etype (nil until the first Subscribe/Send)
  deriving DecidableEq, Repr

inductive Outcome
  | proceeds | panics
  deriving DecidableEq, Repr

/-- `<-f.sendLock; f.mu.Lock(); merge inbox; if !f.typecheck(T) { f.sendLock <- struct{}{}; panic(...) }; f.mu.Unlock()` -/
def sendPrologue (s : Pro) (ty : Nat) : Pro × Outcome :=
  let s1 := { s with tokenFree := false, muLocked := true }
  match s1.etype with
  | none => ({ s1 with etype := some ty, muLocked := false }, .proceeds)
  | some t =>
    if t = ty then ({ s1 with muLocked := false }, .proceeds)
    else ({ s1 with tokenFree := true }, .panics)      -- the token is returned, f.mu is not

/-- Subscribe, Send and remove all begin a critical section with `f.mu.Lock()` -/
def canLockMu (s : Pro) : Bool := !s.muLocked

end Aqv.FeedMu

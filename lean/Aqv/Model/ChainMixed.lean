/-
  Aqv.Model.ChainMixed — total-difficulty-level model of ONE chain instance fed through both import paths
  (`BlockChain.InsertChain` and `BlockChain.InsertHeaderChain`), for the mixed histories of property C02.  Core only.

  The two paths share the `HeaderChain` state: the header store, the td records and the head header (`currentHeader` /
  the cached `currentHeaderHash` from which `WriteHeader` computes the local total difficulty).  `BlockChain.insert` moves
  the head header in memory (`setCurrentHeaderInMemory`) whenever the new head block is not what the number index held at
  its height (`updateHeads`).

  Abstraction.  The number index and the lookups are NOT modelled here (in mixed histories the index is rewritten by both
  paths and is out of C03's scope).  Which block the head header ends on after a block became head depends on the index
  (`updateHeads` of every `insert` call, also those inside `reorg`): it is the new head, one of its ancestors re-inserted
  by `reorg`, or the old head header.  That choice therefore is an input `hh : Option Nat` of every block import (index
  into the ancestry of the new head; `none` = unchanged), resolved like the coin: the replay follows every value, the
  theorems hold for all.  Archive node (state is kept with every block),
  imports only (no rewind: header ancestries are complete, so the pre-walk of fix 2ee9efd always succeeds and `reorg`
  always finds the common ancestor).
    hdr   hash ↦ header present (`GetHeader ≠ nil`)        blk   block body + state present (`HasBlockAndState`)
    td    hash ↦ total difficulty                            head / hhead   `CurrentBlock` / `CurrentHeader`
-/
import Aqv.Model.Chain
namespace Aqv.Chain

structure MSt where
  genesis : Blk
  hdr : Map Blk
  blk : Nat → Bool
  td : Map Nat
  head : Nat
  hhead : Nat

structure MOut where
  st : MSt
  err : Option Err

def minit (g : Blk) : MSt :=
  { genesis := g
    hdr := upd (fun _ => none) g.id (some g)
    blk := updB (fun _ => false) g.id true
    td := upd (fun _ => none) g.id (some g.diff)
    head := g.id, hhead := g.id }

/-- `WriteBlockWithState` at td level: record, block, fork choice (`decideReorg`), head block; `hh` = where the
    `updateHeads` decisions of `BlockChain.insert` leave the head header (see the header comment) -/
def mWriteBlock (s : MSt) (b : Blk) (coin : Bool) (hh : Option Nat) : MOut :=
  match s.td b.parent with
  | none => ⟨s, some .unknownAncestor⟩
  | some ptd =>
    match s.hdr s.head, s.td s.head with
    | some cur, some localTd =>
      let s1 : MSt := { s with
        td := upd s.td b.id (some (ptd + b.diff))
        hdr := upd s.hdr b.id (some b)
        blk := updB s.blk b.id true }
      if decideReorg (ptd + b.diff) localTd b.number cur.number coin then
        let hhead' := match hh with
          | none => s.hhead
          | some k =>
            match (ancestry s1.hdr (b.number + 1) b)[k]? with
            | some x => x.id
            | none => s.hhead
        ⟨{ s1 with head := b.id, hhead := hhead' }, none⟩
      else ⟨s1, none⟩
    | _, _ => ⟨s, some .modelPanic⟩

/-- fix 130fc0e: the recorded total difficulty of a known block exceeds the head's -/
def mHeavier (s : MSt) (b : Blk) (localTd : Nat) : Bool :=
  match s.td b.id with
  | some e => decide (e > localTd)
  | none => false

/-- one iteration of the import loop of `insertChain2` (archive node) -/
def mImportOne (s : MSt) (b : Blk) (coin : Bool) (hh : Option Nat) : MOut :=
  match headerCheck s.hdr b with
  | some e => ⟨s, some e⟩
  | none =>
    match s.hdr s.head, s.td s.head with
    | some cur, some localTd =>
      if s.blk b.id then
        -- ErrKnownBlock (with fix 130fc0e)
        if decide (cur.number ≥ b.number) && !mHeavier s b localTd then ⟨s, none⟩
        else mWriteBlock s b coin hh
      else if !s.blk b.parent then ⟨s, some .unknownAncestor⟩     -- parent known as a header only: no body
      else mWriteBlock s b coin hh
    | _, _ => ⟨s, some .modelPanic⟩

def mImportSeq (s : MSt) : List Blk → List (Bool × Option Nat) → Nat → MOut × Nat
  | [], _, i => (⟨s, none⟩, i)
  | b :: bs, cs, i =>
    let c := cs.headD (false, none)
    let o := mImportOne s b c.1 c.2
    match o.err with
    | some _ => (o, i)
    | none => mImportSeq o.st bs cs.tail (i + 1)

/-- `InsertChain` -/
def mImportChain (s : MSt) (chain : List Blk) (cs : List (Bool × Option Nat)) : MOut × Nat :=
  mImportSeq s (contigPrefix chain) cs 0

/-- `HeaderChain.WriteHeader` at td level: the local total difficulty is that of the head header -/
def mWriteHeader (s : MSt) (h : Blk) (coin : Bool) : MOut :=
  match s.td h.parent with
  | none => ⟨s, some .unknownAncestor⟩
  | some ptd =>
    match s.td s.hhead with
    | some localTd =>
      let s1 : MSt := { s with td := upd s.td h.id (some (ptd + h.diff)), hdr := upd s.hdr h.id (some h) }
      if decide (ptd + h.diff > localTd) || (ptd + h.diff == localTd && coin) then
        ⟨{ s1 with hhead := h.id }, none⟩
      else ⟨s1, none⟩
    | none => ⟨s, some .modelPanic⟩

def mInsertHeaders (s : MSt) : List Blk → List Bool → Nat → MOut × Nat
  | [], _, i => (⟨s, none⟩, i)
  | h :: hs, coins, i =>
    if (s.hdr h.id).isSome then mInsertHeaders s hs coins (i + 1)
    else
      let o := mWriteHeader s h (coins.headD false)
      match o.err with
      | some _ => (o, i)
      | none => mInsertHeaders o.st hs coins.tail (i + 1)

/-- `InsertHeaderChain` -/
def mImportHeaders (s : MSt) (chain : List Blk) (coins : List Bool) : MOut × Nat :=
  if !isContig chain then (⟨s, some .nonContiguous⟩, 0)
  else
    match chain with
    | [] => (⟨s, none⟩, 0)
    | h :: _ =>
      match headerCheck s.hdr h with
      | some e => (⟨s, some e⟩, 0)
      | none => mInsertHeaders s chain coins 0

/-- operations of a mixed history -/
inductive MOp
  | blocks (chain : List Blk) (cs : List (Bool × Option Nat))  -- InsertChain; per block (coin, head-header choice)
  | headers (chain : List Blk) (coins : List Bool)          -- InsertHeaderChain

def mstep (s : MSt) : MOp → MOut
  | .blocks chain cs => (mImportChain s chain cs).1
  | .headers chain coins => (mImportHeaders s chain coins).1

def mrun (s : MSt) : List MOp → MSt
  | [] => s
  | op :: ops => mrun (mstep s op).st ops

/-! ### index-level model of one chain fed through both paths (property C03 on mixed histories)

`XSt` = the full-import database `St` (its `store` holds the blocks with bodies) plus the header store `hdrs` (every
header present, with or without body).  Both paths share `td`, `canon` and the head header: a block batch runs the
full-import model (`importChain`) on `full`; a header batch runs the header-chain model (`hImportChain`) on the
projection `toH` and writes td / number index / head header back.  Nothing new is modelled: mixed histories only
compose the two models over the shared fields (archive node, imports only). -/

structure XSt where
  full : St
  hdrs : Map Blk

def xinit (g : Blk) : XSt := ⟨init g true, upd (fun _ => none) g.id (some g)⟩

/-- the header chain as `HeaderChain` sees it -/
def toH (s : XSt) : HSt :=
  { genesis := s.full.genesis, store := s.hdrs, td := s.full.td, canon := s.full.canon, hhead := s.full.hhead }

/-- raise the ghost bound `top` over the heights of a batch (see `St.top`) -/
def raiseTop (s : St) (chain : List Blk) : St :=
  { s with top := chain.foldl (fun m b => max m b.number) s.top }

/-- the header store once blocks were written: every stored block has its header; `H0` holds the headers that were there -/
def overlay (store H0 : Map Blk) : Map Blk := fun k =>
  match store k with
  | some b => some b
  | none => H0 k

/-- `InsertChain` on the shared database: the header of every stored block is present afterwards -/
def xImportChain (s : XSt) (chain : List Blk) (coins : List (List Bool)) : XSt × Option Err × Nat :=
  let r := importChain (raiseTop s.full chain) chain coins
  (⟨r.1.st, overlay r.1.st.store s.hdrs⟩, r.1.err, r.2)

/-- `InsertHeaderChain` on the shared database -/
def xImportHeaders (s : XSt) (chain : List Blk) (coins : List Bool) : XSt × Option Err × Nat :=
  let r := hImportChain (toH s) chain coins
  let f := raiseTop s.full chain
  (⟨{ f with td := r.1.st.td, canon := r.1.st.canon, hhead := r.1.st.hhead }, r.1.st.store⟩, r.1.err, r.2)

def xstep (s : XSt) : MOp → XSt
  | .blocks chain cs => (xImportChain s chain (cs.map fun c => [c.1])).1
  | .headers chain coins => (xImportHeaders s chain coins).1

def xrun (s : XSt) : List MOp → XSt
  | [] => s
  | op :: ops => xrun (xstep s op) ops

end Aqv.Chain

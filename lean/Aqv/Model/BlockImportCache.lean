/-
  Aqv.Model.BlockImportCache — Layer D of the block-import model (property C01): the runtime caches that sit between the
  import path and the database, and a node (`NodeK`) whose every read goes through them.  Core-only.

  Go objects modelled (core/blockchain.go, core/headerchain.go, core/state/database.go):
    `blockCache`, `bodyCache`, `bodyRLPCache`, `hc.headerCache`, `hc.numberCache`
        read-through LRUs keyed by block hash, filled by GetBlock/GetBody/GetHeader/GetBlockNumber, NEVER touched by WriteBlock,
        purged by SetHead — one partial map `block` (header and body are projections of the block);
    `hc.tdCache`   keyed by block hash, filled on reads AND by every WriteTd (write-through), purged by SetHead — `td`;
    `stateCache`   (`cachingDB`): `pastTries` and the in-memory trie nodes, keyed by state root (content-addressed) — `state`;
                   trie cache generations only decide which subtrees of such a trie are loaded: by C10 `unload_denotation`
                   a partially loaded trie denotes the same content, so they do not appear here;
    `codeSizeCache` keyed by CODE HASH (content-addressed) — `codeSize`, with the lookup `codeSizeLookup` below.
  An LRU may hold ANY subset of what was read or written: the caches are arbitrary partial maps; `fill` / `evict` events let an
  adversary load any entry of the store into them and drop any entries at any point of a history.
  Not modelled: `futureBlocks` (queue of not-yet-importable blocks, a delivery mechanism) and `badBlocks` (reporting only).
-/
import Aqv.Model.BlockImport
namespace Aqv.BlockImport

structure Caches (St Tx : Type) where
  block : Hash → Option (Block Tx)
  td : Hash → Option Nat
  state : Hash → Option St
  codeSize : Nat → Option Nat

def Caches.empty {St Tx} : Caches St Tx :=
  { block := fun _ => none, td := fun _ => none, state := fun _ => none, codeSize := fun _ => none }

/-- `GetBlock` / `GetTd` / `HasBlock` as the node answers them: cache first, then the database. -/
def readBlock {St Tx} (K : Caches St Tx) (S : Store St Tx) (h : Hash) : Option (Stored Tx) :=
  match K.block h, S.blocks h with
  | some b, some s => some { s with block := b, td := (K.td h).getD s.td }
  | some b, none => some { block := b, td := (K.td h).getD 0, receipts := none, gasUsed := 0 }
  | none, some s => some { s with td := (K.td h).getD s.td }
  | none, none => none

/-- `state.New(root, stateCache)` / `HasState`: a past trie or in-memory nodes first, then the database. -/
def readState {St Tx} (K : Caches St Tx) (S : Store St Tx) (r : Hash) : Option St :=
  match K.state r with
  | some st => some st
  | none => S.states r

/-- the chain as the import path sees it through the caches. -/
def view {St Tx} (K : Caches St Tx) (S : Store St Tx) : Store St Tx :=
  { blocks := readBlock K S, states := readState K S, head := S.head, log := S.log }

/-- what can happen to a running node: the events of Layer C plus cache traffic. -/
inductive EventK (St Tx : Type)
  | chain (ev : Event Tx)
  /-- LRU eviction: only the entries selected by the four predicates survive. -/
  | evict (kb kt ks : Hash → Bool) (kc : Nat → Bool)
  /-- read-through / write-time `Add`: the selected keys are (re)loaded from the store. -/
  | fill (fb ft fs : Hash → Bool)

structure NodeK (St Tx : Type) where
  store : Store St Tx
  caches : Caches St Tx

/-- `tdCache` is write-through (`WriteTd` adds the new value): cached keys follow the store. -/
def refreshTd {St Tx} (K : Caches St Tx) (S : Store St Tx) : Caches St Tx :=
  { K with td := fun h => match K.td h with | some _ => (S.blocks h).map (·.td) | none => none }

def NodeK.apply {St Tx} (C : ChainComp St Tx) (cfg : Cfg) (N : NodeK St Tx) : EventK St Tx → NodeK St Tx
  | .chain (.insert batch coins) =>
    let S' := (insertChain C cfg coins (view N.caches N.store) batch).2.2      -- every read goes through the caches
    { store := S', caches := refreshTd N.caches S' }                          -- block/state/code caches: untouched by writes
  | .chain (.prune keep) =>
    -- a root still held by the state cache is, for the node, not pruned yet: pruning drops it from both
    { store := N.store.apply C cfg (.prune keep),
      caches := { N.caches with state := fun r => if keep r then N.caches.state r else none } }
  | .chain .restart => { store := N.store, caches := Caches.empty }
  | .chain (.setHead keep head) =>
    -- SetHead purges bodyCache, bodyRLPCache, blockCache, futureBlocks, headerCache, tdCache, numberCache
    { store := N.store.apply C cfg (.setHead keep head),
      caches := { N.caches with block := fun _ => none, td := fun _ => none } }
  | .evict kb kt ks kc =>
    { N with caches := { block := fun h => if kb h then N.caches.block h else none,
                         td := fun h => if kt h then N.caches.td h else none,
                         state := fun r => if ks r then N.caches.state r else none,
                         codeSize := fun c => if kc c then N.caches.codeSize c else none } }
  | .fill fb ft fs =>
    { N with caches := { N.caches with
        block := fun h => if fb h then (match N.store.blocks h with | some s => some s.block | none => N.caches.block h) else N.caches.block h,
        td := fun h => if ft h then (match N.store.blocks h with | some s => some s.td | none => N.caches.td h) else N.caches.td h,
        state := fun r => if fs r then (match N.store.states r with | some st => some st | none => N.caches.state r) else N.caches.state r } }

def NodeK.run {St Tx} (C : ChainComp St Tx) (cfg : Cfg) (N : NodeK St Tx) (evs : List (EventK St Tx)) : NodeK St Tx :=
  evs.foldl (NodeK.apply C cfg) N

/-- the Layer-C history a cached history amounts to (cache traffic erased). -/
def stripK {St Tx} : List (EventK St Tx) → List (Event Tx)
  | [] => []
  | .chain ev :: rest => ev :: stripK rest
  | _ :: rest => stripK rest

/-! ### the code-size cache (core/state/database.go `ContractCodeSize`) -/

/-- `ContractCodeSize(addrHash, codeHash)`: the LRU is consulted under `key addr codeHash`; on a miss the code is read from the
    content-addressed code table `db` (code hash ↦ length of the code) and the answer is cached under that key.
    The tree keys by code hash: `key = fun _ ch => ch`. -/
def codeSizeLookup (key : Addr → Hash → Nat) (cache : Nat → Option Nat) (db : Hash → Option Nat) (a : Addr) (codeHash : Hash) :
    Option Nat × (Nat → Option Nat) :=
  match cache (key a codeHash) with
  | some n => (some n, cache)
  | none =>
    match db codeHash with
    | some n => (some n, upd cache (key a codeHash) (some n))
    | none => (none, cache)

def keyByCodeHash : Addr → Hash → Nat := fun _ ch => ch
def keyByAddress : Addr → Hash → Nat := fun a _ => a


/-! ### the per-transaction sender cache (core/types/transaction_signing.go `Sender`) -/

/-- `types.Sender(signer, tx)`: `tx.from` caches `sigCache{signer, from}`; the cached address is served only when
    `same cachedSigner signer` (Go: `sigcache.signer.Equal(signer)`), otherwise the sender is recovered under `signer` (the
    signer decides which signatures are acceptable at all: Homestead cannot recover a replay-protected transaction). -/
def senderCached {Tx Signer : Type} (recover : Signer → Tx → Option Addr) (same : Signer → Signer → Bool)
    (cache : Option (Signer × Addr)) (signer : Signer) (tx : Tx) : Option Addr :=
  match cache with
  | some (s, a) => if same s signer then some a else recover signer tx
  | none => recover signer tx

/-! ### BLOCKHASH (core/evm.go `GetHashFn`) -/

/-- `GetHashFn(ref, chain)(n)`: walk the parent links from `ref.ParentHash` until the header with number `n`; fuel = distance. -/
def blockHashWalk (hdr : Hash → Option Header) : Nat → Hash → Nat → Hash
  | 0, _, _ => 0
  | f + 1, h, n =>
    match hdr h with
    | none => 0
    | some x => if x.number = n then h else blockHashWalk hdr f x.parentHash n

end Aqv.BlockImport

/-
  Aqv.Model.FeedUser — a user of a Feed that sends while holding its own mutex (core/tx_pool.go: `add()` runs with
  `pool.mu` held and announces a transaction on `pool.txFeed`), and a subscriber that takes that mutex between two receives
  (opt/aquastats: `pool.Stats()` per event; the miner: `pool.Pending()`).  Core Lean only.

  `Feed.Send` returns only when every subscriber has taken the value (C19: slow subscribers are not dropped), so for an
  unbuffered subscriber a Send is a rendezvous with the subscriber's receive.  `step false` is the code as written: the user
  SPAWNS the Send (`go pool.txFeed.Send(...)`) and carries on; `step true` is the synchronous variant.
-/
namespace Aqv.FeedUser

inductive Mu | free | user | sub
  deriving DecidableEq, Repr

/-- the user (TxPool.addTxs): lock, announce `k` more events, unlock -/
inductive UPc | idle | locked (k : Nat) | done
  deriving DecidableEq, Repr

/-- the subscriber loop: `ev := <-ch; pool.Stats()` -/
inductive SPc | recv | wantMu | inStats
  deriving DecidableEq, Repr

structure St where
  mu : Mu
  upc : UPc
  spc : SPc
  pending : Nat      -- spawned Send goroutines that have not been received from yet
  delivered : Nat
  deriving DecidableEq, Repr

inductive Act | userLock (n : Nat) | userEmit | userUnlock | asyncDeliver | subLock | subUnlock
  deriving DecidableEq, Repr

def step (sync : Bool) (s : St) : Act → Option St
  -- pool.mu.Lock() at the start of a batch that will announce n events
  | .userLock n => if s.upc = .idle ∧ s.mu = .free then some { s with mu := .user, upc := .locked n } else none
  -- announce one event: synchronous Send = rendezvous with the subscriber's receive; `go Send` = spawn and go on
  | .userEmit =>
    match s.upc with
    | .locked (k + 1) =>
      if sync then
        if s.spc = .recv then some { s with upc := .locked k, spc := .wantMu, delivered := s.delivered + 1 } else none
      else some { s with upc := .locked k, pending := s.pending + 1 }
    | _ => none
  | .userUnlock => if s.upc = .locked 0 then some { s with mu := .free, upc := .done } else none
  -- a spawned Send hands its value to the subscriber
  | .asyncDeliver =>
    if 0 < s.pending ∧ s.spc = .recv then some { s with pending := s.pending - 1, spc := .wantMu, delivered := s.delivered + 1 }
    else none
  -- the subscriber's pool.Stats(): RLock … RUnlock
  | .subLock => if s.spc = .wantMu ∧ s.mu = .free then some { s with mu := .sub, spc := .inStats } else none
  | .subUnlock => if s.spc = .inStats then some { s with mu := .free, spc := .recv } else none

def start : St := { mu := .free, upc := .idle, spc := .recv, pending := 0, delivered := 0 }

inductive Reach (sync : Bool) : St → Prop
  | init : Reach sync start
  | step {s s' : St} (a : Act) : Reach sync s → step sync s a = some s' → Reach sync s'

/-- everything has returned and every event has been received -/
def Final (s : St) : Prop := (s.upc = .done ∨ s.upc = .idle) ∧ s.pending = 0 ∧ s.spc = .recv

def Enabled (sync : Bool) (s : St) : Prop := ∃ a s', step sync s a = some s'

end Aqv.FeedUser

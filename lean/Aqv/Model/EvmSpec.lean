/-
  Aqv.Model.EvmSpec — Spec side of property C08 (core-only): what the EVM specification (Yellow Paper, EIP-145 for the
  shifts) defines. Results are `BitVec 256` expressions, gas costs are `Nat` formulas, jump-destination validity is
  "a JUMPDEST byte that is not inside PUSH data", and the opcode tables per fork are written by hand from the
  specification (never derived from the Go tables).
-/
namespace Aqv.EvmSpec

abbrev W := BitVec 256

def bool (b : Bool) : W := if b then 1 else 0

def add (a b : W) : W := a + b
def sub (a b : W) : W := a - b
def mul (a b : W) : W := a * b
def div (a b : W) : W := if b = 0 then 0 else a / b
/-- signed division truncating toward zero; −2²⁵⁵ / −1 = −2²⁵⁵ -/
def sdiv (a b : W) : W := if b = 0 then 0 else BitVec.sdiv a b
def mod (a b : W) : W := if b = 0 then 0 else a % b
/-- signed remainder, sign of the dividend -/
def smod (a b : W) : W := if b = 0 then 0 else BitVec.srem a b
/-- intermediate result not subject to the 2²⁵⁶ modulo -/
def addmod (a b n : W) : W := if n = 0 then 0 else BitVec.ofNat 256 ((a.toNat + b.toNat) % n.toNat)
def mulmod (a b n : W) : W := if n = 0 then 0 else BitVec.ofNat 256 ((a.toNat * b.toNat) % n.toNat)
/-- a^e mod m by binary exponentiation (so that the Spec can be *evaluated* for 256-bit exponents);
    `Aqv.Lemmas.EvmOps.powMod_eq : powMod a e m = a ^ e % m`. The fuel only has to exceed log2 e. -/
def powModF : Nat → Nat → Nat → Nat → Nat
  | 0, _, _, m => 1 % m
  | f + 1, a, e, m =>
    if e = 0 then 1 % m
    else
      let h := powModF f (a * a % m) (e / 2) m
      if e % 2 = 1 then a * h % m else h
def powMod (a e m : Nat) : Nat := powModF (e.log2 + 1) a e m
/-- EXP: a^e mod 2²⁵⁶ (`exp_meaning`: `(exp a e).toNat = a.toNat ^ e.toNat % 2^256`) -/
def exp (a e : W) : W := BitVec.ofNat 256 (powMod a.toNat e.toNat (2 ^ 256))
/-- SIGNEXTEND(b, x): x taken as a (b+1)-byte two's-complement number, sign-extended to 256 bits; unchanged for b ≥ 31. -/
def signextend (b x : W) : W :=
  if b.toNat < 31 then (x.setWidth (8 * (b.toNat + 1))).signExtend 256 else x
def lt (a b : W) : W := bool (a.ult b)
def gt (a b : W) : W := bool (b.ult a)
def slt (a b : W) : W := bool (a.slt b)
def sgt (a b : W) : W := bool (b.slt a)
def eq (a b : W) : W := bool (a == b)
def iszero (a : W) : W := bool (a == 0)
def and (a b : W) : W := a &&& b
def or (a b : W) : W := a ||| b
def xor (a b : W) : W := a ^^^ b
def not (a : W) : W := ~~~a
/-- BYTE(i, x): i-th byte counting from the most significant; 0 for i ≥ 32 -/
def byte (i x : W) : W := if i.toNat < 32 then (x >>> (8 * (31 - i.toNat))) &&& 0xff else 0
/-- EIP-145, with the explicit "shift ≥ 256" clauses of the EIP so that the Spec can be evaluated for 256-bit shift amounts;
    `shl_meaning` / `shr_meaning` / `sar_meaning` show these are exactly `value <<< shift`, `value >>> shift` and
    `value.sshiftRight shift` (arithmetic shift: fill with the sign bit). -/
def shl (shift value : W) : W := if shift.toNat ≥ 256 then 0 else value <<< shift.toNat
def shr (shift value : W) : W := if shift.toNat ≥ 256 then 0 else value >>> shift.toNat
def sar (shift value : W) : W :=
  if shift.toNat ≥ 256 then (if value.msb then BitVec.allOnes 256 else 0) else value.sshiftRight shift.toNat

-- ---------------------------------------------------------------------------------------------------------------------
-- gas (Yellow Paper appendix G/H), on Nat

/-- C_mem(a) = G_memory·a + ⌊a² / 512⌋ for a memory of `a` words -/
def cmem (a : Nat) : Nat := 3 * a + a * a / 512
def words (n : Nat) : Nat := (n + 31) / 32
/-- µ_i' = M(µ_i, f, l): active words after touching [f, f+l) -/
def memExpand (cur f l : Nat) : Nat := if l = 0 then cur else max cur (words (f + l))
/-- number of bytes of the exponent: 0 for 0, else ⌊log256 e⌋ + 1 -/
def byteLen (e : Nat) : Nat := if e = 0 then 0 else Nat.log2 e / 8 + 1
/-- G_exp + G_expbyte·bytes(e) -/
def gasExp (expByte e : Nat) : Nat := 10 + expByte * byteLen e
/-- G_sha3 + G_sha3word·⌈s/32⌉ (memory expansion charged separately) -/
def gasSha3 (size : Nat) : Nat := 30 + 6 * words size
/-- G_verylow (or G_extcode base) + G_copy·⌈s/32⌉ -/
def gasCopy (base size : Nat) : Nat := base + 3 * words size
/-- G_log + n·G_logtopic + G_logdata·size -/
def gasLog (n size : Nat) : Nat := 375 + 375 * n + 8 * size
/-- EIP-150 "all but one 64th" -/
def allButOne64th (n : Nat) : Nat := n - n / 64
/-- gas handed to a callee after EIP-150: min(requested, L(available − extra)) -/
def callGasCap (available extra requested : Nat) : Nat := min requested (allButOne64th (available - extra))

-- ---------------------------------------------------------------------------------------------------------------------
-- jump destinations: walk the instructions from position 0; the n bytes after PUSHn are data.

def pushLen (op : UInt8) : Nat := if op ≥ 0x60 ∧ op ≤ 0x7f then op.toNat - 0x5f else 0

/-- per position: `true` iff the position holds an instruction (is not inside PUSH data). `skip` = data bytes still
    pending from a preceding PUSH. -/
def isCodeFrom : Nat → List UInt8 → List Bool
  | _, [] => []
  | 0, op :: rest => true :: isCodeFrom (pushLen op) rest
  | skip + 1, _ :: rest => false :: isCodeFrom skip rest

def isCode (code : List UInt8) : List Bool := isCodeFrom 0 code

/-- D(c): valid jump destinations -/
def validJumpdest (code : List UInt8) (dest : Nat) : Bool :=
  dest < code.length && code.getD dest 0 == 0x5b && (isCode code).getD dest false

-- ---------------------------------------------------------------------------------------------------------------------
-- opcode tables, by hand from the specification: (opcode, δ = items removed, α = items added, constant gas if the cost
-- does not depend on operands/state/memory, halts, jumps (alters pc itself), reverts)

structure Row where
  op : Nat
  pops : Nat
  pushes : Nat
  gas : Option Nat
  halts : Bool := false
  jumps : Bool := false
  reverts : Bool := false
deriving DecidableEq, Repr

def wZero : Option Nat := some 0
def wBase : Option Nat := some 2
def wVeryLow : Option Nat := some 3
def wLow : Option Nat := some 5
def wMid : Option Nat := some 8
def wHigh : Option Nat := some 10
def wJumpdest : Option Nat := some 1
def wBlockhash : Option Nat := some 20
def dyn : Option Nat := none

def pushRows : List Row := (List.range 32).map fun i => { op := 0x60 + i, pops := 0, pushes := 1, gas := wVeryLow }
def dupRows : List Row := (List.range 16).map fun i => { op := 0x80 + i, pops := i + 1, pushes := i + 2, gas := wVeryLow }
def swapRows : List Row := (List.range 16).map fun i => { op := 0x90 + i, pops := i + 2, pushes := i + 2, gas := wVeryLow }
def logRows : List Row := (List.range 5).map fun i => { op := 0xa0 + i, pops := i + 2, pushes := 0, gas := dyn }

/-- Frontier (with EIP-150 pricing handled by the gas table for the state-reading opcodes, which are `dyn` here). -/
def frontierRows : List Row :=
  [ { op := 0x00, pops := 0, pushes := 0, gas := wZero, halts := true },   -- STOP
    { op := 0x01, pops := 2, pushes := 1, gas := wVeryLow },               -- ADD
    { op := 0x02, pops := 2, pushes := 1, gas := wLow },                   -- MUL
    { op := 0x03, pops := 2, pushes := 1, gas := wVeryLow },               -- SUB
    { op := 0x04, pops := 2, pushes := 1, gas := wLow },                   -- DIV
    { op := 0x05, pops := 2, pushes := 1, gas := wLow },                   -- SDIV
    { op := 0x06, pops := 2, pushes := 1, gas := wLow },                   -- MOD
    { op := 0x07, pops := 2, pushes := 1, gas := wLow },                   -- SMOD
    { op := 0x08, pops := 3, pushes := 1, gas := wMid },                   -- ADDMOD
    { op := 0x09, pops := 3, pushes := 1, gas := wMid },                   -- MULMOD
    { op := 0x0a, pops := 2, pushes := 1, gas := dyn },                    -- EXP
    { op := 0x0b, pops := 2, pushes := 1, gas := wLow },                   -- SIGNEXTEND
    { op := 0x10, pops := 2, pushes := 1, gas := wVeryLow },               -- LT
    { op := 0x11, pops := 2, pushes := 1, gas := wVeryLow },               -- GT
    { op := 0x12, pops := 2, pushes := 1, gas := wVeryLow },               -- SLT
    { op := 0x13, pops := 2, pushes := 1, gas := wVeryLow },               -- SGT
    { op := 0x14, pops := 2, pushes := 1, gas := wVeryLow },               -- EQ
    { op := 0x15, pops := 1, pushes := 1, gas := wVeryLow },               -- ISZERO
    { op := 0x16, pops := 2, pushes := 1, gas := wVeryLow },               -- AND
    { op := 0x17, pops := 2, pushes := 1, gas := wVeryLow },               -- OR
    { op := 0x18, pops := 2, pushes := 1, gas := wVeryLow },               -- XOR
    { op := 0x19, pops := 1, pushes := 1, gas := wVeryLow },               -- NOT
    { op := 0x1a, pops := 2, pushes := 1, gas := wVeryLow },               -- BYTE
    { op := 0x20, pops := 2, pushes := 1, gas := dyn },                    -- SHA3
    { op := 0x30, pops := 0, pushes := 1, gas := wBase },                  -- ADDRESS
    { op := 0x31, pops := 1, pushes := 1, gas := dyn },                    -- BALANCE
    { op := 0x32, pops := 0, pushes := 1, gas := wBase },                  -- ORIGIN
    { op := 0x33, pops := 0, pushes := 1, gas := wBase },                  -- CALLER
    { op := 0x34, pops := 0, pushes := 1, gas := wBase },                  -- CALLVALUE
    { op := 0x35, pops := 1, pushes := 1, gas := wVeryLow },               -- CALLDATALOAD
    { op := 0x36, pops := 0, pushes := 1, gas := wBase },                  -- CALLDATASIZE
    { op := 0x37, pops := 3, pushes := 0, gas := dyn },                    -- CALLDATACOPY
    { op := 0x38, pops := 0, pushes := 1, gas := wBase },                  -- CODESIZE
    { op := 0x39, pops := 3, pushes := 0, gas := dyn },                    -- CODECOPY
    { op := 0x3a, pops := 0, pushes := 1, gas := wBase },                  -- GASPRICE
    { op := 0x3b, pops := 1, pushes := 1, gas := dyn },                    -- EXTCODESIZE
    { op := 0x3c, pops := 4, pushes := 0, gas := dyn },                    -- EXTCODECOPY
    { op := 0x40, pops := 1, pushes := 1, gas := wBlockhash },             -- BLOCKHASH
    { op := 0x41, pops := 0, pushes := 1, gas := wBase },                  -- COINBASE
    { op := 0x42, pops := 0, pushes := 1, gas := wBase },                  -- TIMESTAMP
    { op := 0x43, pops := 0, pushes := 1, gas := wBase },                  -- NUMBER
    { op := 0x44, pops := 0, pushes := 1, gas := wBase },                  -- DIFFICULTY
    { op := 0x45, pops := 0, pushes := 1, gas := wBase },                  -- GASLIMIT
    { op := 0x50, pops := 1, pushes := 0, gas := wBase },                  -- POP
    { op := 0x51, pops := 1, pushes := 1, gas := dyn },                    -- MLOAD
    { op := 0x52, pops := 2, pushes := 0, gas := dyn },                    -- MSTORE
    { op := 0x53, pops := 2, pushes := 0, gas := dyn },                    -- MSTORE8
    { op := 0x54, pops := 1, pushes := 1, gas := dyn },                    -- SLOAD
    { op := 0x55, pops := 2, pushes := 0, gas := dyn },                    -- SSTORE
    { op := 0x56, pops := 1, pushes := 0, gas := wMid, jumps := true },    -- JUMP
    { op := 0x57, pops := 2, pushes := 0, gas := wHigh, jumps := true },   -- JUMPI
    { op := 0x58, pops := 0, pushes := 1, gas := wBase },                  -- PC
    { op := 0x59, pops := 0, pushes := 1, gas := wBase },                  -- MSIZE
    { op := 0x5a, pops := 0, pushes := 1, gas := wBase },                  -- GAS
    { op := 0x5b, pops := 0, pushes := 0, gas := wJumpdest } ]             -- JUMPDEST
  ++ pushRows ++ dupRows ++ swapRows ++ logRows ++
  [ { op := 0xf0, pops := 3, pushes := 1, gas := dyn },                    -- CREATE
    { op := 0xf1, pops := 7, pushes := 1, gas := dyn },                    -- CALL
    { op := 0xf2, pops := 7, pushes := 1, gas := dyn },                    -- CALLCODE
    { op := 0xf3, pops := 2, pushes := 0, gas := dyn, halts := true },     -- RETURN
    { op := 0xff, pops := 1, pushes := 0, gas := dyn, halts := true } ]    -- SELFDESTRUCT

def homesteadAdd : List Row := [ { op := 0xf4, pops := 6, pushes := 1, gas := dyn } ]             -- DELEGATECALL (EIP-7)
def byzantiumAdd : List Row :=
  [ { op := 0x3d, pops := 0, pushes := 1, gas := wBase },                  -- RETURNDATASIZE (EIP-211)
    { op := 0x3e, pops := 3, pushes := 0, gas := dyn },                    -- RETURNDATACOPY (EIP-211)
    { op := 0xfa, pops := 6, pushes := 1, gas := dyn },                    -- STATICCALL (EIP-214)
    { op := 0xfd, pops := 2, pushes := 0, gas := dyn, reverts := true } ]  -- REVERT (EIP-140)
def shiftAdd : List Row :=
  [ { op := 0x1b, pops := 2, pushes := 1, gas := wVeryLow },               -- SHL (EIP-145)
    { op := 0x1c, pops := 2, pushes := 1, gas := wVeryLow },               -- SHR
    { op := 0x1d, pops := 2, pushes := 1, gas := wVeryLow } ]              -- SAR

/-- fork level: 0 Frontier, 1 Homestead, 2 Byzantium, 3 Constantinople-shifts (EIP-145; what this code base calls
    Constantinople and what aquachain's HF5 activates together with the Byzantium opcodes). Levels are cumulative. -/
def rowsAt (level : Nat) : List Row :=
  frontierRows ++ (if level ≥ 1 then homesteadAdd else []) ++ (if level ≥ 2 then byzantiumAdd else [])
    ++ (if level ≥ 3 then shiftAdd else [])

/-- rows sorted by opcode (insertion sort; the tables are small). -/
def insertRow (r : Row) : List Row → List Row
  | [] => [r]
  | x :: xs => if r.op ≤ x.op then r :: x :: xs else x :: insertRow r xs
def sortRows (rs : List Row) : List Row := rs.foldr insertRow []

def opcodeTable (level : Nat) : List Row := sortRows (rowsAt level)

end Aqv.EvmSpec

/-
  Aqv.Model.StateRoot — the CONCRETE state root the specification defines for a state content, for an arbitrary hash
  function `H` (Keccak-256 in the driver).  Core-only.

    stateRootSpec H addrs slots content =
      mptRoot H { H(addr) ↦ rlp(Account{Nonce, Balance, Root, CodeHash}) | content addr = some acct }      (C10 `mptRoot`)
        Root     = mptRoot H { H(slot) ↦ rlp(value with leading zeros trimmed) | storage slot ≠ 0 }
        CodeHash = H(code)

  which is what core/state builds: `updateStateObject` stores `rlp.EncodeToBytes(stateObject)` = RLP of the struct
  `Account{Nonce uint64, Balance *big.Int, Root common.Hash, CodeHash []byte}` under the secure-trie key Keccak(address);
  `updateTrie` stores `rlp(bytes.TrimLeft(value, "\x00"))` under Keccak(slot) and deletes zero values.  The empty cases need no
  constants: an account without storage gets `mptRoot H [] = H(rlp(""))` (= emptyRoot) and without code `H("")`
  (= emptyCodeHash).

  `addrs`/`slots` list the (finitely many) addresses and slots that may be present; contents are total maps in
  `Aqv.Model.State`, so the lists carry the finiteness.  Lists are put in key order by insertion sort (`mptRoot` is defined on
  key-ordered lists); with a key-injective `H` the result does not depend on the order of `addrs`/`slots`.
-/
import Aqv.Model.State
import Aqv.Model.Trie
import Aqv.Model.RlpTyped
namespace Aqv.State
open Aqv Aqv.Trie Aqv.Rlp

/-- left-pad with zero bytes to `n` bytes (`common.BytesToAddress` / `common.BigToHash` of a number). -/
def padLeft (n : Nat) (b : Bytes) : Bytes := List.replicate (n - b.length) 0 ++ b

/-- the 20 address bytes of the address number. -/
def addrBytes (a : Addr) : Bytes := padLeft 20 (beBytes a)
/-- the 32 bytes of a storage slot number. -/
def slotBytes (k : Slot) : Bytes := padLeft 32 (beBytes k)

/-- key order of the secure trie: hex-nibble order of the (hashed) byte keys. -/
def kLt (a b : Bytes × Bytes) : Bool := keyLt (keybytesToHex a.1) (keybytesToHex b.1)

def insertKV (x : Bytes × Bytes) : List (Bytes × Bytes) → List (Bytes × Bytes)
  | [] => [x]
  | y :: ys => if kLt x y then x :: y :: ys else y :: insertKV x ys

/-- insertion sort by key. -/
def sortKVs (l : List (Bytes × Bytes)) : List (Bytes × Bytes) := l.foldr insertKV []

/-- `mptRoot` of a byte-keyed list (keys hex-encoded with terminator as `trie.TryUpdate` does). -/
def mptRootBytes (H : Bytes → Bytes) (m : List (Bytes × Bytes)) : Bytes :=
  mptRoot H (m.map fun kv => (keybytesToHex kv.1, kv.2))

/-- what `updateTrie` stores for a non-zero word: RLP of the minimal big-endian bytes. -/
def storageLeaf (v : Word) : Bytes := encStr (beBytes v)

/-- the (secure key, leaf) pairs of a storage content, in key order. -/
def storageKVs (H : Bytes → Bytes) (slots : List Slot) (st : Slot → Word) : List (Bytes × Bytes) :=
  sortKVs ((slots.filter fun k => st k != 0).map fun k => (H (slotBytes k), storageLeaf (st k)))

/-- `Account.Root`. -/
def storageRootSpec (H : Bytes → Bytes) (slots : List Slot) (st : Slot → Word) : Bytes :=
  mptRootBytes H (storageKVs H slots st)

/-- RLP shape of `state.Account`. -/
def acctTy : Ty := .struct [.uint 64, .big, .bytesN 32, .bytes]

/-- `rlp.EncodeToBytes(Account{nonce, balance, root, codeHash})`. -/
def acctLeafWith (H : Bytes → Bytes) (root : Bytes) (c : Acct) : Bytes :=
  encTy acctTy (.list [.num c.nonce, .num c.balance.toNat, .bytes root, .bytes (H c.code)])

def acctLeaf (H : Bytes → Bytes) (slots : List Slot) (c : Acct) : Bytes :=
  acctLeafWith H (storageRootSpec H slots c.storage) c

/-- the (secure key, leaf) pairs of a state content, in key order. -/
def stateKVs (H : Bytes → Bytes) (addrs : List Addr) (slots : List Slot) (content : Addr → Option Acct) : List (Bytes × Bytes) :=
  sortKVs (addrs.filterMap fun a => (content a).map fun c => (H (addrBytes a), acctLeaf H slots c))

/-- **the state root the specification defines for `content`**. -/
def stateRootSpec (H : Bytes → Bytes) (addrs : List Addr) (slots : List Slot) (content : Addr → Option Acct) : Bytes :=
  mptRootBytes H (stateKVs H addrs slots content)

end Aqv.State

/-
  Aqv.Model.BlockImport — executable model of block import (property C01).  Core-only.

  Layer A  (core/state/statedb.go Finalise / IntermediateRoot / Commit, core/state/state_object.go updateTrie / updateRoot /
            CommitTrie): the two Go `range`-over-map loops that feed the state root, written as folds over an EXPLICIT
            iteration order (a list).  Go guarantees only that a map iteration visits every key once in SOME order, so
            every statement about these folds is made for an arbitrary permutation of the key set.
  Layer B  (core/state_processor.go Process / ApplyTransaction, core/block_validator.go ValidateBody / ValidateState,
            consensus/aquahash/consensus.go Finalize / accumulateRewards, core/chain_makers.go GenerateChain / makeHeader /
            BlockGen.AddTx, opt/miner/worker.go commitNewWork, core/types/block.go NewBlock): the block-level pipeline as a
            composition over abstract components (`Comp`): the effect of one message (ApplyMessage = EVM + gas accounting,
            properties C06/C07/C08), the hash functions (DeriveSha, CalcUncleHash, header hash), header/uncle verification
            (property C13) and the state root as a function of content (properties C09/C10).
  Layer C  (core/blockchain.go insertChain2 / WriteBlockWithState / WriteBlockWithoutState): the chain store with an explicit
            write log, the abort discipline of a batch import, pruning and restart events.

  Abstractions (validated by the correspondence run or stated as assumptions in docs/notes/C01.md):
    * tries are total functions key -> content (absent account = none, absent slot = 0); the root of a trie is an abstract
      function of that content (C10 `root_content_only` is what licenses this) — a parameter of every theorem;
    * addresses, slots, words and hashes are natural numbers; `codeHash = 0` is the empty code hash;
    * database errors (`dbErr`, `setError`) never occur (MemDatabase/LevelDB reads succeed);
    * Go panics are explicit: a dirty address without a live object (nil dereference in Finalise) sets `fault`;
    * runtime caches are not state of Layers A–C; they are Layer D (Aqv.Model.BlockImportCache), real tries are Layer A′
      (Aqv.Model.BlockImportTrie).
-/
import Aqv.Base.Bytes
import Aqv.Base.Keccak
namespace Aqv.BlockImport

abbrev Addr := Nat
abbrev Slot := Nat
abbrev Word := Nat
abbrev Hash := Nat

/-- point update of a total map. -/
def upd {β : Type} (m : Nat → β) (a : Nat) (v : β) : Nat → β := fun x => if x = a then v else m x

/-! ## Layer A — the map-iterating folds of core/state -/

/-- a leaf of the account trie: `Account{Nonce, Balance, Root, CodeHash}` (state_object.go). -/
structure Leaf where
  nonce : Nat
  balance : Nat
  sroot : Hash
  codeHash : Hash
deriving DecidableEq, Repr

/-- a live `stateObject`: account data, the content of its storage trie (`self.trie`), `dirtyStorage` and the flags. -/
structure Obj where
  nonce : Nat
  balance : Nat
  codeHash : Hash
  sroot : Hash                  -- `data.Root` as last computed
  storage : Slot → Word         -- content of the storage trie; 0 = key absent
  dirty : Slot → Option Word    -- `dirtyStorage` (a Go map: key present ↔ `some`)
  suicided : Bool
  deleted : Bool

/-- `stateObject.empty`. -/
def Obj.empty (o : Obj) : Bool := o.nonce == 0 && o.balance == 0 && o.codeHash == 0

/-- body of the `for key, value := range self.dirtyStorage` loop of `updateTrie` for one key:
    `delete(self.dirtyStorage, key)`; value 0 → `TryDelete`, else `TryUpdate(key, rlp(trim value))`. -/
def storeStep (o : Obj) (k : Slot) : Obj :=
  match o.dirty k with
  | none => o
  | some v => { o with dirty := upd o.dirty k none, storage := upd o.storage k v }

/-- `stateObject.updateTrie` iterating `dirtyStorage` in the order `ks`. -/
def updateTrie (ks : List Slot) (o : Obj) : Obj := ks.foldl storeStep o

/-- `stateObject.updateRoot` / the root part of `CommitTrie`: `data.Root = trie.Hash()`; `R` = storage root of a content. -/
def updateRoot (R : (Slot → Word) → Hash) (ks : List Slot) (o : Obj) : Obj :=
  let o' := updateTrie ks o
  { o' with sroot := R o'.storage }

/-- `rlp(stateObject)` = `rlp(data)`: what `updateStateObject` writes into the account trie. -/
def leafOf (o : Obj) : Leaf := { nonce := o.nonce, balance := o.balance, sroot := o.sroot, codeHash := o.codeHash }

/-- `StateDB` as far as Finalise/Commit are concerned. `dirty` = membership in `stateObjectsDirty`. -/
structure SDB where
  trie : Addr → Option Leaf     -- content of the account trie
  objs : Addr → Option Obj      -- `stateObjects`
  dirty : Addr → Bool           -- `stateObjectsDirty`
  fault : Bool                  -- a nil `stateObject` was dereferenced (Go panic)

/-- what one iteration of either loop does to the object it visits: the new object and the new account-trie entry. -/
def settle (R : (Slot → Word) → Hash) (del : Bool) (ks : List Slot) (o : Obj) : Obj × Option Leaf :=
  if o.suicided || (del && o.empty) then
    ({ o with deleted := true }, none)                       -- deleteStateObject
  else
    let o' := updateRoot R ks o                              -- updateRoot / CommitTrie
    (o', some (leafOf o'))                                   -- updateStateObject

/-- body of `for addr := range s.stateObjectsDirty` in `Finalise` for one address. `σ a` = iteration order of `a`'s dirtyStorage. -/
def finalStep (R : (Slot → Word) → Hash) (del : Bool) (σ : Addr → List Slot) (s : SDB) (a : Addr) : SDB :=
  match s.objs a with
  | none => { s with fault := true }
  | some o =>
    let r := settle R del (σ a) o
    { s with objs := upd s.objs a (some r.1), trie := upd s.trie a r.2 }

/-- `StateDB.Finalise(del)` iterating `stateObjectsDirty` in the order `π`. -/
def finalise (R : (Slot → Word) → Hash) (del : Bool) (π : List Addr) (σ : Addr → List Slot) (s : SDB) : SDB :=
  π.foldl (finalStep R del σ) s

/-- `StateDB.IntermediateRoot(del)`: Finalise, then `s.trie.Hash()`; `A` = root of an account-trie content. -/
def intermediateRoot (A : (Addr → Option Leaf) → Hash) (R : (Slot → Word) → Hash) (del : Bool)
    (π : List Addr) (σ : Addr → List Slot) (s : SDB) : SDB × Hash :=
  let s' := finalise R del π σ s
  (s', A s'.trie)

/-- what one iteration of the `Commit` loop does to the object it visits (`isDirty` = membership in stateObjectsDirty):
    the new object and what happens to the account-trie entry (`none` = untouched). -/
def settleCommit (R : (Slot → Word) → Hash) (del : Bool) (ks : List Slot) (isDirty : Bool) (o : Obj) : Obj × Option (Option Leaf) :=
  if o.suicided || (isDirty && del && o.empty) then
    ({ o with deleted := true }, some none)                  -- deleteStateObject
  else if isDirty then
    let o' := updateRoot R ks o                              -- (code write,) CommitTrie
    (o', some (some (leafOf o')))                            -- updateStateObject
  else (o, none)

/-- body of `for addr, stateObject := range s.stateObjects` in `Commit` for one address (ends with
    `delete(s.stateObjectsDirty, addr)`). -/
def commitStep (R : (Slot → Word) → Hash) (del : Bool) (σ : Addr → List Slot) (s : SDB) (a : Addr) : SDB :=
  match s.objs a with
  | none => s
  | some o =>
    let r := settleCommit R del (σ a) (s.dirty a) o
    { s with objs := upd s.objs a (some r.1),
             trie := (match r.2 with | some l => upd s.trie a l | none => s.trie),
             dirty := upd s.dirty a false }

/-- `StateDB.Commit(del)` iterating `stateObjects` in the order `ρ`; returns the committed state and its root. -/
def commit (A : (Addr → Option Leaf) → Hash) (R : (Slot → Word) → Hash) (del : Bool)
    (ρ : List Addr) (σ : Addr → List Slot) (s : SDB) : SDB × Hash :=
  let s' := ρ.foldl (commitStep R del σ) s
  (s', A s'.trie)

/-! ## Layer B — the block pipeline over abstract components -/

structure Log where
  addr : Nat
  topics : List Nat
  data : Nat
deriving DecidableEq, Repr

/-- consensus fields of a receipt (`receiptRLP`): PostState | Status, CumulativeGasUsed, Bloom, Logs. -/
structure Receipt where
  post : Option Hash      -- pre-Byzantium: intermediate state root
  failed : Bool           -- Byzantium: status = !failed
  cumGas : Nat
  bloom : Nat
  logs : List Log
deriving DecidableEq, Repr

structure Header where
  parentHash : Hash
  number : Nat
  coinbase : Addr
  gasLimit : Nat
  time : Nat
  difficulty : Nat
  extra : Nat             -- Extra, MixDigest, Nonce, Version: hashed, never read by the import path
  uncleHash : Hash
  root : Hash
  txHash : Hash
  receiptHash : Hash
  bloom : Nat
  gasUsed : Nat
deriving DecidableEq, Repr

structure Block (Tx : Type) where
  header : Header
  txs : List Tx
  uncles : List Header

/-- what `NewEVMContext(msg, header, chain, author)` hands to the EVM: the only header fields a message can observe. -/
structure EvmCtx where
  parentHash : Hash       -- GetHashFn walks back from ref.ParentHash
  number : Nat
  beneficiary : Addr
  gasLimit : Nat
  time : Nat
  difficulty : Nat
deriving DecidableEq, Repr

/-- `NewEVMContext`: `author == nil` → `header.Coinbase` (Process), else `*author` (BlockGen.AddTx, worker). -/
def ctxOf (h : Header) (author : Option Addr) : EvmCtx :=
  { parentHash := h.parentHash, number := h.number, beneficiary := author.getD h.coinbase,
    gasLimit := h.gasLimit, time := h.time, difficulty := h.difficulty }

/-- the fork heights the import path itself looks at (params.ChainConfig). `none` = never. -/
structure Cfg where
  hf4 : Option Nat
  hf5 : Option Nat
  byzantium : Option Nat
  eip158 : Option Nat
deriving DecidableEq, Repr

/-- `isForked(s, head)`. -/
def isForked (s : Option Nat) (n : Nat) : Bool :=
  match s with
  | none => false
  | some k => k ≤ n

inductive Err
  | noChain | headerInvalid | blacklisted | unknownAncestor | noParentState | panic
  | unclesInvalid | uncleHash | txRoot
  | apply (code : Nat)          -- ApplyTransaction returned an error (nonce, balance, gas pool, intrinsic gas …)
  | gasUsed | bloom | receiptRoot | stateRoot
deriving DecidableEq, Repr

/-- result of `ApplyMessage`: new state, gas used, `failed`, the transaction's logs, the gas pool afterwards. -/
structure MsgResult (St : Type) where
  st : St
  gas : Nat
  failed : Bool
  logs : List Log
  pool : Nat

/-- the abstract components the pipeline is composed from. -/
structure Comp (St Tx : Type) where
  /-- `tx.AsMessage` + `NewEVM` + `ApplyMessage` on the given state and gas pool. -/
  applyMsg : Cfg → EvmCtx → St → Nat → Tx → Except Nat (MsgResult St)
  /-- `statedb.Finalise(del)`: folds the dirty objects into the account trie (Layer A shows the iteration order is immaterial). -/
  finalise : Bool → St → St
  /-- `statedb.trie.Hash()`: the root committing to the current account-trie content. -/
  root : St → Hash
  hf4Edit : St → St             -- misc.ApplyHardFork4
  hf5Edit : St → St             -- misc.ApplyHardFork5
  addBalance : St → Addr → Int → St
  txRoot : List Tx → Hash       -- types.DeriveSha(Transactions)
  uncleHash : List Header → Hash  -- types.CalcUncleHash
  receiptRoot : List Receipt → Hash -- types.DeriveSha(Receipts)
  logBloom : Log → Nat          -- bloom9(address) | OR bloom9(topic)
  hashHeader : Header → Hash    -- Header.Hash() (version-dependent)
  blockReward : Int
  maxMoney : Nat
  calcGasLimit : Header → Nat   -- core.CalcGasLimit(parent)
  calcDifficulty : Nat → Header → Nat -- engine.CalcDifficulty(time, parent)

/-- `statedb.IntermediateRoot(del)` = `Finalise(del)` then `trie.Hash()`: the finalised state and its root. -/
def Comp.interRoot {St Tx} (C : Comp St Tx) (del : Bool) (st : St) : St × Hash :=
  let s' := C.finalise del st
  (s', C.root s')

/-- `types.LogsBloom`. -/
def logsBloom {St Tx} (C : Comp St Tx) (logs : List Log) : Nat := logs.foldl (fun b l => b ||| C.logBloom l) 0

/-- `types.CreateBloom(receipts)`: recomputed from the receipts' LOGS (not from their Bloom fields). -/
def createBloom {St Tx} (C : Comp St Tx) (rs : List Receipt) : Nat := rs.foldl (fun b r => b ||| logsBloom C r.logs) 0

/-- `core.ApplyTransaction` (state_processor.go). `used` = `*usedGas` before the call. -/
def applyTransaction {St Tx} (C : Comp St Tx) (cfg : Cfg) (h : Header) (author : Option Addr)
    (st : St) (pool used : Nat) (tx : Tx) : Except Err (St × Receipt × Nat × Nat) :=
  match C.applyMsg cfg (ctxOf h author) st pool tx with
  | .error c => .error (.apply c)
  | .ok r =>
    let sp : St × Option Hash :=
      if isForked cfg.byzantium h.number then (C.finalise true r.st, none)
      else let q := C.interRoot (isForked cfg.eip158 h.number) r.st; (q.1, some q.2)
    let used' := used + r.gas
    .ok (sp.1, { post := sp.2, failed := r.failed, cumGas := used', bloom := logsBloom C r.logs, logs := r.logs }, r.pool, used')

/-- the transaction loop shared by `Process`, `BlockGen.AddTx` and `Work.commitTransactions`. -/
def applyTxs {St Tx} (C : Comp St Tx) (cfg : Cfg) (h : Header) (author : Option Addr) :
    St → Nat → Nat → List Tx → Except Err (St × List Receipt × Nat × Nat)
  | st, pool, used, [] => .ok (st, [], pool, used)
  | st, pool, used, tx :: rest =>
    match applyTransaction C cfg h author st pool used tx with
    | .error e => .error e
    | .ok (st1, rc, pool1, used1) =>
      match applyTxs C cfg h author st1 pool1 used1 rest with
      | .error e => .error e
      | .ok (st2, rcs, pool2, used2) => .ok (st2, rc :: rcs, pool2, used2)

/-- `accumulateRewards` (consensus.go): uncle rewards `(uNumber + 8 - number) * reward / 8` (big.Int, Euclidean division),
    `reward / 32` per uncle for the miner; nothing from height `MaxMoney` on. -/
def accumulateRewards {St Tx} (C : Comp St Tx) (st : St) (h : Header) (uncles : List Header) : St :=
  if h.number < C.maxMoney then
    let acc := uncles.foldl (fun (p : St × Int) u =>
      (C.addBalance p.1 u.coinbase (Int.ediv (((u.number : Int) + 8 - (h.number : Int)) * C.blockReward) 8),
       p.2 + Int.ediv C.blockReward 32)) (st, C.blockReward)
    C.addBalance acc.1 h.coinbase acc.2
  else st

/-- state part of `Aquahash.Finalize`: rewards, then `header.Root = state.IntermediateRoot(eip158)`. -/
def finalizeState {St Tx} (C : Comp St Tx) (cfg : Cfg) (st : St) (h : Header) (uncles : List Header) : St × Hash :=
  C.interRoot (isForked cfg.eip158 h.number) (accumulateRewards C st h uncles)

/-- the HF4/HF5 state edits at exactly their heights (Process, GenerateChain and commitNewWork all do this first). -/
def forkEdits {St Tx} (C : Comp St Tx) (cfg : Cfg) (number : Nat) (st : St) : St :=
  let st1 := if cfg.hf4 = some number then C.hf4Edit st else st
  if cfg.hf5 = some number then C.hf5Edit st1 else st1

structure Processed (St : Type) where
  st : St
  receipts : List Receipt
  logs : List Log
  gasUsed : Nat

/-- `StateProcessor.Process(block, statedb, cfg)`. -/
def process {St Tx} (C : Comp St Tx) (cfg : Cfg) (pst : St) (b : Block Tx) : Except Err (Processed St) :=
  match applyTxs C cfg b.header none (forkEdits C cfg b.header.number pst) b.header.gasLimit 0 b.txs with
  | .error e => .error e
  | .ok (st, rcs, _, used) =>
    let fs := finalizeState C cfg st b.header b.uncles
    .ok { st := fs.1, receipts := rcs, logs := rcs.flatMap (·.logs), gasUsed := used }

/-- hash checks of `BlockValidator.ValidateBody` (after the known/ancestor checks and `VerifyUncles`). -/
def validateBodyHashes {St Tx} (C : Comp St Tx) (b : Block Tx) : Except Err Unit :=
  if C.uncleHash b.uncles ≠ b.header.uncleHash then .error .uncleHash
  else if C.txRoot b.txs ≠ b.header.txHash then .error .txRoot
  else .ok ()

/-- `BlockValidator.ValidateState(block, parent, statedb, receipts, usedGas)`. -/
def validateState {St Tx} (C : Comp St Tx) (cfg : Cfg) (b : Block Tx) (st : St) (rcs : List Receipt) (used : Nat) : Except Err Unit :=
  if b.header.gasUsed ≠ used then .error .gasUsed
  else if createBloom C rcs ≠ b.header.bloom then .error .bloom
  else if C.receiptRoot rcs ≠ b.header.receiptHash then .error .receiptRoot
  else if (C.interRoot (isForked cfg.eip158 b.header.number) st).2 ≠ b.header.root then .error .stateRoot
  else .ok ()

/-- the commitments of a header recomputed from the body and the parent state: what the property calls "self-consistent". -/
structure Commitments where
  txHash : Hash
  uncleHash : Hash
  root : Hash
  receiptHash : Hash
  bloom : Nat
  gasUsed : Nat
deriving DecidableEq, Repr

def Header.commitments (h : Header) : Commitments :=
  { txHash := h.txHash, uncleHash := h.uncleHash, root := h.root, receiptHash := h.receiptHash, bloom := h.bloom, gasUsed := h.gasUsed }

/-- Spec: the six commitments recomputed from (parent state, body). `none` when a transaction cannot be applied. -/
def recompute {St Tx} (C : Comp St Tx) (cfg : Cfg) (pst : St) (b : Block Tx) : Option Commitments :=
  match process C cfg pst b with
  | .error _ => none
  | .ok p => some
    { txHash := C.txRoot b.txs, uncleHash := C.uncleHash b.uncles,
      root := (C.interRoot (isForked cfg.eip158 b.header.number) p.st).2,
      receiptHash := C.receiptRoot p.receipts, bloom := createBloom C p.receipts, gasUsed := p.gasUsed }

/-- `types.NewBlock(header, txs, uncles, receipts)`: derives TxHash, UncleHash, ReceiptHash, Bloom.
    (Go special-cases empty lists with the constants EmptyRootHash/EmptyUncleHash and leaves Bloom untouched when there are
    no receipts; `emptyRoot`/`emptyUncle` are those constants.) -/
def newBlock {St Tx} (C : Comp St Tx) (emptyRoot emptyUncle : Hash) (h : Header) (txs : List Tx) (uncles : List Header)
    (rcs : List Receipt) : Block Tx :=
  let h1 := if txs.isEmpty then { h with txHash := emptyRoot } else { h with txHash := C.txRoot txs }
  let h2 := if rcs.isEmpty then { h1 with receiptHash := emptyRoot }
            else { h1 with receiptHash := C.receiptRoot rcs, bloom := createBloom C rcs }
  let h3 := if uncles.isEmpty then { h2 with uncleHash := emptyUncle } else { h2 with uncleHash := C.uncleHash uncles }
  { header := h3, txs := txs, uncles := uncles }

/-- `makeHeader` (chain_makers.go) / the header literal of `commitNewWork`: everything but the commitments. -/
def makeHeader {St Tx} (C : Comp St Tx) (parent : Header) (coinbase : Addr) (time extra : Nat) : Header :=
  { parentHash := C.hashHeader parent, number := parent.number + 1, coinbase := coinbase,
    gasLimit := C.calcGasLimit parent, time := time, difficulty := C.calcDifficulty time parent, extra := extra,
    uncleHash := 0, root := 0, txHash := 0, receiptHash := 0, bloom := 0, gasUsed := 0 }

structure Built (St Tx : Type) where
  block : Block Tx
  st : St
  receipts : List Receipt

/-- the node's own block-building path: `GenerateChain`'s genblock (fork edits, `AddTx` = ApplyTransaction with
    `author = &header.Coinbase` accumulating into `header.GasUsed`, `engine.Finalize`, `NewBlock`) and likewise
    `worker.commitNewWork` + `commitTransactions` (`author = &coinbase`, `engine.Finalize`).  A transaction that cannot be
    applied makes `AddTx` panic (the worker skips it instead: `txs` here is the list of transactions that were committed). -/
def buildBlock {St Tx} (C : Comp St Tx) (cfg : Cfg) (emptyRoot emptyUncle : Hash) (parent : Header) (pst : St)
    (coinbase : Addr) (time extra : Nat) (txs : List Tx) (uncles : List Header) : Except Err (Built St Tx) :=
  let h0 := makeHeader C parent coinbase time extra
  match applyTxs C cfg h0 (some h0.coinbase) (forkEdits C cfg h0.number pst) h0.gasLimit h0.gasUsed txs with
  | .error e => .error e
  | .ok (st, rcs, _, used) =>
    let h1 := { h0 with gasUsed := used }
    let fs := finalizeState C cfg st h1 uncles
    let h2 := { h1 with root := fs.2 }
    .ok { block := newBlock C emptyRoot emptyUncle h2 txs uncles rcs, st := fs.1, receipts := rcs }

/-- outcome of `Work.commitTransactions` (opt/miner/worker.go): the transactions that made it into the block and what they left. -/
structure Committed (St Tx : Type) where
  st : St
  included : List Tx
  receipts : List Receipt
  pool : Nat
  used : Nat

/-- `Work.commitTransactions` / `commitTransaction`: the miner walks over CANDIDATE transactions (the pool's pending lists);
    each is attempted with `ApplyTransaction` inside `snap := state.Snapshot()` … `state.RevertToSnapshot(snap)`: a candidate that
    cannot be applied (nonce too low / too high, gas pool exhausted, insufficient balance AFTER the nonce was bumped and the gas
    bought, …) is skipped and leaves state, receipts and `header.GasUsed` exactly as they were before the attempt.  The gas pool is
    not part of the journalled state: `skipPool pool tx` is what is left of it after a failed attempt (Go: unchanged when the
    failure precedes `buyGas`, reduced by the transaction's gas limit otherwise). -/
def commitTxs {St Tx} (C : Comp St Tx) (cfg : Cfg) (h : Header) (author : Option Addr) (skipPool : Nat → Tx → Nat) :
    St → Nat → Nat → List Tx → Committed St Tx
  | st, pool, used, [] => { st := st, included := [], receipts := [], pool := pool, used := used }
  | st, pool, used, tx :: rest =>
    match applyTransaction C cfg h author st pool used tx with
    | .error _ => commitTxs C cfg h author skipPool st (skipPool pool tx) used rest
    | .ok (st1, rc, pool1, used1) =>
      let r := commitTxs C cfg h author skipPool st1 pool1 used1 rest
      { r with included := tx :: r.included, receipts := rc :: r.receipts }

/-- `worker.commitNewWork` with a pending set: fork edits, `commitTransactions` over the candidates, `engine.Finalize`, `NewBlock`
    over the transactions that were committed. -/
def buildBlockPending {St Tx} (C : Comp St Tx) (cfg : Cfg) (emptyRoot emptyUncle : Hash) (parent : Header) (pst : St)
    (coinbase : Addr) (time extra : Nat) (skipPool : Nat → Tx → Nat) (cands : List Tx) (uncles : List Header) : Built St Tx :=
  let h0 := makeHeader C parent coinbase time extra
  let r := commitTxs C cfg h0 (some h0.coinbase) skipPool (forkEdits C cfg h0.number pst) h0.gasLimit h0.gasUsed cands
  let h1 := { h0 with gasUsed := r.used }
  let fs := finalizeState C cfg r.st h1 uncles
  let h2 := { h1 with root := fs.2 }
  { block := newBlock C emptyRoot emptyUncle h2 r.included uncles r.receipts, st := fs.1, receipts := r.receipts }

/-! ## Layer C — the chain store and `insertChain` -/

/-- state-side validation of a block on a parent state: `Process` then `ValidateState`.  On success the returned state is
    the one `WriteBlockWithState` commits (already finalised by ValidateState's IntermediateRoot). -/
def result {St Tx} (C : Comp St Tx) (cfg : Cfg) (pst : St) (b : Block Tx) : Except Err (Processed St) :=
  match process C cfg pst b with
  | .error e => .error e
  | .ok p =>
    match validateState C cfg b p.st p.receipts p.gasUsed with
    | .error e => .error e
    | .ok () => .ok { p with st := C.finalise (isForked cfg.eip158 b.header.number) p.st }

/-- body + state validation as `insertChain2` sequences them for a block whose parent state is `pst`. -/
def validateAll {St Tx} (C : Comp St Tx) (cfg : Cfg) (pst : St) (b : Block Tx) : Except Err (Processed St) :=
  match validateBodyHashes C b with
  | .error e => .error e
  | .ok () => result C cfg pst b

/-- database writes of the import path, in program order. -/
inductive Ev
  | writeTd (h : Hash)
  | writeBlock (h : Hash)
  | commitState (h : Hash) (root : Hash)
  | writeReceipts (h : Hash)
  | writeTxLookup (h : Hash)
  | writeHead (h : Hash)
deriving DecidableEq, Repr

/-- the block hash a write event is about. -/
def Ev.about : Ev → Hash
  | .writeTd h | .writeBlock h | .commitState h _ | .writeReceipts h | .writeTxLookup h | .writeHead h => h

/-- what the node has stored for one block hash. -/
structure Stored (Tx : Type) where
  block : Block Tx
  td : Nat
  receipts : Option (List Receipt)     -- `none` for a block written by WriteBlockWithoutState
  gasUsed : Nat

/-- the chain database (keyed as in Go: blocks/receipts/td by block hash, states by state root) plus head and write log. -/
structure Store (St Tx : Type) where
  blocks : Hash → Option (Stored Tx)
  states : Hash → Option St
  head : Hash
  log : List Ev                         -- newest first

/-- chain-level components: header verification and uncle verification are abstract (property C13). -/
structure ChainComp (St Tx : Type) extends Comp St Tx where
  verifyHeader : Store St Tx → Header → Bool
  verifyUncles : Store St Tx → Block Tx → Bool
  blacklisted : Hash → Bool
  /-- the order of checks inside `BlockValidator.ValidateBody`.  `true` (the tree as it is now, since the fix 9f7e060):
      uncle hash and transaction root are checked FIRST, then known-block / ancestor lookups, then `VerifyUncles`.
      `false` (the tree before that fix): known-block and ancestor lookups first, then `VerifyUncles`, then the two hashes —
      so the re-import of an already known block (ErrKnownBlock with the head below it) never compared the body with the
      header.  Kept as a parameter so that the theorems say exactly what the ordering buys. -/
  bodyFirst : Bool

def Store.td {St Tx} (S : Store St Tx) (h : Hash) : Nat :=
  match S.blocks h with
  | some s => s.td
  | none => 0

def Store.number {St Tx} (S : Store St Tx) (h : Hash) : Nat :=
  match S.blocks h with
  | some s => s.block.header.number
  | none => 0

/-- `bc.HasBlockAndState(hash, number)`. -/
def Store.hasBlockAndState {St Tx} (S : Store St Tx) (h : Hash) : Bool :=
  match S.blocks h with
  | some s => (S.states s.block.header.root).isSome
  | none => false

/-- `WriteBlockWithState` (blockchain.go): td, block, state commit, receipts; head moves when the new total difficulty is
    larger, or equal with a lower number, or equal number and the coin says so (`mrand.Float64() < 0.5`). -/
def writeBlockWithState {St Tx} (C : ChainComp St Tx) (S : Store St Tx) (b : Block Tx) (p : Processed St) (coin : Bool) : Store St Tx :=
  let h := C.hashHeader b.header
  let externTd := S.td b.header.parentHash + b.header.difficulty
  let localTd := S.td S.head
  let reorg := decide (externTd > localTd) ||
    (externTd == localTd && (decide (b.header.number < S.number S.head) || (b.header.number == S.number S.head && coin)))
  let stored : Stored Tx := { block := b, td := externTd, receipts := some p.receipts, gasUsed := p.gasUsed }
  let log1 := Ev.writeReceipts h :: Ev.commitState h b.header.root :: Ev.writeBlock h :: Ev.writeTd h :: S.log
  { blocks := upd S.blocks h (some stored),
    states := upd S.states b.header.root (some p.st),
    head := if reorg then h else S.head,
    log := if reorg then Ev.writeHead h :: Ev.writeTxLookup h :: log1 else log1 }

/-- `WriteBlockWithoutState`: td and block only (a side block whose parent state is pruned and which is not heavier). -/
def writeBlockWithoutState {St Tx} (C : ChainComp St Tx) (S : Store St Tx) (b : Block Tx) (externTd : Nat) : Store St Tx :=
  let h := C.hashHeader b.header
  { S with blocks := upd S.blocks h (some { block := b, td := externTd, receipts := none, gasUsed := 0 }),
           log := Ev.writeBlock h :: Ev.writeTd h :: S.log }

/-- outcome of trying to import one block. -/
inductive Outcome
  | written          -- WriteBlockWithState ran for this block
  | side             -- WriteBlockWithoutState ran (ErrPrunedAncestor, not heavier than the head)
  | skipped          -- ErrKnownBlock with the head at or above it
  | abort (e : Err)  -- the batch stops here; nothing was written for THIS block
deriving DecidableEq, Repr

/-- the checks at the top of the loop body: blacklist, then the header verifier's verdict. -/
def gate {St Tx} (C : ChainComp St Tx) (S : Store St Tx) (b : Block Tx) : Option Err :=
  if C.blacklisted (C.hashHeader b.header) then some .blacklisted
  else if !C.verifyHeader S b.header then some .headerInvalid
  else none

/-- the two body-hash checks when `ValidateBody` does them first. -/
def bodyGate {St Tx} (C : ChainComp St Tx) (b : Block Tx) : Option Err :=
  if C.bodyFirst then
    match validateBodyHashes C.toComp b with
    | .error e => some e
    | .ok () => none
  else none

/-- the rest of the loop body once the parent state `pst` is at hand: `VerifyUncles` (when `chkUncles`: skipped for a known
    block), the body hashes (when `chkHashes`: the old ordering), `Process`, `ValidateState`, `WriteBlockWithState`.
    Every failure leaves the store untouched. -/
def tailStep {St Tx} (C : ChainComp St Tx) (cfg : Cfg) (S : Store St Tx) (pst : St) (b : Block Tx) (coin chkUncles chkHashes : Bool) :
    Outcome × Store St Tx :=
  if chkUncles && !C.verifyUncles S b then (.abort .unclesInvalid, S)
  else
    match (if chkHashes then validateAll C.toComp cfg pst b else result C.toComp cfg pst b) with
    | .error e => (.abort e, S)
    | .ok p => (.written, writeBlockWithState C S b p coin)

/-- `bc.insertChain(winner)` of the ErrPrunedAncestor branch: import (with state) the stored block `b` whose state is
    missing, first doing the same for its ancestors.  Fuel = height suffices. -/
def reimport {St Tx} (C : ChainComp St Tx) (cfg : Cfg) (coin : Bool) : Nat → Store St Tx → Block Tx → Outcome × Store St Tx
  | 0, S, _ => (.abort .noParentState, S)
  | f + 1, S, b =>
    match gate C S b with
    | some e => (.abort e, S)
    | none =>
    match bodyGate C b with
    | some e => (.abort e, S)
    | none =>
      match S.blocks b.header.parentHash with
      | none => (.abort .panic, S)          -- Go: nil dereference in the `winner` loop
      | some ps =>
        match S.states ps.block.header.root with
        | some pst => tailStep C cfg S pst b coin true (!C.bodyFirst)
        | none =>
          match reimport C cfg coin f S ps.block with
          | (.abort e, S1) => (.abort e, S1)
          | (_, S1) =>
            match S1.states ps.block.header.root with
            | some pst => tailStep C cfg S1 pst b coin true (!C.bodyFirst)
            | none => (.abort .noParentState, S1)

/-- one iteration of the `for i, block := range chain` loop of `insertChain2`. -/
def importBlock {St Tx} (C : ChainComp St Tx) (cfg : Cfg) (coin : Bool) (S : Store St Tx) (b : Block Tx) : Outcome × Store St Tx :=
  match gate C S b with
  | some e => (.abort e, S)
  | none =>
  match bodyGate C b with
  | some e => (.abort e, S)
  | none =>
    let known := S.hasBlockAndState (C.hashHeader b.header)
    if known && decide (S.number S.head ≥ b.header.number) then (.skipped, S)
    else
      match S.blocks b.header.parentHash with
      | none => (.abort (if known then .panic else .unknownAncestor), S)
      | some ps =>
        match S.states ps.block.header.root with
        | some pst => tailStep C cfg S pst b coin (!known) (!known && !C.bodyFirst)
        | none =>
          if known then (.abort .noParentState, S)
          else if S.td S.head > ps.td + b.header.difficulty then
            (.side, writeBlockWithoutState C S b (ps.td + b.header.difficulty))
          else
            match reimport C cfg coin (ps.block.header.number + 1) S ps.block with
            | (.abort e, S1) => (.abort e, S1)
            | (_, S1) =>
              match S1.states ps.block.header.root with
              | some pst => tailStep C cfg S1 pst b coin true (!C.bodyFirst)
              | none => (.abort .noParentState, S1)

/-- the "Non contiguous block insert" pre-check: the batch is cut at the first block that does not extend its predecessor
    (and re-tried, which then passes). -/
def contiguousPrefix {St Tx} (C : ChainComp St Tx) : List (Block Tx) → List (Block Tx)
  | [] => []
  | [b] => [b]
  | b :: c :: rest =>
    if c.header.number = b.header.number + 1 ∧ c.header.parentHash = C.hashHeader b.header then
      b :: contiguousPrefix C (c :: rest)
    else [b]

/-- the import loop over a batch: (index of the failing block, its error) or (length, none), and the store.
    `coins` supplies the tie-break coin flips. -/
def importLoop {St Tx} (C : ChainComp St Tx) (cfg : Cfg) (coins : Nat → Bool) :
    Store St Tx → Nat → List (Block Tx) → Nat × Option Err × Store St Tx
  | S, i, [] => (i, none, S)
  | S, i, b :: rest =>
    match importBlock C cfg (coins i) S b with
    | (.abort e, S') => (i, some e, S')
    | (_, S') => importLoop C cfg coins S' (i + 1) rest

/-- `BlockChain.InsertChain`. -/
def insertChain {St Tx} (C : ChainComp St Tx) (cfg : Cfg) (coins : Nat → Bool) (S : Store St Tx) (batch : List (Block Tx)) :
    Nat × Option Err × Store St Tx :=
  if batch.isEmpty then (0, some .noChain, S)
  else importLoop C cfg coins S 0 (contiguousPrefix C batch)

/-- things that happen to a node between imports. -/
inductive Event (Tx : Type)
  | insert (batch : List (Block Tx)) (coins : Nat → Bool)
  | prune (keep : Hash → Bool)       -- trie GC / restart of a pruning node: states whose root is not kept disappear
  | restart                          -- close + reopen on the same database: in-memory caches are dropped
  | setHead (keep : Hash → Bool) (head : Hash)  -- SetHead / rollback: the blocks not kept are deleted, the head is rewound

def Store.apply {St Tx} (C : ChainComp St Tx) (cfg : Cfg) (S : Store St Tx) : Event Tx → Store St Tx
  | .insert batch coins => (insertChain C cfg coins S batch).2.2
  | .prune keep => { S with states := fun r => if keep r then S.states r else none }
  | .restart => S
  | .setHead keep head => { S with blocks := fun h => if keep h then S.blocks h else none, head := head }

/-- run a whole arrival history. -/
def Store.run {St Tx} (C : ChainComp St Tx) (cfg : Cfg) (S : Store St Tx) (evs : List (Event Tx)) : Store St Tx :=
  evs.foldl (Store.apply C cfg) S

/-- what a freshly initialised node stores for the genesis block. -/
def genesisEntry {Tx} (g : Header) : Stored Tx :=
  { block := { header := g, txs := [], uncles := [] }, td := g.difficulty, receipts := some [], gasUsed := 0 }

/-- the store of a freshly initialised node: genesis block and genesis state only. -/
def genesisStore {St Tx} (C : Comp St Tx) (g : Header) (gst : St) : Store St Tx :=
  { blocks := upd (fun _ => none) (C.hashHeader g) (some (genesisEntry g)),
    states := upd (fun _ => none) g.root (some gst),
    head := C.hashHeader g,
    log := [] }

/-! ## Concrete pieces used by the driver -/

/-- `bloom9(b)`: three bits of a 2048-bit filter taken from Keccak-256(b). -/
def bloom9 (b : Bytes) : Nat :=
  let h := Keccak.keccak256 b
  let bit (i : Nat) : Nat := ((h.getD (i + 1) 0).toNat + (h.getD i 0).toNat * 256) % 2048
  (1 <<< bit 0) ||| (1 <<< bit 2) ||| (1 <<< bit 4)

/-- bloom of one log given as raw bytes: address and topics. -/
def logBloomBytes (addr : Bytes) (topics : List Bytes) : Nat :=
  topics.foldl (fun acc t => acc ||| bloom9 t) (bloom9 addr)

end Aqv.BlockImport

/-
  Aqv.Model.PowGen — the seal model instantiated with the constants regenerated from the Go packages. Core-only.
-/
import Aqv.Model.Pow
import Aqv.Model.ConsensusGen
namespace Aqv.Pow

/-- `epochLength`, `maxEpoch`, `maxUint256` of package aquahash as the code has them now. -/
def Gen.powParams : PowParams :=
  { epochLength := Aqv.Gen.Pow.epochLength, maxEpoch := Aqv.Gen.Pow.maxEpoch, maxUint256 := Aqv.Gen.Pow.maxUint256 }

end Aqv.Pow

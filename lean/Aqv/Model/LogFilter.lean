/-
  Aqv.Model.LogFilter — model of log blooms, log filtering and the bloom-bits index (property C16). Core-only.

  Mirrors, function by function:
    core/types/bloom9.go        bloom9, LogsBloom, CreateBloom, BytesToBloom/SetBytes, BloomLookup
    aqua/filters/filter.go      New (criteria flattening), Logs, indexedLogs, unindexedLogs, checkMatches, includes,
                                filterLogs, bloomFilter
    core/bloombits/generator.go NewGenerator, AddBloom, Bitset
    aqua/bloombits.go           BloomIndexer.Reset/Process/Commit  (`generateSection`)
    core/chain_indexer.go       processSection over the committed sections (`buildIndex`; index progress = `sections`)
    core/bloombits/matcher.go   calcBloomIndexes, NewMatcher, run (section feed), subMatch (AND/OR), Start (extraction loop)
    core/bloombits/scheduler.go request de-duplication/caching = the identity on (section, bit) ↦ vector (not modelled further)

  The hash function is a PARAMETER `H` (crypto.Keccak256 in the code): no theorem depends on it being Keccak.
  The goroutine pipeline of the matcher (channels, distributor, retrievers) is modelled by its input/output function only.
  Block numbers and range ends are unbounded `Nat`s (Go: uint64/int64; no wrap below 2^63).
-/
import Aqv.Base.Bytes
namespace Aqv.LogFilter

/-- `crypto.Keccak256` as a parameter. -/
abbrev HashFn := Bytes → Bytes

/-- `types.Log`: the fields the filter looks at; `id` stands for everything else (data, tx hash, indices …),
    `txHashZero` for `log.TxHash == common.Hash{}` (the light-client branch of `checkMatches`). -/
structure Log where
  address : Bytes
  topics : List Bytes
  txHashZero : Bool
  id : Nat
deriving DecidableEq, Repr, Inhabited

/-! ## core/types/bloom9.go -/

/-- `(uint(b[i+1]) + (uint(b[i]) << 8)) & 2047` -/
def bloom9Idx (h : Bytes) (i : Nat) : Nat :=
  ((h.getD (i + 1) 0).toNat + ((h.getD i 0).toNat <<< 8)) &&& 2047

/-- `bloom9`: `for i := 0; i < 6; i += 2 { r.Or(r, 1 << idx(i)) }` on the hash of the item. -/
def bloom9 (H : HashFn) (b : Bytes) : Nat :=
  let h := H b
  [0, 2, 4].foldl (fun r i => r ||| (1 <<< bloom9Idx h i)) 0

/-- `LogsBloom`: OR of bloom9(address) and bloom9(topic) for every topic of every log. -/
def logsBloom (H : HashFn) (logs : List Log) : Nat :=
  logs.foldl (fun bin log => log.topics.foldl (fun bin t => bin ||| bloom9 H t) (bin ||| bloom9 H log.address)) 0

/-- `BytesToBloom`/`SetBytes`: right-aligned copy into 256 bytes. Go panics when `len d > 256`; that branch is unreachable
    from `CreateBloom` (theorem `createBloom_fits`). -/
def bytesToBloom (d : Bytes) : Bytes := List.replicate (256 - d.length) 0 ++ d

/-- the big integer accumulated by `CreateBloom` before `BytesToBloom(bin.Bytes())`. -/
def createBloomNat (H : HashFn) (receipts : List (List Log)) : Nat :=
  receipts.foldl (fun bin r => bin ||| logsBloom H r) 0

/-- `CreateBloom(receipts)`; a receipt is represented by its logs. The bloom of one receipt is `createBloom H [logs]`
    (`core/state_processor.go`: `receipt.Bloom = types.CreateBloom(types.Receipts{receipt})`). -/
def createBloom (H : HashFn) (receipts : List (List Log)) : Bytes :=
  bytesToBloom (beBytes (createBloomNat H receipts))

/-- `BloomLookup(bin, topic)`: `bloom.And(bloom, cmp).Cmp(cmp) == 0`. -/
def bloomLookup (H : HashFn) (bin : Bytes) (topic : Bytes) : Bool :=
  let bloom := beNat bin
  let cmp := bloom9 H topic
  (bloom &&& cmp) == cmp

/-- `Bloom.TestBytes(test)` = `BloomLookup(b, rawBytes(test))`: the bytes are looked up as given (since fix 7d17e77; before,
    the argument went through `big.Int` and lost its leading zero bytes). -/
def bloomTestBytes (H : HashFn) (bin test : Bytes) : Bool := bloomLookup H bin test

/-! ## aqua/filters/filter.go : criteria, filterLogs, bloomFilter -/

/-- filter criteria: address alternatives, positional topic alternatives (`[]` = wildcard). -/
structure Criteria where
  addresses : List Bytes
  topics : List (List Bytes)
deriving Repr, Inhabited

def includes (addresses : List Bytes) (a : Bytes) : Bool := addresses.any (fun addr => addr == a)

/-- the positional loop of `filterLogs`: `for i, topics := range topics { match := len(topics)==0; … log.Topics[i] == topic … }` -/
def topicsOk (lt : List Bytes) : Nat → List (List Bytes) → Bool
  | _, [] => true
  | i, sub :: rest => (sub.length == 0 || sub.any (fun topic => lt.getD i [] == topic)) && topicsOk lt (i + 1) rest

/-- body of the `Logs:` loop of `filterLogs` (fromBlock/toBlock are nil at every call site of `Filter`). -/
def logMatches (c : Criteria) (log : Log) : Bool :=
  if c.addresses.length > 0 && !includes c.addresses log.address then false
  else if c.topics.length > log.topics.length then false
  else topicsOk log.topics 0 c.topics

def filterLogs (logs : List Log) (c : Criteria) : List Log := logs.filter (logMatches c)

def bloomFilter (H : HashFn) (bloom : Bytes) (c : Criteria) : Bool :=
  (if c.addresses.length > 0 then c.addresses.any (fun addr => bloomLookup H bloom addr) else true) &&
  c.topics.all (fun sub => sub.length == 0 || sub.any (fun topic => bloomLookup H bloom topic))

/-! ## core/bloombits/generator.go -/

inductive GenErr where
  | notMultipleOf8 | sectionOutOfBounds | unexpectedIndex | notFull | indexPanic
deriving DecidableEq, Repr

structure Generator where
  blooms : List Bytes     -- `[2048][]byte`
  sections : Nat
  nextBit : Nat
deriving Repr

def newGenerator (sections : Nat) : Except GenErr Generator :=
  if sections % 8 != 0 then .error .notMultipleOf8
  else .ok ⟨List.replicate 2048 (List.replicate (sections / 8) 0), sections, 0⟩

/-- `(bloom[BloomByteLength-1-i/8] & (1 << (i%8))) != 0` -/
def bloomBit (bloom : Array UInt8) (i : Nat) : Bool :=
  (bloom.getD (256 - 1 - i / 8) 0) &&& ((1 : UInt8) <<< (i % 8).toUInt8) != 0

def Generator.addBloom (g : Generator) (index : Nat) (bloom : Bytes) : Except GenErr Generator :=
  if g.nextBit ≥ g.sections then .error .sectionOutOfBounds
  else if g.nextBit != index then .error .unexpectedIndex
  else
    let byteIndex := g.nextBit / 8
    let bitMask : UInt8 := (1 : UInt8) <<< (7 - g.nextBit % 8).toUInt8
    let arr := bloom.toArray
    .ok { g with
      blooms := g.blooms.mapIdx (fun i v => if bloomBit arr i then v.modify byteIndex (fun x => x ||| bitMask) else v)
      nextBit := g.nextBit + 1 }

/-- `Bitset(idx)`: note the comparison of the BIT index with the SECTION SIZE (`idx >= b.sections`), and the fixed
    `[2048]` array (index panic for `2048 ≤ idx < sections`). -/
def Generator.bitset (g : Generator) (idx : Nat) : Except GenErr Bytes :=
  if g.nextBit != g.sections then .error .notFull
  else if idx ≥ g.sections then .error .sectionOutOfBounds
  else match g.blooms[idx]? with
    | some v => .ok v
    | none => .error .indexPanic

/-- `BloomIndexer.Reset; Process × n; Commit` (aqua/bloombits.go): `Process` DISCARDS AddBloom's error, `Commit` asks for
    the 2048 bit vectors and fails on the first error. -/
def generateSection (size : Nat) (blooms : List Bytes) : Except GenErr (List Bytes) :=
  match newGenerator size with
  | .error e => .error e
  | .ok g0 =>
    let g := blooms.zipIdx.foldl (fun g (bi : Bytes × Nat) =>
      match g.addBloom bi.2 bi.1 with
      | .ok g' => g'
      | .error _ => g) g0
    (List.range 2048).mapM (fun i => g.bitset i)

/-- the committed part of the index: sections `0 … sections-1`, each over its `size` header blooms
    (chain_indexer.go processSection). An index is a list (by section) of 2048 bit vectors. -/
def buildIndex (size : Nat) (blooms : List Bytes) : Nat → Except GenErr (List (List Bytes))
  | 0 => .ok []
  | s + 1 =>
    match buildIndex size blooms s with
    | .error e => .error e
    | .ok idx =>
      match generateSection size ((blooms.drop (s * size)).take size) with
      | .error e => .error e
      | .ok sec => .ok (idx ++ [sec])

/-- retrieval of one bit vector (GetBloomBits + decompression; the scheduler cache is the identity). -/
def indexVec (index : List (List Bytes)) (sec bit : Nat) : Bytes := (index.getD sec []).getD bit []

/-! ## core/bloombits/matcher.go -/

/-- `idxs[i] = (uint(b[2*i])<<8)&2047 + uint(b[2*i+1])` (Go precedence: `<<` and `&` bind tighter than `+`). -/
def calcBloomIndexes (H : HashFn) (b : Bytes) : Nat × Nat × Nat :=
  let h := H b
  let f := fun (i : Nat) => (((h.getD (2 * i) 0).toNat <<< 8) &&& 2047) + (h.getD (2 * i + 1) 0).toNat
  (f 0, f 1, f 2)

/-- `NewMatcher`: empty groups are skipped; a group containing a nil clause is skipped. -/
def newMatcherFilters (H : HashFn) (filters : List (List (Option Bytes))) : List (List (Nat × Nat × Nat)) :=
  filters.filterMap (fun filter =>
    if filter.length == 0 then none
    else if filter.any (fun c => c.isNone) then none
    else some (filter.map (fun c => calcBloomIndexes H (c.getD []))))

/-- `filters.New`: addresses (if any) become the first group, every topic position one group. -/
def flattenCriteria (c : Criteria) : List (List (Option Bytes)) :=
  (if c.addresses.length > 0 then [c.addresses.map some] else []) ++ c.topics.map (fun tl => tl.map some)

/-- `bitutil.ANDBytes(dst, dst, b)`: the first `min` bytes are AND-ed, the rest of `dst` is left alone. -/
def andBytes : Bytes → Bytes → Bytes
  | a :: as, b :: bs => (a &&& b) :: andBytes as bs
  | as, [] => as
  | [], _ => []

/-- `bitutil.ORBytes(dst, dst, b)`. -/
def orBytes : Bytes → Bytes → Bytes
  | a :: as, b :: bs => (a ||| b) :: orBytes as bs
  | as, [] => as
  | [], _ => []

/-- `bitutil.TestBytes`. -/
def testBytes (v : Bytes) : Bool := v.any (fun b => b != 0)

/-- `andVector = make([]byte, size/8); copy(andVector, data)`. -/
def copyN (n : Nat) (data : Bytes) : Bytes := data.take n ++ List.replicate (n - data.length) 0

/-- the inner loop of subMatch for one alternative: AND of its three bit vectors. -/
def andVector (vec : Nat → Bytes) (size : Nat) (bits : Nat × Nat × Nat) : Bytes :=
  andBytes (andBytes (copyN (size / 8) (vec bits.1)) (vec bits.2.1)) (vec bits.2.2)

/-- the OR over the alternatives of one group (`orVector`; all-zero when there is no alternative). -/
def orVector (vec : Nat → Bytes) (size : Nat) : List (Nat × Nat × Nat) → Bytes
  | [] => List.replicate (size / 8) 0
  | x :: rest => rest.foldl (fun o bits => orBytes o (andVector vec size bits)) (andVector vec size x)

/-- one `subMatch` stage on one section: AND with the incoming partial match; the section is dropped when no bit is left. -/
def subMatch (vec : Nat → Bytes) (size : Nat) (bloom : List (Nat × Nat × Nat)) (inp : Bytes) : Option Bytes :=
  let o := andBytes (orVector vec size bloom) inp
  if testBytes o then some o else none

/-- the daisy chain of `run` on one section, fed with `bytes.Repeat(0xff, size/8)`. -/
def runSection (vec : Nat → Bytes) (size : Nat) (filters : List (List (Nat × Nat × Nat))) : Option Bytes :=
  filters.foldl (fun cur bloom => cur.bind (subMatch vec size bloom)) (some (List.replicate (size / 8) 0xff))

/-- bit `n` of a section bit vector as the extraction loop reads it: `bitset[n/8] & (1 << (7 - n%8)) != 0`
    (most significant bit first). Vocabulary of `transpose_spec`/`matcher_spec`. -/
def vecBit (v : Bytes) (n : Nat) : Bool :=
  (v.getD (n / 8) 0) &&& ((1 : UInt8) <<< (7 - n % 8).toUInt8) != 0

/-- bit `n` of the outcome of the pipeline for one section (a dropped section has no bits). -/
def sectionBit (r : Option Bytes) (n : Nat) : Bool :=
  match r with
  | some v => vecBit v n
  | none => false

/-- the result-extraction loop of `Start`: `for i := first; i <= last; i++ { next := bitset[(i-sectionStart)/8]; if next == 0
    { if i%8 == 0 { i += 7 }; continue }; if bit := 7 - i%8; next&(1<<bit) != 0 { results <- i } }`. First argument = fuel. -/
def extractLoop (bitset : Array UInt8) (sectionStart last : Nat) : Nat → Nat → List Nat
  | 0, _ => []
  | fuel + 1, i =>
    if i > last then []
    else
      let next := bitset.getD ((i - sectionStart) / 8) 0
      if next == 0 then
        if i % 8 == 0 then extractLoop bitset sectionStart last fuel (i + 7 + 1)
        else extractLoop bitset sectionStart last fuel (i + 1)
      else if next &&& ((1 : UInt8) <<< (7 - i % 8).toUInt8) != 0 then i :: extractLoop bitset sectionStart last fuel (i + 1)
      else extractLoop bitset sectionStart last fuel (i + 1)

def extract (size begin_ end_ sec : Nat) (bitset : Bytes) : List Nat :=
  let sectionStart := sec * size
  let first := if begin_ > sectionStart then begin_ else sectionStart
  let last := if end_ < sectionStart + size - 1 then end_ else sectionStart + size - 1
  extractLoop bitset.toArray sectionStart last (last + 1 - first) first

/-- the section feed of `run` (`for i := begin/size; i <= end/size; i++`) followed by pipeline and extraction; the
    second argument counts the sections still to feed. -/
def matcherSections (index : List (List Bytes)) (size : Nat) (filters : List (List (Nat × Nat × Nat))) (begin_ end_ : Nat) :
    Nat → Nat → List Nat
  | 0, _ => []
  | k + 1, s =>
    (match runSection (indexVec index s) size filters with
     | some bitset => extract size begin_ end_ s bitset
     | none => []) ++ matcherSections index size filters begin_ end_ k (s + 1)

/-- input/output function of a `Matcher` session: the block numbers delivered on the results channel, in order. -/
def matcherRun (index : List (List Bytes)) (size : Nat) (filters : List (List (Nat × Nat × Nat))) (begin_ end_ : Nat) : List Nat :=
  matcherSections index size filters begin_ end_ (end_ / size + 1 - begin_ / size) (begin_ / size)

/-! ## aqua/filters/filter.go : Logs -/

/-- a canonical block as the filter sees it: header bloom and the logs of its receipts. -/
structure Block where
  bloom : Bytes
  receipts : List (List Log)
deriving Repr, Inhabited

/-- `ValidateState`: `header.Bloom == CreateBloom(receipts)` holds for every imported (canonical) block. -/
def Block.valid (H : HashFn) (b : Block) : Prop := b.bloom = createBloom H b.receipts

/-- `for _, logs := range logsList { unfiltered = append(unfiltered, logs...) }` -/
def Block.logs (b : Block) : List Log := b.receipts.flatten

def checkMatches (c : Criteria) (blk : Block) : List Log :=
  let logs := filterLogs blk.logs c
  match logs with
  | [] => []
  | l :: _ => if l.txHashZero then filterLogs blk.logs c   -- re-read through GetReceipts (light client)
              else logs

/-- `unindexedLogs`: `for ; f.begin <= int64(end); f.begin++`; a nil header ends the scan. First argument = fuel. -/
def unindexedLogs (H : HashFn) (chain : List Block) (c : Criteria) (end_ : Nat) : Nat → Nat → List Log
  | 0, _ => []
  | fuel + 1, begin_ =>
    if begin_ > end_ then []
    else match chain[begin_]? with
      | none => []
      | some blk =>
        (if bloomFilter H blk.bloom c then checkMatches c blk else []) ++ unindexedLogs H chain c end_ fuel (begin_ + 1)

/-- the receive loop of `indexedLogs` over the delivered matches; returns the logs and the new `f.begin`. -/
def indexedLoop (chain : List Block) (c : Criteria) (endNext : Nat) : List Nat → List Log × Nat
  | [] => ([], endNext)                       -- channel closed: f.begin = end + 1
  | number :: rest =>
    match chain[number]? with
    | none => ([], number + 1)                -- header == nil: return logs, err(nil) with f.begin = number + 1
    | some blk =>
      let r := indexedLoop chain c endNext rest
      (checkMatches c blk ++ r.1, r.2)

def indexedLogs (H : HashFn) (index : List (List Bytes)) (chain : List Block) (size : Nat) (c : Criteria) (begin_ end_ : Nat) :
    List Log × Nat :=
  indexedLoop chain c (end_ + 1) (matcherRun index size (newMatcherFilters H (flattenCriteria c)) begin_ end_)

/-- `Filter.Logs` for a filter created by `New(backend, begin, end, addresses, topics)`; `BloomStatus() = (size, len index)`.
    `begin`/`end` are the int64 arguments (−1 = latest; values below −1 are outside the modelled domain). -/
def filterLogsQuery (H : HashFn) (index : List (List Bytes)) (chain : List Block) (size : Nat) (c : Criteria)
    (begin_ end_ : Int) : List Log :=
  match chain with
  | [] => []                                  -- header == nil
  | _ :: _ =>
    let head := chain.length - 1
    let b := if begin_ == -1 then head else begin_.toNat
    let e := if end_ == -1 then head else end_.toNat
    let sections := index.length
    let indexed := sections * size
    let r : List Log × Nat :=
      if indexed > b then
        if indexed > e then indexedLogs H index chain size c b e
        else indexedLogs H index chain size c b (indexed - 1)
      else ([], b)
    r.1 ++ unindexedLogs H chain c e (e + 1 - r.2) r.2

/-! ## common/bitutil/compress.go — how a section bit vector is stored (`Commit`: `WriteBloomBits(…, CompressBytes(bits))`) and read
    back (`startBloomHandlers`: `DecompressBytes(GetBloomBits(…), sectionSize/8)`) -/

inductive ZErr where
  | missingData | unreferencedData | exceededTarget | zeroContent
deriving DecidableEq, Repr

/-- one byte of a bitset, most significant bit first. -/
def bitsByte (b0 b1 b2 b3 b4 b5 b6 b7 : Bool) : UInt8 :=
  (if b0 then 0x80 else 0) ||| (if b1 then 0x40 else 0) ||| (if b2 then 0x20 else 0) ||| (if b3 then 0x10 else 0) |||
  (if b4 then 0x08 else 0) ||| (if b5 then 0x04 else 0) ||| (if b6 then 0x02 else 0) ||| (if b7 then 0x01 else 0)

/-- `nonZeroBitset[i/8] |= 1 << (7 - i%8)` for every set position: `(len+7)/8` bytes. -/
def packBits (l : List Bool) : Bytes :=
  (List.range ((l.length + 7) / 8)).map (fun k =>
    bitsByte (l.getD (8 * k) false) (l.getD (8 * k + 1) false) (l.getD (8 * k + 2) false) (l.getD (8 * k + 3) false)
      (l.getD (8 * k + 4) false) (l.getD (8 * k + 5) false) (l.getD (8 * k + 6) false) (l.getD (8 * k + 7) false))

/-- Spec of a section bit vector, used by the model driver to accept a generator that hands out the right column where the code
    as written refuses: byte `k` packs (MSB first) bit `i` of the integers of blooms `8k … 8k+7` (absent blooms count as zero). -/
def specColumn (blooms : List Bytes) (size i : Nat) : Bytes :=
  let arr := blooms.toArray
  packBits ((List.range size).map (fun n => ((arr[n]?).map (fun b => (beNat b).testBit i)).getD false))

/-- `bitsetEncodeBytes` (first argument = fuel ≥ length; the bitset is 8 times shorter). -/
def bitsetEncodeF : Nat → Bytes → Bytes
  | 0, _ => []
  | f + 1, data =>
    if data.length = 0 then []
    else if data.length = 1 then (if data.getD 0 0 == 0 then [] else data)
    else
      let nonZeroBytes := data.filter (fun b => b != 0)
      if nonZeroBytes.length == 0 then []
      else bitsetEncodeF f (packBits (data.map (fun b => b != 0))) ++ nonZeroBytes

def bitsetEncodeBytes (data : Bytes) : Bytes := bitsetEncodeF data.length data

/-- `CompressBytes`: the encoding is kept only when it is strictly smaller than the input. -/
def compressBytes (data : Bytes) : Bytes :=
  let out := bitsetEncodeBytes data
  if out.length < data.length then out else data

/-- the bits of a decoded bitset, `8·len` of them (`nonZeroBitset[i/8] & (1 << (7 - i%8)) != 0`). -/
def bitsOf (v : Bytes) : List Bool := (List.range (8 * v.length)).map (vecBit v)

/-- the distribution loop of `bitsetDecodePartialBytes`: position `i`, remaining input `rest`; returns the output from position
    `i` on and the number of input bytes consumed. -/
def distribute (target : Nat) : List Bool → Nat → Bytes → Except ZErr (Bytes × Nat)
  | [], i, _ => .ok (List.replicate (target - i) 0, 0)
  | b :: bs, i, rest =>
    if b then
      match rest with
      | [] => .error .missingData
      | d :: rest' =>
        if i ≥ target then .error .exceededTarget
        else if d == 0 then .error .zeroContent
        else match distribute target bs (i + 1) rest' with
          | .error e => .error e
          | .ok (out, c) => .ok (d :: out, c + 1)
    else match distribute target bs (i + 1) rest with
      | .error e => .error e
      | .ok (out, c) => .ok ((if i < target then [0] else []) ++ out, c)

/-- `bitsetDecodePartialBytes` (first argument = fuel ≥ target). -/
def bitsetDecodePartialF : Nat → Bytes → Nat → Except ZErr (Bytes × Nat)
  | 0, _, _ => .ok ([], 0)
  | f + 1, data, target =>
    if target = 0 then .ok ([], 0)
    else if data.length = 0 then .ok (List.replicate target 0, 0)
    else if target = 1 then
      let d := data.getD 0 0
      if d != 0 then .ok ([d], 1) else .ok ([d], 0)
    else match bitsetDecodePartialF f data ((target + 7) / 8) with
      | .error e => .error e
      | .ok (nonZeroBitset, ptr) =>
        match distribute target (bitsOf nonZeroBitset) 0 (data.drop ptr) with
        | .error e => .error e
        | .ok (out, c) => .ok (out, ptr + c)

/-- `DecompressBytes(data, target)`: an input of exactly `target` bytes is taken as stored raw. -/
def decompressBytes (data : Bytes) (target : Nat) : Except ZErr Bytes :=
  if data.length > target then .error .exceededTarget
  else if data.length = target then .ok data
  else match bitsetDecodePartialF target data target with
    | .error e => .error e
    | .ok (out, size) => if size != data.length then .error .unreferencedData else .ok out

/-- what a retrieval hands to the matcher for a vector that was committed: `DecompressBytes(CompressBytes(v), size/8)`. -/
def storedVec (size : Nat) (v : Bytes) : Except ZErr Bytes := decompressBytes (compressBytes v) (size / 8)

/-! ## core/chain_indexer.go : processSection -/

/-- a header as the indexer sees it: its hash, its parent hash, its bloom. -/
structure Hdr where
  hash : Nat
  parent : Nat
  bloom : Bytes
deriving DecidableEq, Repr

inductive IdxErr where
  | reorged | gen (e : GenErr)
deriving DecidableEq, Repr

/-- the walk of `processSection`: `walk` are the headers the successive `GetCanonicalHash/GetHeader` reads returned (the chain
    mutex is not held, so they need not belong to one chain); every header must link to the previously walked one. -/
def walkSection : Nat → List Hdr → Except IdxErr Nat
  | lastHead, [] => .ok lastHead
  | lastHead, h :: rest => if h.parent != lastHead then .error .reorged else walkSection h.hash rest

/-- `processSection(section, lastHead)`: Reset, the checked walk with `Process` on every header, `Commit`; returns the new section
    head (hash of the last header walked) and the 2048 bit vectors. -/
def processSection (size : Nat) (lastHead : Nat) (walk : List Hdr) : Except IdxErr (Nat × List Bytes) :=
  match walkSection lastHead walk with
  | .error e => .error e
  | .ok newHead =>
    match generateSection size (walk.map (·.bloom)) with
    | .error e => .error (.gen e)
    | .ok vs => .ok (newHead, vs)

/-! ## Spec: brute-force scan of the canonical receipts in chain order -/

namespace Spec

/-- a log matches: its address is one of the given addresses (if any are given); it has at least as many topics as there are
    positions; at every position the alternatives are empty (wildcard) or contain the log's topic at that position. -/
def logMatches (c : Criteria) (log : Log) : Bool :=
  (c.addresses.isEmpty || c.addresses.contains log.address) &&
  decide (c.topics.length ≤ log.topics.length) &&
  (List.range c.topics.length).all (fun i => (c.topics.getD i []).isEmpty || (c.topics.getD i []).contains (log.topics.getD i []))

/-- all matching logs of the canonical blocks with number in `[begin, end]` (−1 = head), in chain order. -/
def bruteForce (chain : List Block) (c : Criteria) (begin_ end_ : Int) : List Log :=
  let head := chain.length - 1
  let b := if begin_ == -1 then head else begin_.toNat
  let e := if end_ == -1 then head else end_.toNat
  ((List.range chain.length).filter (fun n => b ≤ n && n ≤ e)).flatMap (fun n => ((chain.getD n default).logs).filter (logMatches c))

end Spec

end Aqv.LogFilter

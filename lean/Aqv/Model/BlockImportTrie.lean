/-
  Aqv.Model.BlockImportTrie — Layer A′ of the block-import model (property C01): the two state-folding map loops of
  core/state (Aqv.Model.BlockImport, Layer A) executed on REAL Merkle-Patricia tries, i.e. on the trie model of property C10
  (`Aqv.Model.Trie`): every storage trie and the account trie is the history of `TryUpdate` / `TryDelete` calls applied to it
  (`List Trie.Op`; the trie itself is `Trie.run history`, its root `Trie.hashRoot H`).  Core-only.

  `Codec` = the byte-level encodings the Go code uses around the tries: the secure-trie key of a storage slot / of an address
  (Keccak of the key: only injectivity matters), `rlp(trimLeft(value))` for a storage word, `rlp(Account{…})` for a leaf.
-/
import Aqv.Model.BlockImport
import Aqv.Model.Trie
namespace Aqv.BlockImport

structure Codec where
  slotKey : Slot → Bytes
  slotInv : Bytes → Option Slot
  wordVal : Word → Bytes
  addrKey : Addr → Bytes
  addrInv : Bytes → Option Addr
  leafVal : Leaf → Bytes

/-- the trie operation `updateTrie` issues for one dirty slot: value 0 → `TryDelete`, else `TryUpdate(key, rlp(trim value))`. -/
def slotOp (cd : Codec) (k : Slot) (v : Word) : Trie.Op :=
  if v = 0 then .delete (cd.slotKey k) else .update (cd.slotKey k) (cd.wordVal v)

/-- `storeStep` on (object, history of its storage trie). -/
def cStoreStep (cd : Codec) (p : Obj × List Trie.Op) (k : Slot) : Obj × List Trie.Op :=
  match p.1.dirty k with
  | none => p
  | some v => (storeStep p.1 k, p.2 ++ [slotOp cd k v])

/-- `stateObject.updateTrie` on the real trie, iterating `dirtyStorage` in the order `ks`. -/
def cUpdateTrie (cd : Codec) (ks : List Slot) (p : Obj × List Trie.Op) : Obj × List Trie.Op := ks.foldl (cStoreStep cd) p

/-- `trie.Hash()` of the trie a history produces (a history never fails: C10 `run_refines`). -/
def trieRoot (H : Bytes → Bytes) (hist : List Trie.Op) : Bytes :=
  match Trie.run hist with
  | some t => Trie.hashRoot H t
  | none => []

/-- a root hash as the number stored in `Leaf.sroot` / `Obj.sroot` (injective: leading marker byte). -/
def natOfRoot (bs : Bytes) : Nat := beNat (1 :: bs)

/-- `updateRoot`: flush, then `data.Root = trie.Hash()`. -/
def cUpdateRoot (H : Bytes → Bytes) (cd : Codec) (ks : List Slot) (p : Obj × List Trie.Op) : Obj × List Trie.Op :=
  let q := cUpdateTrie cd ks p
  ({ q.1 with sroot := natOfRoot (trieRoot H q.2) }, q.2)

/-- a StateDB whose tries are real: Layer A's `SDB` plus the history of every live object's storage trie and of the account trie. -/
structure CSDB where
  base : SDB
  hists : Addr → List Trie.Op
  acct : List Trie.Op

/-- one iteration of `Finalise`'s loop on real tries. -/
def cFinalStep (H : Bytes → Bytes) (cd : Codec) (del : Bool) (σ : Addr → List Slot) (s : CSDB) (a : Addr) : CSDB :=
  match s.base.objs a with
  | none => { s with base := { s.base with fault := true } }
  | some o =>
    if o.suicided || (del && o.empty) then
      { s with base := { s.base with objs := upd s.base.objs a (some { o with deleted := true }), trie := upd s.base.trie a none },
               acct := s.acct ++ [.delete (cd.addrKey a)] }                                        -- deleteStateObject: trie.TryDelete(addr)
    else
      let q := cUpdateRoot H cd (σ a) (o, s.hists a)
      { base := { s.base with objs := upd s.base.objs a (some q.1), trie := upd s.base.trie a (some (leafOf q.1)) },
        hists := upd s.hists a q.2,
        acct := s.acct ++ [.update (cd.addrKey a) (cd.leafVal (leafOf q.1))] }                      -- updateStateObject: trie.TryUpdate(addr, rlp(obj))

/-- `StateDB.Finalise(del)` on real tries, iterating `stateObjectsDirty` in the order `π`. -/
def cFinalise (H : Bytes → Bytes) (cd : Codec) (del : Bool) (π : List Addr) (σ : Addr → List Slot) (s : CSDB) : CSDB :=
  π.foldl (cFinalStep H cd del σ) s

/-- `StateDB.IntermediateRoot(del)` on real tries: the state root as the node computes it. -/
def cIntermediateRoot (H : Bytes → Bytes) (cd : Codec) (del : Bool) (π : List Addr) (σ : Addr → List Slot) (s : CSDB) : Bytes :=
  trieRoot H (cFinalise H cd del π σ s).acct

end Aqv.BlockImport

/-
  Aqv.Model.ChainDb — the chain database as the storage engine sees it (property C04).  Core Lean only.

  * `Db`, `Event`: a key/value store and its three mutations (single put, single delete, atomic batch flush) —
    aquadb/interface.go.  A crash leaves exactly the writes of some PREFIX of the event sequence on disk.
  * readers: `getBlock`, `getBlockByHash`, `canonHash`, `hasState` — core/database_util.go, core/blockchain.go.
  * `recover`: `NewBlockChain` → `loadLastState` → `repair` / `Reset` (core/blockchain.go) as a total function with the
    panics of the real code as explicit outcomes.
  * `LocalOK`: the decidable per-image discipline; `RecoverOK`: the property's statement about one reopened image.
  * trie store: `MTree`, `commitPuts` (trie/database.go `commit`), `Closed`; `commitRun` (batching and the lock/unlock sequence of
    `Database.Commit` under every injected write failure).
  * writers (`Aqv.Model.ChainWriter`): the event log of `WriteBlockWithState` / `reorg` / `insert` / `Stop` /
    `SetHead`.

  Keys are abstract: a block / transaction / trie node is named by a natural number standing for its hash.  Content
  addressing (a hash determines the content) enters the theorems about the writers as the hypothesis that a block is new
  or already stored with exactly the same content (`FreshOrSame`); the readers never assume it.
-/
namespace Aqv.ChainDb

abbrev Hash := Nat

/-- key classes of core/database_util.go (the header/body/receipt keys carry the number as well; a lookup with the wrong
    number misses — modelled in `getHeader` by comparing with the number stored in the header). -/
inductive Key
  | header (h : Hash)      -- "h" ‖ num ‖ hash
  | td (h : Hash)          -- "h" ‖ num ‖ hash ‖ "t"
  | canon (n : Nat)        -- "h" ‖ num ‖ "n"
  | body (h : Hash)        -- "b" ‖ num ‖ hash
  | receipts (h : Hash)    -- "r" ‖ num ‖ hash
  | hashNum (h : Hash)     -- "H" ‖ hash
  | lookup (tx : Nat)      -- "l" ‖ txhash
  | lastBlock | lastHeader | lastFast
  | node (h : Hash)        -- raw 32-byte key: trie node or contract code
  | preimage (h : Hash)    -- "secure-key-" ‖ hash
  | other
  deriving DecidableEq, Repr

inductive Val
  | hdr (parent : Hash) (num : Nat) (root : Hash)   -- header: parent hash, number, state root
  | num (n : Nat)                                   -- hash → number
  | ref (h : Hash)                                  -- a block hash (canonical number, Last*, lookup entry)
  | txs (ts : List Nat)                             -- body: the transactions
  | node (children : List Hash)                     -- trie node: every hash it references (children, storage root, code)
  | blob
  deriving DecidableEq, Repr

abbrev Db := List (Key × Val)

/-- first binding wins (puts shadow) -/
def get : Db → Key → Option Val
  | [], _ => none
  | (k', v) :: rest, k => if k' = k then some v else get rest k

def put (db : Db) (k : Key) (v : Val) : Db := (k, v) :: db
def del (db : Db) (k : Key) : Db := db.filter (fun e => !(e.1 == k))

inductive Event
  | put (k : Key) (v : Val)
  | del (k : Key)
  | batch (ws : List (Key × Option Val))     -- atomic
  deriving DecidableEq, Repr

def applyW (db : Db) : Key × Option Val → Db
  | (k, some v) => put db k v
  | (k, none) => del db k

def apply (db : Db) : Event → Db
  | .put k v => put db k v
  | .del k => del db k
  | .batch ws => ws.foldl applyW db

def applyAll (db : Db) (es : List Event) : Db := es.foldl apply db

/-! ### readers -/

structure Hdr where
  parent : Hash
  num : Nat
  root : Hash
  deriving DecidableEq, Repr

/-- `GetBlockNumber` -/
def blockNumber (db : Db) (h : Hash) : Option Nat :=
  match get db (.hashNum h) with
  | some (.num n) => some n
  | _ => none

/-- `GetHeaderNoVersion(db, hash, number)`: the key contains the number -/
def getHeader (db : Db) (h : Hash) (n : Nat) : Option Hdr :=
  match get db (.header h) with
  | some (.hdr p n' r) => if n' = n then some ⟨p, n', r⟩ else none
  | _ => none

/-- `GetBlockNoVersion`: header and body -/
def getBlock (db : Db) (h : Hash) (n : Nat) : Option Hdr :=
  match getHeader db h n with
  | some hd => if (get db (.body h)).isSome then some hd else none
  | none => none

/-- `BlockChain.GetBlockByHash` = `GetBlock(hash, hc.GetBlockNumber(hash))` -/
def getBlockByHash (db : Db) (h : Hash) : Option Hdr :=
  match blockNumber db h with
  | some n => getBlock db h n
  | none => none

/-- `GetCanonicalHash` -/
def canonHash (db : Db) (n : Nat) : Option Hash :=
  match get db (.canon n) with
  | some (.ref h) => some h
  | _ => none

def getBlockByNumber (db : Db) (n : Nat) : Option (Hash × Hdr) :=
  match canonHash db n with
  | some h => (getBlock db h n).map (fun hd => (h, hd))
  | none => none

/-- `state.New(root, …)` succeeds iff the root node resolves (`trie.New` → `resolveHash`) -/
def hasState (db : Db) (root : Hash) : Bool := (get db (.node root)).isSome

def headPtr (db : Db) : Option Hash :=
  match get db .lastBlock with
  | some (.ref h) => some h
  | _ => none

/-! ### recovery: NewBlockChain → loadLastState → repair / Reset -/

inductive Outcome
  | ok (head : Hash) (num : Nat)
  | errNoGenesis
  | panicReset      -- "Head block missing"/"Empty database" → Reset → SetHead(0) → CurrentBlock() type-asserts an unset atomic.Value
  | panicRepair     -- repair walked off a missing block: (*head).Root() on nil
  deriving DecidableEq, Repr

def Outcome.isOk : Outcome → Bool
  | .ok _ _ => true
  | _ => false

/-- `repair`: roll the head back until a block with state is found; `bc.GetBlock(parent, num-1)` may return nil, the
    next iteration then dereferences it.  Fuel = number + 1 suffices because the number strictly decreases. -/
def repair (db : Db) : Nat → Hash → Hdr → Outcome
  | 0, _, _ => .panicRepair
  | fuel + 1, h, hd =>
    if hasState db hd.root then .ok h hd.num
    else if hd.num = 0 then .panicRepair            -- GetBlock(parent, 2^64-1) = nil
    else match getBlock db hd.parent (hd.num - 1) with
      | some hd' => repair db fuel hd.parent hd'
      | none => .panicRepair

def recover (db : Db) : Outcome :=
  match getBlockByNumber db 0 with
  | none => .errNoGenesis                            -- NewHeaderChain / GetBlockByNumber(0) = nil
  | some _ =>
    match headPtr db with
    | none => .panicReset                            -- empty head hash → Reset
    | some h =>
      match getBlockByHash db h with
      | none => .panicReset                          -- head block missing → Reset
      | some hd => repair db (hd.num + 1) h hd       -- (the first iteration is loadLastState's own state.New check)

/-! ### the per-image discipline (decidable) -/

/-- head chain: every block from (h, n) down to number 0 is present, linked by parent hashes, and the canonical number
    entries name exactly these blocks. -/
def chainOK (db : Db) : Nat → Hash → Nat → Bool
  | 0, _, _ => false
  | fuel + 1, h, n =>
    match getBlock db h n with
    | none => false
    | some hd => canonHash db n == some h && (n == 0 || chainOK db fuel hd.parent (n - 1))

/-- some block of the head chain has its state root on disk -/
def repairable (db : Db) : Nat → Hash → Nat → Bool
  | 0, _, _ => false
  | fuel + 1, h, n =>
    match getBlock db h n with
    | none => false
    | some hd => hasState db hd.root || (n != 0 && repairable db fuel hd.parent (n - 1))

/-- every stored trie node has all the objects it references stored as well -/
def closedB (db : Db) : Bool :=
  db.all fun e =>
    match e.1 with
    | .node h =>
      match get db (.node h) with
      | some (.node cs) => cs.all fun c => (get db (.node c)).isSome
      | _ => true
    | _ => true

/-- `archive = true` additionally demands the state of the head itself (an archive node never rewinds) -/
def LocalOK (archive : Bool) (db : Db) : Bool :=
  match headPtr db with
  | none => false
  | some h =>
    match blockNumber db h with
    | none => false
    | some n =>
      chainOK db (n + 1) h n && repairable db (n + 1) h n && closedB db &&
      (!archive || match getBlock db h n with | some hd => hasState db hd.root | none => false)

/-! ### the property on one reopened image -/

def Closed (db : Db) : Prop :=
  ∀ h cs, get db (.node h) = some (.node cs) → ∀ c ∈ cs, (get db (.node c)).isSome = true

/-- objects reachable from a root through stored nodes -/
inductive Reach (db : Db) : Hash → Hash → Prop
  | refl (r : Hash) : Reach db r r
  | step {r x c : Hash} {cs : List Hash} : Reach db r x → get db (.node x) = some (.node cs) → c ∈ cs → Reach db r c

/-- the complete state at `root` (account trie, storage tries, code) is readable -/
def StateComplete (db : Db) (root : Hash) : Prop := ∀ x, Reach db root x → (get db (.node x)).isSome = true

/-- the number index agrees with the ancestry of (h, n) back to genesis -/
inductive CanonAgrees (db : Db) : Hash → Nat → Prop
  | genesis {h : Hash} {hd : Hdr} : getBlock db h 0 = some hd → canonHash db 0 = some h → CanonAgrees db h 0
  | succ {h : Hash} {n : Nat} {hd : Hdr} : getBlock db h (n + 1) = some hd → canonHash db (n + 1) = some h →
      CanonAgrees db hd.parent n → CanonAgrees db h (n + 1)

/-- `NearestWithState db h n a m`: walking parent links from block (h, n), (a, m) is the first block whose state root is on disk -/
inductive NearestWithState (db : Db) : Hash → Nat → Hash → Nat → Prop
  | here {h : Hash} {n : Nat} {hd : Hdr} : getBlock db h n = some hd → hasState db hd.root = true → NearestWithState db h n h n
  | up {h a : Hash} {n m : Nat} {hd : Hdr} : getBlock db h (n + 1) = some hd → hasState db hd.root = false →
      NearestWithState db hd.parent n a m → NearestWithState db h (n + 1) a m

/-- Reopening succeeds without error or panic; the exposed head is the block named by the head pointer or (when
    `archive = false`) its nearest ancestor whose state is on disk; its complete state is readable; the number index agrees
    with its ancestry back to genesis. -/
def RecoverOK (archive : Bool) (db : Db) (o : Outcome) : Prop :=
  ∃ h₀ n₀ a m hd, headPtr db = some h₀ ∧ blockNumber db h₀ = some n₀ ∧ o = .ok a m ∧
    NearestWithState db h₀ n₀ a m ∧ (archive = true → a = h₀) ∧
    getBlock db a m = some hd ∧ StateComplete db hd.root ∧ CanonAgrees db a m

/-! ### traces with ghost heads -/

/-- one step of a trace: the event and the node's in-memory head block once the event has been applied -/
abbrev GEvent := Event × Hash

def imageOK (archive : Bool) (db : Db) (ghost : Hash) : Bool :=
  LocalOK archive db && (headPtr db == some ghost)

/-- every prefix (including the empty one and the whole trace) leaves a `LocalOK` image whose head pointer names the
    last block the node made its head -/
def TraceOK (archive : Bool) : Db → Hash → List GEvent → Bool
  | db, g, [] => imageOK archive db g
  | db, g, (e, g') :: rest => imageOK archive db g && TraceOK archive (apply db e) g' rest

/-- index of the first bad prefix, for diagnostics (`none` = TraceOK) -/
def firstBad (archive : Bool) : Db → Hash → List GEvent → Nat → Option Nat
  | db, g, [], i => if imageOK archive db g then none else some i
  | db, g, (e, g') :: rest, i => if imageOK archive db g then firstBad archive (apply db e) g' rest (i + 1) else some i

def ghostAt (g₀ : Hash) (p : List GEvent) : Hash :=
  match p.getLast? with
  | some (_, g) => g
  | none => g₀

/-! ### trie store: the in-memory layer and `Database.commit` -/

/-- the dirty part of a trie in the memory layer of trie.Database, unfolded from its root (a node shared by two parents
    appears twice, exactly as `commit` visits it twice).  `diskKids` are references to objects that are not in the
    memory layer ("previously committed": `commit` returns immediately for them). -/
inductive MTree
  | node (hash : Hash) (kids : List MTree) (diskKids : List Hash)

def MTree.hash : MTree → Hash
  | .node h _ _ => h

def MTree.refs : MTree → List Hash
  | .node _ kids dk => kids.map MTree.hash ++ dk

mutual
/-- `Database.commit(hash, batch)`: children first (in map order = any order of `kids`), then `batch.Put(hash, blob)` -/
def commitPuts : MTree → List (Hash × List Hash)
  | .node h kids dk => commitPutsL kids ++ [(h, kids.map MTree.hash ++ dk)]
def commitPutsL : List MTree → List (Hash × List Hash)
  | [] => []
  | t :: ts => commitPuts t ++ commitPutsL ts
end

mutual
/-- every reference out of the memory layer -/
def MTree.diskRefs : MTree → List Hash
  | .node _ kids dk => dk ++ MTree.diskRefsL kids
def MTree.diskRefsL : List MTree → List Hash
  | [] => []
  | t :: ts => t.diskRefs ++ MTree.diskRefsL ts
end

def putNode (db : Db) (p : Hash × List Hash) : Db := put db (.node p.1) (.node p.2)

/-- a put sequence is children-first relative to `db`: every reference of a node is stored already or put earlier -/
def childrenFirstB (db : Db) : List (Hash × List Hash) → Bool
  | [] => true
  | p :: rest => (p.2.all fun c => (get db (.node c)).isSome) && childrenFirstB (putNode db p) rest

/-! ### `Database.Commit`: batching, write failures, lock discipline (trie/database.go) -/

inductive LockOp | rlock | runlock | lock | unlock
  deriving DecidableEq, Repr

/-- what `Commit` does that is visible outside: lock operations on `db.lock`, successful batch flushes, a failed flush -/
inductive Act
  | lk (o : LockOp)
  | write (ws : List (Key × Option Val))
  | failedWrite
  deriving DecidableEq, Repr

structure CState where
  batch : List (Key × Option Val) := []
  size : Nat := 0
  nwrites : Nat := 0          -- `batch.Write()` calls so far (the fault injector fails the `failAt`-th)
  acts : List Act := []

/-- `batch.Write()` (+ `batch.Reset()` on success); `false` = the write failed -/
def writeBatch (failAt : Option Nat) (s : CState) : Bool × CState :=
  if failAt = some s.nwrites then
    (false, { s with nwrites := s.nwrites + 1, acts := s.acts ++ [.failedWrite] })
  else
    (true, { batch := [], size := 0, nwrites := s.nwrites + 1, acts := s.acts ++ [.write s.batch] })

/-- the preimage loop: `batch.Put(secureKey, preimage)`; flush when `ValueSize() > IdealBatchSize` -/
def preLoop (limit : Nat) (failAt : Option Nat) : List (Hash × Nat) → CState → Bool × CState
  | [], s => (true, s)
  | (h, sz) :: rest, s =>
    let s1 := { s with batch := s.batch ++ [(Key.preimage h, some Val.blob)], size := s.size + sz }
    if s1.size > limit then
      match writeBatch failAt s1 with
      | (false, s2) => (false, s2)
      | (true, s2) => preLoop limit failAt rest s2
    else preLoop limit failAt rest s1

/-- the puts of `commit` in order (node, references, blob size); flush when `ValueSize() >= IdealBatchSize` -/
def nodeLoop (limit : Nat) (failAt : Option Nat) : List (Hash × List Hash × Nat) → CState → Bool × CState
  | [], s => (true, s)
  | (h, cs, sz) :: rest, s =>
    let s1 := { s with batch := s.batch ++ [(Key.node h, some (Val.node cs))], size := s.size + sz }
    if s1.size ≥ limit then
      match writeBatch failAt s1 with
      | (false, s2) => (false, s2)
      | (true, s2) => nodeLoop limit failAt rest s2
    else nodeLoop limit failAt rest s1

/-- `Database.Commit(node, report)`.  `fixed = true` is the code as written (since 69e8ea6); `fixed = false` is the code
    before it: the error return inside the preimage loop did not release the read lock.  Result: everything done until
    return, and whether an error was returned. -/
def commitRun (fixed : Bool) (limit : Nat) (pre : List (Hash × Nat)) (nodes : List (Hash × List Hash × Nat))
    (failAt : Option Nat) : List Act × Bool :=
  let s0 : CState := { acts := [.lk .rlock] }
  match preLoop limit failAt pre s0 with
  | (false, s) => (if fixed then s.acts ++ [.lk .runlock] else s.acts, true)
  | (true, s) =>
    match nodeLoop limit failAt nodes s with
    | (false, s) => (s.acts ++ [.lk .runlock], true)          -- "Failed to commit trie": RUnlock, return err
    | (true, s) =>
      match writeBatch failAt s with
      | (false, s) => (s.acts ++ [.lk .runlock], true)        -- "Failed to write trie to disk": RUnlock, return err
      | (true, s) => (s.acts ++ [.lk .runlock, .lk .lock, .lk .unlock], false)   -- uncache under the write lock (deferred Unlock)

def lockOps : List Act → List LockOp
  | [] => []
  | .lk o :: rest => o :: lockOps rest
  | _ :: rest => lockOps rest

/-- (read-lock count, write-lock count) held after a sequence of lock operations -/
def held : List LockOp → Int × Int
  | [] => (0, 0)
  | .rlock :: rest => let (r, w) := held rest; (r + 1, w)
  | .runlock :: rest => let (r, w) := held rest; (r - 1, w)
  | .lock :: rest => let (r, w) := held rest; (r, w + 1)
  | .unlock :: rest => let (r, w) := held rest; (r, w - 1)

/-- the successful flushes of a run, as database events -/
def flushEvents : List Act → List Event
  | [] => []
  | .write ws :: rest => .batch ws :: flushEvents rest
  | _ :: rest => flushEvents rest

/-! ### the memory layer of trie.Database across commits that may fail (trie/database.go `Commit`, `commit`, `uncache`) -/

/-- the dirty nodes of the memory layer: hash ↦ the objects the node references -/
abbrev Mem := List (Hash × List Hash)

def memGet : Mem → Hash → Option (List Hash)
  | [], _ => none
  | (h', cs) :: rest, h => if h' = h then some cs else memGet rest h

/-- `Database.commit(hash, batch)` on the memory layer: a node that is not in memory is "previously committed" (skipped);
    otherwise children first, then the node.  The Go recursion is unbounded (the node graph is acyclic); `fuel` bounds the
    depth, `commitFuelOK` says the bound was not hit. -/
def commitMem (m : Mem) : Nat → Hash → List (Hash × List Hash)
  | 0, _ => []
  | fuel + 1, h =>
    match memGet m h with
    | none => []
    | some cs => cs.flatMap (commitMem m fuel) ++ [(h, cs)]

def commitFuelOK (m : Mem) : Nat → Hash → Bool
  | 0, h => (memGet m h).isNone
  | fuel + 1, h =>
    match memGet m h with
    | none => true
    | some cs => cs.all (commitFuelOK m fuel)

/-- `uncache`: the committed nodes leave the memory layer -/
def uncache (m : Mem) (puts : List (Hash × List Hash)) : Mem := m.filter fun e => !(puts.map (·.1)).contains e.1

/-- one `Commit(root)`.  `okPrefix = none`: every flush succeeded — all puts are on disk and the nodes are uncached.
    `okPrefix = some k`: a flush failed after the first `k` puts had reached the disk (the batches flushed before it) and
    `Commit` returns the error: as written the memory layer is left untouched (`keepOnFailure = true`); the seeded change
    C04-7 uncached anyway (`false`). -/
def commitStep (keepOnFailure : Bool) (fuel : Nat) (md : Mem × Db) (root : Hash) (okPrefix : Option Nat) : Mem × Db :=
  let puts := commitMem md.1 fuel root
  match okPrefix with
  | none => (uncache md.1 puts, puts.foldl putNode md.2)
  | some k => (if keepOnFailure then md.1 else uncache md.1 puts, (puts.take k).foldl putNode md.2)

/-- every dirty node's references are dirty themselves or on disk -/
def MemClosed (m : Mem) (db : Db) : Prop :=
  ∀ h cs, memGet m h = some cs → ∀ c ∈ cs, (memGet m c).isSome = true ∨ (get db (.node c)).isSome = true

/-! ### the block cache in front of the store (`bc.blockCache`) -/

/-- hash ↦ cached block; `GetBlock` answers from it without looking at the store -/
abbrev BlockCache := List (Hash × Hdr)

def cacheGet : BlockCache → Hash → Option Hdr
  | [], _ => none
  | (h', hd) :: rest, h => if h' = h then some hd else cacheGet rest h

/-- `BlockChain.GetBlock(hash, number)`: the cache first (keyed by hash only), then the store -/
def getBlockC (c : BlockCache) (db : Db) (h : Hash) (n : Nat) : Option Hdr :=
  match cacheGet c h with
  | some hd => some hd
  | none => getBlock db h n

/-- coherence: every cached block is a block the store holds (under the block's own number) -/
def Coherent (c : BlockCache) (db : Db) : Prop := ∀ h hd, cacheGet c h = some hd → getBlock db h hd.num = some hd

/-- what happens to the pair (cache, store) -/
inductive CacheStep
  | read (h : Hash) (n : Nat)            -- `GetBlock(h, n)`: a miss that finds the block in the store caches it
  | wrote (e : Event)                    -- a write that went through
  | failed (e : Event)                   -- a write that failed: the store is unchanged, the caller returns an error
  | addUnflushed (h : Hash) (hd : Hdr)   -- NOT in the code: `blockCache.Add` of a block whose batch is not flushed yet

def cstep : BlockCache × Db → CacheStep → BlockCache × Db
  | (c, db), .read h n =>
    match cacheGet c h with
    | some _ => (c, db)
    | none => match getBlock db h n with
      | some hd => ((h, hd) :: c, db)
      | none => (c, db)
  | (c, db), .wrote e => (c, apply db e)
  | (c, db), .failed _ => (c, db)
  | (c, db), .addUnflushed h hd => ((h, hd) :: c, db)

end Aqv.ChainDb

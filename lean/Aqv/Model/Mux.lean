/-
  Aqv.Model.Mux — small-step model of `event.TypeMux` (aqua/event/event.go: Subscribe, Post, Stop, del/posdelete,
  TypeMuxSubscription.Unsubscribe/closewait/deliver), core Lean only.

  Memory.  `mux.subm[typ]` is a Go slice: a window `(array, len)` onto a backing array.  `Post` copies the slice HEADER
  under RLock and then iterates it without the lock, so whether a later `del` allocates a fresh array (as the code does:
  `posdelete` = make + copy, and Subscribe = make + copy + append) or compacts in place matters.  The model therefore has
  a heap of arrays; `step false` is the code as written (fresh arrays), `step true` is the in-place variant
  `append(slice[:pos], slice[pos+1:]...)`, used only for the witness that it breaks the property.

  Granularity.  Every `mux.mutex` section is one step except Stop's (it holds the write lock while it closes every
  subscription, one closewait at a time); `closewait` is two steps (set `closed`/close `closing` under closeMu; then, once
  no `deliver` holds `postMu.RLock`, close `postC` and set it nil); `Post` iterates its snapshot one element at a time:
  read the element, enter `deliver` (stale-event check, `postMu.RLock`), then either hand the event to the reader (the
  channel is unbuffered: delivery = receipt) or leave through the `closing` case.
  Simplifications (stated): a subscription has ONE type (the harness uses several); one Unsubscribe per subscription;
  one Stop.  Readers are the environment: a hand-off is possible whenever the channel has not been closed.
-/
namespace Aqv.Mux

abbrev Sub := Nat
abbrev Pid := Nat
abbrev Ty := Nat

inductive SPc | idle | made | registered
  deriving DecidableEq, Repr

/-- Unsubscribe: `s.mux.del(s); s.closewait()` -/
inductive UPc | idle | called | deleted | closing | done
  deriving DecidableEq, Repr

/-- Post -/
inductive PPc
  | idle | called
  | deliv (i : Nat)        -- top of `for _, sub := range subs`, next index i
  | inDeliver (i : Nat)    -- inside `subs[i].deliver(event)`, holding postMu.RLock, blocked in the select
  | done (ok : Bool)       -- returned nil (true) / ErrMuxClosed (false)
  deriving DecidableEq, Repr

inductive StopPc | idle | called | running (todo : List Sub) | closingSub (c : Sub) (todo : List Sub) | done
  deriving DecidableEq, Repr

inductive Ev
  | subRet (c : Sub) (t : Ty) | unsubCall (c : Sub) | unsubRet (c : Sub)
  | postCall (p : Pid) (t : Ty) | postRet (p : Pid) (ok : Bool)
  | stopCall | stopRet
  | deliver (c : Sub) (p : Pid)      -- the reader of c received event p
  deriving DecidableEq, Repr

def upd {α : Type} (f : Nat → α) (a : Nat) (v : α) : Nat → α := fun x => if x = a then v else f x

structure St where
  clock : Nat
  stopped : Bool
  stopping : Bool                  -- Stop holds mux.mutex for writing
  subm : Ty → Nat × Nat            -- slice header per type: (array, len); (0, 0) = no entry
  heap : Nat → List Sub            -- backing arrays; array 0 is the empty one
  nextArr : Nat
  live : List Sub                  -- subscriptions currently in some list of subm (what Stop iterates over)
  -- subscriptions
  spc : Sub → SPc
  sty : Sub → Ty
  created : Sub → Nat
  closed : Sub → Bool              -- `s.closed` / `closing` closed
  postNil : Sub → Bool             -- postC closed and set to nil
  closeMu : Sub → Bool             -- closeMu held (a closewait is between its two steps)
  inflight : Sub → Nat             -- number of `deliver` calls holding postMu.RLock
  upc : Sub → UPc
  -- posts
  ppc : Pid → PPc
  pty : Pid → Ty
  evtime : Pid → Nat
  snap : Pid → Nat × Nat           -- the copied slice header
  cur : Pid → Sub                  -- the loop variable `sub`
  stop : StopPc
  -- ghost
  snapL : Pid → List Sub           -- contents of the snapshot when it was taken
  tr : List Ev

def init : St where
  clock := 0
  stopped := false
  stopping := false
  subm := fun _ => (0, 0)
  heap := fun _ => []
  nextArr := 1
  live := []
  spc := fun _ => .idle
  sty := fun _ => 0
  created := fun _ => 0
  closed := fun _ => false
  postNil := fun _ => false
  closeMu := fun _ => false
  inflight := fun _ => 0
  upc := fun _ => .idle
  ppc := fun _ => .idle
  pty := fun _ => 0
  evtime := fun _ => 0
  snap := fun _ => (0, 0)
  cur := fun _ => 0
  stop := .idle
  snapL := fun _ => []
  tr := []

inductive Act
  | tick
  | subNew (c : Sub) (t : Ty)
  | subReg (c : Sub)
  | postCall (p : Pid) (t : Ty)
  | postSnap (p : Pid)
  | postNext (p : Pid)
  | deliverSend (p : Pid)
  | deliverSkip (p : Pid)
  | unsubCall (c : Sub)
  | unsubDel (c : Sub)
  | cwBegin (c : Sub)
  | cwEnd (c : Sub)
  | stopCall
  | stopBegin
  | stopCwBegin (c : Sub)
  | stopCwEnd
  | stopEnd
  deriving DecidableEq, Repr

/-- contents of a slice -/
def sliceOf (s : St) (h : Nat × Nat) : List Sub := (s.heap h.1).take h.2

def step (inplace : Bool) (s : St) : Act → Option St
  | .tick => some { s with clock := s.clock + 1 }
  -- newsub: `created: time.Now()`
  | .subNew c t =>
    if s.spc c = .idle then some { s with spc := upd s.spc c .made, sty := upd s.sty c t, created := upd s.created c s.clock }
    else none
  -- Subscribe under mux.mutex.Lock: closed at once if the mux is stopped, else `subs := make(len+1); copy; subs[len] = sub`
  | .subReg c =>
    if s.spc c = .made ∧ s.stopping = false then
      if s.stopped = true then
        some { s with spc := upd s.spc c .registered, closed := upd s.closed c true, postNil := upd s.postNil c true,
                      tr := s.tr ++ [.subRet c (s.sty c)] }
      else
        let h := s.subm (s.sty c)
        some { s with spc := upd s.spc c .registered,
                      heap := upd s.heap s.nextArr (sliceOf s h ++ [c]), subm := upd s.subm (s.sty c) (s.nextArr, h.2 + 1),
                      nextArr := s.nextArr + 1, live := s.live ++ [c], tr := s.tr ++ [.subRet c (s.sty c)] }
    else none
  -- Post: `event.Time = time.Now()`
  | .postCall p t =>
    if s.ppc p = .idle then
      some { s with ppc := upd s.ppc p .called, pty := upd s.pty p t, evtime := upd s.evtime p s.clock, tr := s.tr ++ [.postCall p t] }
    else none
  -- under RLock: `if mux.stopped { return ErrMuxClosed }; subs := mux.subm[rtyp]`
  | .postSnap p =>
    if s.ppc p = .called ∧ s.stopping = false then
      if s.stopped = true then some { s with ppc := upd s.ppc p (.done false), tr := s.tr ++ [.postRet p false] }
      else some { s with ppc := upd s.ppc p (.deliv 0), snap := upd s.snap p (s.subm (s.pty p)),
                         snapL := upd s.snapL p (sliceOf s (s.subm (s.pty p))) }
    else none
  -- `for _, sub := range subs { sub.deliver(event) }`: read subs[i]; deliver: stale check, then postMu.RLock
  | .postNext p =>
    match s.ppc p with
    | .deliv i =>
      if i < (s.snap p).2 then
        let c := (s.heap (s.snap p).1).getD i 0
        if s.evtime p < s.created c then some { s with ppc := upd s.ppc p (.deliv (i + 1)), cur := upd s.cur p c }
        else some { s with ppc := upd s.ppc p (.inDeliver i), cur := upd s.cur p c, inflight := upd s.inflight c (s.inflight c + 1) }
      else some { s with ppc := upd s.ppc p (.done true), tr := s.tr ++ [.postRet p true] }
    | _ => none
  -- `case s.postC <- event:` — the reader takes it (impossible once postC is nil)
  | .deliverSend p =>
    match s.ppc p with
    | .inDeliver i =>
      if s.postNil (s.cur p) = false then
        some { s with ppc := upd s.ppc p (.deliv (i + 1)), inflight := upd s.inflight (s.cur p) (s.inflight (s.cur p) - 1),
                      tr := s.tr ++ [.deliver (s.cur p) p] }
      else none
    | _ => none
  -- `case <-s.closing:`
  | .deliverSkip p =>
    match s.ppc p with
    | .inDeliver i =>
      if s.closed (s.cur p) = true then
        some { s with ppc := upd s.ppc p (.deliv (i + 1)), inflight := upd s.inflight (s.cur p) (s.inflight (s.cur p) - 1) }
      else none
    | _ => none
  | .unsubCall c =>
    if s.spc c = .registered ∧ s.upc c = .idle then some { s with upc := upd s.upc c .called, tr := s.tr ++ [.unsubCall c] }
    else none
  -- mux.del under Lock: `if pos := find(subs, s); pos >= 0 { if len(subs) == 1 { delete } else { subm[typ] = posdelete(subs, pos) } }`
  | .unsubDel c =>
    if s.upc c = .called ∧ s.stopping = false then
      let h := s.subm (s.sty c)
      let l := sliceOf s h
      let pos := l.idxOf c
      if pos < l.length then
        if l.length = 1 then
          some { s with upc := upd s.upc c .deleted, subm := upd s.subm (s.sty c) (0, 0), live := s.live.erase c }
        else if inplace then
          -- append(slice[:pos], slice[pos+1:]...): shifts the tail left inside the SAME array; the old last slot keeps its value
          some { s with upc := upd s.upc c .deleted,
                        heap := upd s.heap h.1 (l.eraseIdx pos ++ (s.heap h.1).drop (h.2 - 1)),
                        subm := upd s.subm (s.sty c) (h.1, h.2 - 1), live := s.live.erase c }
        else
          -- posdelete: `news := make(len-1); copy(news[:pos], slice[:pos]); copy(news[pos:], slice[pos+1:])`
          some { s with upc := upd s.upc c .deleted,
                        heap := upd s.heap s.nextArr (l.eraseIdx pos), subm := upd s.subm (s.sty c) (s.nextArr, h.2 - 1),
                        nextArr := s.nextArr + 1, live := s.live.erase c }
      else some { s with upc := upd s.upc c .deleted }
    else none
  -- closewait (from Unsubscribe): closeMu; `if s.closed { return }; close(s.closing); s.closed = true`
  | .cwBegin c =>
    if s.upc c = .deleted ∧ s.closeMu c = false then
      if s.closed c = true then some { s with upc := upd s.upc c .done, tr := s.tr ++ [.unsubRet c] }
      else some { s with upc := upd s.upc c .closing, closed := upd s.closed c true, closeMu := upd s.closeMu c true }
    else none
  -- `s.postMu.Lock()` (waits for every deliver to leave); `close(s.postC); s.postC = nil`; return
  | .cwEnd c =>
    if s.upc c = .closing ∧ s.inflight c = 0 then
      some { s with upc := upd s.upc c .done, postNil := upd s.postNil c true, closeMu := upd s.closeMu c false,
                    tr := s.tr ++ [.unsubRet c] }
    else none
  | .stopCall => if s.stop = .idle then some { s with stop := .called, tr := s.tr ++ [.stopCall] } else none
  -- Stop: mux.mutex.Lock(); then closewait on every subscription of every list
  | .stopBegin =>
    if s.stop = .called ∧ s.stopping = false then some { s with stopping := true, stop := .running s.live } else none
  | .stopCwBegin c =>
    match s.stop with
    | .running todo =>
      if c ∈ todo ∧ s.closeMu c = false then
        if s.closed c = true then some { s with stop := .running (todo.erase c) }
        else some { s with stop := .closingSub c (todo.erase c), closed := upd s.closed c true, closeMu := upd s.closeMu c true }
      else none
    | _ => none
  | .stopCwEnd =>
    match s.stop with
    | .closingSub c todo =>
      if s.inflight c = 0 then
        some { s with stop := .running todo, postNil := upd s.postNil c true, closeMu := upd s.closeMu c false }
      else none
    | _ => none
  -- `mux.subm = nil; mux.stopped = true; mux.mutex.Unlock()`
  | .stopEnd =>
    match s.stop with
    | .running todo =>
      if todo = [] then
        some { s with stop := .done, subm := fun _ => (0, 0), live := [], stopped := true, stopping := false, tr := s.tr ++ [.stopRet] }
      else none
    | _ => none

def run (inplace : Bool) (s : St) : List Act → Option St
  | [] => some s
  | a :: as => match step inplace s a with
    | some s' => run inplace s' as
    | none => none

/-- reachable states of the code as written (fresh arrays) under ANY interleaving -/
inductive Reach : St → Prop
  | init : Reach init
  | step {s s' : St} (a : Act) : Reach s → step false s a = some s' → Reach s'

theorem reach_run {s s' : St} (h : Reach s) : ∀ {as : List Act}, run false s as = some s' → Reach s' := by
  intro as
  induction as generalizing s with
  | nil => intro e; simp [run] at e; exact e ▸ h
  | cons a as ih =>
    intro e
    simp only [run] at e
    split at e
    · next s1 h1 => exact ih (Reach.step a h h1) e
    · cases e

def Before (tr : List Ev) (a b : Ev) : Prop := List.Sublist [a, b] tr

/-- the deliveries recorded in a history, in order -/
def delivs (tr : List Ev) : List (Sub × Pid) :=
  tr.filterMap (fun e => match e with | .deliver c p => some (c, p) | _ => none)

end Aqv.Mux

/-
  Aqv.Model.TxPriced — `txPricedList` (core/tx_list.go): the price heap with its stale counter, one level more concrete
  than the eviction oracle of Aqv.Model.TxPool.  Core-only (linked into the driver).

  * `hPush / hPop / hInit` mirror Go's container/heap (`up`, `down`, `Init`) on the heap array exactly, so that the pops the
    model performs on a heap array dumped from the running pool are the pops the Go code performs (ties included).
  * The heap operations are the array algorithms themselves; that they keep the heap order, change the multiset by exactly
    the pushed / popped element and pop a minimum is *proved* (Aqv.Lemmas.TxHeap), not checked.  The wrappers
    `pushC popC initC` only add a monitor bit (same members; the popped element is a minimum) that is accumulated in the
    `exact` flag and never influences a result: it is the driver's assertion, proved never to fire from a heap
    (`priced_check_never_fires`); the driver reports a cleared flag or a dumped array that is not a heap as a disagreement.
  * `Put Removed Underpriced Discard Cap` follow the Go functions statement by statement.
  * The concrete machine `CPool` is the pool of Aqv.Model.TxPool together with a `Priced`; the bookkeeping calls
    (`priced.Put`, `delete(all, …); priced.Removed()`) are generated, in the order the Go code makes them, as *ledger events*
    of every pool function, and the eviction victims of `add` and `SetGasPrice` come from the heap instead of an oracle.
-/
import Aqv.Model.TxPool
namespace Aqv.TxPool

/-! ## container/heap on the heap array -/

def txDefault : Tx := ⟨0, 0, 0, 0, 0⟩

/-- priceHeap.Less -/
def hLess (l : List Tx) (i j : Nat) : Bool := decide ((l.getD i txDefault).price < (l.getD j txDefault).price)

def hSwap (l : List Tx) (i j : Nat) : List Tx := (l.set i (l.getD j txDefault)).set j (l.getD i txDefault)

/-- heap.up -/
def hUp : Nat → List Tx → Nat → List Tx
  | 0, l, _ => l
  | f + 1, l, j =>
    let i := (j - 1) / 2
    if i == j || !hLess l j i then l else hUp f (hSwap l i j) i

/-- heap.down(i, n) -/
def hDown : Nat → List Tx → Nat → Nat → List Tx
  | 0, l, _, _ => l
  | f + 1, l, i, n =>
    let j1 := 2 * i + 1
    if n ≤ j1 then l
    else
      let j := if j1 + 1 < n && hLess l (j1 + 1) j1 then j1 + 1 else j1
      if !hLess l j i then l else hDown f (hSwap l i j) j n

/-- heap.Push -/
def hPush (t : Tx) (l : List Tx) : List Tx := hUp (l.length + 1) (l ++ [t]) l.length

/-- heap.Pop: (popped, rest) -/
def hPop (l : List Tx) : Option (Tx × List Tx) :=
  if l.isEmpty then none
  else
    let n := l.length - 1
    let l2 := hDown (l.length + 1) (hSwap l 0 n) 0 n
    some (l2.getD n txDefault, l2.take n)

def hInitLoop : Nat → List Tx → List Tx
  | 0, l => l
  | k + 1, l => hInitLoop k (hDown (l.length + 1) l k l.length)

/-- heap.Init -/
def hInit (l : List Tx) : List Tx := hInitLoop (l.length / 2) l

/-- the heap property of an array (checked on every array dumped from the running pool) -/
def isHeap (l : List Tx) : Bool :=
  (List.range l.length).all (fun i => i == 0 || !hLess l i ((i - 1) / 2))

/-! ## the heap operations with the driver's monitor bit (never influences a result) -/

def sameMembers (a b : List Tx) : Bool := a.length == b.length && a.all (fun x => decide (x ∈ b)) && b.all (fun x => decide (x ∈ a))

def pushC (t : Tx) (l : List Tx) : List Tx × Bool :=
  let r := hPush t l
  (r, sameMembers r (l ++ [t]))

def initC (l : List Tx) : List Tx × Bool :=
  let r := hInit l
  (r, sameMembers r l)

/-- is (x, rest) a legal result of popping a minimum of `l`? -/
def popOK (l : List Tx) (x : Tx) (rest : List Tx) : Bool :=
  decide (x ∈ l) && l.all (fun y => decide (x.price ≤ y.price)) && (rest.length + 1 == l.length) &&
  rest.all (fun y => decide (y ∈ l)) && l.all (fun y => decide (y = x) || decide (y ∈ rest))

/-- heap.Pop with the monitor bit -/
def popC (l : List Tx) : Option (Tx × List Tx × Bool) :=
  match hPop l with
  | some (x, rest) => some (x, rest, popOK l x rest)
  | none => none

/-! ## txPricedList -/

structure Priced where
  items  : List Tx     -- the heap array
  stales : Int
  exact  : Bool := true
deriving Repr

/-- txPricedList.Put -/
def Priced.put (P : Priced) (t : Tx) : Priced :=
  let r := pushC t P.items
  { P with items := r.1, exact := P.exact && r.2 }

/-- txPricedList.Removed, called right after `delete(pool.all, hash)`; `all` is the table after the delete -/
def Priced.removed (P : Priced) (all : List Tx) : Priced :=
  let st := P.stales + 1
  if st ≤ ((P.items.length / 4 : Nat) : Int) then { P with stales := st }
  else
    let r := initC all
    { items := r.1, stales := 0, exact := P.exact && r.2 }

/-- discard stale heads: the loop at the top of Underpriced -/
def Priced.dropStaleHeads : Nat → Priced → List Tx → Priced
  | 0, P, _ => P
  | f + 1, P, all =>
    match popC P.items with
    | none => P
    | some (x, rest, ok) =>
      if x ∈ all then P
      else Priced.dropStaleHeads f { items := rest, stales := P.stales - 1, exact := P.exact && ok } all

/-- txPricedList.Underpriced: (answer, list afterwards) -/
def Priced.underpriced (P : Priced) (all : List Tx) (locals : List Addr) (t : Tx) : Bool × Priced :=
  if t.sender ∈ locals then (false, P)
  else
    let P := Priced.dropStaleHeads (P.items.length + 1) P all
    match popC P.items with
    | none => (false, P)
    | some (x, _, _) => (decide (t.price ≤ x.price), P)

/-- the pop loop of txPricedList.Discard: (drop, save, list) -/
def Priced.discardLoop : Nat → Priced → List Tx → List Addr → Nat → List Tx → List Tx → List Tx × List Tx × Priced
  | 0, P, _, _, _, drop, save => (drop, save, P)
  | f + 1, P, all, locals, count, drop, save =>
    if count = 0 then (drop, save, P)
    else match popC P.items with
      | none => (drop, save, P)
      | some (x, rest, ok) =>
        let P := { P with items := rest, exact := P.exact && ok }
        if x ∉ all then Priced.discardLoop f { P with stales := P.stales - 1 } all locals count drop save
        else if x.sender ∈ locals then Priced.discardLoop f P all locals count drop (save ++ [x])
        else Priced.discardLoop f P all locals (count - 1) (drop ++ [x]) save

/-- txPricedList.Discard: (dropped transactions in pop order, list afterwards) -/
def Priced.discard (P : Priced) (all : List Tx) (locals : List Addr) (count : Nat) : List Tx × Priced :=
  let r := Priced.discardLoop (P.items.length + 1) P all locals count [] []
  (r.1, r.2.1.foldl (fun P x => P.put x) r.2.2)

/-- the pop loop of txPricedList.Cap -/
def Priced.capLoop : Nat → Priced → List Tx → List Addr → Nat → List Tx → List Tx → List Tx × List Tx × Priced
  | 0, P, _, _, _, drop, save => (drop, save, P)
  | f + 1, P, all, locals, threshold, drop, save =>
    match popC P.items with
    | none => (drop, save, P)
    | some (x, rest, ok) =>
      let P := { P with items := rest, exact := P.exact && ok }
      if x ∉ all then Priced.capLoop f { P with stales := P.stales - 1 } all locals threshold drop save
      else if threshold ≤ x.price then (drop, save ++ [x], P)
      else if x.sender ∈ locals then Priced.capLoop f P all locals threshold drop (save ++ [x])
      else Priced.capLoop f P all locals threshold (drop ++ [x]) save

/-- txPricedList.Cap -/
def Priced.cap (P : Priced) (all : List Tx) (locals : List Addr) (threshold : Nat) : List Tx × Priced :=
  let r := Priced.capLoop (P.items.length + 1) P all locals threshold [] []
  (r.1, r.2.1.foldl (fun P x => P.put x) r.2.2)

/-! ## the ledger: `all` and the priced list move together -/

/-- the bookkeeping calls the pool functions make -/
inductive LEv
  | insPut (t : Tx)     -- pool.all[hash] = tx; pool.priced.Put(tx)
  | insIfNew (t : Tx)   -- promoteTx's failsafe: only when the hash is not in `all`
  | del (t : Tx)        -- delete(pool.all, hash); pool.priced.Removed()
deriving Repr, DecidableEq

structure Ledger where
  all    : List Tx
  priced : Priced

def Ledger.step (L : Ledger) : LEv → Ledger
  | .insPut t => ⟨insertAll t L.all, L.priced.put t⟩
  | .insIfNew t => if t ∈ L.all then L else ⟨insertAll t L.all, L.priced.put t⟩
  | .del t => ⟨delAll t L.all, L.priced.removed (delAll t L.all)⟩

def Ledger.run (L : Ledger) (evs : List LEv) : Ledger := evs.foldl Ledger.step L

/-- events of a fold: the events of each step on the state the fold has reached -/
def evFold {α : Type} (ev : Pool → α → List LEv) (f : Pool → α → Pool) : Pool → List α → List LEv
  | _, [] => []
  | s, x :: xs => ev s x ++ evFold ev f (f s x) xs

/-- a batch of `delete; Removed()` -/
def evDels (ts : List Tx) : List LEv := ts.map LEv.del

/-- enqueueTx -/
def evEnqueueTx (s : Pool) (t : Tx) : List LEv :=
  let r := (s.queue t.sender).add t s.cfg.priceBump
  if !r.1 then []
  else (match r.2.1 with
    | some o => [LEv.del o]
    | none => []) ++ [LEv.insPut t]

/-- promoteTx -/
def evPromoteTx (a : Addr) (s : Pool) (t : Tx) : List LEv :=
  let r := (s.pending a).add t s.cfg.priceBump
  if !r.1 then [LEv.del t]
  else (match r.2.1 with
    | some o => [LEv.del o]
    | none => []) ++ [LEv.insIfNew t]

/-- removeTx (code at HEAD) -/
def evRemoveTx (s : Pool) (t : Tx) : List LEv :=
  if t ∉ s.all then []
  else
    let s1 : Pool := { s with all := delAll t s.all }
    let r := (s1.pending t.sender).remove t
    LEv.del t :: (if r.1 then evFold evEnqueueTx (fun s u => (s.enqueueTx u).2.2) (s1.setP t.sender (dropIfEmpty r.2.2)) r.2.1 else [])

/-- capOne -/
def evCapOne (s : Pool) (a : Addr) : List LEv :=
  evDels (capL ((s.pending a).items.length - 1) (s.pending a).items).1

/-- promoteAcct: Forward drops, Filter drops, promotions, queue cap — in that order -/
def evPromoteAcct (s : Pool) (a : Addr) : List LEv :=
  let q := s.queue a
  let f := forward (s.cnonce a) q.items
  let s1 : Pool := { s with all := s.all.filter (fun t => !decide (t ∈ f.1)) }
  let q1 : TxL := { q with items := f.2 }
  let g := q1.filter (s1.balance a) s1.maxGas
  let s2 : Pool := { s1 with all := s1.all.filter (fun t => !decide (t ∈ g.1)) }
  let r := ready (s2.pnonce a) g.2.2.items
  let s3 := s2.setQ a { g.2.2 with items := r.2 }
  let s4 := r.1.foldl (fun s t => s.promoteTx a t) s3
  evDels f.1 ++ evDels g.1 ++ evFold (evPromoteTx a) (fun s t => s.promoteTx a t) s3 r.1 ++
    (if !s4.isLocal a then evDels (capL s4.cfg.accountQueue (s4.queue a).items).1 else [])

def evSlotFinish : Nat → Pool → List LEv
  | 0, _ => []
  | fuel + 1, s =>
    if s.pendingCount ≤ s.cfg.globalSlots then []
    else match s.accts.find? (fun a => s.offender a) with
      | none => []
      | some a => evCapOne s a ++ evSlotFinish fuel (s.capOne a)

def evSlotEvict (s : Pool) (sched : List Addr) : List LEv :=
  if s.pendingCount ≤ s.cfg.globalSlots then []
  else
    let f := fun (s : Pool) (a : Addr) => if s.offender a then s.capOne a else s
    let s' := sched.foldl f s
    evFold (fun s a => if s.offender a then evCapOne s a else []) f s sched ++ evSlotFinish s'.pendingCount s'

def evDropQueued (s : Pool) (ts : List Tx) : List LEv := evFold evRemoveTx (fun s t => s.removeTx t) s ts

def evQueueDrop : Nat → List Addr → Pool → List LEv
  | _, [], _ => []
  | 0, _, _ => []
  | drop + 1, a :: rest, s =>
    let l := (s.queue a).items
    if l.length ≤ drop + 1 then evDropQueued s l ++ evQueueDrop (drop + 1 - l.length) rest (s.dropQueued a l)
    else evDropQueued s (l.drop (l.length - (drop + 1))).reverse

def evQueueEvict (s : Pool) (order : List Addr) : List LEv :=
  if s.queuedCount ≤ s.cfg.globalQueue then []
  else
    let nl := fun a => !s.isLocal a
    evQueueDrop (s.queuedCount - s.cfg.globalQueue) (order.filter nl ++ s.accts.filter nl) s

def evPromoteExecutables (s : Pool) (accounts : Option (List Addr)) (slots qorder : List Addr) : List LEv :=
  let as := match accounts with
    | some l => l
    | none => s.accts
  let s1 := as.foldl (fun s a => s.promoteAcct a) s
  let s2 := s1.slotEvict slots
  evFold evPromoteAcct (fun s a => s.promoteAcct a) s as ++ evSlotEvict s1 slots ++ evQueueEvict s2 qorder

/-- demoteAcct (code at HEAD) -/
def evDemoteAcct (s : Pool) (a : Addr) : List LEv :=
  let p := s.pending a
  let n := s.cnonce a
  let f := forward n p.items
  let s1 : Pool := { s with all := s.all.filter (fun t => !decide (t ∈ f.1)) }
  let p1 : TxL := { p with items := f.2 }
  let g := p1.filter (s1.balance a) s1.maxGas
  let s2 : Pool := { s1 with all := s1.all.filter (fun t => !decide (t ∈ g.1)) }
  let s3 := s2.setP a g.2.2
  let enq := fun (s : Pool) (u : Tx) => (s.enqueueTx u).2.2
  let s4 := g.2.1.foldl enq s3
  let p4 := s4.pending a
  let keep := (runFrom n p4.items).1.length
  let c := capL keep p4.items
  let s5 := s4.setP a { p4 with items := c.2 }
  evDels f.1 ++ evDels g.1 ++ evFold evEnqueueTx enq s3 g.2.1 ++ evFold evEnqueueTx enq s5 c.1

def evDemoteUnexecutables (s : Pool) : List LEv :=
  evFold evDemoteAcct (fun s a => s.demoteAcct true a) s s.accts

/-- the insertion core of add -/
def evAddCore (s : Pool) (t : Tx) : List LEv :=
  if (s.pending t.sender).overlaps t then
    let r := (s.pending t.sender).add t s.cfg.priceBump
    if !r.1 then []
    else (match r.2.1 with
      | some o => [LEv.del o]
      | none => []) ++ [LEv.insPut t]
  else evEnqueueTx s t

/-! ## the concrete machine -/

structure CPool where
  pool   : Pool
  priced : Priced

def CPool.ledger (c : CPool) : Ledger := ⟨c.pool.all, c.priced⟩

/-- run a pool function together with its bookkeeping events -/
def CPool.with (c : CPool) (s' : Pool) (evs : List LEv) : CPool := ⟨s', (c.ledger.run evs).priced⟩

/-- add with the victims taken from the price heap: (error, replaced?, victims, pool) -/
def CPool.add (c : CPool) (t : Tx) (loc : Bool) (sh : Shape) : Err × Bool × List Tx × CPool :=
  let s := c.pool
  if sh = .wellformed ∧ t ∈ s.all then (.known, false, [], c)
  else
    let e := s.validateTx t loc sh
    if e ≠ .ok then (e, false, [], c)
    else
      let cap := s.cfg.globalSlots + s.cfg.globalQueue
      if cap ≤ s.all.length then
        let u := c.priced.underpriced s.all s.locals t
        if u.1 then (.underpriced, false, [], ⟨s, u.2⟩)
        else
          let d := u.2.discard s.all s.locals (s.all.length + 1 - cap)
          let c1 : CPool := (⟨s, d.2⟩ : CPool).with (d.1.foldl (fun s v => s.removeTx v) s) (evDropQueued s d.1)
          let r := c1.pool.addCore t loc
          (r.1, r.2.1, d.1, c1.with r.2.2 (evAddCore c1.pool t))
      else
        let r := s.addCore t loc
        (r.1, r.2.1, [], c.with r.2.2 (evAddCore s t))

def CPool.promoteExecutables (c : CPool) (accounts : Option (List Addr)) (slots qorder : List Addr) : CPool :=
  c.with (c.pool.promoteExecutables accounts slots qorder) (evPromoteExecutables c.pool accounts slots qorder)

/-- addTx: (error, victims, pool) -/
def CPool.addTx (c : CPool) (t : Tx) (loc : Bool) (sh : Shape) (slots qorder : List Addr) : Err × List Tx × CPool :=
  let loc := loc && !c.pool.cfg.noLocals
  let r := c.add t loc sh
  if r.1 ≠ .ok then (r.1, r.2.2.1, r.2.2.2)
  else if !r.2.1 then (.ok, r.2.2.1, r.2.2.2.promoteExecutables (some [t.sender]) slots qorder)
  else (.ok, r.2.2.1, r.2.2.2)

/-- the add loop: (errors, dirty, victims per add, pool) -/
def CPool.addMany (c : CPool) (loc : Bool) : List Tx → List Err × List Addr × List (List Tx) × CPool
  | [] => ([], [], [], c)
  | t :: ts =>
    let r := c.add t loc .wellformed
    let rest := CPool.addMany r.2.2.2 loc ts
    (r.1 :: rest.1, (if r.1 = .ok && !r.2.1 then [t.sender] else []) ++ rest.2.1, r.2.2.1 :: rest.2.2.1, rest.2.2.2)

def CPool.addTxs (c : CPool) (ts : List Tx) (loc : Bool) (slots qorder : List Addr) : List Err × List (List Tx) × CPool :=
  let r := c.addMany loc ts
  if r.2.1.isEmpty then (r.1, r.2.2.1, r.2.2.2)
  else (r.1, r.2.2.1, r.2.2.2.promoteExecutables (some r.2.1.eraseDups) slots qorder)

/-- SetGasPrice: (what Cap popped, pool) -/
def CPool.setGasPrice (c : CPool) (p : Nat) : List Tx × CPool :=
  let s : Pool := { c.pool with gasPrice := p }
  let d := c.priced.cap s.all s.locals p
  (d.1, (⟨s, d.2⟩ : CPool).with (d.1.foldl (fun s t => s.removeTx t) s) (evDropQueued s d.1))

/-- reset (code at HEAD): (victims of the re-injection adds, pool) -/
def CPool.reset (c : CPool) (v : View) (oldNum newNum : Nat) (reorg : Bool) (disc inc : List Tx)
    (slots1 qorder1 slots2 qorder2 : List Addr) : List (List Tx) × CPool :=
  let depth := if oldNum ≤ newNum then newNum - oldNum else oldNum - newNum
  let reinject := if reorg && decide (depth ≤ 64) then txDifference disc inc else []
  let c0 : CPool := ⟨{ c.pool with cnonce := v.nonce, balance := v.balance, maxGas := v.maxGas, pnonce := v.nonce }, c.priced⟩
  let r := if reinject.isEmpty then ([], c0) else
    let a := c0.addTxs reinject false slots1 qorder1
    (a.2.1, a.2.2)
  let c1 := r.2
  let c2 := c1.with (c1.pool.demoteUnexecutables true) (evDemoteUnexecutables c1.pool)
  let c3 : CPool := ⟨c2.pool.syncNonces, c2.priced⟩
  (r.1, c3.promoteExecutables none slots2 qorder2)

def CPool.evictIdle (c : CPool) (a : Addr) : CPool :=
  if c.pool.isLocal a then c else c.with (c.pool.dropQueued a (c.pool.queue a).items) (evDropQueued c.pool (c.pool.queue a).items)

/-- operations of the concrete machine: as `Op`, but without eviction victims (the heap supplies them) -/
inductive COp
  | add (t : Tx) (loc : Bool) (sh : Shape) (slots qorder : List Addr)
  | adds (ts : List Tx) (loc : Bool) (slots qorder : List Addr)
  | setGasPrice (p : Nat)
  | reset (v : View) (oldNum newNum : Nat) (reorg : Bool) (disc inc : List Tx) (slots1 qorder1 slots2 qorder2 : List Addr)
  | evictIdle (a : Addr)

/-- one step of the concrete machine, together with the operation of the oracle machine it amounts to (the victims the heap
    chose filled in) -/
def CPool.step (c : CPool) : COp → Op × CPool
  | .add t loc sh sl qo =>
    let r := c.addTx t loc sh sl qo
    (.add t loc sh r.2.1 sl qo, r.2.2)
  | .adds ts loc sl qo =>
    let r := c.addTxs ts (loc && !c.pool.cfg.noLocals) sl qo
    (.adds ts loc r.2.1 sl qo, r.2.2)
  | .setGasPrice p =>
    let r := c.setGasPrice p
    (.setGasPriceO p r.1, r.2)
  | .reset v o n rg d i sl1 qo1 sl2 qo2 =>
    let r := c.reset v o n rg d i sl1 qo1 sl2 qo2
    (.reset v o n rg d i ⟨r.1, sl1, qo1, sl2, qo2⟩, r.2)
  | .evictIdle a => (.evictIdle a, c.evictIdle a)

/-- NewTxPool -/
def CPool.init (cfg : Cfg) (v : View) : CPool := ⟨Pool.init cfg v, { items := [], stales := 0 }⟩

end Aqv.TxPool

/-
  Aqv.Model.RlpStream — a Go-SHAPED model of `rlp.Stream` (rlp/decode.go) as a state machine.

  State = the unread reader content, the `remaining`/`limited` input budget, the stack of open list extents
  `(pos, size)` (head = innermost = `s.stack[len-1]`), the cached `kind/size/byteval/kinderr` of the value ahead
  (`kind = none` is Go's `s.kind = -1`, "re-armed"), and a GHOST counter `alloc` of the bytes the code allocates for
  input-dependent buffers (`make([]byte, size)` in Bytes and Raw, the one-byte literal `[]byte{s.byteval}`; the fixed
  8-byte `uintbuf` made once in Reset and the `[]interface{}` element slices are not counted).

  Every operation returns its Go result AND the state (`R α = Except SErr α × St`): state survives errors, which is
  what makes `kinderr` sticky.  The operations are written statement by statement as in decode.go; EOL is an error
  value as in Go.  Recursion (decodeInterface ↔ decodeListSlice) is fuelled.   Core-only.
-/
import Aqv.Model.Rlp
namespace Aqv.RlpStream
open Aqv Aqv.Rlp

inductive SErr where
  | eol | eof | unexpectedEOF | expectedString | expectedList | canonInt | canonSize | elemTooLarge | valueTooLarge
  | moreThanOneValue | notInList | notAtEOL | uintOverflow | badBool | fuel
  deriving Repr, DecidableEq, Inhabited

/-- `rlp.Kind`: Byte = 0, String, List. -/
inductive K where
  | byte | string | list
  deriving Repr, DecidableEq, Inhabited

structure St where
  inp : Bytes                      -- unread content of the underlying reader (a bytes.Reader)
  remaining : Nat
  limited : Bool
  stack : List (Nat × Nat)         -- (pos, size), head = innermost list
  kind : Option K := none          -- none = -1
  size : Nat := 0
  byteval : UInt8 := 0
  kinderr : Option SErr := none
  alloc : Nat := 0                 -- ghost
  deriving Repr, Inhabited

abbrev R (α : Type) := Except SErr α × St

/-- `NewStream(bytes.NewReader(inp), inputLimit)` / `Reset`: a positive limit is taken as is, otherwise the limit is
    discovered from the bytes.Reader; either way the stream is limited. -/
def newStream (inp : Bytes) (inputLimit : Nat) : St :=
  { inp := inp, remaining := if inputLimit > 0 then inputLimit else inp.length, limited := true, stack := [] }

/-- `willRead(n)`: re-arm Kind, check and advance the innermost list extent, check and decrease the input budget
    (the list position is advanced before the budget check, as in Go). -/
def willRead (n : Nat) (s : St) : R Unit :=
  let s := { s with kind := none }
  let budget (s : St) : R Unit :=
    if s.limited then
      if n > s.remaining then (.error .valueTooLarge, s) else (.ok (), { s with remaining := s.remaining - n })
    else (.ok (), s)
  match s.stack with
  | (pos, size) :: rest =>
    if n > size - pos then (.error .elemTooLarge, s)
    else budget { s with stack := (pos + n, size) :: rest }
  | [] => budget s

/-- `readByte`: `willRead(1)` then `ReadByte` (io.EOF becomes ErrUnexpectedEOF). -/
def readByte (s : St) : R UInt8 :=
  match willRead 1 s with
  | (.error e, s) => (.error e, s)
  | (.ok (), s) =>
    match s.inp with
    | b :: rest => (.ok b, { s with inp := rest })
    | [] => (.error .unexpectedEOF, s)

/-- `readFull(buf)` with `len(buf) = n`; returns the bytes read. -/
def readFull (n : Nat) (s : St) : R Bytes :=
  match willRead n s with
  | (.error e, s) => (.error e, s)
  | (.ok (), s) =>
    if s.inp.length < n then (.error .unexpectedEOF, { s with inp := [] })
    else (.ok (s.inp.take n), { s with inp := s.inp.drop n })

/-- `readUint(size)`: 0 → 0 (and re-arm), 1 → one byte, otherwise `size` bytes without a leading zero (ErrCanonSize). -/
def readUint (size : Nat) (s : St) : R Nat :=
  match size with
  | 0 => (.ok 0, { s with kind := none })
  | 1 =>
    match readByte s with
    | (.ok b, s) => (.ok b.toNat, s)
    | (.error e, s) => (.error e, s)
  | n =>
    match readFull n s with
    | (.error e, s) => (.error e, s)
    | (.ok buf, s) =>
      match buf with
      | b0 :: _ => if b0 = 0 then (.error .canonSize, s) else (.ok (beNat buf), s)
      | [] => (.ok 0, s)

/-- `readKind`: Go returns `(kind, size, err)`; on a read error the triple is `(0, 0, err)`, i.e. kind Byte.
    At top level ErrUnexpectedEOF/ErrValueTooLarge of the tag byte become io.EOF. -/
def readKind (s : St) : (K × Nat × Option SErr) × St :=
  match readByte s with
  | (.error e, s) =>
    let e :=
      if s.stack.isEmpty then
        (match e with
         | .unexpectedEOF => SErr.eof
         | .valueTooLarge => SErr.eof
         | e => e)
      else e
    ((.byte, 0, some e), s)
  | (.ok b, s) =>
    let s := { s with byteval := 0 }
    if b < 0x80 then ((.byte, 0, none), { s with byteval := b })
    else if b < 0xB8 then ((.string, b.toNat - 0x80, none), s)
    else if b < 0xC0 then
      match readUint (b.toNat - 0xB7) s with
      | (.ok size, s) => ((.string, size, if size < 56 then some .canonSize else none), s)
      | (.error e, s) => ((.string, 0, some e), s)
    else if b < 0xF8 then ((.list, b.toNat - 0xC0, none), s)
    else
      match readUint (b.toNat - 0xF7) s with
      | (.ok size, s) => ((.list, size, if size < 56 then some .canonSize else none), s)
      | (.error e, s) => ((.list, 0, some e), s)

/-- what `Kind` returns from the cached fields: `return s.kind, s.size, s.kinderr`. -/
def cached (s : St) : Except SErr (K × Nat) :=
  match s.kinderr with
  | some e => .error e
  | none => .ok (s.kind.getD .byte, s.size)

/-- the fresh branch of `Kind` after the EOL test: readKind, cache, then the size checks (top level: against the
    remaining input if limited; in a list: against the rest of the list extent, read AFTER readKind advanced it). -/
def kindFresh (s : St) : R (K × Nat) :=
  let topLevel := s.stack.isEmpty
  let ((k, sz, err), s) := readKind s
  let s := { s with kind := some k, size := sz, kinderr := err }
  let s :=
    match err with
    | some _ => s
    | none =>
      if topLevel then
        (if s.limited && sz > s.remaining then { s with kinderr := some .valueTooLarge } else s)
      else
        match s.stack with
        | (pos, size) :: _ => if sz > size - pos then { s with kinderr := some .elemTooLarge } else s
        | [] => s
  (cached s, s)

/-- `Kind()`. -/
def kindOf (s : St) : R (K × Nat) :=
  match s.kind with
  | some _ => (cached s, s)
  | none =>
    let s := { s with kinderr := none }
    match s.stack with
    | (pos, size) :: _ => if pos = size then (.error .eol, s) else kindFresh s
    | [] => kindFresh s

/-- `Bytes()`. -/
def bytes (s : St) : R Bytes :=
  match kindOf s with
  | (.error e, s) => (.error e, s)
  | (.ok (.byte, _), s) => (.ok [s.byteval], { s with kind := none, alloc := s.alloc + 1 })
  | (.ok (.string, size), s) =>
    let s := { s with alloc := s.alloc + size }            -- b := make([]byte, size)
    match readFull size s with
    | (.error e, s) => (.error e, s)
    | (.ok b, s) =>
      match b with
      | [x] => if x < 0x80 then (.error .canonSize, s) else (.ok b, s)
      | _ => (.ok b, s)
  | (.ok (.list, _), s) => (.error .expectedString, s)

/-- `uint(maxbits)` with `maxBytes = maxbits/8`. -/
def uint (maxBytes : Nat) (s : St) : R Nat :=
  match kindOf s with
  | (.error e, s) => (.error e, s)
  | (.ok (.byte, _), s) =>
    if s.byteval = 0 then (.error .canonInt, s) else (.ok s.byteval.toNat, { s with kind := none })
  | (.ok (.string, size), s) =>
    if size > maxBytes then (.error .uintOverflow, s)
    else
      match readUint size s with
      | (.error .canonSize, s) => (.error .canonInt, s)
      | (.error e, s) => (.error e, s)
      | (.ok v, s) => if size > 0 && v < 128 then (.error .canonSize, s) else (.ok v, s)
  | (.ok (.list, _), s) => (.error .expectedString, s)

/-- `Bool()`. -/
def bool (s : St) : R Bool :=
  match uint 1 s with
  | (.error e, s) => (.error e, s)
  | (.ok 0, s) => (.ok false, s)
  | (.ok 1, s) => (.ok true, s)
  | (.ok _, s) => (.error .badBool, s)

/-- `List()`. -/
def list (s : St) : R Nat :=
  match kindOf s with
  | (.error e, s) => (.error e, s)
  | (.ok (.list, size), s) => (.ok size, { s with stack := (0, size) :: s.stack, kind := none, size := 0 })
  | (.ok _, s) => (.error .expectedList, s)

/-- `ListEnd()`. -/
def listEnd (s : St) : R Unit :=
  match s.stack with
  | [] => (.error .notInList, s)
  | (pos, size) :: rest =>
    if pos ≠ size then (.error .notAtEOL, s)
    else
      let rest' := match rest with
        | (p, z) :: more => (p + size, z) :: more
        | [] => []
      (.ok (), { s with stack := rest', kind := none, size := 0 })

/-- `Raw()`: content is read into `buf[start:]`, a fresh header is put in front. -/
def raw (s : St) : R Bytes :=
  match kindOf s with
  | (.error e, s) => (.error e, s)
  | (.ok (.byte, _), s) => (.ok [s.byteval], { s with kind := none, alloc := s.alloc + 1 })
  | (.ok (k, size), s) =>
    let base := if k = .string then 0x80 else 0xC0
    let start := (header base size).length                     -- headsize(size)
    let s := { s with alloc := s.alloc + (start + size) }      -- buf := make([]byte, uint64(start)+size)
    match readFull size s with
    | (.error e, s) => (.error e, s)
    | (.ok content, s) => (.ok (header base size ++ content), s)

mutual
  /-- `decodeInterface`: Kind; a list goes through `decodeListSlice(s, slice, decodeInterface)`, anything else
      through `Bytes()`. -/
  def decodeInterface : Nat → St → R Item
    | 0, s => (.error .fuel, s)
    | f+1, s =>
      match kindOf s with
      | (.error e, s) => (.error e, s)
      | (.ok (.list, _), s) =>
        -- decodeListSlice
        match list s with
        | (.error e, s) => (.error e, s)
        | (.ok size, s) =>
          if size = 0 then
            match listEnd s with
            | (.ok (), s) => (.ok (.list []), s)
            | (.error e, s) => (.error e, s)
          else
            match sliceElems f s with
            | (.error e, s) => (.error e, s)
            | (.ok xs, s) =>
              match listEnd s with
              | (.ok (), s) => (.ok (.list xs), s)
              | (.error e, s) => (.error e, s)
      | (.ok _, s) =>
        match bytes s with
        | (.ok b, s) => (.ok (.str b), s)
        | (.error e, s) => (.error e, s)
  /-- `decodeSliceElems`: decode elements until the element decoder reports EOL. -/
  def sliceElems : Nat → St → R (List Item)
    | 0, s => (.error .fuel, s)
    | f+1, s =>
      match decodeInterface f s with
      | (.error .eol, s) => (.ok [], s)
      | (.error e, s) => (.error e, s)
      | (.ok x, s) =>
        match sliceElems f s with
        | (.ok xs, s) => (.ok (x :: xs), s)
        | (.error e, s) => (.error e, s)
end

/-- fuel that always suffices for an input of `n` bytes (`stream_total`). -/
def fuelFor (n : Nat) : Nat := 3 * n + 1 + 1

/-- `DecodeBytes(bs, &v)` with `v interface{}`: one value through `NewStream(bytes.NewReader(bs), len(bs))`, then
    `r.Len() > 0` is ErrMoreThanOneValue. -/
def decodeBytes (bs : Bytes) : R Item :=
  match decodeInterface (fuelFor bs.length) (newStream bs bs.length) with
  | (.error e, s) => (.error e, s)
  | (.ok it, s) => if s.inp.length > 0 then (.error .moreThanOneValue, s) else (.ok it, s)

/-- the harness' second entry point: `s := NewStream(bytes.NewReader(bs), len(bs)); s.Decode(&v)`, then a second
    `s.Decode(&w)` must return io.EOF. -/
def decodeStream (bs : Bytes) : R Item :=
  match decodeInterface (fuelFor bs.length) (newStream bs bs.length) with
  | (.error e, s) => (.error e, s)
  | (.ok it, s) =>
    match decodeInterface (fuelFor bs.length) s with
    | (.error .eof, s) => (.ok it, s)
    | (.error e, s) => (.error e, s)
    | (.ok _, s) => (.error .moreThanOneValue, s)

end Aqv.RlpStream

/-
  Aqv.Model.MatcherPipeline — the matcher session (core/bloombits/matcher.go + scheduler.go) as a transition system. Core-only.

  What is modelled:
    run          the source goroutine feeds the sections `begin/size … end/size` in order (`feed`)
    subMatch     one stage per filter group, two FIFO channels each: `inq` (its `source` channel) and `procq` (its `process`
                 channel). Goroutine 1 takes the head of `inq`, hands the section to the bit schedulers of the group (`sched`),
                 and forwards the item to `procq`; goroutine 2 takes the head of `procq`, WAITS until all bit vectors of the group
                 for that section have been delivered, ANDs the OR-of-alternatives into the running bitset and forwards a non-empty
                 result to the next stage (`procMid`) or to the result sink (`procLast`); an empty result is dropped
    scheduler    `scheduleRequests`: a request per (bit, section) is forwarded to the distributor only once (`requested` = keys of
                 `responses`, `sent` = what went to `dist`, shared by all stages using the bit); `scheduleDeliveries`/`deliver`:
                 a delivery is accepted for a requested pair, the first one fills the cache, later ones change nothing
    distributor / Multiplex / retrievers   an arbitrary environment: it may deliver any pair at any time, in any order, repeatedly,
                 deliver nothing for a request (a "missing" vector is re-queued: the request stays pending), or deliver pairs nobody
                 asked for (ignored). Delivered data is the stored vector `vec section bit` (what GetBloomBits+DecompressBytes return).
  Channel capacities, the session's quit/kill shutdown path and retrieval errors are not modelled.
-/
import Aqv.Model.LogFilter
namespace Aqv.LogFilter

abbrev Group := List (Nat × Nat × Nat)

/-- `partialMatches{section, bitset}` -/
abbrev Item := Nat × Bytes

structure Stage where
  group : Group
  procq : List Item
  inq : List Item

/-- the bit schedulers a stage multiplexes a section to (three per alternative). -/
def groupBits (g : Group) : List Nat := g.flatMap (fun t => [t.1, t.2.1, t.2.2])

structure Sess where
  source : List Nat
  stages : List Stage
  output : List Item
  requested : List (Nat × Nat)     -- (bit, section) pairs with a `response` entry
  sent : List (Nat × Nat)          -- requests forwarded to the distributor, in order
  cached : List (Nat × Nat)        -- pairs whose vector has been delivered

/-- `scheduleRequests`: forward only pairs without a `response` entry. -/
def addReqs (needed : List (Nat × Nat)) (requested sent : List (Nat × Nat)) : List (Nat × Nat) × List (Nat × Nat) :=
  needed.foldl (fun (acc : List (Nat × Nat) × List (Nat × Nat)) p =>
    if p ∈ acc.1 then acc else (p :: acc.1, acc.2 ++ [p])) (requested, sent)

/-- what a stage does to an item once its vectors are there. -/
def stageApply (vec : Nat → Nat → Bytes) (size : Nat) (g : Group) (x : Item) : Option Item :=
  (subMatch (vec x.1) size g x.2).map (fun r => (x.1, r))

/-- one step inside the chain of stages: new stages, items emitted to the result sink, requests handed to the schedulers. -/
inductive PipeStep (vec : Nat → Nat → Bytes) (size : Nat) (cached : List (Nat × Nat)) :
    List Stage → List Stage → List Item → List (Nat × Nat) → Prop where
  | sched (st : Stage) (rest : List Stage) (x : Item) (q : List Item) (h : st.inq = x :: q) :
      PipeStep vec size cached (st :: rest) ({ st with inq := q, procq := st.procq ++ [x] } :: rest) []
        ((groupBits st.group).map (fun b => (b, x.1)))
  | procLast (st : Stage) (x : Item) (p : List Item) (h : st.procq = x :: p)
      (hall : ∀ b ∈ groupBits st.group, (b, x.1) ∈ cached) :
      PipeStep vec size cached [st] [{ st with procq := p }] (stageApply vec size st.group x).toList []
  | procMid (st nxt : Stage) (rest : List Stage) (x : Item) (p : List Item) (h : st.procq = x :: p)
      (hall : ∀ b ∈ groupBits st.group, (b, x.1) ∈ cached) :
      PipeStep vec size cached (st :: nxt :: rest)
        ({ st with procq := p } :: { nxt with inq := nxt.inq ++ (stageApply vec size st.group x).toList } :: rest) [] []
  | deeper (st : Stage) (rest rest' : List Stage) (out : List Item) (req : List (Nat × Nat))
      (h : PipeStep vec size cached rest rest' out req) : PipeStep vec size cached (st :: rest) (st :: rest') out req

/-- the item `run` feeds for a section: `bytes.Repeat(0xff, size/8)`. -/
def freshItem (size s : Nat) : Item := (s, List.replicate (size / 8) 0xff)

inductive Step (vec : Nat → Nat → Bytes) (size : Nat) : Sess → Sess → Prop where
  /-- `run`: next section into the first stage (straight to the sink when there is no filter group). -/
  | feedStage (σ : Sess) (s : Nat) (src : List Nat) (st : Stage) (rest : List Stage) (h : σ.source = s :: src)
      (hs : σ.stages = st :: rest) :
      Step vec size σ { σ with source := src, stages := { st with inq := st.inq ++ [freshItem size s] } :: rest }
  | feedSink (σ : Sess) (s : Nat) (src : List Nat) (h : σ.source = s :: src) (hs : σ.stages = []) :
      Step vec size σ { σ with source := src, output := σ.output ++ [freshItem size s] }
  | pipe (σ : Sess) (stages' : List Stage) (out : List Item) (req : List (Nat × Nat))
      (h : PipeStep vec size σ.cached σ.stages stages' out req) :
      Step vec size σ { σ with stages := stages', output := σ.output ++ out,
                               requested := (addReqs req σ.requested σ.sent).1, sent := (addReqs req σ.requested σ.sent).2 }
  /-- a delivery for a requested pair (first or repeated, in any order). -/
  | deliver (σ : Sess) (p : Nat × Nat) (h : p ∈ σ.requested) : Step vec size σ { σ with cached := p :: σ.cached }
  /-- a delivery that carries nothing (missing vector, re-queued), or a pair nobody requested: no effect. -/
  | deliverIgnored (σ : Sess) : Step vec size σ σ

/-- reachability: any finite schedule. -/
inductive Reach (vec : Nat → Nat → Bytes) (size : Nat) (σ0 : Sess) : Sess → Prop where
  | refl : Reach vec size σ0 σ0
  | step (σ σ' : Sess) (h : Reach vec size σ0 σ) (hs : Step vec size σ σ') : Reach vec size σ0 σ'

/-- `Matcher.run` for the groups of `NewMatcher` and the section range of a session. -/
def initSess (groups : List Group) (sections : List Nat) : Sess :=
  { source := sections, stages := groups.map (fun g => ⟨g, [], []⟩), output := [], requested := [], sent := [], cached := [] }

/-- all channels empty and nothing left to feed: the sink is closed. -/
def Sess.final (σ : Sess) : Prop := σ.source = [] ∧ ∀ st ∈ σ.stages, st.procq = [] ∧ st.inq = []

/-- the sections of a session: `for i := begin/size; i <= end/size; i++`. -/
def sessionSections (size begin_ end_ : Nat) : List Nat := List.range' (begin_ / size) (end_ / size + 1 - begin_ / size)

/-- the result-delivery loop of `Start` over what arrived at the sink. -/
def deliverMatches (size begin_ end_ : Nat) (out : List Item) : List Nat :=
  out.flatMap (fun x => extract size begin_ end_ x.1 x.2)

end Aqv.LogFilter

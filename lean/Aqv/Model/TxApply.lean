import Aqv.Model.TxSign
/-!
  C12 — the sender step of block processing (core/state_processor.go `ApplyTransaction`):

      msg, err := tx.AsMessage(types.MakeSigner(config, header.Number))

  The signer is chosen per call from (config, header.Number) and nothing else; the model of a SEQUENCE of calls is therefore a
  plain `map` (no state is threaded from one call to the next).  A memo of the signer that is keyed on less than what
  `MakeSigner` inspects (e.g. only the EIP-155 status) is a different function: it answers a Homestead-height call with the
  Frontier signer after a Frontier-height call.  core-only (linked into the driver).
-/
namespace Aqv.TxSign
open Aqv

/-- the chain-config fields `MakeSigner` reads. -/
structure ForkCfg where
  homesteadBlock : Option Nat
  eip155Block : Option Nat
  chainId : Nat
  deriving DecidableEq, Repr

/-- one `ApplyTransaction` call as far as sender attribution goes: config, header.Number, the transaction. -/
structure ApplyCall where
  cfg : ForkCfg
  num : Nat
  tx : Tx

/-- `types.MakeSigner(config, header.Number)`. -/
def blockSigner (cfg : ForkCfg) (num : Nat) : Signer :=
  makeSigner cfg.homesteadBlock cfg.eip155Block cfg.chainId (some num)

/-- `tx.AsMessage(types.MakeSigner(config, header.Number))`: the accept / reject verdict and the attributed sender. -/
def applySender (E : Ecdsa) (H : Bytes → Bytes) (c : ApplyCall) : Except Err Bytes :=
  senderOf E H (blockSigner c.cfg c.num) c.tx

/-- a sequence of `ApplyTransaction` calls (any configs, any heights, any order). -/
def applySeq (E : Ecdsa) (H : Bytes → Bytes) (calls : List ApplyCall) : List (Except Err Bytes) :=
  calls.map (applySender E H)

end Aqv.TxSign

/-
  Aqv.Model.TrieProof — Merkle proofs: trie/proof.go (Prove, VerifyProof, get) and trie/node.go (decodeNode, decodeShort,
  decodeFull, decodeRef) on top of rlp/raw.go (Split, SplitString, SplitList, CountValues).  Core-only.

  Decoded nodes may contain hash references, so they get their own type `PNode` (`hashNode` added).
  Outcomes the Go code has and the model keeps: decode error, panic (`compactToHex` on an empty key string:
  `base[0]` index out of range; `get` at a full node with the key exhausted), and — for a hostile proof database that is
  not keyed by the hash of its values — non-termination of VerifyProof's loop (model: fuel exhausted = `hang`).
-/
import Aqv.Model.Trie
namespace Aqv.Trie
open Aqv Aqv.Rlp

inductive PNode where
  | nil
  | value (v : Bytes)
  | hash (h : Bytes)
  | short (key : List Nib) (val : PNode)
  | full (cs : Nib → PNode)

instance : Inhabited PNode := ⟨.nil⟩

inductive DErr where
  | err | panic
  deriving DecidableEq, Repr

/-! ## rlp/raw.go -/

/-- `rlp.Split`: (isList, content, rest); `none` = error (bad header, non-canonical size, value larger than input). -/
def split (bs : Bytes) : Option (Bool × Bytes × Bytes) :=
  match readHead bs with
  | .error _ => none
  | .ok (.byte b rest) => some (false, [b], rest)
  | .ok (.str n rest) =>
    if rest.length < n then none
    else
      match rest.take n with
      | [x] => if x < 0x80 then none else some (false, [x], rest.drop n)
      | s => some (false, s, rest.drop n)
  | .ok (.list n rest) => if rest.length < n then none else some (true, rest.take n, rest.drop n)

def splitString (bs : Bytes) : Option (Bytes × Bytes) :=
  match split bs with
  | some (false, c, r) => some (c, r)
  | _ => none

def splitList (bs : Bytes) : Option (Bytes × Bytes) :=
  match split bs with
  | some (true, c, r) => some (c, r)
  | _ => none

/-- `rlp.CountValues` (fuel = input length suffices: every value consumes at least one byte). -/
def countValues : Nat → Bytes → Option Nat
  | _, [] => some 0
  | 0, _ :: _ => none
  | f + 1, b :: bs =>
    match split (b :: bs) with
    | none => none
    | some (_, _, rest) => (countValues f rest).map (· + 1)

/-! ## trie/node.go -/

/-- `decodeRef` given the decoder for embedded nodes. -/
def decodeRefWith (recNode : Bytes → Except DErr PNode) (buf : Bytes) : Except DErr (PNode × Bytes) :=
  match split buf with
  | none => .error .err
  | some (true, _, rest) =>
    if buf.length - rest.length > 32 then .error .err     -- "oversized embedded node"
    else
      match recNode buf with
      | .ok n => .ok (n, rest)
      | .error e => .error e
  | some (false, val, rest) =>
    if val.length = 0 then .ok (.nil, rest)
    else if val.length = 32 then .ok (.hash val, rest)
    else .error .err

def decodeShortWith (recNode : Bytes → Except DErr PNode) (elems : Bytes) : Except DErr PNode :=
  match splitString elems with
  | none => .error .err
  | some (kbuf, rest) =>
    match compactToHex kbuf with
    | none => .error .panic                              -- compactToHex: base[0] on an empty slice
    | some key =>
      if hasTerm key then
        match splitString rest with
        | none => .error .err
        | some (val, _) => .ok (.short key (.value val))
      else
        match decodeRefWith recNode rest with
        | .ok (r, _) => .ok (.short key r)
        | .error e => .error e

/-- the 16-iteration loop of `decodeFull`. -/
def decodeRefsWith (recNode : Bytes → Except DErr PNode) : Nat → Bytes → Except DErr (List PNode × Bytes)
  | 0, buf => .ok ([], buf)
  | n + 1, buf =>
    match decodeRefWith recNode buf with
    | .error e => .error e
    | .ok (c, rest) =>
      match decodeRefsWith recNode n rest with
      | .error e => .error e
      | .ok (cs, rest') => .ok (c :: cs, rest')

def decodeFullWith (recNode : Bytes → Except DErr PNode) (elems : Bytes) : Except DErr PNode :=
  match decodeRefsWith recNode 16 elems with
  | .error e => .error e
  | .ok (cs, rest) =>
    match splitString rest with
    | none => .error .err
    | some (val, _) =>
      let v16 : PNode := if val.length > 0 then .value val else .nil
      .ok (.full fun i => if i = T then v16 else cs.getD i.val .nil)

/-- `decodeNode` (fuel: nesting depth; `buf.length + 1` always suffices). -/
def decodeNode : Nat → Bytes → Except DErr PNode
  | 0, _ => .error .err
  | f + 1, buf =>
    if buf.length = 0 then .error .err
    else
      match splitList buf with
      | none => .error .err
      | some (elems, _) =>
        match countValues elems.length elems with
        | some 2 => decodeShortWith (decodeNode f) elems
        | some 17 => decodeFullWith (decodeNode f) elems
        | _ => .error .err

/-! ## trie/trie.go resolveHash + trie/database.go Node: reloading a committed trie -/

/-- resolve every hash reference of a decoded node through the node database `db` (hash ↦ blob), as a full iteration
    over a trie reopened with `New(root, db)` does (`resolveHash` → `db.Node` → `mustDecodeNode`, recursively).
    `none` = missing node, undecodable blob, or out of fuel. -/
def loadP (db : Bytes → Option Bytes) : Nat → PNode → Option Node
  | 0, _ => none
  | _ + 1, .nil => some .nil
  | _ + 1, .value v => some (.value v)
  | f + 1, .hash h =>
    match db h with
    | none => none
    | some blob =>
      match decodeNode (blob.length + 1) blob with
      | .ok pn => loadP db f pn
      | .error _ => none
  | f + 1, .short k c => (loadP db f c).map (Node.short k)
  | f + 1, .full cs =>
    if (List.finRange 17).all (fun i => (loadP db f (cs i)).isSome) then
      some (.full fun i => (loadP db f (cs i)).getD .nil)
    else none

/-! ## trie/proof.go -/

inductive GetRes where
  | value (v : Bytes)
  | hashref (h : Bytes) (keyrest : List Nib)
  | absent
  | panic

/-- `get(tn, key)` of proof.go: walk inside one decoded node (through embedded children). -/
def pget : PNode → List Nib → GetRes
  | .short k c, key => if key.take k.length = k then pget c (key.drop k.length) else .absent
  | .full _, [] => .panic
  | .full cs, x :: key => pget (cs x) key
  | .hash h, key => .hashref h key
  | .nil, _ => .absent
  | .value v, _ => .value v

inductive VRes where
  | value (v : Bytes)
  | absent
  | err
  | panic
  | hang
  deriving DecidableEq

/-- the loop of `VerifyProof` over a proof database `db` (hash ↦ node blob). -/
def verify (db : Bytes → Option Bytes) : Nat → Bytes → List Nib → VRes
  | 0, _, _ => .hang
  | f + 1, wantHash, key =>
    match db wantHash with
    | none => .err                                        -- "proof node missing"
    | some buf =>
      match decodeNode (buf.length + 1) buf with
      | .error .err => .err                               -- "bad proof node"
      | .error .panic => .panic
      | .ok n =>
        match pget n key with
        | .absent => .absent
        | .value v => .value v
        | .panic => .panic
        | .hashref h keyrest => verify db f h keyrest

/-- `emptyRoot`: the hash of the RLP of the empty string (`0x80`). -/
def emptyRoot (H : Bytes → Bytes) : Bytes := H [0x80]

/-- `VerifyProof` (entry): the empty root commits to no content — every key is absent, no node is needed
    (the `rootHash == emptyRoot` shortcut of proof.go); otherwise the loop. -/
def verifyProof (H : Bytes → Bytes) (db : Bytes → Option Bytes) (fuel : Nat) (rootHash : Bytes) (key : List Nib) : VRes :=
  if rootHash = emptyRoot H then .absent else verify db fuel rootHash key

/-- the nodes `Prove` collects on the path of `key`; `none` = Go panic (value node reached with key left). -/
def provePath : Node → List Nib → Option (List Node)
  | _, [] => some []
  | .nil, _ :: _ => some []
  | .short k c, key@(_ :: _) =>
    if key.take k.length = k then (provePath c (key.drop k.length)).map (Node.short k c :: ·)
    else some [.short k c]
  | .full cs, x :: key => (provePath (cs x) key).map (Node.full cs :: ·)
  | .value _, _ :: _ => none

/-- a path node becomes a proof element iff its collapsed RLP is ≥ 32 bytes (hash reference in its parent) or it is
    the root. -/
def proofElems (H : Bytes → Bytes) : Bool → List Node → List Bytes
  | _, [] => []
  | first, n :: ns =>
    let e := enc (body H n)
    if first || decide (32 ≤ e.length) then e :: proofElems H false ns else proofElems H false ns

/-- `Trie.Prove(key, 0, proofDb)` as the list of proof elements (root first). -/
def prove (H : Bytes → Bytes) (t : Node) (key : List Nib) : Option (List Bytes) :=
  (provePath t key).map (proofElems H true)

/-- the proof database a verifier builds from a node list: each element stored under its own hash. -/
def dbOf (H : Bytes → Bytes) (proof : List Bytes) : Bytes → Option Bytes :=
  fun h => proof.find? fun e => H e == h

/-- a database given as explicit (key, blob) pairs (used for hostile inputs). -/
def dbOfPairs (l : List (Bytes × Bytes)) : Bytes → Option Bytes :=
  fun h => (l.find? fun p => p.1 == h).map (·.2)

def verifyFuel (key : List Nib) : Nat := key.length + 2

end Aqv.Trie

/-
  Aqv.Model.HashMemo — the memoised hash the C16 model driver runs (core-only): a lookup table in front of a hash function.
  The driver instantiates `K` with `Aqv.Keccak.keccak256`; `Aqv.Props.C16.memoised_hash_is_the_hash` shows the table never changes a value.
-/
import Aqv.Base.Bytes
namespace Aqv.HashMemo

/-- hash with a memo table in front. -/
def mkH (K : Bytes → Bytes) (tbl : List (Bytes × Bytes)) : Bytes → Bytes := fun b =>
  match tbl.lookup b with
  | some h => h
  | none => K b

/-- extend the table with the hashes of the items not yet in it. -/
def memo (K : Bytes → Bytes) (tbl : List (Bytes × Bytes)) (items : List Bytes) : List (Bytes × Bytes) :=
  items.foldl (fun t b => match t.lookup b with | some _ => t | none => (b, K b) :: t) tbl

/-- every entry of the table is a (value, hash of the value) pair. -/
def TableOK (K : Bytes → Bytes) (tbl : List (Bytes × Bytes)) : Prop := ∀ p ∈ tbl, p.2 = K p.1

end Aqv.HashMemo

/-
  Aqv.Model.Chain — model of the chain database maintained by `core.BlockChain` and `core.HeaderChain`
  (core/blockchain.go, core/headerchain.go, core/database_util.go) for properties C02 and C03.  Core Lean only.

  Abstraction.  A block is `Blk` (`id` stands for the hash).  The database is a record of finite maps:
    store     hash ↦ block        header and body present (`GetBlock ≠ nil`); both are always written/deleted together
    td        hash ↦ total difficulty                                  (`WriteTd` / `DeleteTd`)
    canon     number ↦ hash                                            (`WriteCanonicalHash` / `DeleteCanonicalHash`)
    head / hhead / fhead   LastBlock, LastHeader, LastFast             (`WriteHead*Hash`, the in-memory current*)
    lookup    tx ↦ (block hash, number, index)                         (`WriteTxLookupEntries` / `DeleteTxLookupEntry`)
    receipts  hash ↦ receipts stored                                   (`WriteBlockReceipts`)
    hasState  the state trie of the block can be opened (`HasState(root)`); `onDisk`: it survives Stop + reopen
    seen      ghost: blocks that went through `WriteBlockWithState` successfully (fully validated)
  Keys of the real schema carry (number, hash); a lookup with the wrong number misses.  `parentOf` keeps that check.
  What is NOT modelled: block validity (only valid blocks are given; the harness does the same), the LRU caches, events,
  the future-block queue, trie garbage collection beyond 128 blocks (`triesInMemory`; histories stay below that height),
  and crash consistency of the write order (property C04).  Distinct blocks are assumed to have distinct state roots
  (the harness gives every block its own coinbase).

  Every function cites the Go function it mirrors.  Failures of the Go code are explicit outcomes (`Err`): nothing is
  totalised away.
-/
namespace Aqv.Chain

structure Blk where
  id : Nat
  parent : Nat
  number : Nat
  diff : Nat
  txs : List Nat
  deriving DecidableEq, Repr, Inhabited

abbrev Map (α : Type) := Nat → Option α

def upd {α : Type} (m : Map α) (k : Nat) (v : Option α) : Map α := fun x => if x = k then v else m x

def updB (m : Nat → Bool) (k : Nat) (v : Bool) : Nat → Bool := fun x => if x = k then v else m x

/-- a transaction lookup entry (`core.TxLookupEntry`) -/
structure Loc where
  blk : Nat
  num : Nat
  idx : Nat
  deriving DecidableEq, Repr

inductive Err
  | unknownAncestor      -- consensus.ErrUnknownAncestor
  | unknownGrandparent   -- aquahash errUnknownGrandparent ("nil grandparent")
  | reorgFail            -- reorg: "invalid new chain" / "invalid old chain"
  | nonContiguous        -- ValidateHeaderChain: "non contiguous insert"
  | missingState         -- state.New(parent.Root()) failed
  | modelPanic           -- the Go code would dereference nil here (never observed; proved unreachable under `Inv`)
  deriving DecidableEq, Repr

structure St where
  genesis : Blk
  archive : Bool                  -- cacheConfig.Disabled
  store : Map Blk
  td : Map Nat
  canon : Map Nat
  head : Nat
  hhead : Nat
  fhead : Nat
  lookup : Map Loc
  receipts : Nat → Bool
  hasState : Nat → Bool
  onDisk : Nat → Bool
  seen : Nat → Bool
  /-- ghost: an upper bound of every height a header or block was ever written at; only bounds the (in Go unbounded)
      "delete number entries above" loop of `insert`.  It is raised by the mixed-history layer (`Model.ChainMixed`) where
      headers run ahead of the blocks; in histories fed by full imports it stays 0 (the heads bound the index). -/
  top : Nat := 0

/-- result of an operation: the database afterwards and the error the call returned, if any -/
structure Out where
  st : St
  err : Option Err

/-- a freshly initialised chain (`Genesis.MustCommit` + `NewBlockChain`) -/
def init (g : Blk) (archive : Bool) : St :=
  { genesis := g, archive := archive
    store := upd (fun _ => none) g.id (some g)
    td := upd (fun _ => none) g.id (some g.diff)
    canon := upd (fun _ => none) 0 (some g.id)
    head := g.id, hhead := g.id, fhead := g.id
    lookup := fun _ => none
    receipts := updB (fun _ => false) g.id true
    hasState := updB (fun _ => false) g.id true
    onDisk := updB (fun _ => false) g.id true
    seen := updB (fun _ => false) g.id true }

/-- `GetBlock(x.ParentHash(), x.NumberU64()-1)` / `GetHeader(…)`: the key carries the number -/
def parentOf (store : Map Blk) (x : Blk) : Option Blk :=
  match x.number with
  | 0 => none
  | n + 1 =>
    match store x.parent with
    | some p => if p.number = n then some p else none
    | none => none

/-! ### transaction lookups -/

def writeLookupsFrom (lk : Map Loc) (b : Blk) : Nat → List Nat → Map Loc
  | _, [] => lk
  | i, t :: ts => writeLookupsFrom (upd lk t (some ⟨b.id, b.number, i⟩)) b (i + 1) ts

/-- `WriteTxLookupEntries(db, block)` -/
def writeLookups (lk : Map Loc) (b : Blk) : Map Loc := writeLookupsFrom lk b 0 b.txs

/-- `DeleteTxLookupEntry` for every transaction of a list -/
def delLookups (lk : Map Loc) : List Nat → Map Loc
  | [] => lk
  | t :: ts => delLookups (upd lk t none) ts

/-- `types.TxDifference(a, b)`: the transactions of `a` that are not in `b` -/
def txDifference (a b : List Nat) : List Nat := a.filter (fun t => !b.contains t)

/-! ### BlockChain.insert, reorg, WriteBlockWithState -/

/-- the `delFn` of `BlockChain.SetHead` (fix b4ec96a) and `dropLookups` of `BlockChain.insert` (fix 3f14ce8):
    `for _, tx := range body.Transactions { if blockHash(GetTxLookupEntry(tx)) == hash { DeleteTxLookupEntry(tx) } }` —
    the lookups that point at the block `x` are dropped.  Each deletion only touches the key it tested, so the loop is
    written as ONE map (a key of `ts` whose entry points at `x` is gone, everything else is as before); this way the compiled
    model reads the underlying map once per query instead of once per transaction of every dropped block. -/
def dropLookupsOf (lk : Map Loc) (x : Blk) (ts : List Nat) : Map Loc := fun t =>
  match lk t with
  | some l => if l.blk = x.id ∧ t ∈ ts then none else some l
  | none => none

/-- `dropLookups(hash, number)` inside `BlockChain.insert` (fix 3f14ce8): the lookups that still point at the block
    `o` indexed at height `n` are deleted (`GetBodyNoVersion(hash, number)`: the body key carries the number) -/
def dropAt (store : Map Blk) (lk : Map Loc) (n o : Nat) : Map Loc :=
  match store o with
  | some y => if y.number = n then dropLookupsOf lk y y.txs else lk
  | none => lk

/-- `for i := number+1; ; i++ { old := GetCanonicalHash(i); if old == {} { break }; dropLookups(old, i); DeleteCanonicalHash(batch, i) }`:
    reads go to the database as it was before the call (`pre`), deletions into the batch (`c`, `lk`) -/
def dropAbove (store : Map Blk) (pre : Map Nat) : Nat → Nat → Map Nat → Map Loc → Map Nat × Map Loc
  | 0, _, c, lk => (c, lk)
  | f + 1, i, c, lk =>
    match pre i with
    | none => (c, lk)
    | some o => dropAbove store pre f (i + 1) (upd c i none) (dropAt store lk i o)

/-- `for hash, number := parent, number-1; …; number-- { old := GetCanonicalHash(number); if old == hash { break };
    header := GetHeader(hash, number); if header == nil { break }; if old != {} { dropLookups(old, number) };
    WriteCanonicalHash(batch, hash, number); if number == 0 { break }; hash = header.ParentHash }` -/
def repointBelow (store : Map Blk) (pre : Map Nat) : Nat → Nat → Nat → Map Nat → Map Loc → Map Nat × Map Loc
  | 0, _, _, c, lk => (c, lk)
  | f + 1, hash, number, c, lk =>
    if pre number = some hash then (c, lk)
    else
      match store hash with
      | none => (c, lk)
      | some hd =>
        if hd.number ≠ number then (c, lk)
        else
          let lk' := match pre number with
            | some o => dropAt store lk number o
            | none => lk
          let c' := upd c number (some hash)
          match number with
          | 0 => (c', lk')
          | k + 1 => repointBelow store pre f hd.parent k c' lk'

/-- bound for the (in Go unbounded) "entries above" loop: number entries exist at most up to the height of the heads, or
    up to `top` when headers were imported on the same chain -/
def indexFuel (s : St) : Nat :=
  max s.top (max (match s.store s.head with | some x => x.number | none => 0)
                 (match s.store s.hhead with | some x => x.number | none => 0))

/-- `if old := GetCanonicalHash(number); old != {} { dropLookups(old, number) }`: the lookups into the block that the
    inserted block replaces at its height -/
def dropReplaced (s : St) (b : Blk) : Map Loc :=
  match s.canon b.number with
  | some o => dropAt s.store s.lookup b.number o
  | none => s.lookup

/-- the `updateHeads` part of `BlockChain.insert` (fix 3f14ce8), as one batch: the lookups into the replaced block are
    dropped, the entries above are deleted together with the lookups into their blocks, stale entries below are re-pointed
    to the block's ancestors (dropping the lookups into the blocks they named), and the block's own entry is written.
    All reads see the database as it was before the call. -/
def insertIndex (s : St) (b : Blk) : Map Nat × Map Loc :=
  let r1 := dropAbove s.store s.canon (indexFuel s + 1) (b.number + 1) s.canon (dropReplaced s b)
  let r2 := match b.number with
    | 0 => r1
    | k + 1 => repointBelow s.store s.canon (k + 1) b.parent k r1.1 r1.2
  (upd r2.1 b.number (some b.id), r2.2)

/-- `BlockChain.insert(block)` (after fix 3f14ce8).  The block head always moves.  If the block is not what the number
    index holds at its height (`updateHeads`), the index and the lookups are brought in line with the block's chain
    (`insertIndex`) and header head and fast head follow, all in one batch. -/
def insertHead (s : St) (b : Blk) : St :=
  let moves := s.canon b.number != some b.id
  -- (a pair, so that the compiled model evaluates the batch once and not at every later read of the two maps)
  let r := if moves then insertIndex s b else (s.canon, s.lookup)
  { s with
    canon := r.1
    lookup := r.2
    head := b.id
    hhead := if moves then b.id else s.hhead
    fhead := if moves then b.id else s.fhead }

/-- `for i := n; ; i++ { if GetCanonicalHash(i) == {} { break }; DeleteCanonicalHash(i) }` (`HeaderChain.WriteHeader`;
    the canon component of `dropAbove` is the same loop: `dropAbove_fst` in Lemmas).  The Go loop has no bound; the fuel
    passed by the callers (height of the header head, `indexFuel`) exceeds the number of entries that can exist while
    nothing is indexed above the header head (`delCanonAbove_clears` in Lemmas: under the invariant the loop stops at the
    gap, never on fuel). -/
def delCanonAbove (canon : Map Nat) : Nat → Nat → Map Nat
  | 0, _ => canon
  | f + 1, i =>
    match canon i with
    | none => canon
    | some _ => delCanonAbove (upd canon i none) f (i + 1)

/-- `for ; x != nil && x.NumberU64() != n; x = GetBlock(x.ParentHash(), x.NumberU64()-1) { chain = append(chain, x) }`
    (first loops of `reorg`).  `none` = the walk ran into a missing block (`x == nil`). -/
def reduce (store : Map Blk) : Nat → Blk → Nat → Option (Blk × List Blk)
  | 0, _, _ => none
  | f + 1, x, n =>
    if x.number = n then some (x, [])
    else
      match parentOf store x with
      | none => none
      | some p =>
        match reduce store f p n with
        | none => none
        | some (y, l) => some (y, x :: l)

/-- the lock-step loop of `reorg`: step both chains back until the hashes are equal. -/
def walkBoth (store : Map Blk) : Nat → Blk → Blk → Option (Blk × List Blk × List Blk)
  | 0, _, _ => none
  | f + 1, o, n =>
    if o.id = n.id then some (o, [], [])
    else
      match parentOf store o, parentOf store n with
      | some o', some n' =>
        match walkBoth store f o' n' with
        | none => none
        | some (c, oc, nc) => some (c, o :: oc, n :: nc)
      | _, _ => none

/-- one iteration of the re-insertion loop of `reorg`: `bc.insert(newChain[i]); WriteTxLookupEntries(bc.db, newChain[i])` -/
def reorgStep (x : Blk) (st : St) : St :=
  let st' := insertHead st x
  { st' with lookup := writeLookups st'.lookup x }

/-- the second half of `reorg`: insert the new chain oldest-first (`foldr`: the lists are newest-first as in Go) and
    delete the lookups of `deleted \ added`.  Since 3f14ce8 `reorg` has no clean-up loop of its own: every re-inserted
    block that replaces an entry clears the index above itself (`insertHead`). -/
def reorgApply (s : St) (oldChain newChain : List Blk) : St :=
  let s1 := newChain.foldr reorgStep s
  let deleted := oldChain.flatMap (·.txs)
  let added := newChain.flatMap (·.txs)
  { s1 with lookup := delLookups s1.lookup (txDifference deleted added) }

/-- `BlockChain.reorg(oldBlock, newBlock)`.  The two "reduce whoever is higher" loops are written as two calls of
    `reduce` towards the lower of the two numbers (one of them returns immediately).  `none` = the Go function returns
    "invalid old chain"/"invalid new chain" (before writing anything). -/
def reorg (s : St) (old new : Blk) : Option St :=
  let m := min old.number new.number
  match reduce s.store (old.number + 1) old m with
  | none => none
  | some (o, oc1) =>
    match reduce s.store (new.number + 1) new m with
    | none => none
    | some (n, nc1) =>
      match walkBoth s.store (m + 1) o n with
      | none => none
      | some (_, oc2, nc2) => some (reorgApply s (oc1 ++ oc2) (nc1 ++ nc2))

/-- the fork-choice rule of `WriteBlockWithState` -/
def decideReorg (externTd localTd bnum hnum : Nat) (coin : Bool) : Bool :=
  decide (externTd > localTd) || (externTd == localTd && (decide (bnum < hnum) || (bnum == hnum && coin)))

/-- `WriteBlockWithState`, first part: `hc.WriteTd(block, ptd + difficulty)` and `state.Commit` (an archive node flushes
    the state to disk at once, otherwise it is referenced in memory). -/
def afterTd (s : St) (b : Blk) (ptd : Nat) : St :=
  { s with
    td := upd s.td b.id (some (ptd + b.diff))
    hasState := updB s.hasState b.id true
    onDisk := if s.archive then updB s.onDisk b.id true else s.onDisk }

/-- `WriteBlockWithState`, canonical case, last part: `batch.Write()` (block, receipts, lookups) and `bc.insert(block)`. -/
def afterCanon (s2 : St) (b : Blk) : St :=
  insertHead { s2 with
    store := upd s2.store b.id (some b)
    receipts := updB s2.receipts b.id true
    lookup := writeLookups s2.lookup b
    seen := updB s2.seen b.id true } b

/-- `WriteBlockWithState`, side case: `batch.Write()` (block, receipts); the canonical chain is untouched. -/
def afterSide (s : St) (b : Blk) (ptd : Nat) : St :=
  { afterTd s b ptd with
    store := upd s.store b.id (some b)
    receipts := updB s.receipts b.id true
    seen := updB s.seen b.id true }

/-- `WriteBlockWithState`, canonical case with a reorganisation ahead (fix 141a732): the batch holding the block and its
    receipts is flushed BEFORE `reorg` re-points number entries and head markers at it. -/
def afterStored (s : St) (b : Blk) (ptd : Nat) : St :=
  { afterTd s b ptd with
    store := upd s.store b.id (some b)
    receipts := updB s.receipts b.id true }

/-- `BlockChain.WriteBlockWithState` for a block that passed validation.  `coin` is `mrand.Float64() < 0.5`.
    If `reorg` fails the function returns its error; the td record, the committed state and (since 141a732) the block
    with its receipts stay. -/
def writeBlockWithState (s : St) (b : Blk) (coin : Bool) : Out :=
  match s.td b.parent with
  | none => ⟨s, some .unknownAncestor⟩
  | some ptd =>
    match s.store s.head, s.td s.head with
    | some cur, some localTd =>
      if decideReorg (ptd + b.diff) localTd b.number cur.number coin then
        if b.parent != cur.id then
          match reorg (afterStored s b ptd) cur b with
          | none => ⟨afterStored s b ptd, some .reorgFail⟩
          | some s2 => ⟨afterCanon s2 b, none⟩
        else ⟨afterCanon (afterTd s b ptd) b, none⟩
      else ⟨afterSide s b ptd, none⟩
    | _, _ => ⟨s, some .modelPanic⟩

/-! ### insertChain2 -/

/-- `HasBlockAndState` -/
def known (s : St) (id : Nat) : Bool := (s.store id).isSome && s.hasState id

/-- `engine.VerifyHeaders` for a valid header: the parent and, above height 2, the grandparent header must be known
    (consensus/aquahash verifyHeaderWorker; headers of the same batch are in the store by the time they are needed). -/
def headerCheck (store : Map Blk) (b : Blk) : Option Err :=
  match parentOf store b with
  | none => some .unknownAncestor
  | some p =>
    if p.number > 1 then
      match parentOf store p with
      | none => some .unknownGrandparent
      | some _ => none
    else none

/-- `for !bc.HasState(parent.Root()) { winner = append(winner, parent); parent = GetBlock(parent.ParentHash(), …) }`
    (newest first).  `none` = the walk ran into a missing block (`parent == nil`; since 7235ac1 the import then returns
    ErrUnknownAncestor instead of dereferencing nil). -/
def statelessAncestors (s : St) : Nat → Blk → Option (List Blk)
  | 0, _ => none
  | f + 1, p =>
    if s.hasState p.id then some []
    else
      match parentOf s.store p with
      | none => none
      | some q =>
        match statelessAncestors s f q with
        | none => none
        | some l => some (p :: l)

/-- the recursive `insertChain(winner)` of the side-chain branch.  `winner` is given newest first (as collected); the
    blocks are imported oldest first: every winner block is stored without state and its parent has state by then, so
    each goes straight to `WriteBlockWithState`.  The k-th call (in time order) uses the k-th coin. -/
def processWinners (s : St) : List Blk → List Bool → Out
  | [], _ => ⟨s, none⟩
  | w :: older, coins =>
    let o := processWinners s older coins
    match o.err with
    | some _ => o
    | none =>
      match headerCheck o.st.store w with
      | some e => ⟨o.st, some e⟩
      | none => writeBlockWithState o.st w ((coins.drop older.length).headD false)

/-- fix 130fc0e: the recorded total difficulty of a known block exceeds the head's -/
def heavierThan (s : St) (b : Blk) (localTd : Nat) : Bool :=
  match s.td b.id with
  | some e => decide (e > localTd)
  | none => false

/-- one iteration of the import loop of `insertChain2` for a valid block. -/
def importOne (s : St) (b : Blk) (coins : List Bool) : Out :=
  match headerCheck s.store b with
  | some e => ⟨s, some e⟩
  | none =>
    match s.store s.head, s.td s.head with
    | some cur, some localTd =>
      if known s b.id then
        -- ErrKnownBlock: skipped unless the head is below it (a rollback happened) or, since 130fc0e, the block is
        -- heavier than the head (an import interrupted before the head moved)
        if decide (cur.number ≥ b.number) && !heavierThan s b localTd then ⟨s, none⟩
        else if s.hasState b.parent then writeBlockWithState s b (coins.headD false)
        else ⟨s, some .missingState⟩
      else if !(known s b.parent) then
        -- consensus.ErrPrunedAncestor: the parent block is present (headerCheck) but its state is not
        match s.td b.parent with
        | none => ⟨s, some .modelPanic⟩
        | some ptd =>
          let externTd := ptd + b.diff
          if localTd > externTd then
            -- WriteBlockWithoutState
            ⟨{ s with td := upd s.td b.id (some externTd), store := upd s.store b.id (some b) }, none⟩
          else
            match parentOf s.store b with
            | none => ⟨s, some .unknownAncestor⟩
            | some p =>
              match statelessAncestors s (p.number + 1) p with
              | none => ⟨s, some .unknownAncestor⟩     -- fix 7235ac1: an ancestor of the side chain is gone
              | some winner =>
                let o := processWinners s winner coins
                match o.err with
                | some _ => o
                | none => writeBlockWithState o.st b ((coins.drop winner.length).headD false)
      else writeBlockWithState s b (coins.headD false)
    | _, _ => ⟨s, some .modelPanic⟩

/-- the sanity check at the top of `insertChain2`: the batch is cut at the first block that does not extend its
    predecessor (the prefix is then imported). -/
def contigPrefix : List Blk → List Blk
  | [] => []
  | [x] => [x]
  | x :: y :: rest => if y.number = x.number + 1 ∧ y.parent = x.id then x :: contigPrefix (y :: rest) else [x]

def importSeq (s : St) : List Blk → List (List Bool) → Nat → Out × Nat
  | [], _, i => (⟨s, none⟩, i)
  | b :: bs, coins, i =>
    let o := importOne s b (coins.headD [])
    match o.err with
    | some _ => (o, i)
    | none => importSeq o.st bs coins.tail (i + 1)

/-- `BlockChain.InsertChain(chain)`; the second component is the index returned with an error. -/
def importChain (s : St) (chain : List Blk) (coins : List (List Bool)) : Out × Nat :=
  importSeq s (contigPrefix chain) coins 0

/-! ### SetHead, Stop + reopen -/

/-- the unwinding loop of `HeaderChain.SetHead`:
    `for hdr := CurrentHeader(); hdr != nil && hdr.Number > head; hdr = CurrentHeader() { delFn; DeleteHeader; DeleteTd;
     currentHeader = GetHeader(hdr.ParentHash, hdr.Number-1) }`; returns the final `currentHeader` (`none` = nil). -/
def unwind : Nat → St → Option Blk → Nat → St × Option Blk
  | 0, s, cur, _ => (s, cur)
  | _ + 1, s, none, _ => (s, none)
  | f + 1, s, some x, n =>
    if x.number > n then
      let s' : St := { s with
        lookup := dropLookupsOf s.lookup x x.txs
        store := upd s.store x.id none
        td := upd s.td x.id none }
      unwind f s' (parentOf s'.store x) n
    else (s, some x)

/-- `for i := height; i > head; i-- { DeleteCanonicalHash(i) }` -/
def delCanonRange (canon : Map Nat) (lo : Nat) : Nat → Map Nat
  | 0 => canon
  | i + 1 => if i + 1 > lo then delCanonRange (upd canon (i + 1) none) lo i else canon

/-- `if currentBlock.Number > currentHeader.Number { currentBlock = GetBlock(currentHeader.Hash) }` followed by
    `if !HasState(currentBlock.Root) { currentBlock = genesis }` and the nil check: the block head after a rewind to
    the header `hcur`, never a block without state -/
def pickHead (store : Map Blk) (hasState : Nat → Bool) (g hcur cb : Blk) : Blk :=
  let nb : Option Blk := if hcur.number < cb.number then store hcur.id else some cb
  let nb : Option Blk := match nb with
    | some x => if hasState x.id then some x else some g
    | none => none
  nb.getD g

/-- the same for the fast head (no state needed) -/
def pickFast (store : Map Blk) (g hcur fb : Blk) : Blk :=
  (if hcur.number < fb.number then store hcur.id else some fb).getD g

/-- `BlockChain.SetHead(n)` (= `HeaderChain.SetHead` + the block/fast head rewinds + `loadLastState`). -/
def setHead (s : St) (n : Nat) : Out :=
  match s.store s.hhead, s.store s.head, s.store s.fhead with
  | some hh, some cb, some fb =>
    let (s1, cur) := unwind (hh.number + 1) s (some hh) n
    let hcur : Blk := cur.getD s.genesis
    let s2 : St := { s1 with canon := delCanonRange s1.canon n hh.number, hhead := hcur.id }
    -- rewind the block head, never onto a block without state
    let nb := pickHead s2.store s2.hasState s.genesis hcur cb
    let nf := pickFast s2.store s.genesis hcur fb
    -- loadLastState: the head block must be readable, otherwise the chain is reset (not modelled: unreachable)
    match s2.store nb.id with
    | none => ⟨s2, some .modelPanic⟩
    | some _ => ⟨{ s2 with head := nb.id, fhead := nf.id }, none⟩
  | _, _, _ => ⟨s, some .modelPanic⟩

/-- `BlockChain.Stop()` followed by `NewBlockChain` on the same database.  A pruning node flushes the states of the
    head and of its canonical predecessor (the third offset, 127, is out of reach of the modelled histories); every
    other state that lived only in memory is gone. -/
def reopen (s : St) : St :=
  if s.archive then s
  else
    match s.store s.head with
    | none => s
    | some cur =>
      -- `triedb.Commit(root)` of a state that is not in memory writes nothing
      let d0 := if cur.number > 0 && s.hasState cur.id then updB s.onDisk cur.id true else s.onDisk
      let d1 :=
        if cur.number > 1 then
          match s.canon (cur.number - 1) with
          | some i => if s.hasState i then updB d0 i true else d0
          | none => d0
        else d0
      { s with onDisk := d1, hasState := d1 }

/-! ### HeaderChain (header-first imports on a chain without blocks) -/

structure HSt where
  genesis : Blk
  store : Map Blk        -- headers
  td : Map Nat
  canon : Map Nat
  hhead : Nat

structure HOut where
  st : HSt
  err : Option Err

def hinit (g : Blk) : HSt :=
  { genesis := g
    store := upd (fun _ => none) g.id (some g)
    td := upd (fun _ => none) g.id (some g.diff)
    canon := upd (fun _ => none) 0 (some g.id)
    hhead := g.id }

/-- the "overwrite any stale canonical number assignments" loop of `HeaderChain.WriteHeader`:
    `for GetCanonicalHash(headNumber) != headHash { WriteCanonicalHash(headHash, headNumber); headHash = headHeader.ParentHash; … }`.
    Second component `false` = nil dereference of `headHeader` (a missing ancestor) — the entries written before the
    crash stay written. -/
def overwriteStale (store : Map Blk) : Nat → Map Nat → Nat → Nat → Map Nat × Bool
  | 0, canon, _, _ => (canon, false)
  | f + 1, canon, hh, hn =>
    if canon hn = some hh then (canon, true)
    else
      let canon' := upd canon hn (some hh)
      match store hh with
      | none => (canon', false)
      | some x =>
        if x.number ≠ hn then (canon', false)
        else
          match hn with
          | 0 => (canon', false)
          | k + 1 => overwriteStale store f canon' x.parent k

/-- fix 2ee9efd, the read-only walk in front of the index update:
    `for h, n := parent, number-1; GetCanonicalHash(n) != h; { a := GetHeader(h, n); if a == nil { return ErrUnknownAncestor }; h, n = a.ParentHash, n-1 }`.
    `false` = an ancestor is missing before a canonical header is reached. -/
def ancestryOk (store : Map Blk) : Nat → Map Nat → Nat → Nat → Bool
  | 0, _, _, _ => false
  | f + 1, canon, hh, hn =>
    if canon hn = some hh then true
    else
      match store hh with
      | none => false
      | some x =>
        if x.number ≠ hn then false
        else
          match hn with
          | 0 => false
          | k + 1 => ancestryOk store f canon x.parent k

/-- `HeaderChain.WriteHeader`.  Ties are broken by the coin alone (no preference for the lower number). -/
def writeHeader (s : HSt) (h : Blk) (coin : Bool) : HOut :=
  match s.td h.parent with
  | none => ⟨s, some .unknownAncestor⟩
  | some ptd =>
    match s.store s.hhead, s.td s.hhead with
    | some cur, some localTd =>
      let externTd := ptd + h.diff
      let s1 : HSt := { s with td := upd s.td h.id (some externTd), store := upd s.store h.id (some h) }
      if decide (externTd > localTd) || (externTd == localTd && coin) then
        let c1 := delCanonAbove s1.canon (cur.number + 1) (h.number + 1)
        match h.number with
        | 0 => ⟨s1, some .modelPanic⟩
        | k + 1 =>
          if !ancestryOk s1.store (k + 1) s1.canon h.parent k then ⟨s1, some .unknownAncestor⟩
          else
          match overwriteStale s1.store (k + 1) c1 h.parent k with
          | (c2, false) => ⟨{ s1 with canon := c2 }, some .modelPanic⟩
          | (c2, true) => ⟨{ s1 with canon := upd c2 h.number (some h.id), hhead := h.id }, none⟩
      else ⟨s1, none⟩
    | _, _ => ⟨s, some .modelPanic⟩

def isContig : List Blk → Bool
  | [] => true
  | [_] => true
  | x :: y :: rest => (y.number == x.number + 1 && y.parent == x.id) && isContig (y :: rest)

def hInsertSeq (s : HSt) : List Blk → List Bool → Nat → HOut × Nat
  | [], _, i => (⟨s, none⟩, i)
  | h :: hs, coins, i =>
    if (s.store h.id).isSome then hInsertSeq s hs coins (i + 1)        -- HasHeader: skipped
    else
      let o := writeHeader s h (coins.headD false)
      match o.err with
      | some _ => (o, i)
      | none => hInsertSeq o.st hs coins.tail (i + 1)

/-- `BlockChain.InsertHeaderChain`: the whole batch is validated first (`ValidateHeaderChain`: contiguity, then
    `VerifyHeaders`, whose first possible failure for valid headers is the missing parent/grandparent of the first
    header), then the unknown headers are written one by one. -/
def hImportChain (s : HSt) (chain : List Blk) (coins : List Bool) : HOut × Nat :=
  if !isContig chain then (⟨s, some .nonContiguous⟩, 0)
  else
    match chain with
    | [] => (⟨s, none⟩, 0)
    | h :: _ =>
      match headerCheck s.store h with
      | some e => (⟨s, some e⟩, 0)
      | none => hInsertSeq s chain coins 0

def hunwind : Nat → HSt → Option Blk → Nat → HSt × Option Blk
  | 0, s, cur, _ => (s, cur)
  | _ + 1, s, none, _ => (s, none)
  | f + 1, s, some x, n =>
    if x.number > n then
      let s' : HSt := { s with store := upd s.store x.id none, td := upd s.td x.id none }
      hunwind f s' (parentOf s'.store x) n
    else (s, some x)

/-- `HeaderChain.SetHead(n, delFn)` on a chain without bodies -/
def hSetHead (s : HSt) (n : Nat) : HOut :=
  match s.store s.hhead with
  | none => ⟨s, some .modelPanic⟩
  | some hh =>
    let (s1, cur) := hunwind (hh.number + 1) s (some hh) n
    let hcur : Blk := cur.getD s.genesis
    ⟨{ s1 with canon := delCanonRange s1.canon n hh.number, hhead := hcur.id }, none⟩

/-! ### Spec: the properties as stated -/

/-- the `k`-th ancestor of block `id` in the store -/
def up (store : Map Blk) : Nat → Nat → Option Blk
  | 0, id => store id
  | k + 1, id =>
    match store id with
    | some x => up store k x.parent
    | none => none

/-- C03 as stated, for a chain fed by full imports (`hd` = block head). -/
structure SpecInv (s : St) : Prop where
  /-- the head is a stored block; the header head and the fast head coincide with it -/
  head : ∃ hb, s.store s.head = some hb ∧ s.hhead = s.head ∧ s.fhead = s.head
  /-- every height up to the head maps to the head's ancestor at that height, which is retrievable with header and
      body (`store`), receipts and total difficulty -/
  below : ∀ hb, s.store s.head = some hb → ∀ n, n ≤ hb.number →
    ∃ x, up s.store (hb.number - n) s.head = some x ∧ x.number = n ∧ s.canon n = some x.id ∧
      s.receipts x.id = true ∧ (s.td x.id).isSome = true
  /-- no greater height maps to anything -/
  above : ∀ hb, s.store s.head = some hb → ∀ n, hb.number < n → s.canon n = none
  /-- a lookup resolves iff the transaction is in a canonical block, and then points at that block and position -/
  lookup : ∀ t l, s.lookup t = some l ↔
    (s.canon l.num = some l.blk ∧ ∃ x, s.store l.blk = some x ∧ x.txs[l.idx]? = some t)

/-- C03 for a chain fed by full imports on which a rewind may have left the block head BELOW the header head
    (`SetHead` onto a block whose state is gone falls back to a block with state — the header-first situation of the
    statement): the head of the statement is the header head; block head and fast head are indexed blocks.  With the
    three heads equal this is `SpecInv`. -/
structure SpecLag (s : St) : Prop where
  head : ∃ hh, s.store s.hhead = some hh
  below : ∀ hh, s.store s.hhead = some hh → ∀ n, n ≤ hh.number →
    ∃ x, up s.store (hh.number - n) s.hhead = some x ∧ x.number = n ∧ s.canon n = some x.id ∧
      s.receipts x.id = true ∧ (s.td x.id).isSome = true
  above : ∀ hh, s.store s.hhead = some hh → ∀ n, hh.number < n → s.canon n = none
  lookup : ∀ t l, s.lookup t = some l ↔
    (s.canon l.num = some l.blk ∧ ∃ x, s.store l.blk = some x ∧ x.txs[l.idx]? = some t)
  /-- block head and fast head are stored blocks that the index holds at their heights; the state of the block head is
      available -/
  heads : ∃ cb fb, s.store s.head = some cb ∧ s.canon cb.number = some s.head ∧ s.hasState s.head = true ∧
    s.store s.fhead = some fb ∧ s.canon fb.number = some s.fhead

/-- C03 for the header chain -/
structure HSpecInv (s : HSt) : Prop where
  head : ∃ hb, s.store s.hhead = some hb
  below : ∀ hb, s.store s.hhead = some hb → ∀ n, n ≤ hb.number →
    ∃ x, up s.store (hb.number - n) s.hhead = some x ∧ x.number = n ∧ s.canon n = some x.id ∧ (s.td x.id).isSome = true
  above : ∀ hb, s.store s.hhead = some hb → ∀ n, hb.number < n → s.canon n = none

/-! ### admissible block universes (checked by the driver on every generated tree, used for non-vacuity) -/

/-- the block with hash `k` among `bs` -/
def mapOf (bs : List Blk) : Map Blk := fun k => bs.find? (fun b => b.id == k)

/-- `x` and its ancestors in `U`, newest first -/
def ancestry (U : Map Blk) : Nat → Blk → List Blk
  | 0, _ => []
  | f + 1, x => x :: (match parentOf U x with
    | some p => ancestry U f p
    | none => [])

/-- valid blocks: positive difficulty above height 0, and no transaction twice along one chain -/
def worldCheck (bs : List Blk) : Bool :=
  bs.all fun b =>
    (b.number == 0 || decide (0 < b.diff)) &&
    decide ((ancestry (mapOf bs) (b.number + 1) b).flatMap (·.txs)).Nodup

end Aqv.Chain

/-
  Aqv.Model.RlpRaw — a Go-shaped model of rlp/raw.go: `readKind`, `readSize`, `Split`, `SplitString`, `SplitList`,
  `CountValues` on byte slices.  Slice expressions `b[i:j]` are modelled with an explicit PANIC outcome ("slice bounds
  out of range") so that "never panics" is a theorem (`split_total`, `countValues_total` in Props/C11), not a
  convention.  Sizes are `uint64` in Go; here they are `Nat`: `readSize` reads at most 8 bytes, `tagsize ≤ 9`, and
  `uint64(len(buf)) - tagsize` cannot wrap because `readSize` has checked `slen ≤ len(buf) - 1` (lemma
  `rawReadKind_tag_le`).   Core-only.
-/
import Aqv.Model.Rlp
namespace Aqv.RlpRaw
open Aqv Aqv.Rlp

inductive RErr where
  | unexpectedEOF | canonSize | valueTooLarge | expectedString | expectedList | fuel
  deriving Repr, DecidableEq, Inhabited

inductive K where
  | byte | string | list
  deriving Repr, DecidableEq, Inhabited

/-- results of functions that index slices: a Go result or a run-time panic. -/
inductive Out (α : Type) where
  | ok (a : α)
  | err (e : RErr)
  | panic
  deriving Repr, Inhabited

/-- `readSize(b, slen)`: `slen` big-endian bytes; sizes < 56 and leading zero bytes are ErrCanonSize. -/
def rawReadSize (b : Bytes) (slen : Nat) : Except RErr Nat :=
  if slen > b.length then .error .unexpectedEOF
  else
    let s := beNat (b.take slen)
    match b with
    | [] => .error .canonSize      -- unreachable for slen ≥ 1 (Go would index b[0])
    | b0 :: _ => if s < 56 || b0 = 0 then .error .canonSize else .ok s

/-- `readKind(buf)`: `(kind, tagsize, contentsize)`. -/
def rawReadKind (buf : Bytes) : Except RErr (K × Nat × Nat) :=
  match buf with
  | [] => .error .unexpectedEOF
  | b :: tl =>
    let sized (k : K) (slen : Nat) : Except RErr (K × Nat × Nat) :=
      match rawReadSize tl slen with
      | .error e => .error e
      | .ok cs => .ok (k, slen + 1, cs)
    let r : Except RErr (K × Nat × Nat) :=
      if b < 0x80 then .ok (.byte, 0, 1)
      else if b < 0xB8 then
        let cs := b.toNat - 0x80
        -- reject strings that should've been single bytes
        match tl with
        | x :: _ => if cs = 1 ∧ x < 0x80 then .error .canonSize else .ok (.string, 1, cs)
        | [] => .ok (.string, 1, cs)
      else if b < 0xC0 then sized .string (b.toNat - 0xB7)
      else if b < 0xF8 then .ok (.list, 1, b.toNat - 0xC0)
      else sized .list (b.toNat - 0xF7)
    match r with
    | .error e => .error e
    | .ok (k, ts, cs) =>
      -- reject values larger than the input slice
      if cs > buf.length - ts then .error .valueTooLarge else .ok (k, ts, cs)

/-- `b[i:j]`: panics unless `i ≤ j ≤ len(b)`. -/
def slice (b : Bytes) (i j : Nat) : Option Bytes :=
  if i ≤ j ∧ j ≤ b.length then some ((b.take j).drop i) else none

/-- `Split(b)`: `(kind, content, rest)`. -/
def split (b : Bytes) : Out (K × Bytes × Bytes) :=
  match rawReadKind b with
  | .error e => .err e
  | .ok (k, ts, cs) =>
    match slice b ts (ts + cs), slice b (ts + cs) b.length with
    | some content, some rest => .ok (k, content, rest)
    | _, _ => .panic

/-- `SplitString(b)`. -/
def splitString (b : Bytes) : Out (Bytes × Bytes) :=
  match split b with
  | .ok (.list, _, _) => .err .expectedString
  | .ok (_, content, rest) => .ok (content, rest)
  | .err e => .err e
  | .panic => .panic

/-- `SplitList(b)`. -/
def splitList (b : Bytes) : Out (Bytes × Bytes) :=
  match split b with
  | .ok (.list, content, rest) => .ok (content, rest)
  | .ok (_, _, _) => .err .expectedList
  | .err e => .err e
  | .panic => .panic

/-- the loop of `CountValues`: `for ; len(b) > 0; i++ { …; b = b[tagsize+size:] }`. -/
def countLoop : Nat → Bytes → Nat → Out Nat
  | _, [], i => .ok i
  | 0, _ :: _, _ => .err .fuel
  | f+1, b :: tl, i =>
    match rawReadKind (b :: tl) with
    | .error e => .err e
    | .ok (_, ts, cs) =>
      match slice (b :: tl) (ts + cs) (b :: tl).length with
      | some rest => countLoop f rest (i + 1)
      | none => .panic

/-- `CountValues(b)`; every round consumes at least one byte, so fuel `len` suffices. -/
def countValues (b : Bytes) : Out Nat := countLoop b.length b 0

/-! ### Spec: the shallow reader expressed with `readHead` of Aqv.Model.Rlp -/

/-- the shallow (header-only) reader expressed with the spec-level `readHead`: kind, content, rest. -/
def shallowSplit (bs : Bytes) : Option (K × Bytes × Bytes) :=
  match readHead bs with
  | .error _ => none
  | .ok (.byte b rest) => some (.byte, [b], rest)
  | .ok (.str n rest) =>
    if rest.length < n then none
    else
      match rest.take n with
      | [x] => if x < 0x80 then none else some (.string, [x], rest.drop n)
      | s => some (.string, s, rest.drop n)
  | .ok (.list n rest) => if rest.length < n then none else some (.list, rest.take n, rest.drop n)

/-- `bs` is a concatenation of `n` values each accepted by the shallow reader. -/
def shallowCount : Nat → Bytes → Option Nat
  | _, [] => some 0
  | 0, _ :: _ => none
  | f+1, b :: tl =>
    match shallowSplit (b :: tl) with
    | none => none
    | some (_, _, rest) =>
      match shallowCount f rest with
      | some m => some (m + 1)
      | none => none

def Out.toOption {α : Type} : Out α → Option α
  | .ok a => some a
  | _ => none

end Aqv.RlpRaw

/-
  Aqv.Model.EvmOps — Impl model of the computational part of core/vm (property C08), core-only.

  * op*            core/vm/instructions.go, over `Int` exactly as the Go code computes with math/big + U256/S256
                   (arguments in POP order: first argument = top of stack). Aliasing through the int pool is resolved by hand.
  * gas functions  core/vm/gas_table.go / gas.go / common.go over `UInt64` with Go's wrap-around and SafeAdd/SafeMul;
                   `none` = errGasUintOverflow (the interpreter turns every gas error into ErrOutOfGas).
  * calcMemSize    core/vm/common.go, memory_table.go
  * codeBitmap/has core/vm/analysis.go
  The Spec side (BitVec 256 / Nat formulas from the Yellow Paper) is in Aqv.Model.EvmSpec.
-/
import Aqv.Base.Big
import Aqv.Base.Bytes
namespace Aqv.Evm
open Aqv.Big

-- ---------------------------------------------------------------------------------------------------------------------
-- instructions.go

def opAdd (x y : Int) : Int := u256 (x + y)
def opSub (x y : Int) : Int := u256 (x - y)
def opMul (x y : Int) : Int := u256 (x * y)

/-- opDiv: `if y.Sign() != 0 { U256(x.Div(x, y)) } else { 0 }` -/
def opDiv (x y : Int) : Int := if y ≠ 0 then u256 (x / y) else 0

/-- opSdiv: S256 both, sign from the product, |x| Div |y|, times sign, U256. -/
def opSdiv (x0 y0 : Int) : Int :=
  let x := s256 x0
  let y := s256 y0
  if y = 0 then 0
  else
    let n : Int := if x * y < 0 then -1 else 1
    let res := abs x / abs y
    u256 (res * n)

def opMod (x y : Int) : Int := if y = 0 then 0 else u256 (x % y)

/-- opSmod: sign of the dividend. -/
def opSmod (x0 y0 : Int) : Int :=
  let x := s256 x0
  let y := s256 y0
  if y = 0 then 0
  else
    let n : Int := if x < 0 then -1 else 1
    let res := abs x % abs y
    u256 (res * n)

def opExp (base exponent : Int) : Int := exp base exponent

/-- opSignExtend: `back` is popped; only if back < 31 is `num` popped and replaced, otherwise it stays as it is. -/
def opSignExtend (back num : Int) : Int :=
  if back < 31 then
    let bit := uint64 back * 8 + 7
    let mask := lsh 1 bit - 1
    if Big.bit num bit > 0 then u256 (Big.or num (Big.not mask))
    else u256 (Big.and num mask)
  else num

def opNot (x : Int) : Int := u256 (Big.not x)
def opLt (x y : Int) : Int := if x < y then 1 else 0
def opGt (x y : Int) : Int := if x > y then 1 else 0
/-- opSlt: `x.Cmp(math.S256(y)) < 0` with y already S256'd (S256 is applied twice to y in the Go code). -/
def opSlt (x0 y0 : Int) : Int :=
  let x := s256 x0
  let y := s256 y0
  if x < s256 y then 1 else 0
def opSgt (x0 y0 : Int) : Int :=
  let x := s256 x0
  let y := s256 y0
  if x > y then 1 else 0
def opEq (x y : Int) : Int := if x = y then 1 else 0
/-- opIszero: `if x.Sign() > 0 { 0 } else { 1 }` -/
def opIszero (x : Int) : Int := if x > 0 then 0 else 1
def opAnd (x y : Int) : Int := Big.and x y
def opOr (x y : Int) : Int := Big.or x y
def opXor (x y : Int) : Int := Big.xor x y

/-- opByte: `if th.Cmp(32) < 0 { Byte(val, 32, int(th.Int64())) } else 0` -/
def opByte (th val : Int) : Int :=
  if th < 32 then Int.ofNat (byteAt val 32 (uint64 th)) else 0

def opAddmod (x y z : Int) : Int := if z > 0 then u256 ((x + y) % z) else 0
def opMulmod (x y z : Int) : Int := if z > 0 then u256 ((x * y) % z) else 0

def opSHL (shift0 value0 : Int) : Int :=
  let shift := u256 shift0
  let value := u256 value0
  if shift ≥ 256 then 0 else u256 (lsh value (uint64 shift))

def opSHR (shift0 value0 : Int) : Int :=
  let shift := u256 shift0
  let value := u256 value0
  if shift ≥ 256 then 0 else u256 (rsh value (uint64 shift))

/-- opSAR as written: for shift ≥ 256 the test is `value.Sign() > 0` (so value = 0 takes the `-1` branch). -/
def opSAR (shift0 value0 : Int) : Int :=
  let shift := u256 shift0
  let value := s256 value0
  if shift ≥ 256 then
    (if value > 0 then u256 0 else u256 (-1))
  else u256 (rsh value (uint64 shift))

-- ---------------------------------------------------------------------------------------------------------------------
-- common.go / gas.go / gas_table.go

/-- bigUint64: `v.Uint64(), v.BitLen() > 64` -/
def bigUint64 (v : Int) : UInt64 × Bool := (UInt64.ofNat (uint64 v), decide (bitLen v > 64))

/-- `if x, overflow = f(..); overflow { return 0, errGasUintOverflow }` -/
def chk (r : UInt64 × Bool) : Option UInt64 := if r.2 then none else some r.1

/-- toWordSize -/
def toWordSize (size : UInt64) : UInt64 :=
  if size > maxU64 - 31 then maxU64 / 32 + 1 else (size + 31) / 32

/-- calcMemSize: `if l.Sign() == 0 { 0 } else { off + l }` -/
def calcMemSize (off l : Int) : Int := if l = 0 then 0 else off + l

/-- the memory-size prologue of Interpreter.Run: bigUint64 overflow → error; SafeMul(toWordSize(memSize), 32) overflow → error.
    Returns the requested size in bytes, rounded up to words. -/
def memorySizeOf (memSize : Int) : Option UInt64 :=
  (chk (bigUint64 memSize)).bind fun m => chk (safeMul (toWordSize m) 32)

structure Mem where
  len : UInt64          -- uint64(mem.Len())
  lastGasCost : UInt64
deriving Repr, DecidableEq

def memoryGas : UInt64 := 3      -- params.MemoryGas
def quadCoeffDiv : UInt64 := 512 -- params.QuadCoeffDiv

/-- memoryGasCost: returns the fee and the updated `lastGasCost`. -/
def memoryGasCost (mem : Mem) (newMemSize : UInt64) : Option (UInt64 × Mem) :=
  if newMemSize = 0 then some (0, mem)
  else if newMemSize > 0xffffffffe0 then none
  else
    let newMemSizeWords := toWordSize newMemSize
    let newMemSize := newMemSizeWords * 32
    if newMemSize > mem.len then
      let square := newMemSizeWords * newMemSizeWords
      let linCoef := newMemSizeWords * memoryGas
      let quadCoef := square / quadCoeffDiv
      let newTotalFee := linCoef + quadCoef
      let fee := newTotalFee - mem.lastGasCost
      some (fee, { mem with lastGasCost := newTotalFee })
    else some (0, mem)

/-- Memory.Resize as done by the interpreter after charging: `if memorySize > 0 { mem.Resize(memorySize) }` -/
def memResize (mem : Mem) (memorySize : UInt64) : Mem :=
  if memorySize > 0 ∧ mem.len < memorySize then { mem with len := memorySize } else mem

def gasFastestStep : UInt64 := 3
def gasSlowStep : UInt64 := 10

/-- gasMLoad / gasMStore / gasMStore8: memory + GasFastestStep -/
def gasMemVeryLow (mem : Mem) (memorySize : UInt64) : Option UInt64 :=
  (memoryGasCost mem memorySize).bind fun r =>
  chk (safeAdd r.1 gasFastestStep)

/-- the shared body of gasCallDataCopy / gasCodeCopy / gasReturnDataCopy (base = GasFastestStep) and gasExtCodeCopy
    (base = gt.ExtcodeCopy); `len` is the length operand (stack.Back(2) resp. Back(3)). -/
def gasCopy (base : UInt64) (mem : Mem) (memorySize : UInt64) (len : Int) : Option UInt64 :=
  (memoryGasCost mem memorySize).bind fun r =>
  (chk (safeAdd r.1 base)).bind fun gas =>
  (chk (bigUint64 len)).bind fun words =>
  (chk (safeMul (toWordSize words) 3)).bind fun words => -- params.CopyGas
  chk (safeAdd gas words)

/-- gasSha3: memory + Sha3Gas + Sha3WordGas * words(size) -/
def gasSha3 (mem : Mem) (memorySize : UInt64) (size : Int) : Option UInt64 :=
  (memoryGasCost mem memorySize).bind fun r =>
  (chk (safeAdd r.1 30)).bind fun gas => -- params.Sha3Gas
  (chk (bigUint64 size)).bind fun wordGas =>
  (chk (safeMul (toWordSize wordGas) 6)).bind fun wordGas => -- params.Sha3WordGas
  chk (safeAdd gas wordGas)

/-- gasExp: `expByteLen := (exponent.BitLen()+7)/8 ; gas = expByteLen * gt.ExpByte ; SafeAdd(gas, GasSlowStep)` -/
def gasExp (expByte : UInt64) (exponent : Int) : Option UInt64 :=
  chk (safeAdd (UInt64.ofNat ((bitLen exponent + 7) / 8) * expByte) gasSlowStep)

/-- makeGasLog(n): size operand is stack.Back(1). -/
def gasLog (n : UInt64) (mem : Mem) (memorySize : UInt64) (size : Int) : Option UInt64 :=
  (chk (bigUint64 size)).bind fun requestedSize =>
  (memoryGasCost mem memorySize).bind fun r =>
  (chk (safeAdd r.1 375)).bind fun gas => -- params.LogGas
  (chk (safeAdd gas (n * 375))).bind fun gas => -- n * params.LogTopicGas
  (chk (safeMul requestedSize 8)).bind fun memorySizeGas => -- params.LogDataGas
  chk (safeAdd gas memorySizeGas)

/-- gasCreate: memory + CreateGas -/
def gasCreate (mem : Mem) (memorySize : UInt64) : Option UInt64 :=
  (memoryGasCost mem memorySize).bind fun r =>
  chk (safeAdd r.1 32000)

/-- gasReturn / gasRevert: memory only -/
def gasReturn (mem : Mem) (memorySize : UInt64) : Option UInt64 :=
  (memoryGasCost mem memorySize).map (·.1)

/-- callGas (gas.go): EIP150 63/64 rule when gasTable.CreateBySuicide > 0. -/
def callGas (createBySuicide availableGas base : UInt64) (callCost : Int) : Option UInt64 :=
  let fallthrough : Option UInt64 :=
    if bitLen callCost > 64 then none else some (UInt64.ofNat (uint64 callCost))
  if createBySuicide > 0 then
    let availableGas := availableGas - base
    let gas := availableGas - availableGas / 64
    if bitLen callCost > 64 ∨ gas < UInt64.ofNat (uint64 callCost) then some gas
    else fallthrough
  else fallthrough

-- ---------------------------------------------------------------------------------------------------------------------
-- analysis.go — the bit vector is modelled as the function position ↦ "is PUSH data" held in a `Nat` (bit i = position i);
-- the byte layout of `bitvec` (0x80 >> (pos % 8)) is abstracted, the loop structure is kept.

/-- bits.set8(pos): marks pos … pos+7 -/
def set8 (bits : Nat) (pos : Nat) : Nat := bits ||| (0xff <<< pos)
/-- bits.set(pos) -/
def set1 (bits : Nat) (pos : Nat) : Nat := bits ||| (1 <<< pos)
/-- bits.codeSegment(pos) -/
def codeSegment (bits : Nat) (pos : Nat) : Bool := !bits.testBit pos

/-- `for ; numbits >= 8; numbits -= 8 { bits.set8(pc); pc += 8 }` -/
def loop8 : Nat → Nat → Nat → Nat → Nat × Nat × Nat
  | 0, numbits, pc, bits => (numbits, pc, bits)
  | f + 1, numbits, pc, bits =>
    if numbits ≥ 8 then loop8 f (numbits - 8) (pc + 8) (set8 bits pc) else (numbits, pc, bits)

/-- `for ; numbits > 0; numbits-- { bits.set(pc); pc++ }` -/
def loop1 : Nat → Nat → Nat → Nat → Nat × Nat
  | 0, _, pc, bits => (pc, bits)
  | f + 1, numbits, pc, bits =>
    if numbits > 0 then loop1 f (numbits - 1) (pc + 1) (set1 bits pc) else (pc, bits)

/-- the outer loop of codeBitmap (fuel = len(code) suffices: pc strictly increases). -/
def bitmapLoop (code : Array UInt8) : Nat → Nat → Nat → Nat
  | 0, _, bits => bits
  | f + 1, pc, bits =>
    if h : pc < code.size then
      let op := code[pc]
      if op ≥ 0x60 ∧ op ≤ 0x7f then
        let numbits := (op - 0x60).toNat + 1
        let r8 := loop8 4 numbits (pc + 1) bits
        let r1 := loop1 8 r8.1 r8.2.1 r8.2.2
        bitmapLoop code f r1.1 r1.2
      else bitmapLoop code f (pc + 1) bits
    else bits

def codeBitmap (code : Array UInt8) : Nat := bitmapLoop code code.size 0 0

/-- destinations.has: `dest.BitLen() >= 63 || udest >= len(code)` → false; else JUMPDEST byte in a code segment. -/
def hasJumpdest (code : Array UInt8) (dest : Int) : Bool :=
  let udest := uint64 dest
  if bitLen dest ≥ 63 ∨ udest ≥ code.size then false
  else code[udest]! == 0x5b && codeSegment (codeBitmap code) udest

end Aqv.Evm

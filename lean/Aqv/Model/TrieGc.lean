/-
  Aqv.Model.TrieGc — the reference-counted node store of trie/database.go (`insert`, `reference`, `dereference`), as used by
  `hasher.store` (child references of every stored node) and by core/blockchain (`Reference(root, common.Hash{})` to pin a
  committed state, `Dereference(root, common.Hash{})` to release it).  Core-only, generic in the node id (hash) type.

  Go state                                   model
  db.nodes (hash ↦ cachedNode)               `nodes` (present ids), `parents`, `kids` (hash children of the blob)
  cachedNode.children of a trie node         `edge p c` (p has registered its single reference to c)
  children of the meta root common.Hash{}    `pins`
  The recursion of `dereference` is written with an explicit stack (`derefLoop`): Go ranges over a map, so every order of
  the cascade is a legal execution. Fuel is a model artefact (`none` = budget exhausted).
-/
namespace Aqv.Gc

structure Store (α : Type) where
  nodes : List α
  parents : α → Int
  pins : α → Int
  edge : α → α → Bool
  kids : α → List α

variable {α : Type} [DecidableEq α]

/-- the distinct elements of a list (a node references each distinct child hash once). -/
def dedup : List α → List α
  | [] => []
  | x :: xs => if x ∈ dedup xs then dedup xs else x :: dedup xs

def Store.empty : Store α := ⟨[], fun _ => 0, fun _ => 0, fun _ _ => false, fun _ => []⟩

/-- `db.insert(hash, blob)`: a new cachedNode (no parents, no registered children); an existing entry is kept. -/
def insertNode (s : Store α) (h : α) (ks : List α) : Store α :=
  if h ∈ s.nodes then s
  else { s with nodes := h :: s.nodes, parents := fun n => if n = h then 0 else s.parents n,
                edge := fun p c => if p = h then false else s.edge p c,
                kids := fun n => if n = h then dedup ks else s.kids n }

/-- `db.reference(child, parent)` for a trie-node parent: skipped when the child is not cached or already registered. -/
def referenceNode (s : Store α) (c p : α) : Store α :=
  if c ∉ s.nodes then s
  else if s.edge p c then s
  else { s with parents := fun n => if n = c then s.parents c + 1 else s.parents n,
                edge := fun p' c' => if p' = p ∧ c' = c then true else s.edge p' c' }

/-- `hasher.store`: insert the node, then register a reference to each hash child. -/
def storeNode (s : Store α) (h : α) (ks : List α) : Store α :=
  (dedup ks).foldl (fun s c => referenceNode s c h) (insertNode s h ks)

/-- `db.Reference(root, common.Hash{})`: roots may be referenced any number of times; every call counts. -/
def pin (s : Store α) (r : α) : Store α :=
  if r ∉ s.nodes then s
  else { s with parents := fun n => if n = r then s.parents r + 1 else s.parents n,
                pins := fun n => if n = r then s.pins r + 1 else s.pins n }

/-- the seeded variant (C10-6): only the FIRST reference from the meta root bumps `parents`. -/
def pinFirstOnly (s : Store α) (r : α) : Store α :=
  if r ∉ s.nodes then s
  else { s with parents := fun n => if n = r then (if s.pins r = 0 then s.parents r + 1 else s.parents r) else s.parents n,
                pins := fun n => if n = r then s.pins r + 1 else s.pins n }

/-- the cascade of `dereference` with an explicit stack of children still to be dereferenced. -/
def derefLoop : Nat → List α → Store α → Option (Store α)
  | _, [], s => some s
  | 0, _ :: _, _ => none
  | f + 1, c :: w, s =>
    if c ∉ s.nodes then derefLoop f w s                         -- previously committed node
    else
      let s1 := { s with parents := fun n => if n = c then s.parents c - 1 else s.parents n }
      if s.parents c - 1 = 0 then
        derefLoop f ((s.kids c).filter (s.edge c) ++ w) { s1 with nodes := s1.nodes.erase c }
      else derefLoop f w s1

/-- `db.Dereference(root, common.Hash{})`. -/
def unpin (fuel : Nat) (s : Store α) (r : α) : Option (Store α) :=
  derefLoop fuel [r] { s with pins := fun n => if n = r then s.pins r - 1 else s.pins n }

inductive GcOp (α : Type) where
  | store (h : α) (kids : List α)
  | pin (r : α)
  | unpin (r : α)

def gcStep (fuel : Nat) (s : Store α) : GcOp α → Option (Store α)
  | .store h ks => some (storeNode s h ks)
  | .pin r => some (pin s r)
  | .unpin r => unpin fuel s r

def gcRun (fuel : Nat) : List (GcOp α) → Store α → Option (Store α)
  | [], s => some s
  | op :: ops, s =>
    match gcStep fuel s op with
    | none => none
    | some s' => gcRun fuel ops s'

end Aqv.Gc

/-
  Aqv.Model.VmPrecompile — gas and allocation model of the precompiled contracts (core/vm/contracts.go), property C07:
  "never holds more memory than the gas paid for" for the buffers a precompile materialises from ANNOUNCED lengths.
  Core-only (linked into aqmodel_c07).

  Modelled as written: common.go getData (clamping, the unchecked `start + size`, right padding), RequiredGas of every
  precompile, and for bigModExp: header parsing, the `len(input) <= baseLen` / `expLen > 32` cases of the exponent head,
  adjusted exponent length, the three-piece multiplication complexity, division by ModExpQuadCoeffDiv, saturation at
  MaxUint64; Run: truncation of the header words to uint64, the `baseLen == 0 && modLen == 0` early return, and the sizes
  of the buffers getData / LeftPadBytes materialise. Values (hashes, the modular power itself) are not modelled.
-/
import Aqv.Base.Bytes
import Aqv.Gen.VmFlags
namespace Aqv.Vm.Pre
open Aqv Aqv.Gen.VmFlags

def two64 : Nat := 18446744073709551616

/-- common.go getData(data, start, size) for uint64 start/size: clamps start and end to len(data), `end := start + size` is an
    unchecked uint64 addition, the slice data[start:end] is right-padded to `size`. `none` = slice bounds panic (end < start). -/
def getData (data : Bytes) (start size : Nat) : Option Bytes :=
  let L := data.length
  let s := min start L
  let e := min ((s + size) % two64) L
  if e < s then none
  else
    let sl := (data.drop s).take (e - s)
    some (sl ++ List.replicate (size - sl.length) 0)

def hdrWord (input : Bytes) (off : Nat) : Nat := beNat ((getData input off 32).getD [])

/-- bit length − 1 of the exponent head (0 for 0) -/
def msbOf (n : Nat) : Nat := if n = 0 then 0 else Nat.log2 n

/-- multiplication complexity of bigModExp.RequiredGas on x = max(modLen, baseLen) -/
def modexpMult (x : Nat) : Nat :=
  if x ≤ 64 then x * x
  else if x ≤ 1024 then x * x / 4 + (96 * x - 3072)
  else x * x / 16 + (480 * x - 199680)

/-- bigModExp.RequiredGas as a function of the three announced lengths (big.Int, unbounded) and msb of the exponent head -/
def modexpGas (baseLen expLen modLen msb : Nat) : Nat :=
  let adj := (if expLen > 32 then 8 * (expLen - 32) else 0) + msb
  let g := modexpMult (max modLen baseLen) * max adj 1 / modExpQuadCoeffDiv
  if g ≥ two64 then two64 - 1 else g

/-- the exponent head read by RequiredGas -/
def modexpExpHead (input : Bytes) : Nat :=
  let baseLen := hdrWord input 0
  let expLen := hdrWord input 32
  let rest := input.drop 96
  if rest.length ≤ baseLen then 0
  else if expLen > 32 then beNat ((getData rest (baseLen % two64) 32).getD [])
  else beNat ((getData rest (baseLen % two64) (expLen % two64)).getD [])

def modexpRequiredGas (input : Bytes) : Nat :=
  modexpGas (hdrWord input 0) (hdrWord input 32) (hdrWord input 64) (msbOf (modexpExpHead input))

/-- bigModExp.Run: bytes materialised from the announced lengths (uint64-truncated header words): the three getData buffers
    (each padded to its announced size; big.Int.SetBytes copies are proportional) and the LeftPadBytes output. 0 on the
    `baseLen == 0 && modLen == 0` early return. -/
def modexpRunBuffers (baseLen expLen modLen : Nat) : Nat :=
  let b := baseLen % two64
  let e := expLen % two64
  let m := modLen % two64
  if b = 0 ∧ m = 0 then 0 else b + e + m + m

def modexpOutLen (baseLen modLen : Nat) : Nat :=
  if baseLen % two64 = 0 ∧ modLen % two64 = 0 then 0 else modLen % two64

def words (n : Nat) : Nat := (n + 31) / 32

/-- RequiredGas of the precompile at address `addr` (1..8); MaxUint64 saturation only exists for modexp -/
def requiredGas (addr : Nat) (input : Bytes) : Nat :=
  match addr with
  | 1 => ecrecoverGas
  | 2 => words input.length * sha256PerWordGas + sha256BaseGas
  | 3 => words input.length * ripemd160PerWordGas + ripemd160BaseGas
  | 4 => words input.length * identityPerWordGas + identityBaseGas
  | 5 => modexpRequiredGas input
  | 6 => bn256AddGas
  | 7 => bn256ScalarMulGas
  | 8 => bn256PairingBaseGas + input.length / 192 * bn256PairingPerPointGas
  | _ => 0

/-- length of the output; `none` = depends on values that are not modelled (ecrecover: 32 or 0) -/
def outLen (addr : Nat) (input : Bytes) : Option Nat :=
  match addr with
  | 1 => none
  | 2 => some 32
  | 3 => some 32
  | 4 => some input.length
  | 5 => some (modexpOutLen (hdrWord input 0) (hdrWord input 64))
  | _ => some 0

/-- bytes `Run` materialises besides reading its input (contracts.go): ecrecover pads the input to 128 bytes (only if shorter),
    appends v to a 64-byte copy and left-pads a 20-byte hash to 32; sha256 / ripemd160 produce a 32-byte digest (ripemd's is
    left-padded from 20); identity returns its input slice itself; the bn256 stand-ins return an empty slice; modexp see
    `modexpRunBuffers`. Hash states and the secp256k1 recovery use constant-size scratch, counted in `scratchConst`. -/
def scratchConst : Nat := 1024

def runBuffers (addr : Nat) (input : Bytes) : Nat :=
  match addr with
  | 1 => (if input.length < 128 then 128 else 0) + 65 + 32
  | 2 => 32
  | 3 => 20 + 32
  | 4 => 0
  | 5 => modexpRunBuffers (hdrWord input 0) (hdrWord input 32) (hdrWord input 64)
  | _ => 0

/-- number of compression-function / copy steps `Run` performs on the input: per 64-byte block for the hashes, none otherwise
    (identity returns the slice); everything else in the non-modexp precompiles is constant work -/
def runSteps (addr : Nat) (input : Bytes) : Nat :=
  match addr with
  | 2 => input.length / 64 + 2
  | 3 => input.length / 64 + 2
  | _ => 1

/-- RunPrecompiledContract: (ok, leftover gas) -/
def runPrecompile (addr : Nat) (input : Bytes) (gas : Nat) : Bool × Nat :=
  let req := requiredGas addr input
  if gas < req then (false, gas) else (true, gas - req)

end Aqv.Vm.Pre

/-
  Aqv.Model.Consensus — model of the header / uncle consensus rules of /repo/consensus/aquahash (property C13).

  Impl (mirrors the Go code function by function, arithmetic as written):
    Config.isHF / getHF                 params/hf.go  IsHF, GetHF, isForked
    calcDifficultyStarting / HF1        consensus/aquahash/difficulty.go
    calcDifficultyGrandparent, calcDifficultyHFX
    verifyHeader                        consensus/aquahash/consensus.go  (*Aquahash).verifyHeader
    verifyHeaderEntry                   (*Aquahash).VerifyHeader
    workerResult, coordinator           (*Aquahash).verifyHeaderWorker, the goroutine of VerifyHeaders
    verifyUncles                        (*Aquahash).VerifyUncles
  Spec (the property statement): `difficultySpec` (piecewise per fork era), `headerRule` / `HeaderValid`,
    `UncleOk` / `unclesSpec`, `sequentialResults`.

  Core Lean only (linked into the model driver).  big.Int ↦ Int / Nat, uint64 ↦ Nat with explicit wrap-around.
-/
namespace Aqv.Consensus

/-! ## configuration -/

/-- `params.ChainConfig` as far as consensus needs it: chain id and the fork map (hf ↦ activation height; nil entries absent). -/
structure Config where
  chainId : Nat
  forks : List (Nat × Nat)
  deriving Repr, DecidableEq

/-- `(*ChainConfig).GetHF` (nil ↦ none). -/
def Config.getHF (c : Config) (hf : Nat) : Option Nat := c.forks.lookup hf

/-- `(*ChainConfig).IsHF` with `isForked(s, head) = s ≤ head`. -/
def Config.isHF (c : Config) (hf : Nat) (num : Nat) : Bool :=
  match c.getHF hf with
  | none => false
  | some s => decide (s ≤ num)

/-- `config.IsHF(hf, next) && next.Cmp(config.GetHF(hf)) == 0` — "is this the fork block". -/
def Config.isForkBlock (c : Config) (hf : Nat) (next : Nat) : Bool := c.isHF hf next && (c.getHF hf == some next)

/-- difficulty constants of package `params` (regenerated into `Aqv.Gen.Params`; the Spec has its own literal copy). -/
structure DiffParams where
  mainnetChainId : Nat
  minGenesis : Int
  minHF1 : Int
  minHF3 : Int
  minHF5 : Int
  minHF5Testnet : Int
  div : Int
  divHF5 : Int
  divHF6 : Int
  divHF8 : Int
  durLimit : Int
  durLimitHF6 : Int
  deriving Repr, DecidableEq

/-- header-rule constants (`params.MaximumExtraDataSize`, `GasLimitBoundDivisor`, `MinGasLimit`, aquahash's
    `allowedFutureBlockTime`, `maxUncles`, `maxUnclesHF5`). -/
structure VParams where
  maxExtra : Nat
  gasDivisor : Nat
  minGasLimit : Nat
  future : Nat
  maxUncles : Nat
  maxUnclesHF5 : Nat
  deriving Repr, DecidableEq

/-- what the property statement says the constants are. -/
def Spec.diffParams : DiffParams :=
  { mainnetChainId := 61717561, minGenesis := 99999999, minHF1 := 100001792, minHF3 := 30959185800, minHF5 := 46039386,
    minHF5Testnet := 46039386, div := 2048, divHF5 := 16, divHF6 := 128, divHF8 := 1024, durLimit := 240, durLimitHF6 := 180 }

def Spec.vParams : VParams :=
  { maxExtra := 32, gasDivisor := 1024, minGasLimit := 5000, future := 15, maxUncles := 2, maxUnclesHF5 := 1 }

/-- the schedules of record (mainnet, public testnet, the test suite's schedule). -/
def Spec.mainnetForks : List (Nat × Nat) := [(1, 3600), (2, 7200), (3, 13026), (4, 21800), (5, 22800), (6, 36000), (7, 36050)]
def Spec.testnetForks : List (Nat × Nat) := [(1, 1), (2, 2), (3, 3), (4, 4), (5, 5), (6, 6), (7, 25), (8, 650)]
def Spec.testForks : List (Nat × Nat) := [(1, 1), (2, 2), (3, 3), (4, 4), (5, 5), (6, 6), (7, 7)]

/-! ## headers, blocks, chain reader -/

/-- the consensus-relevant content of `types.Header`.  `hash` is `Header.Hash()` under the version selected by height
    (computed by the real code, opaque here); `time`, `number` are non-negative big.Ints, `difficulty` a big.Int,
    `gasLimit`, `gasUsed` uint64, `extraLen = len(Extra)`. -/
structure Header where
  hash : Nat
  parentHash : Nat
  number : Nat
  time : Nat
  difficulty : Int
  gasLimit : Nat
  gasUsed : Nat
  extraLen : Nat
  deriving Repr, DecidableEq, Inhabited

structure Block where
  header : Header
  uncles : List Header
  deriving Repr, DecidableEq, Inhabited

/-- `consensus.ChainReader`: `GetHeader(hash, number)`, `GetBlock(hash, number)`. -/
structure Chain where
  getHeader : Nat → Nat → Option Header
  getBlock : Nat → Nat → Option Block

def two64 : Nat := 18446744073709551616
def two63 : Nat := 9223372036854775808
def two256 : Nat := 115792089237316195423570985008687907853269984665640564039457584007913129639936

/-- uint64 subtraction (wraps). -/
def subU64 (a b : Nat) : Nat := (a + two64 - b % two64) % two64

/-- `int64(x)` for a uint64 / the result of an int64 operation: two's-complement wrap into [-2^63, 2^63). -/
def wrapI64 (x : Int) : Int := (x + 9223372036854775808) % 18446744073709551616 - 9223372036854775808

/-- `uint64(x)` for an int64. -/
def toU64 (x : Int) : Nat := (x % 18446744073709551616).toNat

/-- `math.BigMax(x, y)`: `if x.Cmp(y) < 0 { return y }; return x`. -/
def bigMax (x y : Int) : Int := if x < y then y else x

/-! ## difficulty (difficulty.go) -/

/-- the shared body of `calcDifficultyStarting` / `calcDifficultyHF1` before the minimum:
    `parent_diff + parent_diff / 2048 * max(1 - (time - parent_time) / 10, -99)` (big.Int `Div` is Euclidean = Lean `/`). -/
def homesteadCore (P : DiffParams) (time : Nat) (parent : Header) : Int :=
  let x := ((time : Int) - (parent.time : Int)) / 10
  let x := 1 - x
  let x := if x < -99 then -99 else x
  let y := parent.difficulty / P.div
  parent.difficulty + y * x

/-- `calcDifficultyStarting` ("testnet no minimum"). -/
def calcDifficultyStarting (P : DiffParams) (time : Nat) (parent : Header) (chainId : Nat) : Int :=
  let x := homesteadCore P time parent
  if chainId = P.mainnetChainId then bigMax x P.minGenesis else x

/-- `calcDifficultyHF1`. -/
def calcDifficultyHF1 (P : DiffParams) (time : Nat) (parent : Header) (chainId : Nat) : Int :=
  let x := homesteadCore P time parent
  if chainId = P.mainnetChainId then bigMax x P.minHF1 else x

/-- outcome of a difficulty computation: a value, or the Go `panic("invalid code")` of `calcDifficultyGrandparent`. -/
inductive DiffOut where
  | val (d : Int)
  | panic
  deriving Repr, DecidableEq

/-- `calcDifficultyGrandparent` (experimental HF10 rule; no built-in schedule has HF10). -/
def calcDifficultyGrandparent (P : DiffParams) (parent : Header) (grand : Option Header) (cfg : Config) : DiffOut :=
  match grand with
  | none => .val parent.difficulty
  | some g =>
    if parent.time ≤ g.time then .panic
    else
      let divisor := if cfg.isHF 8 parent.number then P.divHF8 else P.divHF5
      let x := ((parent.time : Int) - (g.time : Int)) / 240
      let x := 1 - x
      let x := if x < -99 then -99 else x
      let y := g.difficulty / divisor
      let x := g.difficulty + y * x
      if cfg.chainId = P.mainnetChainId then .val (bigMax P.minHF5 x) else .val (bigMax P.minHF5Testnet x)

/-- the "[adjust,min,limit]" tail of `calcDifficultyHFX`. -/
def simpleAdjust (time : Nat) (parent : Header) (adjust min limit : Int) : Int :=
  let dt := (time : Int) - (parent.time : Int)
  let diff := if dt < limit then parent.difficulty + adjust else parent.difficulty - adjust
  if diff < min then min else diff

/-- `calcDifficultyHFX` (without the FAKEPOWTEST environment switch).  `time` is the uint64 argument. -/
def calcDifficultyHFX (P : DiffParams) (cfg : Config) (time : Nat) (parent : Header) (grand : Option Header) : DiffOut :=
  let next := parent.number + 1
  let adjust := parent.difficulty / P.div
  let limit := P.durLimit
  let min := P.minGenesis
  -- fix min
  let (min, adjust) :=
    if cfg.isHF 5 next then (P.minHF5, parent.difficulty / P.divHF5)
    else if cfg.isHF 3 next then (P.minHF3, adjust)
    else if cfg.isHF 1 next then (P.minHF1, adjust)
    else (min, adjust)
  let limit := if cfg.isHF 6 next then P.durLimitHF6 else limit
  -- adjust
  let adjust :=
    if cfg.isHF 8 next then parent.difficulty / P.divHF8
    else if cfg.isHF 6 next then parent.difficulty / P.divHF6
    else adjust
  let common : DiffOut := .val (simpleAdjust time parent adjust min limit)
  if cfg.isHF 10 next then calcDifficultyGrandparent P parent grand cfg
  else if cfg.isForkBlock 8 next then .val P.minHF5
  else if cfg.isForkBlock 6 next then common
  else if cfg.isForkBlock 7 next then common
  else if cfg.isForkBlock 5 next then .val P.minHF5
  else if cfg.isForkBlock 3 next then .val P.minHF3
  else if cfg.isForkBlock 2 next then common
  else if cfg.isHF 2 next then common
  else if cfg.isForkBlock 1 next then .val P.minHF1
  else if cfg.isHF 1 next then .val (calcDifficultyHF1 P time parent cfg.chainId)
  else .val (calcDifficultyStarting P time parent cfg.chainId)

/-! ### Spec: the fork-scheduled formula, era by era -/

/-- minimum of the era active at height `next`. -/
def eraMin (S : DiffParams) (cfg : Config) (next : Nat) : Int :=
  if cfg.isHF 5 next then S.minHF5 else if cfg.isHF 3 next then S.minHF3 else if cfg.isHF 1 next then S.minHF1 else S.minGenesis

/-- bound divisor of the era active at height `next`. -/
def eraDivisor (S : DiffParams) (cfg : Config) (next : Nat) : Int :=
  if cfg.isHF 8 next then S.divHF8 else if cfg.isHF 6 next then S.divHF6 else if cfg.isHF 5 next then S.divHF5 else S.div

/-- duration limit (seconds) of the era active at height `next`. -/
def eraLimit (S : DiffParams) (cfg : Config) (next : Nat) : Int :=
  if cfg.isHF 6 next then S.durLimitHF6 else S.durLimit

/-- scheduled difficulty resets: the block at which HF8, HF5, HF3 or HF1 activates restarts at that fork's minimum. -/
def resetValue (S : DiffParams) (cfg : Config) (next : Nat) : Option Int :=
  if cfg.getHF 8 = some next then some S.minHF5
  else if cfg.getHF 5 = some next then some S.minHF5
  else if cfg.getHF 3 = some next then some S.minHF3
  else if cfg.getHF 1 = some next then some S.minHF1
  else none

/-- the adjustment formula of the era (HF2 onwards: ± parent/divisor around the duration limit, clamped at the minimum;
    HF1 era and genesis era: the Homestead-style formula, with the era minimum on mainnet only). -/
def eraFormula (S : DiffParams) (cfg : Config) (time : Nat) (parent : Header) : Int :=
  let next := parent.number + 1
  if cfg.isHF 2 next then
    let adjust := parent.difficulty / eraDivisor S cfg next
    let moved := if (time : Int) - (parent.time : Int) < eraLimit S cfg next then parent.difficulty + adjust else parent.difficulty - adjust
    if moved < eraMin S cfg next then eraMin S cfg next else moved
  else
    let x := homesteadCore S time parent
    if cfg.chainId = S.mainnetChainId then
      (if x < (if cfg.isHF 1 next then S.minHF1 else S.minGenesis) then (if cfg.isHF 1 next then S.minHF1 else S.minGenesis) else x)
    else x

/-- **Spec**: the difficulty a block built on `parent` at `time` must carry. -/
def difficultySpec (S : DiffParams) (cfg : Config) (time : Nat) (parent : Header) : Int :=
  match resetValue S cfg (parent.number + 1) with
  | some v => v
  | none => eraFormula S cfg time parent

/-- schedules for which the era reading above is unambiguous (all built-in schedules are; checked by `decide` on the
    generated fork maps): no HF10; a positive HF6/HF7 activation height is not also a reset height (HF1/3/5) and lies in
    the HF2 era; a positive HF1 activation height lies before the HF2 era. -/
def Config.ordered (c : Config) : Bool :=
  (c.getHF 10).isNone &&
  [6, 7].all (fun i =>
    match c.getHF i with
    | none => true
    | some a => a == 0 || (c.isHF 2 a && c.getHF 1 != some a && c.getHF 3 != some a && c.getHF 5 != some a)) &&
  (match c.getHF 1 with
   | none => true
   | some a => a == 0 || !c.isHF 2 a || c.getHF 3 == some a || c.getHF 5 == some a || c.getHF 8 == some a)

/-! ## verifyHeader (consensus.go) -/

inductive VErr where
  | extra | future | largeTime | zeroTime | difficulty | gasCap | gasUsed | gasLimit | number | sealErr
  | unknownAncestor | unknownGrandparent
  | tooManyUncles | duplicateUncle | uncleIsAncestor | danglingUncle
  | panic
  deriving Repr, DecidableEq

def VErr.name : VErr → String
  | .extra => "extra" | .future => "future" | .largeTime => "large-time" | .zeroTime => "zero-time"
  | .difficulty => "difficulty" | .gasCap => "gas-cap" | .gasUsed => "gas-used" | .gasLimit => "gas-limit"
  | .number => "number" | .sealErr => "seal" | .unknownAncestor => "unknown-ancestor" | .unknownGrandparent => "unknown-grandparent"
  | .tooManyUncles => "too-many-uncles" | .duplicateUncle => "duplicate-uncle" | .uncleIsAncestor => "uncle-is-ancestor"
  | .danglingUncle => "dangling-uncle" | .panic => "panic"

/-- everything `verifyHeader` reads besides its header arguments. -/
structure Env where
  P : DiffParams
  V : VParams
  cfg : Config
  now : Nat                    -- time.Now().Unix()
  sealBad : Header → Bool      -- VerifySeal fails (fake engine: number = fakeFail; real engine: property C14)

/-- the gas-limit bound check exactly as written: `diff := int64(parent.GasLimit) - int64(header.GasLimit); if diff < 0 { diff *= -1 };
    limit := parent.GasLimit / GasLimitBoundDivisor; uint64(diff) >= limit || header.GasLimit < MinGasLimit`. -/
def gasLimitBad (V : VParams) (parentGas headerGas : Nat) : Bool :=
  let diff := wrapI64 (wrapI64 parentGas - wrapI64 headerGas)
  let diff := if diff < 0 then wrapI64 (diff * -1) else diff
  let limit := parentGas / V.gasDivisor
  decide (toU64 diff ≥ limit) || decide (headerGas < V.minGasLimit)

/-- `(*Aquahash).verifyHeader`; `none` = accepted.  `grand` is the grandparent after the lookup `(*Aquahash).CalcDifficulty` may add. -/
def verifyHeader (env : Env) (h parent : Header) (grand : Option Header) (uncle doSeal : Bool) : Option VErr :=
  if h.extraLen > env.V.maxExtra then some .extra
  else if uncle && decide (h.time > two256 - 1) then some .largeTime
  else if !uncle && decide (h.time > env.now + env.V.future) then some .future
  else if h.time ≤ parent.time then some .zeroTime
  else
    match calcDifficultyHFX env.P env.cfg (h.time % two64) parent grand with
    | .panic => some .panic
    | .val expected =>
      if expected ≠ h.difficulty then some .difficulty
      else if h.gasLimit > 9223372036854775807 then some .gasCap
      else if h.gasUsed > h.gasLimit then some .gasUsed
      else if gasLimitBad env.V parent.gasLimit h.gasLimit then some .gasLimit
      else if (h.number : Int) - (parent.number : Int) ≠ 1 then some .number
      else if doSeal && env.sealBad h then some .sealErr
      else none

/-! ### Spec: the rule list of the statement -/

/-- the first rule of the statement a candidate violates (`none` = valid), in the order the statement lists the checks of
    the implementation.  Constants are the statement's (32 bytes, 15 s, 2^63-1, 5000, parent/1024). -/
def headerRule (S : DiffParams) (cfg : Config) (now : Nat) (sealBad : Header → Bool) (h parent : Header) (uncle doSeal : Bool) : Option VErr :=
  if 32 < h.extraLen then some .extra
  else if uncle ∧ two256 ≤ h.time then some .largeTime
  else if ¬ uncle ∧ now + 15 < h.time then some .future
  else if ¬ (parent.time < h.time) then some .zeroTime
  else if h.difficulty ≠ difficultySpec S cfg h.time parent then some .difficulty
  else if two63 ≤ h.gasLimit then some .gasCap
  else if h.gasLimit < h.gasUsed then some .gasUsed
  else if ¬ ((if parent.gasLimit ≤ h.gasLimit then h.gasLimit - parent.gasLimit else parent.gasLimit - h.gasLimit) < parent.gasLimit / 1024)
          ∨ h.gasLimit < 5000 then some .gasLimit
  else if h.number ≠ parent.number + 1 then some .number
  else if doSeal ∧ sealBad h = true then some .sealErr
  else none

/-- **Spec**: a candidate header is valid relative to its parent. -/
def HeaderValid (S : DiffParams) (cfg : Config) (now : Nat) (sealBad : Header → Bool) (h parent : Header) (uncle doSeal : Bool) : Prop :=
  h.extraLen ≤ 32 ∧
  (if uncle then h.time < two256 else h.time ≤ now + 15) ∧
  parent.time < h.time ∧
  h.difficulty = difficultySpec S cfg h.time parent ∧
  h.gasLimit < two63 ∧
  h.gasUsed ≤ h.gasLimit ∧
  (if parent.gasLimit ≤ h.gasLimit then h.gasLimit - parent.gasLimit else parent.gasLimit - h.gasLimit) < parent.gasLimit / 1024 ∧
  5000 ≤ h.gasLimit ∧
  h.number = parent.number + 1 ∧
  (doSeal = true → sealBad h = false)

/-! ## entry points -/

/-- the lookup `(*Aquahash).CalcDifficulty` performs when it is handed a nil grandparent. -/
def resolveGrand (chain : Chain) (parent : Header) (grand : Option Header) : Option Header :=
  match grand with
  | some g => some g
  | none => if parent.number ≠ 0 then chain.getHeader parent.parentHash (subU64 parent.number 1) else none

/-- `(*Aquahash).VerifyHeader` (not ModeFullFake). -/
def verifyHeaderEntry (env : Env) (chain : Chain) (h : Header) (doSeal : Bool) : Option VErr :=
  if (chain.getHeader h.hash h.number).isSome then none
  else
    match chain.getHeader h.parentHash (subU64 h.number 1) with
    | none => some .unknownAncestor
    | some parent =>
      let grand := if h.number > 2 then chain.getHeader parent.parentHash (subU64 h.number 2) else none
      if h.number > 2 && grand.isNone then some .unknownGrandparent
      else verifyHeader env h parent (resolveGrand chain parent grand) false doSeal

/-- `(*Aquahash).verifyHeaderWorker` for `index` of the batch `hs` (doSeal flags `seals`).
    A nil parent with `headers[0].Number == 0` reaches `verifyHeader` and dereferences nil: outcome `panic`. -/
def workerResult (env : Env) (chain : Chain) (hs : List Header) (seals : List Bool) (index : Nat) : Option VErr :=
  match hs[index]?, hs[0]? with
  | some h, some h0 =>
    let pg : Option Header × Option Header :=
      if index = 0 then
        let parent := chain.getHeader h0.parentHash (subU64 h0.number 1)
        let grand := match parent with
          | some p => if h0.number > 2 then chain.getHeader p.parentHash (subU64 h0.number 2) else none
          | none => none
        (parent, grand)
      else if index = 1 then
        (some h0, if h0.number > 1 then chain.getHeader h0.parentHash (subU64 h0.number 1) else none)
      else
        match hs[index - 1]?, hs[index - 2]? with
        | some p, some g => if p.hash = h.parentHash then (some p, some g) else (none, none)
        | _, _ => (none, none)
    match pg with
    | (none, _) =>
      if h0.number ≠ 0 then some .unknownAncestor
      else if (chain.getHeader h.hash h.number).isSome then none
      else some .panic
    | (some parent, grand) =>
      if grand.isNone && decide (parent.number > 1) then some .unknownGrandparent
      else if (chain.getHeader h.hash h.number).isSome then none
      else verifyHeader env h parent (resolveGrand chain parent grand) false (seals.getD index false)
  | _, _ => some .panic

/-- state of the result-ordering goroutine of `VerifyHeaders`: `checked`, `out`, and what has been sent on `errorsOut`. -/
structure Coord (α : Type) where
  checked : List Nat          -- indices whose worker has reported `done`
  out : Nat
  emitted : List α            -- in emission order

/-- `for checked[index] = true; checked[out]; out++ { errorsOut <- errors[out]; if out == len(headers)-1 { return } }`
    (fuel = number of headers; the loop runs at most that often). -/
def Coord.drain {α : Type} (errors : Nat → α) (n : Nat) : Nat → Coord α → Coord α
  | 0, c => c
  | fuel + 1, c =>
    if c.out < n ∧ c.checked.contains c.out then
      Coord.drain errors n fuel { c with out := c.out + 1, emitted := c.emitted ++ [errors c.out] }
    else c

/-- `case index := <-done:` -/
def Coord.onDone {α : Type} (errors : Nat → α) (n : Nat) (c : Coord α) (index : Nat) : Coord α :=
  Coord.drain errors n n { c with checked := index :: c.checked }

/-- the results channel after the workers completed in the order `completion`. -/
def coordinator {α : Type} (errors : Nat → α) (n : Nat) (completion : List Nat) : List α :=
  (completion.foldl (Coord.onDone errors n) { checked := [], out := 0, emitted := [] }).emitted

/-- `VerifyHeaders` as a function of the completion order of the workers. -/
def verifyHeadersBatch (env : Env) (chain : Chain) (hs : List Header) (seals : List Bool) (completion : List Nat) : List (Option VErr) :=
  coordinator (workerResult env chain hs seals) hs.length completion

/-- first failure of a result sequence: index and error (what `ValidateHeaderChain` / `insertChain` report). -/
def firstFailure : List (Option VErr) → Option (Nat × VErr)
  | [] => none
  | some e :: _ => some (0, e)
  | none :: rest => (firstFailure rest).map (fun (i, e) => (i + 1, e))

/-- the chain reader after header `x` has been written (one-by-one import inserts each accepted header before the next). -/
def Chain.insert (chain : Chain) (x : Header) : Chain :=
  { chain with getHeader := fun hash number => if hash = x.hash ∧ number = x.number then some x else chain.getHeader hash number }

/-- **Spec** for batches: one-by-one verification, each accepted header inserted before the next is verified; stops at
    the first failure. Returns that failure (index, error) if any. -/
def sequentialFirstFailure (env : Env) (seals : List Bool) : Chain → List Header → Nat → Option (Nat × VErr)
  | _, [], _ => none
  | chain, h :: rest, i =>
    match verifyHeaderEntry env chain h (seals.getD i false) with
    | some e => some (i, e)
    | none => sequentialFirstFailure env seals (chain.insert h) rest (i + 1)

/-- the pre-check of `(*HeaderChain).ValidateHeaderChain` (and of `insertChain` for blocks): "the provided chain is actually
    ordered and linked" — `chain[i].Number.Uint64() == chain[i-1].Number.Uint64()+1 && chain[i].ParentHash == chain[i-1].Hash()`. -/
def linked : List Header → Bool
  | a :: b :: rest => decide (b.number % two64 = (a.number % two64 + 1) % two64) && decide (b.parentHash = a.hash) && linked (b :: rest)
  | _ => true

/-- outcome of a header-batch import. -/
inductive ImportResult where
  | accepted
  | nonContiguous                       -- "non contiguous insert": nothing is verified, nothing is written
  | rejected (index : Nat) (e : VErr)   -- first failing header; nothing is written
  deriving Repr, DecidableEq

/-- `(*HeaderChain).ValidateHeaderChain`: the linkage pre-check, then `engine.VerifyHeaders` and the first failure of the
    result channel (as a function of the completion order of the workers). -/
def validateHeaderChain (env : Env) (chain : Chain) (hs : List Header) (seals : List Bool) (completion : List Nat) : ImportResult :=
  if !linked hs then .nonContiguous
  else match firstFailure (verifyHeadersBatch env chain hs seals completion) with
    | none => .accepted
    | some (i, e) => .rejected i e

/-- the consumer side of `insertChain2`'s loop over the blocks of a batch: per block an optional early `continue` placed BEFORE
    the receive (`skipBefore i`; the code as written has none: every `continue` comes after `err := <-results`), otherwise
    `err := <-results`.  Returns which result each block was judged by: pairs (block index, result received for it). -/
def consumeResults {α : Type} (skipBefore : Nat → Bool) : Nat → Nat → List α → List (Nat × α)
  | _, 0, _ => []
  | i, n + 1, rs =>
    if skipBefore i then consumeResults skipBefore (i + 1) n rs
    else match rs with
      | [] => []
      | r :: rest => (i, r) :: consumeResults skipBefore (i + 1) n rest

/-- one import attempt of a header (the header side of `InsertChain` / `InsertHeaderChain` for a single item): verified against
    the chain as it is now; stored iff accepted.  The chain reader is the ONLY state an attempt reads or writes — in particular
    there is no memory of earlier rejected attempts. -/
def offer (env : Env) (chain : Chain) (h : Header) (doSeal : Bool) : Chain × Option VErr :=
  match verifyHeaderEntry env chain h doSeal with
  | none => (chain.insert h, none)
  | some e => (chain, some e)

/-- a history of import attempts, in order; returns the chain afterwards and the verdicts. -/
def offerAll (env : Env) (doSeal : Bool) : Chain → List Header → Chain × List (Option VErr)
  | chain, [] => (chain, [])
  | chain, h :: rest =>
    let r := offer env chain h doSeal
    let rr := offerAll env doSeal r.1 rest
    (rr.1, r.2 :: rr.2)

/-! ## VerifyUncles -/

/-- mainnet history: duplicate-uncle exemptions `(block hash, uncle number)` for blocks with `number ≤ 15000`. -/
def dupExemptions : List (Nat × Nat) :=
  [(0xbac2283407b519ffbb8c47772d1b7cf740646dddf69744ff44219cb868b00548, 13313),
   (0xa955c8499ce9c4fb00700a8d97db8600dc50c8a81275627a18e30cfb82c19ac2, 13315),
   (0x7da0315b99e059f17b18bfd7f07c57b8e3be3aac261dbf470fb2d6cb0acb9899, 13998)]

/-- dangling-uncle exemptions keyed by `(uncle.ParentHash, uncle.Number)`. -/
def danglingParentExemptions : List (Nat × Nat) :=
  [(0x6b818656fb5059ab4dd070e2c2822a7774065090e74ff31515764212c88e2923, 14003),
   (0x0afd1b00b8e1a49652beeb860e3b58dacc865dd3e3d9d303374ed3ffdfef8eea, 14001)]

/-- dangling-uncle exemptions keyed by `(uncle hash, uncle.Number)`. -/
def danglingHashExemptions : List (Nat × Nat) :=
  [(0xed6dae6d2d4f599d78429e127e8a654fe96c30f4b6c9bacb01cfa45d8a57b45e, 14004),
   (0x13cb01d5d3566d076b5e128e5733f17968f95329fb1777ff38db53abdcca3e4c, 14008),
   (0x822735d89d8493434d3ec1f504c9f103d7bb4761cd358370b00dd234621cf1b9, 14009)]

/-- result of the ancestor walk: `ancestors` (newest binding first: a later map write shadows an earlier one),
    the hashes of the uncles they included, and the final value of the loop variable `number`. -/
structure Family where
  ancestors : List Header
  pastUncles : List Nat
  number : Nat

/-- `for i := 0; i < 7; i++ { ancestor := chain.GetBlock(parent, number); if ancestor == nil { break }; … }` -/
def gatherFamily (chain : Chain) : Nat → Nat → Nat → Family → Family
  | 0, _, number, f => { f with number := number }
  | fuel + 1, parent, number, f =>
    match chain.getBlock parent number with
    | none => { f with number := number }
    | some a =>
      gatherFamily chain fuel a.header.parentHash (subU64 number 1)
        { f with ancestors := a.header :: f.ancestors, pastUncles := (a.uncles.map (·.hash)).reverse ++ f.pastUncles }

def lookupAnc (ancs : List Header) (hash : Nat) : Option Header := ancs.find? (fun a => a.hash == hash)

/-- outcome of one iteration of the uncle loop. -/
inductive UStep where
  | next (seen : List Nat)     -- continue with the updated `uncles` set
  | accept                     -- `return nil` (historic exemption: the rest of the uncles is not looked at)
  | reject (e : VErr)

/-- the part of the loop body after the duplicate test (`seen` already contains the uncle's hash). -/
def uncleTail (env : Env) (chain : Chain) (block : Block) (ancs : List Header) (number : Nat) (seen : List Nat) (u : Header) : UStep :=
  if (lookupAnc ancs u.hash).isSome then .reject .uncleIsAncestor
  else
    match (if u.parentHash = block.header.parentHash then none else lookupAnc ancs u.parentHash) with
    | none =>
      if number > 15000 then .reject .danglingUncle
      else if danglingParentExemptions.contains (u.parentHash, u.number) then .accept
      else if danglingHashExemptions.contains (u.hash, u.number) then .accept
      else .reject .danglingUncle
    | some parent =>
      match verifyHeader env u parent (resolveGrand chain parent (lookupAnc ancs parent.parentHash)) true true with
      | some e => .reject e
      | none => .next seen

/-- the duplicate test: `uncles.Contains(hash)` with the three block-hash keyed exemptions below 15000. -/
def dupOk (block : Block) (number : Nat) (seen : List Nat) (u : Header) : Bool :=
  if seen.contains u.hash then
    if number > 15000 then false else dupExemptions.contains (block.header.hash, u.number)
  else true

/-- body of `for _, uncle := range block.Uncles()`. -/
def uncleStep (env : Env) (chain : Chain) (block : Block) (ancs : List Header) (number : Nat) (seen : List Nat) (u : Header) : UStep :=
  if !dupOk block number seen u then .reject .duplicateUncle
  else uncleTail env chain block ancs number (u.hash :: seen) u

/-- what the loop does with the outcome of one iteration. -/
def loopCont (r : UStep) (k : List Nat → Option VErr) : Option VErr :=
  match r with
  | .reject e => some e
  | .accept => none
  | .next seen' => k seen'

def uncleLoop (env : Env) (chain : Chain) (block : Block) (ancs : List Header) (number : Nat) : List Nat → List Header → Option VErr
  | _, [] => none
  | seen, u :: rest => loopCont (uncleStep env chain block ancs number seen u) (fun seen' => uncleLoop env chain block ancs number seen' rest)

/-- `(*Aquahash).VerifyUncles` (not ModeFullFake; block version set). -/
def verifyUncles (env : Env) (chain : Chain) (block : Block) : Option VErr :=
  if block.uncles.length > env.V.maxUncles then some .tooManyUncles
  else if block.uncles.length > env.V.maxUnclesHF5 && env.cfg.isHF 5 block.header.number then some .tooManyUncles
  else
    let f := gatherFamily chain 7 block.header.parentHash (subU64 block.header.number 1) { ancestors := [], pastUncles := [], number := 0 }
    uncleLoop env chain block (block.header :: f.ancestors) f.number (block.header.hash :: f.pastUncles) block.uncles

/-! ### Spec for uncles -/

/-- the (at most seven) ancestors of a block reachable through the chain reader, nearest first. -/
def ancestorsOf (chain : Chain) : Nat → Nat → Nat → List Block
  | 0, _, _ => []
  | fuel + 1, parent, number =>
    match chain.getBlock parent number with
    | none => []
    | some a => a :: ancestorsOf chain fuel a.header.parentHash (subU64 number 1)

/-- **Spec**: uncle `u` (preceded in the block's uncle list by `earlier`) is acceptable: not rewarded before (neither in
    an ancestor, nor the block itself, nor earlier in this block), not an ancestor, its parent is one of the seven ancestors
    but not the block's own parent, and it is a valid header relative to that parent (uncles are not held against the clock). -/
def UncleOk (S : DiffParams) (cfg : Config) (sealBad : Header → Bool) (chain : Chain) (block : Block) (earlier : List Header) (u : Header) : Prop :=
  let ancs := ancestorsOf chain 7 block.header.parentHash (subU64 block.header.number 1)
  (∀ a ∈ ancs, ∀ v ∈ a.uncles, v.hash ≠ u.hash) ∧
  u.hash ≠ block.header.hash ∧
  (∀ v ∈ earlier, v.hash ≠ u.hash) ∧
  (∀ a ∈ ancs, a.header.hash ≠ u.hash) ∧
  u.parentHash ≠ block.header.parentHash ∧
  (match lookupAnc ((ancs.map (·.header)).reverse) u.parentHash with
   | some p => HeaderValid S cfg 0 sealBad u p true true
   | none => False)

/-- all uncles of a list are acceptable, each relative to the ones before it. -/
def UnclesOkFrom (S : DiffParams) (cfg : Config) (sealBad : Header → Bool) (chain : Chain) (block : Block) : List Header → List Header → Prop
  | _, [] => True
  | earlier, u :: rest => UncleOk S cfg sealBad chain block earlier u ∧ UnclesOkFrom S cfg sealBad chain block (earlier ++ [u]) rest

/-- **Spec**: the uncle list of a block is acceptable: at most 2 uncles (1 from HF5), each acceptable. -/
def UnclesValid (S : DiffParams) (cfg : Config) (sealBad : Header → Bool) (chain : Chain) (block : Block) : Prop :=
  block.uncles.length ≤ (if cfg.isHF 5 block.header.number then 1 else 2) ∧
  UnclesOkFrom S cfg sealBad chain block [] block.uncles

/-- the declarative uncle rules WITH the grandfather clauses of mainnet history: while `low` (the loop variable `number` is
    not above 15000) an uncle that was rewarded before is tolerated if (block hash, uncle number) is a listed pair, and a
    dangling uncle ends the check with acceptance if (uncle parent hash, number) or (uncle hash, number) is a listed pair. -/
def UnclesOkFromEx (S : DiffParams) (cfg : Config) (sealBad : Header → Bool) (chain : Chain) (block : Block) (low : Bool) :
    List Header → List Header → Prop
  | _, [] => True
  | earlier, u :: rest =>
    (((∀ a ∈ ancestorsOf chain 7 block.header.parentHash (subU64 block.header.number 1), ∀ v ∈ a.uncles, v.hash ≠ u.hash) ∧
        u.hash ≠ block.header.hash ∧ (∀ v ∈ earlier, v.hash ≠ u.hash)) ∨
      (low = true ∧ (block.header.hash, u.number) ∈ dupExemptions)) ∧
    u.hash ≠ block.header.hash ∧
    (∀ a ∈ ancestorsOf chain 7 block.header.parentHash (subU64 block.header.number 1), a.header.hash ≠ u.hash) ∧
    (match (if u.parentHash = block.header.parentHash then none
            else lookupAnc (((ancestorsOf chain 7 block.header.parentHash (subU64 block.header.number 1)).map (·.header)).reverse) u.parentHash) with
     | some p => HeaderValid S cfg 0 sealBad u p true true ∧ UnclesOkFromEx S cfg sealBad chain block low (earlier ++ [u]) rest
     | none => low = true ∧ ((u.parentHash, u.number) ∈ danglingParentExemptions ∨ (u.hash, u.number) ∈ danglingHashExemptions))

/-- **Spec**: the uncle limit of a block: 2, and 1 from HF5 — decided by the block's OWN number. -/
def uncleLimit (cfg : Config) (blockNumber : Nat) : Nat := if cfg.isHF 5 blockNumber then 1 else 2

/-- **Spec with exemptions**: at most 2 uncles (1 from HF5), each acceptable or grandfathered. -/
def UnclesValidEx (S : DiffParams) (cfg : Config) (sealBad : Header → Bool) (chain : Chain) (block : Block) : Prop :=
  block.uncles.length ≤ (if cfg.isHF 5 block.header.number then 1 else 2) ∧
  UnclesOkFromEx S cfg sealBad chain block
    (decide ((gatherFamily chain 7 block.header.parentHash (subU64 block.header.number 1) { ancestors := [], pastUncles := [], number := 0 }).number ≤ 15000))
    [] block.uncles

instance (S : DiffParams) (cfg : Config) (now : Nat) (sealBad : Header → Bool) (h parent : Header) (uncle doSeal : Bool) :
    Decidable (HeaderValid S cfg now sealBad h parent uncle doSeal) := by
  unfold HeaderValid; exact inferInstance

instance (S : DiffParams) (cfg : Config) (sealBad : Header → Bool) (chain : Chain) (block : Block) (earlier : List Header) (u : Header) :
    Decidable (UncleOk S cfg sealBad chain block earlier u) := by
  unfold UncleOk
  simp only
  split <;> exact inferInstance

def unclesOkFromDec (S : DiffParams) (cfg : Config) (sealBad : Header → Bool) (chain : Chain) (block : Block) :
    (earlier us : List Header) → Decidable (UnclesOkFrom S cfg sealBad chain block earlier us)
  | _, [] => isTrue trivial
  | earlier, u :: rest =>
    have := unclesOkFromDec S cfg sealBad chain block (earlier ++ [u]) rest
    by unfold UnclesOkFrom; exact inferInstance

instance (S : DiffParams) (cfg : Config) (sealBad : Header → Bool) (chain : Chain) (block : Block) (earlier us : List Header) :
    Decidable (UnclesOkFrom S cfg sealBad chain block earlier us) := unclesOkFromDec S cfg sealBad chain block earlier us

instance (S : DiffParams) (cfg : Config) (sealBad : Header → Bool) (chain : Chain) (block : Block) :
    Decidable (UnclesValid S cfg sealBad chain block) := by
  unfold UnclesValid; exact inferInstance

end Aqv.Consensus

/-
  Aqv.Model.EvmSelect — Impl model of the instruction-set / gas-table selection (core-only):
    core/vm/interpreter.go NewInterpreter (epoch switch), params/config.go isForked / Is*, params/hf.go IsHF,
    params/config.go (*ChainConfig).GasTable.
  Works on `Aqv.Gen.VmTable.ChainCfg` (fork heights as dumped from the compiled params package).
  Spec side: `specLevel` / `specExpByte` — what the fork schedule prescribes, stated independently.
-/
import Aqv.Gen.VmTable
import Aqv.Model.EvmSpec
namespace Aqv.Evm
open Aqv.Gen.VmTable

/-- isForked(s, head): `s != nil && s <= head` (head is never nil here). -/
def isForked (s : Option Nat) (head : Nat) : Bool :=
  match s with
  | none => false
  | some h => h ≤ head

/-- c.HF[hf] (nil if absent) -/
def hfHeight (c : ChainCfg) (hf : Nat) : Option Nat := (c.hf.find? (fun p => p.1 == hf)).map (·.2)

/-- (*ChainConfig).IsHF -/
def isHF (c : ChainCfg) (hf : Nat) (num : Nat) : Bool := isForked (hfHeight c hf) num

/-- NewInterpreter: the `switch` over HF5 / Constantinople / Byzantium / Homestead, in that order. -/
def selectEpoch (c : ChainCfg) (num : Nat) : Epoch :=
  if isHF c 5 num then .spring
  else if isForked c.constantinople num then .constantinople
  else if isForked c.byzantium num then .byzantium
  else if isForked c.homestead num then .homestead
  else .frontier

/-- (*ChainConfig).GasTable -/
def selectGasTable (c : ChainCfg) (num : Nat) : GasTableName :=
  if isHF c 1 num then .hf1 else .homestead

def gasTableOf : GasTableName → GasTable
  | .hf1 => gasTableHF1
  | _ => gasTableHomestead

-- Spec ----------------------------------------------------------------------------------------------------------------

/-- Fork level prescribed by the schedule: forks are cumulative, the highest active one decides. aquachain's HF5
    activates the Byzantium opcodes and the EIP-145 shifts at once (level 3). -/
def specLevel (c : ChainCfg) (num : Nat) : Nat :=
  let hs := if isForked c.homestead num then 1 else 0
  let bz := if isForked c.byzantium num then 2 else 0
  let cs := if isForked c.constantinople num then 3 else 0
  let h5 := if isHF c 5 num then 3 else 0
  max (max hs bz) (max cs h5)

/-- EXP per-byte price: 10 (EIP-150 era) until aquachain HF1, 50 (EIP-160) from HF1 on. -/
def specExpByte (c : ChainCfg) (num : Nat) : Nat := if isHF c 1 num then 50 else 10

def epochLevel : Epoch → Nat
  | .frontier => 0
  | .homestead => 1
  | .byzantium => 2
  | .constantinople => 3
  | .spring => 3

/-- projection of a generated table entry onto the columns the hand-written spec table has -/
def projRow (i : OpInfo) : Aqv.EvmSpec.Row :=
  { op := i.op, pops := i.pops, pushes := i.pushes, gas := i.constGas, halts := i.halts, jumps := i.jumps, reverts := i.reverts }

end Aqv.Evm

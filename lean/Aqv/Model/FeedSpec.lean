/-
  Aqv.Model.FeedSpec — the C19 property as an executable acceptor of OBSERVED histories of the real `event.Feed`
  (what the Go harness can log from outside), core Lean only.

  Observable events, in the order of the harness' global log (an event logged before another event's logging began
  precedes it):
    sb c / se c     Subscribe of subscription c began / returned
    cb g / ce g n   Send of value g began / returned n
    ub c / ue c     Unsubscribe of c began / returned (several callers may log these; the first of each counts)
    em c            the (single) receiver of c reserved this log position and THEN saw `len(ch) == 0`
    rv c g          the receiver of c took value g out of the channel (logged after the receive)
    hang            the watchdog fired: some Send/Unsubscribe/Close did not return

  Relation to the model theorems (Aqv.Props.C19): `Subscribe` has one atomic point between sb and se (the model's
  `subRet`), so "se c before cb g" implies `Before tr (subRet c) (sendCall g)`; "no ub c before ce g" implies
  `¬ Before tr (unsubCall c) (sendRet g n)`.  The harness drains every channel before it stops, so by `channel_fifo`
  the values received on c are exactly the values placed into c, in order; hence `exactly_once`/`at_most_once`
  become the clauses `lost`/`duplicate`, `nsent_correct` becomes `nsent`, `common_order` + `channel_fifo` become `order`,
  and `no_delivery_after_unsubscribe` becomes `late` (a value received after the channel was seen empty later than
  `ue c`, or a value of a Send that began after `ue c`, was necessarily placed after Unsubscribe returned).
-/
namespace Aqv.FeedSpec

inductive GEv
  | sb (c : Nat) | se (c : Nat) | cb (g : Nat) | ce (g : Nat) (n : Nat) | ub (c : Nat) | ue (c : Nat)
  | em (c : Nat) | rv (c : Nat) (g : Nat) | hang
  deriving DecidableEq, Repr, Inhabited

/-- position of the first event satisfying p -/
def firstIdx (tr : Array GEv) (p : GEv → Bool) : Option Nat := tr.findIdx? p

def isRv (c g : Nat) : GEv → Bool
  | .rv c' g' => c' == c && g' == g
  | _ => false

def countRv (tr : Array GEv) (c g : Nat) : Nat := tr.foldl (fun n e => if isRv c g e then n + 1 else n) 0

/-- values received on c, in order -/
def recvd (tr : Array GEv) (c : Nat) : List Nat :=
  tr.foldr (fun e acc => match e with | .rv c' g => if c' == c then g :: acc else acc | _ => acc) []

def dedup (l : List Nat) : List Nat := l.foldl (fun acc x => if acc.contains x then acc else acc ++ [x]) []

def subsOf (tr : Array GEv) : List Nat :=
  dedup (tr.foldr (fun e acc => match e with
    | .sb c => c :: acc | .se c => c :: acc | .ub c => c :: acc | .ue c => c :: acc | .em c => c :: acc | .rv c _ => c :: acc
    | _ => acc) [])

def sendsOf (tr : Array GEv) : List Nat :=
  dedup (tr.foldr (fun e acc => match e with | .cb g => g :: acc | .ce g _ => g :: acc | .rv _ g => g :: acc | _ => acc) [])

/-- completed sends: (g, position of cb, position of ce, returned n) -/
def completed (tr : Array GEv) : List (Nat × Nat × Nat × Nat) :=
  (sendsOf tr).filterMap (fun g =>
    match firstIdx tr (fun e => e == .cb g), firstIdx tr (fun e => match e with | .ce g' _ => g' == g | _ => false) with
    | some b, some e =>
      match tr[e]? with
      | some (.ce _ n) => some (g, b, e, n)
      | _ => none
    | _, _ => none)

def checkDeadlock (tr : Array GEv) : Bool := !(tr.contains .hang)

def checkDup (tr : Array GEv) : Bool :=
  (subsOf tr).all (fun c => let r := recvd tr c; (dedup r).length == r.length)

/-- every completed Send reached every subscription that was established before it began and whose Unsubscribe had
    not begun when it returned -/
def checkLost (tr : Array GEv) : Bool :=
  (completed tr).all (fun (g, b, e, _) =>
    (subsOf tr).all (fun c =>
      match firstIdx tr (fun x => x == .se c) with
      | none => true
      | some p =>
        if p < b then
          match firstIdx tr (fun x => x == .ub c) with
          | some u => if u < e then true else countRv tr c g == 1
          | none => countRv tr c g == 1
        else true))

def checkNsent (tr : Array GEv) : Bool :=
  (completed tr).all (fun (g, _, _, n) =>
    ((subsOf tr).foldl (fun acc c => acc + countRv tr c g) 0) == n)

/-- any two subscribers saw the values they both received in the same order -/
def checkOrder (tr : Array GEv) : Bool :=
  let subs := subsOf tr
  let rs := subs.map (fun c => recvd tr c)
  rs.all (fun r1 => rs.all (fun r2 =>
    (r1.filter (fun g => r2.contains g)) == (r2.filter (fun g => r1.contains g))))

/-- nothing was put into a channel after its Unsubscribe had returned -/
def checkLate (tr : Array GEv) : Bool :=
  (subsOf tr).all (fun c =>
    match firstIdx tr (fun x => x == .ue c) with
    | none => true
    | some u =>
      -- (a) a value of a Send that began after ue c
      let a := (recvd tr c).all (fun g =>
        match firstIdx tr (fun x => x == .cb g) with
        | some b => !(u < b)
        | none => true)
      -- (b) the channel was seen empty after ue c and a value was received after that
      let b :=
        match (List.range tr.size).find? (fun p => u < p && tr[p]! == .em c) with
        | none => true
        | some p => !((List.range tr.size).any (fun r => p < r && (match tr[r]! with | .rv c' _ => c' == c | _ => false)))
      a && b)

/-- `none` = the history satisfies the property; `some reason` = first violated clause (fixed order) -/
def judge (tr : Array GEv) : Option String :=
  if !checkDeadlock tr then some "deadlock"
  else if !checkDup tr then some "duplicate"
  else if !checkLost tr then some "lost"
  else if !checkNsent tr then some "nsent"
  else if !checkOrder tr then some "order"
  else if !checkLate tr then some "late"
  else none

/-- internal state at quiescence (no call in progress): `f.sendCases[1:] ++ f.inbox` lists every live subscription
    (subscribed, Unsubscribe not called) exactly once (model: `Aqv.Props.C19.quiescent_membership`). -/
def judgeState (live sc ib : List Nat) : Bool :=
  let all := sc ++ ib
  (dedup all).length == all.length && all.all (fun c => live.contains c) && live.all (fun c => all.contains c)

end Aqv.FeedSpec

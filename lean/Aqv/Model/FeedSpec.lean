/-
  Aqv.Model.FeedSpec — the C19 property as an executable acceptor of OBSERVED histories of the real `event.Feed`
  (what the Go harness can log from outside), core Lean only.

  Observable events, in the order of the harness' global log (an event logged before another event's logging began
  precedes it):
    sb c / se c     Subscribe of subscription c began / returned
    cb g / ce g n   Send of value g began / returned n
    ub c / ue c     Unsubscribe of c began / returned (several callers may log these; the first of each counts)
    em c            the (single) receiver of c reserved this log position and THEN saw `len(ch) == 0`
    rv c g          the receiver of c took value g out of the channel (logged after the receive)
    hang            the watchdog fired: some Send/Unsubscribe/Close did not return

  Relation to the model theorems (Aqv.Props.C19): `Subscribe` has one atomic point between sb and se (the model's
  `subRet`), so "se c before cb g" implies `Before tr (subRet c) (sendCall g)`; "no ub c before ce g" implies
  `¬ Before tr (unsubCall c) (sendRet g n)`.  The harness drains every channel before it stops, so by `channel_fifo`
  the values received on c are exactly the values placed into c, in order; hence `exactly_once`/`at_most_once`
  become the clauses `lost`/`duplicate`, `nsent_correct` becomes `nsent`, `common_order` + `channel_fifo` become `order`,
  and `no_delivery_after_unsubscribe` becomes `late` (a value received after the channel was seen empty later than
  `ue c`, or a value of a Send that began after `ue c`, was necessarily placed after Unsubscribe returned).
-/
namespace Aqv.FeedSpec

inductive GEv
  | sb (c : Nat) | se (c : Nat) | cb (g : Nat) | ce (g : Nat) (n : Nat) | ub (c : Nat) | ue (c : Nat)
  | em (c : Nat) | rv (c : Nat) (g : Nat) | hang
  deriving DecidableEq, Repr, Inhabited

/-- position of the first event satisfying p -/
def firstIdx (tr : Array GEv) (p : GEv → Bool) : Option Nat := tr.findIdx? p

def isRv (c g : Nat) : GEv → Bool
  | .rv c' g' => c' == c && g' == g
  | _ => false

def countRv (tr : Array GEv) (c g : Nat) : Nat := tr.foldl (fun n e => if isRv c g e then n + 1 else n) 0

/-- values received on c, in order -/
def recvd (tr : Array GEv) (c : Nat) : List Nat :=
  tr.foldr (fun e acc => match e with | .rv c' g => if c' == c then g :: acc else acc | _ => acc) []

def dedup (l : List Nat) : List Nat := l.foldl (fun acc x => if acc.contains x then acc else acc ++ [x]) []

def subsOf (tr : Array GEv) : List Nat :=
  dedup (tr.foldr (fun e acc => match e with
    | .sb c => c :: acc | .se c => c :: acc | .ub c => c :: acc | .ue c => c :: acc | .em c => c :: acc | .rv c _ => c :: acc
    | _ => acc) [])

def sendsOf (tr : Array GEv) : List Nat :=
  dedup (tr.foldr (fun e acc => match e with | .cb g => g :: acc | .ce g _ => g :: acc | .rv _ g => g :: acc | _ => acc) [])

/-- completed sends: (g, position of cb, position of ce, returned n) -/
def completed (tr : Array GEv) : List (Nat × Nat × Nat × Nat) :=
  (sendsOf tr).filterMap (fun g =>
    match firstIdx tr (fun e => e == .cb g), firstIdx tr (fun e => match e with | .ce g' _ => g' == g | _ => false) with
    | some b, some e =>
      match tr[e]? with
      | some (.ce _ n) => some (g, b, e, n)
      | _ => none
    | _, _ => none)

def checkDeadlock (tr : Array GEv) : Bool := !(tr.contains .hang)

def checkDup (tr : Array GEv) : Bool :=
  (subsOf tr).all (fun c => let r := recvd tr c; (dedup r).length == r.length)

/-- every completed Send reached every subscription that was established before it began and whose Unsubscribe had
    not begun when it returned -/
def checkLost (tr : Array GEv) : Bool :=
  (completed tr).all (fun (g, b, e, _) =>
    (subsOf tr).all (fun c =>
      match firstIdx tr (fun x => x == .se c) with
      | none => true
      | some p =>
        if p < b then
          match firstIdx tr (fun x => x == .ub c) with
          | some u => if u < e then true else countRv tr c g == 1
          | none => countRv tr c g == 1
        else true))

def checkNsent (tr : Array GEv) : Bool :=
  (completed tr).all (fun (g, _, _, n) =>
    ((subsOf tr).foldl (fun acc c => acc + countRv tr c g) 0) == n)

/-- any two subscribers saw the values they both received in the same order -/
def checkOrder (tr : Array GEv) : Bool :=
  let subs := subsOf tr
  let rs := subs.map (fun c => recvd tr c)
  rs.all (fun r1 => rs.all (fun r2 =>
    (r1.filter (fun g => r2.contains g)) == (r2.filter (fun g => r1.contains g))))

/-- nothing was put into a channel after its Unsubscribe had returned -/
def checkLate (tr : Array GEv) : Bool :=
  (subsOf tr).all (fun c =>
    match firstIdx tr (fun x => x == .ue c) with
    | none => true
    | some u =>
      -- (a) a value of a Send that began after ue c
      let a := (recvd tr c).all (fun g =>
        match firstIdx tr (fun x => x == .cb g) with
        | some b => !(u < b)
        | none => true)
      -- (b) the channel was seen empty after ue c and a value was received after that
      let b :=
        match (List.range tr.size).find? (fun p => u < p && tr[p]! == .em c) with
        | none => true
        | some p => !((List.range tr.size).any (fun r => p < r && (match tr[r]! with | .rv c' _ => c' == c | _ => false)))
      a && b)

/-- `none` = the history satisfies the property; `some reason` = first violated clause (fixed order) -/
def judge (tr : Array GEv) : Option String :=
  if !checkDeadlock tr then some "deadlock"
  else if !checkDup tr then some "duplicate"
  else if !checkLost tr then some "lost"
  else if !checkNsent tr then some "nsent"
  else if !checkOrder tr then some "order"
  else if !checkLate tr then some "late"
  else none

/-- internal state at quiescence (no call in progress): `f.sendCases[1:] ++ f.inbox` lists every live subscription
    (subscribed, Unsubscribe not called) exactly once (model: `Aqv.Props.C19.quiescent_membership`). -/
def judgeState (live sc ib : List Nat) : Bool :=
  let all := sc ++ ib
  (dedup all).length == all.length && all.all (fun c => live.contains c) && live.all (fun c => all.contains c)


/-! ### TypeMux: acceptor of observed histories of the real `event.TypeMux`

  Sb c / Se c m     Subscribe of receiver c began / returned; m = bit mask of the event types it subscribed to
  Pb p t / Pe p ok  Post of event p (type bit t) began / returned (ok = 1: nil, 0: ErrMuxClosed)
  Ub c / Ue c       Unsubscribe of c began / returned
  Tb / Te           Stop began / returned
  Rv c p            receiver c received event p; the log position was reserved BEFORE the receive operation began (the
                    channel is unbuffered, so the hand-off happened after that position)
  hang              watchdog

  Clauses (model theorems `mux_at_most_once`, `mux_exactly_once`, `mux_no_delivery_after_unsubscribe_returned`,
  `mux_post_after_stop_fails`): duplicate; lost (Post returned nil, Se c before Pb p with the type bit set, no Ub c and no
  Tb before Pe p ⇒ exactly one Rv c p); late (an Rv c _ whose receive began after Ue c, or of a Post that began after Ue c,
  or — for a receiver that is never unsubscribed — whose receive began after Te); api (a Post that began after Te
  returned nil). -/

inductive MEv
  | sb (c : Nat) | se (c m : Nat) | pb (p t : Nat) | pe (p ok : Nat) | ub (c : Nat) | ue (c : Nat) | tb | te
  | rv (c p : Nat) | hang
  deriving DecidableEq, Repr, Inhabited

def mFirst (tr : Array MEv) (f : MEv → Bool) : Option Nat := tr.findIdx? f

def mRecvd (tr : Array MEv) (c : Nat) : List Nat :=
  tr.foldr (fun e acc => match e with | .rv c' p => if c' == c then p :: acc else acc | _ => acc) []

def mSubs (tr : Array MEv) : List Nat :=
  dedup (tr.foldr (fun e acc => match e with
    | .sb c => c :: acc | .se c _ => c :: acc | .ub c => c :: acc | .ue c => c :: acc | .rv c _ => c :: acc | _ => acc) [])

def mCountRv (tr : Array MEv) (c p : Nat) : Nat :=
  tr.foldl (fun n e => match e with | .rv c' p' => if c' == c && p' == p then n + 1 else n | _ => n) 0

/-- posts that returned nil: (p, type bit, position of Pb, position of Pe) -/
def mPostsOk (tr : Array MEv) : List (Nat × Nat × Nat × Nat) :=
  (List.range tr.size).filterMap (fun i =>
    match tr[i]! with
    | .pb p t =>
      match mFirst tr (fun e => match e with | .pe p' _ => p' == p | _ => false) with
      | some e => match tr[e]! with
        | .pe _ 1 => some (p, t, i, e)
        | _ => none
      | none => none
    | _ => none)

def mCheckDup (tr : Array MEv) : Bool :=
  (mSubs tr).all (fun c => let r := mRecvd tr c; (dedup r).length == r.length)

def mCheckLost (tr : Array MEv) : Bool :=
  let tb := mFirst tr (fun e => e == .tb)
  (mPostsOk tr).all (fun (p, t, b, e) =>
    (match tb with | some x => decide (x < e) | none => false) ||
    (mSubs tr).all (fun c =>
      match mFirst tr (fun x => match x with | .se c' _ => c' == c | _ => false) with
      | none => true
      | some q =>
        match tr[q]! with
        | .se _ m =>
          if q < b && (m / t) % 2 == 1 then
            match mFirst tr (fun x => x == .ub c) with
            | some u => if u < e then true else mCountRv tr c p == 1
            | none => mCountRv tr c p == 1
          else true
        | _ => true))

def mCheckLate (tr : Array MEv) : Bool :=
  let te := mFirst tr (fun e => e == .te)
  (mSubs tr).all (fun c =>
    let ue := mFirst tr (fun x => x == .ue c)
    let hasUb := (mFirst tr (fun x => x == .ub c)).isSome
    (List.range tr.size).all (fun i =>
      match tr[i]! with
      | .rv c' p =>
        if c' == c then
          let a := match ue with | some u => !(u < i) | none => true
          let b := match ue, mFirst tr (fun x => match x with | .pb p' _ => p' == p | _ => false) with
                   | some u, some pb => !(u < pb) | _, _ => true
          let d := match te with | some t => hasUb || !(t < i) | none => true
          a && b && d
        else true
      | _ => true))

def mCheckApi (tr : Array MEv) : Bool :=
  match mFirst tr (fun e => e == .te) with
  | none => true
  | some t => (mPostsOk tr).all (fun (_, _, b, _) => !(t < b))

def judgeMux (tr : Array MEv) : Option String :=
  if tr.contains .hang then some "deadlock"
  else if !mCheckDup tr then some "duplicate"
  else if !mCheckLost tr then some "lost"
  else if !mCheckLate tr then some "late"
  else if !mCheckApi tr then some "api"
  else none

end Aqv.FeedSpec

/-
  Aqv.Model.Vm — metered-machine model of core/vm (property C07). Core-only (linked into aqmodel_c07).

  What is modelled exactly as written in Go (file/function cited at each definition):
    * interpreter.go  Run            : the loop order  GetOp → table lookup/valid → validateStack → enforceRestrictions →
                                       memorySize (bigUint64 / toWordSize / SafeMul overflow checks) → gasCost → UseGas →
                                       Resize → execute → returns/reverts/halts/jumps dispatch; depth++ on entry; empty code
    * gas_table.go                   : every gas function that occurs in an instruction set (generated enumeration
                                       `Gen.VmFlags.GasFn`), memoryGasCost incl. `lastGasCost`, with uint64 wrap-around of the
                                       unchecked Go arithmetic made explicit (`% two64`) and SafeAdd/SafeMul as checks
    * gas.go          callGas        : 63/64 rule incl. the unchecked `availableGas - base`
    * memory_table.go / common.go    : every memorySize function, calcMemSize, toWordSize
    * stack_table.go  makeStackFunc  : pops/pushes from the generated table (recovered by probing validateStack)
    * evm.go          Call, CallCode, DelegateCall, StaticCall, Create, run (precompile dispatch)
    * instructions.go opCall, opCallCode, opDelegateCall, opStaticCall, opCreate (gas plumbing, stipend, `Gas += returnGas`)
    * core/state      Snapshot / RevertToSnapshot as a revision stack (ids, "revision id cannot be reverted" panic explicit);
                      exactness of the journal itself is property C09 and is assumed here (a snapshot stores the world value)

  What is abstracted (the machine is GENERIC in instruction semantics): stack CONTENTS, memory CONTENTS, code, pc and the
  world state are not interpreted. Everything data dependent is supplied by an oracle `o : Nat → StepIn W` indexed by a
  global step counter: the opcode fetched, the operand values on top of the stack, the answers of the StateDB queries the
  gas functions make, whether `execute` returned an error, and the effect (an arbitrary function `W → W`) of each state
  mutation. The theorems quantify over ALL oracles, hence over all programs, inputs and states.
-/
import Aqv.Gen.VmFlags
namespace Aqv.Vm
open Aqv.Gen.VmFlags

def two64 : Nat := 18446744073709551616

/-- error classes of core/vm (errors.go, interpreter.go, instructions.go, evm.go) -/
inductive Err where
  | invalidOpcode | stackUnderflow | stackLimit | writeProtection | gasUintOverflow | outOfGas | execError
  | depth | insufficientBalance | collision | codeStoreOutOfGas | maxCodeSize
deriving DecidableEq, Repr

/-- result class of `Run` / of a call wrapper. `outOfFuel` is a model artefact (proved unreachable, `run_terminates`);
    `panic` = an explicit partial Go operation left its domain (proved unreachable, `no_modelled_panic_partial`). -/
inductive Outcome where
  | ok | revert | fail (e : Err) | outOfFuel | panic
deriving DecidableEq, Repr

def Outcome.isErr : Outcome → Bool
  | .revert => true
  | .fail _ => true
  | _ => false

def Outcome.abnormal : Outcome → Bool
  | .outOfFuel => true
  | .panic => true
  | _ => false

/-- chain rules + tables selected by NewEVM/NewInterpreter (values come from `Gen.VmFlags.configs`). -/
structure Env where
  ep : Epoch
  gt : GasTable
  homestead : Bool
  eip150 : Bool
  eip158 : Bool
  byzantium : Bool
deriving Repr

/-! ### StateDB revision stack (core/state/statedb.go Snapshot / RevertToSnapshot) -/

/-- `revs` is validRevisions newest first; each entry stores the id and the world at the time of the snapshot. -/
structure Db (W : Type) where
  cur : W
  revs : List (Nat × W)
  next : Nat

/-- Snapshot(): id := nextRevisionId; nextRevisionId++; validRevisions = append(validRevisions, {id, len(journal)}) -/
def Db.snapshot {W} (d : Db W) : Nat × Db W := (d.next, { d with revs := (d.next, d.cur) :: d.revs, next := d.next + 1 })

/-- sort.Search for the first revision with id ≥ revid, which must be revid itself (else the Go code panics);
    the journal is undone to that point and validRevisions truncated to exclude it. On the newest-first list: skip larger
    ids, stop at the equal one. -/
def dropTo {W} (id : Nat) : List (Nat × W) → Option (W × List (Nat × W))
  | [] => none
  | (i, w) :: rest => if i = id then some (w, rest) else if id < i then dropTo id rest else none

/-- RevertToSnapshot(id); `none` = panic("revision id cannot be reverted") -/
def Db.revert {W} (d : Db W) (id : Nat) : Option (Db W) :=
  match dropTo id d.revs with
  | none => none
  | some (w, rest) => some { d with cur := w, revs := rest }

def Db.app {W} (d : Db W) (f : W → W) : Db W := { d with cur := f d.cur }

/-! ### the oracle -/

/-- Everything data dependent about one interpreter step (and, for CALL*/CREATE steps, about the callee). -/
structure StepIn (W : Type) where
  op : Nat                      -- contract.GetOp(pc)
  args : List Nat               -- stack.Back(0), Back(1), … (values; entries beyond the list read as 0)
  /- answers of the StateDB queries made by gas functions -/
  sstoreKind : Nat := 2         -- gasSStore: 0 = zero→nonzero, 1 = nonzero→zero, otherwise reset
  exist : Bool := true          -- StateDB.Exist(address operand)
  empty : Bool := false         -- StateDB.Empty(address operand)
  selfBalanceNZ : Bool := false -- gasSuicide: GetBalance(contract.Address()).Sign() != 0
  gasEff : W → W := id          -- gasSStore / gasSuicide: AddRefund
  /- execute -/
  execErr : Bool := false       -- execute returned an error (invalid jump destination, return data out of bounds)
  eff : W → W := id             -- effect of opSstore / makeLog / opSuicide on the world
  /- callee / creation environment (evm.go) -/
  canTransfer : Bool := true
  precompile : Option Nat := none  -- some (RequiredGas input) iff the code address is a precompile under the active rules
  precompileErr : Bool := false    -- p.Run returned an error
  codeEmpty : Bool := false        -- len(contract.Code) == 0
  retLenPre : Nat := 0             -- length of a precompile's output
  neutralEff : W → W := id      -- Call with value 0: CreateAccount(non-existent addr) and Transfer(0) (touch only)
  xferEff : W → W := id         -- Call with value ≠ 0 / Create: CreateAccount + Transfer (+ SetNonce(contractAddr,1))
  nonceEff : W → W := id        -- Create: SetNonce(caller, nonce+1)
  collision : Bool := false     -- Create: address already has nonce or code
  setCodeEff : W → W := id      -- Create: SetCode(contractAddr, ret)

def back (a : List Nat) (k : Nat) : Nat := a.getD k 0

/-! ### memory size (memory_table.go, common.go, interpreter.go) -/

def calcMemSize (off len : Nat) : Nat := if len = 0 then 0 else off + len

/-- value of an operand expression (generated type `Opnd`: stack.Back(k) + c, or a constant) on the operand list -/
def _root_.Aqv.Gen.VmFlags.Opnd.eval (a : List Nat) : Opnd → Nat
  | .back k c => back a k + c
  | .const c => c

/-- memory_table.go as data: every function returns the maximum of calcMemSize(offset, size) over these (offset, size) pairs -/
def memFnRanges : MemFn → List (Opnd × Opnd)
  | .none => []
  | .memorySha3 => [(.back 0 0, .back 1 0)]
  | .memoryCallDataCopy => [(.back 0 0, .back 2 0)]
  | .memoryReturnDataCopy => [(.back 0 0, .back 2 0)]
  | .memoryCodeCopy => [(.back 0 0, .back 2 0)]
  | .memoryExtCodeCopy => [(.back 1 0, .back 3 0)]
  | .memoryMLoad => [(.back 0 0, .const 32)]
  | .memoryMStore8 => [(.back 0 0, .const 1)]
  | .memoryMStore => [(.back 0 0, .const 32)]
  | .memoryCreate => [(.back 1 0, .back 2 0)]
  | .memoryCall => [(.back 5 0, .back 6 0), (.back 3 0, .back 4 0)]
  | .memoryDelegateCall => [(.back 4 0, .back 5 0), (.back 2 0, .back 3 0)]
  | .memoryStaticCall => [(.back 4 0, .back 5 0), (.back 2 0, .back 3 0)]
  | .memoryReturn => [(.back 0 0, .back 1 0)]
  | .memoryRevert => [(.back 0 0, .back 1 0)]
  | .memoryLog => [(.back 0 0, .back 1 0)]

/-- operation.memorySize(stack) as a big.Int; `none` = nil function -/
def memReq (f : MemFn) (a : List Nat) : Option Nat :=
  if f = .none then none
  else some ((memFnRanges f).foldl (fun m r => max m (calcMemSize (r.1.eval a) (r.2.eval a))) 0)

/-- common.go toWordSize -/
def toWordSize (size : Nat) : Nat :=
  if size > two64 - 1 - 31 then (two64 - 1) / 32 + 1 else (size + 31) / 32

/-- interpreter.go Run: bigUint64 overflow → errGasUintOverflow; SafeMul(toWordSize(memSize), 32) overflow → same -/
def memorySizeOf (req : Option Nat) : Except Err Nat :=
  match req with
  | none => .ok 0
  | some m =>
    if m ≥ two64 then .error .gasUintOverflow
    else if toWordSize m * 32 ≥ two64 then .error .gasUintOverflow
    else .ok (toWordSize m * 32)

/-- memory.go Memory: only len(store) and lastGasCost matter here -/
structure Mem where
  len : Nat
  lastGasCost : Nat
deriving DecidableEq, Repr

/-- total fee of `w` words: w·MemoryGas + w²/QuadCoeffDiv -/
def memFee (w : Nat) : Nat := w * memoryGas + w * w / quadCoeffDiv

/-- gas_table.go memoryGasCost (mutates mem.lastGasCost); `none` = errGasUintOverflow.
    `newTotalFee - mem.lastGasCost` is an unchecked uint64 subtraction. -/
def memoryGasCost (m : Mem) (newMemSize : Nat) : Option (Nat × Mem) :=
  if newMemSize = 0 then some (0, m)
  else if newMemSize > 0xffffffffe0 then none
  else
    let w := toWordSize newMemSize
    if w * 32 > m.len then
      let newTotalFee := memFee w
      some ((newTotalFee + two64 - m.lastGasCost) % two64, { m with lastGasCost := newTotalFee })
    else some (0, m)

/-! ### gas (gas.go, gas_table.go) -/

def safeAdd (a b : Nat) : Option Nat := if a + b ≥ two64 then none else some (a + b)
def safeMul (a b : Nat) : Option Nat := if a * b ≥ two64 then none else some (a * b)

/-- gas.go callGas: `availableGas - base` is unchecked; callCost is a big.Int -/
def callGas (gt : GasTable) (availableGas base callCost : Nat) : Option Nat :=
  if gt.createBySuicide > 0 then
    let av := (availableGas + two64 - base) % two64
    let g := av - av / 64
    if callCost ≥ two64 || g < callCost then some g
    else some callCost
  else if callCost ≥ two64 then none
  else some callCost

structure GasOut where
  cost : Nat
  mem : Mem
  callGasTemp : Nat
deriving DecidableEq, Repr

/-- mem + base + toWordSize(len)·perWord with the overflow checks of gasCallDataCopy / gasCodeCopy / gasSha3 / … -/
def gasCopyLike (m : Mem) (memorySize base len perWord : Nat) : Option GasOut :=
  match memoryGasCost m memorySize with
  | none => none
  | some (g, m') =>
    match safeAdd g base with
    | none => none
    | some g1 =>
      if len ≥ two64 then none
      else match safeMul (toWordSize len) perWord with
        | none => none
        | some w =>
          match safeAdd g1 w with
          | none => none
          | some g2 => some ⟨g2, m', 0⟩

def gasMemPlus (m : Mem) (memorySize base : Nat) : Option GasOut :=
  match memoryGasCost m memorySize with
  | none => none
  | some (g, m') =>
    match safeAdd g base with
    | none => none
    | some g1 => some ⟨g1, m', 0⟩

/-- common tail of gasCall / gasCallCode / gasDelegateCall / gasStaticCall once `base` (incl. memory gas) is known -/
def gasCallTail (gt : GasTable) (contractGas base callCost : Nat) (m' : Mem) : Option GasOut :=
  match callGas gt contractGas base callCost with
  | none => none
  | some tmp =>
    match safeAdd base tmp with
    | none => none
    | some g => some ⟨g, m', tmp⟩

/-- ⌈bitlen/8⌉ of a big.Int (gasExp) -/
def byteLen (n : Nat) : Nat := if n = 0 then 0 else (Nat.log2 n + 1 + 7) / 8

/-- operation.gasCost(gasTable, evm, contract, stack, mem, memorySize); `none` = any error (Run maps all to ErrOutOfGas) -/
def gasCost (env : Env) (f : OpF) (i : StepIn W) (contractGas : Nat) (m : Mem) (memorySize : Nat) : Option GasOut :=
  let a := i.args
  let gt := env.gt
  match f.gasFn with
  | .constGasFunc => some ⟨f.constGas, m, 0⟩
  | .gasPush => some ⟨f.constGas, m, 0⟩
  | .gasSwap => some ⟨f.constGas, m, 0⟩
  | .gasDup => some ⟨f.constGas, m, 0⟩
  | .gasCallDataCopy => gasCopyLike m memorySize gasFastestStep (back a 2) copyGas
  | .gasReturnDataCopy => gasCopyLike m memorySize gasFastestStep (back a 2) copyGas
  | .gasCodeCopy => gasCopyLike m memorySize gasFastestStep (back a 2) copyGas
  | .gasExtCodeCopy => gasCopyLike m memorySize gt.extcodeCopy (back a 3) copyGas
  | .gasSha3 => gasCopyLike m memorySize sha3Gas (back a 1) sha3WordGas
  | .gasSStore =>
    if i.sstoreKind = 0 then some ⟨sstoreSetGas, m, 0⟩
    else if i.sstoreKind = 1 then some ⟨sstoreClearGas, m, 0⟩
    else some ⟨sstoreResetGas, m, 0⟩
  | .makeGasLog =>
    let requestedSize := back a 1
    if requestedSize ≥ two64 then none
    else match memoryGasCost m memorySize with
      | none => none
      | some (g, m') =>
        match safeAdd g logGas with
        | none => none
        | some g1 =>
          match safeAdd g1 ((f.op - 0xa0) * logTopicGas) with
          | none => none
          | some g2 =>
            match safeMul requestedSize logDataGas with
            | none => none
            | some d =>
              match safeAdd g2 d with
              | none => none
              | some g3 => some ⟨g3, m', 0⟩
  | .gasMLoad => gasMemPlus m memorySize gasFastestStep
  | .gasMStore8 => gasMemPlus m memorySize gasFastestStep
  | .gasMStore => gasMemPlus m memorySize gasFastestStep
  | .gasCreate => gasMemPlus m memorySize createGas
  | .gasBalance => some ⟨gt.balance, m, 0⟩
  | .gasExtCodeSize => some ⟨gt.extcodeSize, m, 0⟩
  | .gasSLoad => some ⟨gt.sLoad, m, 0⟩
  | .gasExp =>
    match safeAdd (byteLen (back a 1) * gt.expByte) gasSlowStep with
    | none => none
    | some g => some ⟨g, m, 0⟩
  | .gasCall =>
    let transfersValue := back a 2 ≠ 0
    let g0 := gt.calls
    let g1 := if env.eip158 then (if transfersValue && i.empty then g0 + callNewAccountGas else g0)
              else (if !i.exist then g0 + callNewAccountGas else g0)
    let g2 := if transfersValue then g1 + callValueTransferGas else g1
    match memoryGasCost m memorySize with
    | none => none
    | some (mg, m') =>
      match safeAdd g2 mg with
      | none => none
      | some base => gasCallTail gt contractGas base (back a 0) m'
  | .gasCallCode =>
    let g0 := gt.calls
    let g1 := if back a 2 ≠ 0 then g0 + callValueTransferGas else g0
    match memoryGasCost m memorySize with
    | none => none
    | some (mg, m') =>
      match safeAdd g1 mg with
      | none => none
      | some base => gasCallTail gt contractGas base (back a 0) m'
  | .gasDelegateCall =>
    match memoryGasCost m memorySize with
    | none => none
    | some (mg, m') =>
      match safeAdd mg gt.calls with
      | none => none
      | some base => gasCallTail gt contractGas base (back a 0) m'
  | .gasStaticCall =>
    match memoryGasCost m memorySize with
    | none => none
    | some (mg, m') =>
      match safeAdd mg gt.calls with
      | none => none
      | some base => gasCallTail gt contractGas base (back a 0) m'
  | .gasReturn =>
    match memoryGasCost m memorySize with
    | none => none
    | some (g, m') => some ⟨g, m', 0⟩
  | .gasRevert =>
    match memoryGasCost m memorySize with
    | none => none
    | some (g, m') => some ⟨g, m', 0⟩
  | .gasSuicide =>
    if env.eip150 then
      let extra := if env.eip158 then (i.empty && i.selfBalanceNZ) else !i.exist
      some ⟨if extra then gt.suicide + gt.createBySuicide else gt.suicide, m, 0⟩
    else some ⟨0, m, 0⟩

/-- gasSStore and gasSuicide call StateDB.AddRefund while COMPUTING the cost (before UseGas). -/
def gasTouchesState : GasFn → Bool
  | .gasSStore => true
  | .gasSuicide => true
  | _ => false

/-- hand classification "execute modifies the world directly" (instructions.go: opSstore → SetState, makeLog → AddLog,
    opSuicide → AddBalance/Suicide). CREATE and value-bearing CALL modify it through the wrappers below. -/
def execWrites : ExecFn → Bool
  | .opSstore => true
  | .makeLog => true
  | .opSuicide => true
  | _ => false

/-! ### frames, events, results -/

structure Frame where
  gas : Nat       -- contract.Gas
  stack : Nat     -- stack.len()
  mem : Mem
  given : Nat     -- (ghost) contract.Gas when Run started
  depth : Nat     -- evm.depth while this frame runs (Run increments on entry: the outermost frame has depth 1)
  ro : Bool       -- interpreter.readOnly
deriving Repr

/-- one record per executed step, taken where Run calls Tracer.CaptureState (after UseGas and Resize, before execute) -/
structure Event where
  depth : Nat
  op : Nat
  gasBefore : Nat
  cost : Nat
  memLen : Nat
  stack : Nat
  given : Nat
  ro : Bool
  writesWorld : Bool   -- execute is in the hand classification `execWrites`, is CREATE, or is CALL with value ≠ 0
deriving Repr

structure Res (W : Type) where
  out : Outcome
  gas : Nat            -- contract.Gas when Run returned / leftOverGas of a wrapper
  db : Db W
  tick : Nat
  retLen : Nat         -- len(ret)
  trace : List Event

def newFrame (gas depth : Nat) (ro : Bool) : Frame := ⟨gas, 0, ⟨0, 0⟩, gas, depth, ro⟩

inductive CallKind where
  | call | callcode | delegate | static
deriving DecidableEq, Repr

/-- common error handling of Call/CallCode/DelegateCall/StaticCall:
    `if err != nil { RevertToSnapshot(snapshot); if err != errExecutionReverted { contract.UseGas(contract.Gas) } }` -/
def finishCall {W} (r : Res W) (id : Nat) : Res W :=
  match r.out with
  | .revert =>
    match r.db.revert id with
    | none => { r with out := .panic }
    | some d => { r with db := d }
  | .fail _ =>
    match r.db.revert id with
    | none => { r with out := .panic }
    | some d => { r with db := d, gas := 0 }
  | _ => r

/-- evm.go `run`: precompile dispatch (RunPrecompiledContract: UseGas(RequiredGas) else ErrOutOfGas), otherwise
    Interpreter.Run, which returns at once on empty code. `runChild` is the interpreter on a fresh frame. -/
def runCode {W} (runChild : Frame → Db W → Nat → Res W) (i : StepIn W) (gas depth : Nat) (ro : Bool)
    (db : Db W) (t : Nat) : Res W :=
  match i.precompile with
  | some req =>
    if gas < req then ⟨.fail .outOfGas, gas, db, t, 0, []⟩
    else if i.precompileErr then ⟨.fail .execError, gas - req, db, t, 0, []⟩
    else ⟨.ok, gas - req, db, t, i.retLenPre, []⟩
  | none =>
    if i.codeEmpty then ⟨.ok, gas, db, t, 0, []⟩
    else runChild (newFrame gas (depth + 1) ro) db t

/-- evm.go Call / CallCode / DelegateCall / StaticCall. `depth` = evm.depth at the time of the call (0 at top level). -/
def callWrap {W} (env : Env) (runChild : Frame → Db W → Nat → Res W) (k : CallKind) (i : StepIn W)
    (depth : Nat) (ro : Bool) (gas : Nat) (valueNZ : Bool) (db : Db W) (t : Nat) : Res W :=
  if depth > callCreateDepth then ⟨.fail .depth, gas, db, t, 0, []⟩
  else if (k == .call || k == .callcode) && !i.canTransfer then ⟨.fail .insufficientBalance, gas, db, t, 0, []⟩
  else
    let ro' := ro || k == .static
    let (id, db1) := db.snapshot
    if k == .call && !i.exist && i.precompile.isNone && env.eip158 && !valueNZ then
      ⟨.ok, gas, db1, t, 0, []⟩
    else
      let db2 := if k == .call then (if valueNZ then db1.app i.xferEff else db1.app i.neutralEff) else db1
      finishCall (runCode runChild i gas depth ro' db2 t) id

/-- Create after `run`: `if err == nil && !maxCodeSizeExceeded`: charge len(ret)·CreateDataGas and SetCode, or set
    ErrCodeStoreOutOfGas -/
def createStore {W} (env : Env) (i : StepIn W) (r : Res W) : Res W :=
  if r.out = .ok && !(env.eip158 && r.retLen > maxCodeSize) then
    if r.gas < r.retLen * createDataGas then { r with out := .fail .codeStoreOutOfGas }
    else { r with gas := r.gas - r.retLen * createDataGas, db := r.db.app i.setCodeEff }
  else r

/-- Create, error handling: `if maxCodeSizeExceeded || (err != nil && (IsHomestead || err != ErrCodeStoreOutOfGas))
    { RevertToSnapshot; if err != errExecutionReverted { UseGas(all) } }; if maxCodeSizeExceeded && err == nil { err = … }` -/
def createFinish {W} (env : Env) (id : Nat) (maxCodeSizeExceeded : Bool) (r1 : Res W) : Res W :=
  let mustRevert := maxCodeSizeExceeded || (r1.out.isErr && (env.homestead || r1.out != .fail .codeStoreOutOfGas))
  let r2 : Res W :=
    if mustRevert then
      match r1.db.revert id with
      | none => { r1 with out := .panic }
      | some d => if r1.out = .revert then { r1 with db := d } else { r1 with db := d, gas := 0 }
    else r1
  if maxCodeSizeExceeded && r2.out = .ok then { r2 with out := .fail .maxCodeSize } else r2

/-- evm.go Create -/
def createWrap {W} (env : Env) (runChild : Frame → Db W → Nat → Res W) (i : StepIn W)
    (depth : Nat) (ro : Bool) (gas : Nat) (db : Db W) (t : Nat) : Res W :=
  if depth > callCreateDepth then ⟨.fail .depth, gas, db, t, 0, []⟩
  else if !i.canTransfer then ⟨.fail .insufficientBalance, gas, db, t, 0, []⟩
  else
    -- nonce := GetNonce(caller); SetNonce(caller, nonce+1)   (before the snapshot)
    let db0 := db.app i.nonceEff
    if i.collision then ⟨.fail .collision, 0, db0, t, 0, []⟩
    else
      let (id, db1) := db0.snapshot
      -- CreateAccount(contractAddr); SetNonce(contractAddr, 1) under EIP158; Transfer
      let db2 := db1.app i.xferEff
      -- run(evm, contract, nil): contract.CodeAddr is the fresh address, assumed not to be a precompile address
      let r := if i.codeEmpty then (⟨.ok, gas, db2, t, 0, []⟩ : Res W) else runChild (newFrame gas (depth + 1) ro) db2 t
      if r.out.abnormal then r
      else createFinish env id (env.eip158 && r.retLen > maxCodeSize) (createStore env i r)

def execKind : ExecFn → Option CallKind
  | .opCall => some .call
  | .opCallCode => some .callcode
  | .opDelegateCall => some .delegate
  | .opStaticCall => some .static
  | _ => none

/-- len(ret) of opReturn / opRevert: memory.GetPtr(offset, size) -/
def retLenOf (f : OpF) (a : List Nat) : Nat :=
  match f.execFn with
  | .opReturn => back a 1
  | .opRevert => back a 1
  | _ => 0

/-- outcome of the part of one loop iteration of Run that precedes `execute` -/
inductive Pre (W : Type) where
  | stop (r : Res W)                                              -- Run returned an error before executing
  | go (f : OpF) (g : GasOut) (memorySize : Nat) (db1 : Db W)     -- gas paid; db1 = state after the gas function ran

/-- Run, one iteration up to and including UseGas: table lookup, validateStack, enforceRestrictions, memory size, gas. -/
def pre {W} (env : Env) (i : StepIn W) (fr : Frame) (db : Db W) (t : Nat) : Pre W :=
  match lookup env.ep i.op with
  | none => .stop ⟨.fail .invalidOpcode, fr.gas, db, t + 1, 0, []⟩
  | some f =>
    -- operation.validateStack (makeStackFunc pop push)
    if fr.stack < f.pops then .stop ⟨.fail .stackUnderflow, fr.gas, db, t + 1, 0, []⟩
    else if fr.stack + f.pushes - f.pops > stackLimit then .stop ⟨.fail .stackLimit, fr.gas, db, t + 1, 0, []⟩
    -- enforceRestrictions
    else if env.byzantium && fr.ro && (f.writes || (i.op == 0xf1 && back i.args 2 != 0)) then
      .stop ⟨.fail .writeProtection, fr.gas, db, t + 1, 0, []⟩
    else
      match memorySizeOf (memReq f.memFn i.args) with
      | .error e => .stop ⟨.fail e, fr.gas, db, t + 1, 0, []⟩
      | .ok memorySize =>
        let db1 := if gasTouchesState f.gasFn then db.app i.gasEff else db
        match gasCost env f i fr.gas fr.mem memorySize with
        | none => .stop ⟨.fail .outOfGas, fr.gas, db1, t + 1, 0, []⟩
        | some g =>
          if fr.gas < g.cost then .stop ⟨.fail .outOfGas, fr.gas, db1, t + 1, 0, []⟩
          else .go f g memorySize db1

/-- value operand ≠ 0: Back(0) for CREATE, Back(2) for CALL / CALLCODE -/
def valueNZOf (f : OpF) (a : List Nat) : Bool := back a (if f.execFn = .opCreate then 0 else 2) != 0

/-- the frame after UseGas(cost) and mem.Resize(memorySize), with the stack height the operation will leave -/
def paidFrame (fr : Frame) (f : OpF) (g : GasOut) (memorySize : Nat) : Frame :=
  { fr with gas := fr.gas - g.cost, stack := fr.stack + f.pushes - f.pops,
            mem := ⟨if memorySize > 0 then max g.mem.len memorySize else g.mem.len, g.mem.lastGasCost⟩ }

/-- the record Tracer.CaptureState receives for this step -/
def eventOf (fr : Frame) (i : StepIn W) (f : OpF) (g : GasOut) (memorySize : Nat) : Event :=
  ⟨fr.depth, i.op, fr.gas, g.cost, (paidFrame fr f g memorySize).mem.len, fr.stack, fr.given, fr.ro,
    execWrites f.execFn || f.execFn = .opCreate || (f.execFn = .opCall && valueNZOf f i.args)⟩

/-- execute of an opcode that is neither CALL-family nor CREATE, followed by Run's dispatch on err / reverts / halts:
    either the frame ends (`inl`) or the loop continues with the given world (`inr`). -/
def execLocal {W} (f : OpF) (i : StepIn W) (fr1 : Frame) (db1 : Db W) (t : Nat) (ev : Event) : Res W ⊕ Db W :=
  if i.execErr then .inl ⟨.fail .execError, fr1.gas, db1, t + 1, 0, [ev]⟩
  else
    let db2 := if execWrites f.execFn then db1.app i.eff else db1
    if f.reverts then .inl ⟨.revert, fr1.gas, db2, t + 1, retLenOf f i.args, [ev]⟩
    else if f.halts then .inl ⟨.ok, fr1.gas, db2, t + 1, retLenOf f i.args, [ev]⟩
    else .inr db2

/-- one iteration of Run's loop; `rec` is the interpreter used for callee frames and for the rest of this frame's loop -/
def stepWith {W} (env : Env) (o : Nat → StepIn W) (rec : Frame → Db W → Nat → Res W)
    (fr : Frame) (db : Db W) (t : Nat) : Res W :=
  let i := o t
  match pre env i fr db t with
  | .stop r => r
  | .go f g memorySize db1 =>
    let fr1 := paidFrame fr f g memorySize
    let ev := eventOf fr i f g memorySize
    if f.execFn = .opCreate then
      -- opCreate: gas := contract.Gas; if EIP150 { gas -= gas/64 }; contract.UseGas(gas); evm.Create(...)
      let fwd := if env.eip150 then fr1.gas - fr1.gas / 64 else fr1.gas
      let r := createWrap env rec i fr.depth fr.ro fwd db1 (t + 1)
      if r.out.abnormal then { r with trace := ev :: r.trace }
      else
        -- contract.Gas += returnGas
        let r' := rec { fr1 with gas := (fr1.gas - fwd + r.gas) % two64 } r.db r.tick
        { r' with trace := ev :: (r.trace ++ r'.trace) }
    else
      match execKind f.execFn with
      | some k =>
        -- opCall & co: gas := evm.callGasTemp; if value ≠ 0 { gas += CallStipend } (CALL, CALLCODE only)
        let hasValue := (k == .call || k == .callcode) && valueNZOf f i.args
        let cg := if hasValue then (g.callGasTemp + callStipend) % two64 else g.callGasTemp
        let r := callWrap env rec k i fr.depth fr.ro cg hasValue db1 (t + 1)
        if r.out.abnormal then { r with trace := ev :: r.trace }
        else
          let r' := rec { fr1 with gas := (fr1.gas + r.gas) % two64 } r.db r.tick
          { r' with trace := ev :: (r.trace ++ r'.trace) }
      | none =>
        match execLocal f i fr1 db1 t ev with
        | .inl r => r
        | .inr db2 =>
          let r' := rec fr1 db2 (t + 1)
          { r' with trace := ev :: r'.trace }

/-- Interpreter.Run on a frame; one unit of fuel per loop iteration (callee frames and the continuation of the loop both
    run with the remaining fuel). -/
def run {W} (env : Env) (o : Nat → StepIn W) : Nat → Frame → Db W → Nat → Res W
  | 0, fr, db, t => ⟨.outOfFuel, fr.gas, db, t, 0, []⟩
  | fuel + 1, fr, db, t => stepWith env o (run env o fuel) fr db t

/-- top-level entry points as the harness uses them: evm.depth = 0, readOnly = false, oracle entry 0 describes the callee -/
def topCall {W} (env : Env) (o : Nat → StepIn W) (fuel : Nat) (k : CallKind) (gas : Nat) (valueNZ : Bool) (db : Db W) : Res W :=
  callWrap env (run env o fuel) k (o 0) 0 false gas valueNZ db 1

def topCreate {W} (env : Env) (o : Nat → StepIn W) (fuel : Nat) (gas : Nat) (db : Db W) : Res W :=
  createWrap env (run env o fuel) (o 0) 0 false gas db 1

/-! ### Spec (executable acceptors over an observed step record) -/

/-- "never holds more memory than the gas paid for": total fee of the current memory ≤ gas spent in the frame so far -/
def Spec.memoryPaid (e : Event) : Bool := memFee (e.memLen / 32) + (e.gasBefore - e.cost) ≤ e.given

/-- evm.depth of a running frame is at most CallCreateDepth + 1 (nesting below the outermost frame ≤ 1024) -/
def Spec.depthOk (e : Event) : Bool := e.depth ≤ callCreateDepth + 1

/-- under Byzantium rules no world-modifying step executes in read-only mode -/
def Spec.staticOk (env : Env) (e : Event) : Bool := !(env.byzantium && e.ro && e.writesWorld)

end Aqv.Vm

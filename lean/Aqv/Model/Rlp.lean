/-
  Aqv.Model.Rlp — RLP items, the encoder (rlp/encode.go: puthead/putint/encodeString/list heads) and a
  strict decoder (rlp/decode.go readKind/readUint/Bytes/List + rlp/raw.go readKind/readSize share these rules).
  Core-only.
-/
import Aqv.Base.Bytes
namespace Aqv.Rlp
open Aqv

inductive Item where
  | str (b : Bytes)
  | list (xs : List Item)
  deriving Repr, Inhabited

inductive Err where
  | fuel | eof | tooLarge | canonSize | trailing | expectedList | expectedString | other
  deriving Repr, DecidableEq, Inhabited

/-- `puthead`: one byte for sizes < 56, else `larget + len(be size)` followed by the minimal big-endian size. -/
def header (base : Nat) (len : Nat) : Bytes :=
  if len < 56 then [UInt8.ofNat (base + len)]
  else UInt8.ofNat (base + 55 + (beBytes len).length) :: beBytes len

/-- `encodeString` / `writeBytes`: a single byte below 0x80 is its own encoding. -/
def encStr (b : Bytes) : Bytes :=
  match b with
  | [x] => if x < 0x80 then [x] else header 0x80 1 ++ [x]
  | _ => header 0x80 b.length ++ b

mutual
  def enc : Item → Bytes
    | .str b => encStr b
    | .list xs => header 0xC0 (encList xs).length ++ encList xs
  def encList : List Item → Bytes
    | [] => []
    | x :: xs => enc x ++ encList xs
end

/-- `readUint`/`readSize` for a long-form size of `ll` bytes: no leading zero, value ≥ 56, enough input. -/
def readSize (ll : Nat) (rest : Bytes) : Except Err (Nat × Bytes) :=
  if rest.length < ll then .error .eof
  else
    let lb := rest.take ll
    match lb with
    | [] => .error .canonSize
    | b0 :: _ =>
      if b0 = 0 then .error .canonSize
      else
        let n := beNat lb
        if n < 56 then .error .canonSize else .ok (n, rest.drop ll)

/-- header of the next value: `(isList, payloadSize, afterHeader)`; single bytes < 0x80 are reported as
    a string of size 1 whose payload is the byte itself (`hdr` does not consume it). -/
inductive Hd where
  | byte (b : UInt8) (rest : Bytes)
  | str (n : Nat) (rest : Bytes)
  | list (n : Nat) (rest : Bytes)

def readHead : Bytes → Except Err Hd
  | [] => .error .eof
  | b :: rest =>
    if b < 0x80 then .ok (.byte b rest)
    else if b < 0xB8 then .ok (.str (b.toNat - 0x80) rest)
    else if b < 0xC0 then
      match readSize (b.toNat - 0xB7) rest with
      | .ok (n, r) => .ok (.str n r)
      | .error e => .error e
    else if b < 0xF8 then .ok (.list (b.toNat - 0xC0) rest)
    else
      match readSize (b.toNat - 0xF7) rest with
      | .ok (n, r) => .ok (.list n r)
      | .error e => .error e

mutual
  /-- decode one item from the front of the input; returns the item and the unread rest. -/
  def decItem : Nat → Bytes → Except Err (Item × Bytes)
    | 0, _ => .error .fuel
    | f+1, bs =>
      match readHead bs with
      | .error e => .error e
      | .ok (.byte b rest) => .ok (.str [b], rest)
      | .ok (.str n rest) =>
        if rest.length < n then .error .tooLarge
        else
          let s := rest.take n
          match s with
          | [x] => if x < 0x80 then .error .canonSize else .ok (.str s, rest.drop n)
          | _ => .ok (.str s, rest.drop n)
      | .ok (.list n rest) =>
        if rest.length < n then .error .tooLarge
        else
          match decList f (rest.take n) with
          | .ok xs => .ok (.list xs, rest.drop n)
          | .error e => .error e
  def decList : Nat → Bytes → Except Err (List Item)
    | 0, _ => .error .fuel
    | _+1, [] => .ok []
    | f+1, b :: bs =>
      match decItem f (b :: bs) with
      | .ok (x, rest) =>
        match decList f rest with
        | .ok xs => .ok (x :: xs)
        | .error e => .error e
      | .error e => .error e
end

/-- strict decoding of exactly one value (DecodeBytes: trailing bytes are `ErrMoreThanOneValue`). -/
def dec (bs : Bytes) : Except Err Item :=
  match decItem (3 * bs.length + 1) bs with
  | .ok (it, []) => .ok it
  | .ok (_, _ :: _) => .error .trailing
  | .error e => .error e

mutual
  /-- every string length and list payload length fits the 8-byte size field. -/
  def Item.sizeOk : Item → Bool
    | .str b => b.length < 2 ^ 64
    | .list xs => (encList xs).length < 2 ^ 64 && Item.sizeOkList xs
  def Item.sizeOkList : List Item → Bool
    | [] => true
    | x :: xs => x.sizeOk && Item.sizeOkList xs
end

mutual
  def Item.render : Item → String
    | .str b => "s" ++ hexOfBytes b
    | .list xs => "[" ++ Item.renderList xs ++ "]"
  def Item.renderList : List Item → String
    | [] => ""
    | [x] => x.render
    | x :: y :: xs => x.render ++ "," ++ Item.renderList (y :: xs)
end

end Aqv.Rlp

/-
  Aqv.Model.RlpTyped — the typed (reflection-driven) layer of the rlp package, modelled directly on bytes.

  `Ty` is the universe of supported Go target types, `Val` the decoded values.  `decTy` mirrors the decoders that
  rlp/decode.go `makeDecoder` selects (decodeUint, decodeBigInt, decodeBool, decodeString/decodeByteSlice,
  decodeByteArray, decodeListSlice/decodeSliceElems, decodeListArray, makeStructDecoder incl. `tail`, makePtrDecoder,
  makeOptionalPtrDecoder (`rlp:"nil"`), decodeRawValue = Stream.Raw, decodeInterface) and `encTy` the writers that
  rlp/encode.go `makeWriter` selects (writeUint, writeBigInt, writeBool, writeBytes/writeString/writeByteArray,
  makeSliceWriter incl. `tail`, makeStructWriter, makePtrWriter with its nil-pointer rules, writeRawValue, writeInterface).

  The Go `Stream` keeps a stack of open list extents and a remaining-input budget; every read is checked against the
  innermost extent.  On a byte string that discipline is `take n`/`drop n`: opening a list cuts the payload off, and
  every element decoder then sees only the payload (so `ErrElemTooLarge`/`ErrValueTooLarge` become "payload too short").

  Recursion: `decTy` is structurally recursive on the *type* (Go builds the decoder closure per type the same way);
  the only input-driven loop — the elements of a slice — is `decMany`, fuelled by the payload length; `interface{}`
  targets use the item decoder `decItem` of `Aqv.Model.Rlp` with its `3·len+1` fuel.   Core-only.
-/
import Aqv.Model.Rlp
namespace Aqv.Rlp
open Aqv

/-- supported Go target types.
    `uint bits`  : uint8/16/32/64/uint (bits = 64)            `big`   : *big.Int and big.Int
    `bool`                                                     `bytes` : []byte and string
    `bytesN n`   : [n]byte                                      `list t`: []T (T not byte)
    `arr n t`    : [n]T (T not byte)                            `struct fs` : struct, exported non-ignored fields in order
    `structTail fs t` : struct whose last field is `[]T` tagged `rlp:"tail"`
    `ptr t`      : *T                                           `ptrNil t` : *T field tagged `rlp:"nil"`
    `raw`        : rlp.RawValue                                 `iface` : interface{} -/
inductive Ty where
  | uint (bits : Nat)
  | big
  | bool
  | bytes
  | bytesN (n : Nat)
  | list (t : Ty)
  | arr (n : Nat) (t : Ty)
  | struct (fs : List Ty)
  | structTail (fs : List Ty) (t : Ty)
  | ptr (t : Ty)
  | ptrNil (t : Ty)
  | raw
  | iface
  deriving Repr, Inhabited

/-- decoded values.  `num` serves uint and big; `bytes` serves bytes, bytesN and raw; `list` serves list, arr and
    struct; `tail` a struct with tail (fields, tail elements); `pnil`/`psome` pointers; `item` interface{}. -/
inductive Val where
  | num (n : Nat)
  | bool (b : Bool)
  | bytes (b : Bytes)
  | list (vs : List Val)
  | tail (fs : List Val) (tl : List Val)
  | pnil
  | psome (v : Val)
  | item (it : Item)
  deriving Repr, Inhabited

/-- errors of the typed decoders (only the distinction error/value is observable through the harness). -/
inductive TErr where
  | rlp (e : Err)     -- errors of the untyped layer (readKind/readSize/bounds/kind mismatch); `rlp .fuel` = out of fuel
  | canonInt          -- ErrCanonInt: leading zero byte / single 0x00 for an integer
  | overflow          -- errUintOverflow: integer string longer than the width
  | badBool           -- "invalid boolean value"
  | wrongLen          -- byte array: input string too long / too short
  | tooFew            -- struct/array: too few elements
  | tooMany           -- struct/array: input list has too many elements (errNotAtEOL)
  | wrongEmpty        -- rlp:"nil": wrong kind of empty value
  | trailing          -- DecodeBytes: ErrMoreThanOneValue
  deriving Repr, DecidableEq, Inhabited

/-! ### Stream primitives on bytes -/

/-- `Stream.Bytes`: a string (or single byte); a 1-byte string below 0x80 is `ErrCanonSize`. -/
def readBytes (bs : Bytes) : Except TErr (Bytes × Bytes) :=
  match readHead bs with
  | .error e => .error (.rlp e)
  | .ok (.byte b rest) => .ok ([b], rest)
  | .ok (.str n rest) =>
    if rest.length < n then .error (.rlp .tooLarge)
    else
      match rest.take n with
      | [x] => if x < 0x80 then .error (.rlp .canonSize) else .ok ([x], rest.drop n)
      | s => .ok (s, rest.drop n)
  | .ok (.list _ _) => .error (.rlp .expectedString)

/-- `Stream.uint(maxbits)` with `maxBytes = maxbits/8`:
    Byte 0x00 → ErrCanonInt; string longer than the width → overflow; size 1 and value < 128 → ErrCanonSize;
    leading zero (readUint's ErrCanonSize, adjusted) → ErrCanonInt; size 0 → 0. -/
def readUint (maxBytes : Nat) (bs : Bytes) : Except TErr (Nat × Bytes) :=
  match readHead bs with
  | .error e => .error (.rlp e)
  | .ok (.byte b rest) => if b = 0 then .error .canonInt else .ok (b.toNat, rest)
  | .ok (.str n rest) =>
    if rest.length < n then .error (.rlp .tooLarge)
    else if maxBytes < n then .error .overflow
    else
      match rest.take n with
      | [] => .ok (0, rest.drop n)
      | [x] => if x < 0x80 then .error (.rlp .canonSize) else .ok (x.toNat, rest.drop n)
      | b0 :: s => if b0 = 0 then .error .canonInt else .ok (beNat (b0 :: s), rest.drop n)
  | .ok (.list _ _) => .error (.rlp .expectedString)

/-- `Stream.Bool` = `uint(8)` restricted to 0/1. -/
def readBool (bs : Bytes) : Except TErr (Bool × Bytes) :=
  match readUint 1 bs with
  | .error e => .error e
  | .ok (n, rest) => if n = 0 then .ok (false, rest) else if n = 1 then .ok (true, rest) else .error .badBool

/-- `decodeBigInt`: `Stream.Bytes` then "reject leading zero bytes". -/
def readBig (bs : Bytes) : Except TErr (Nat × Bytes) :=
  match readBytes bs with
  | .error e => .error e
  | .ok (s, rest) =>
    match s with
    | b0 :: _ => if b0 = 0 then .error .canonInt else .ok (beNat s, rest)
    | [] => .ok (0, rest)

/-- `decodeByteArray` for `[n]byte` (after fix 613896f: the Byte case takes the byte value, including 0x00). -/
def readByteArray (n : Nat) (bs : Bytes) : Except TErr (Bytes × Bytes) :=
  match readHead bs with
  | .error e => .error (.rlp e)
  | .ok (.byte b rest) => if n = 1 then .ok ([b], rest) else .error .wrongLen
  | .ok (.str sz rest) =>
    if rest.length < sz then .error (.rlp .tooLarge)
    else if sz ≠ n then .error .wrongLen
    else
      match rest.take sz with
      | [x] => if x < 0x80 then .error (.rlp .canonSize) else .ok ([x], rest.drop sz)
      | s => .ok (s, rest.drop sz)
  | .ok (.list _ _) => .error (.rlp .expectedString)

/-- `Stream.Raw`: header checks (canonical size, bounds) only; the content is copied unvalidated and a fresh
    header is put in front of it; a 1-byte string below 0x80 is NOT rejected. -/
def readRaw (bs : Bytes) : Except TErr (Bytes × Bytes) :=
  match readHead bs with
  | .error e => .error (.rlp e)
  | .ok (.byte b rest) => .ok ([b], rest)
  | .ok (.str n rest) =>
    if rest.length < n then .error (.rlp .tooLarge) else .ok (header 0x80 n ++ rest.take n, rest.drop n)
  | .ok (.list n rest) =>
    if rest.length < n then .error (.rlp .tooLarge) else .ok (header 0xC0 n ++ rest.take n, rest.drop n)

/-- `Stream.List` (+ the bounds check of `Kind`): the payload of the list and the input after it. -/
def readList (bs : Bytes) : Except TErr (Bytes × Bytes) :=
  match readHead bs with
  | .error e => .error (.rlp e)
  | .ok (.list n rest) => if rest.length < n then .error (.rlp .tooLarge) else .ok (rest.take n, rest.drop n)
  | .ok _ => .error (.rlp .expectedList)

/-- `decodeInterface` = strict item decoding. -/
def readItem (bs : Bytes) : Except TErr (Item × Bytes) :=
  match decItem (3 * bs.length + 1) bs with
  | .ok r => .ok r
  | .error e => .error (.rlp e)

/-- `decodeSliceElems`: decode elements until the end of the payload (EOL).  Every element consumes at least one
    byte, so `fuel = payload length` never runs out (`decMany_total`). -/
def decMany (d : Bytes → Except TErr (Val × Bytes)) : Nat → Bytes → Except TErr (List Val)
  | _, [] => .ok []
  | 0, _ :: _ => .error (.rlp .fuel)
  | f+1, b :: bs =>
    match d (b :: bs) with
    | .error e => .error e
    | .ok (v, rest) =>
      match decMany d f rest with
      | .ok vs => .ok (v :: vs)
      | .error e => .error e

/-- `decodeListArray`'s loop: exactly `n` elements; EOL before that is "too few elements". -/
def decN (d : Bytes → Except TErr (Val × Bytes)) : Nat → Bytes → Except TErr (List Val × Bytes)
  | 0, p => .ok ([], p)
  | _+1, [] => .error .tooFew
  | n+1, b :: bs =>
    match d (b :: bs) with
    | .error e => .error e
    | .ok (v, rest) =>
      match decN d n rest with
      | .ok (vs, r) => .ok (v :: vs, r)
      | .error e => .error e

/-! ### `rlp:"nil"` and nil pointers -/

/-- which empty value `makeOptionalPtrDecoder` decodes to nil for element type `t` (fix 7811107):
    `str` = only 0x80, `list` = only 0xC0, `any` = both (element is itself a pointer: `strict = false`).
    `big` is `*big.Int`, a pointer kind. -/
inductive EmptyKind where
  | str | list | any
  deriving Repr, DecidableEq, Inhabited

def Ty.emptyKind : Ty → EmptyKind
  | .bytesN _ => .str
  | .struct _ | .structTail _ _ | .arr _ _ | .iface => .list
  | .list _ => .list
  | .ptr _ | .ptrNil _ | .big => .any
  | .uint _ | .bool | .bytes | .raw => .str

/-- what `makePtrWriter` writes for a nil `*T`: 0x80 for byte arrays, 0xC0 for structs and arrays, otherwise the
    encoding of T's zero value (nil RawValue writes nothing). -/
def Ty.nilEnc : Ty → Bytes
  | .bytesN _ => [0x80]
  | .struct _ | .structTail _ _ | .arr _ _ => [0xC0]
  | .uint _ | .bool | .bytes | .big => [0x80]
  | .list _ | .iface => [0xC0]
  | .raw => []
  | .ptr t | .ptrNil t => t.nilEnc

/-! ### Encoder -/

mutual
  def encTy : Ty → Val → Bytes
    | .uint _, .num n => encStr (beBytes n)                  -- writeUint
    | .big, .num n => encStr (beBytes n)                     -- writeBigInt
    | .bool, .bool b => if b then [0x01] else [0x80]         -- writeBool
    | .bytes, .bytes b => encStr b                           -- writeBytes / writeString
    | .bytesN _, .bytes b => encStr b                        -- writeByteArray
    | .list t, .list vs =>
      let p := (vs.map (encTy t)).flatten
      header 0xC0 p.length ++ p
    | .arr _ t, .list vs =>
      let p := (vs.map (encTy t)).flatten
      header 0xC0 p.length ++ p
    | .struct fs, .list vs =>
      let p := encFields fs vs
      header 0xC0 p.length ++ p
    | .structTail fs t, .tail vs tl =>
      let p := encFields fs vs ++ (tl.map (encTy t)).flatten
      header 0xC0 p.length ++ p
    | .ptr t, .psome v => encTy t v
    | .ptr t, .pnil => t.nilEnc
    | .ptrNil t, .psome v => encTy t v
    | .ptrNil t, .pnil => t.nilEnc
    | .raw, .bytes b => b                                    -- writeRawValue
    | .iface, .item it => enc it                             -- writeInterface (non-nil)
    | _, _ => []
  def encFields : List Ty → List Val → Bytes
    | t :: ts, v :: vs => encTy t v ++ encFields ts vs
    | _, _ => []
end

/-! ### Decoder -/

mutual
  /-- decode one value of type `ty` from the front of the input; returns the value and the unread rest. -/
  def decTy : Ty → Bytes → Except TErr (Val × Bytes)
    | .uint bits, bs =>
      match readUint (bits / 8) bs with
      | .ok (n, rest) => .ok (.num n, rest)
      | .error e => .error e
    | .big, bs =>
      match readBig bs with
      | .ok (n, rest) => .ok (.num n, rest)
      | .error e => .error e
    | .bool, bs =>
      match readBool bs with
      | .ok (b, rest) => .ok (.bool b, rest)
      | .error e => .error e
    | .bytes, bs =>
      match readBytes bs with
      | .ok (b, rest) => .ok (.bytes b, rest)
      | .error e => .error e
    | .bytesN n, bs =>
      match readByteArray n bs with
      | .ok (b, rest) => .ok (.bytes b, rest)
      | .error e => .error e
    | .list t, bs =>                                          -- decodeListSlice
      match readList bs with
      | .error e => .error e
      | .ok (p, rest) =>
        match decMany (decTy t) p.length p with
        | .ok vs => .ok (.list vs, rest)
        | .error e => .error e
    | .arr n t, bs =>                                         -- decodeListArray
      match readList bs with
      | .error e => .error e
      | .ok (p, rest) =>
        match decN (decTy t) n p with
        | .ok (vs, []) => .ok (.list vs, rest)
        | .ok (_, _ :: _) => .error .tooMany
        | .error e => .error e
    | .struct fs, bs =>                                       -- makeStructDecoder
      match readList bs with
      | .error e => .error e
      | .ok (p, rest) =>
        match decFields fs p with
        | .ok (vs, []) => .ok (.list vs, rest)
        | .ok (_, _ :: _) => .error .tooMany
        | .error e => .error e
    | .structTail fs t, bs =>                                 -- … whose last field swallows the remaining elements
      match readList bs with
      | .error e => .error e
      | .ok (p, rest) =>
        match decFields fs p with
        | .error e => .error e
        | .ok (vs, p') =>
          match decMany (decTy t) p'.length p' with
          | .ok tl => .ok (.tail vs tl, rest)
          | .error e => .error e
    | .ptr t, bs =>                                           -- makePtrDecoder: allocates, never nil
      match decTy t bs with
      | .ok (v, rest) => .ok (.psome v, rest)
      | .error e => .error e
    | .ptrNil t, bs =>                                        -- makeOptionalPtrDecoder
      -- `size == 0 && kind != Byte` holds exactly when the next byte is 0x80 (empty string) or 0xC0 (empty list):
      -- long forms with size 0 are ErrCanonSize.  A `Kind()` error is returned as is; the element decoder, which
      -- starts with the same `Kind()` call, reports it too.
      if bs.head? = some 0x80 then
        (if t.emptyKind = .list then .error .wrongEmpty else .ok (.pnil, bs.tail))
      else if bs.head? = some 0xC0 then
        (if t.emptyKind = .str then .error .wrongEmpty else .ok (.pnil, bs.tail))
      else
        match decTy t bs with
        | .ok (v, rest) => .ok (.psome v, rest)
        | .error e => .error e
    | .raw, bs =>
      match readRaw bs with
      | .ok (b, rest) => .ok (.bytes b, rest)
      | .error e => .error e
    | .iface, bs =>
      match readItem bs with
      | .ok (it, rest) => .ok (.item it, rest)
      | .error e => .error e
  /-- the fields of a struct in order; the end of the payload before the last field is "too few elements". -/
  def decFields : List Ty → Bytes → Except TErr (List Val × Bytes)
    | [], p => .ok ([], p)
    | _ :: _, [] => .error .tooFew
    | t :: ts, b :: bs =>
      match decTy t (b :: bs) with
      | .error e => .error e
      | .ok (v, p') =>
        match decFields ts p' with
        | .ok (vs, r) => .ok (v :: vs, r)
        | .error e => .error e
end

/-- `DecodeBytes` into a target of type `ty`: exactly one value, no trailing bytes. -/
def decTop (ty : Ty) (bs : Bytes) : Except TErr Val :=
  match decTy ty bs with
  | .ok (v, []) => .ok v
  | .ok (_, _ :: _) => .error .trailing
  | .error e => .error e

/-! ### Well-formed values (the "supported values" of the round-trip statement) -/

/-- `b` is exactly one raw value: a canonical header followed by exactly its content. -/
def rawOk (b : Bytes) : Bool :=
  match readRaw b with
  | .ok (_, []) => true
  | _ => false

mutual
  /-- `WFVal ty v`: `v` is a value of Go type `ty` that the decoder can return:
      uint fits its width (a real width: 8 to 64 bits); sizes are below 2^64; `[n]byte` has n bytes; `[n]T` has n elements; struct values have
      one value per field; a non-optional pointer is never nil; an `rlp:"nil"` pointer is nil only if the encoder's
      nil form is the empty value the decoder maps to nil, and non-nil only if the element's encoding does not start
      with 0x80/0xC0, i.e. is not an empty value (an encoding is one complete value); a RawValue is exactly one header + content; an interface holds a well-sized item. -/
  def WFVal : Ty → Val → Bool
    | .uint bits, .num n => 8 ≤ bits && bits ≤ 64 && n < 256 ^ (bits / 8)
    | .big, .num n => (beBytes n).length < 2 ^ 64
    | .bool, .bool _ => true
    | .bytes, .bytes b => b.length < 2 ^ 64
    | .bytesN n, .bytes b => b.length = n && n < 2 ^ 64
    | .list t, .list vs =>
      vs.all (WFVal t) && ((vs.map (encTy t)).flatten.length < 2 ^ 64)
    | .arr n t, .list vs =>
      vs.length = n && vs.all (WFVal t) && ((vs.map (encTy t)).flatten.length < 2 ^ 64)
    | .struct fs, .list vs => WFFields fs vs && ((encFields fs vs).length < 2 ^ 64)
    | .structTail fs t, .tail vs tl =>
      WFFields fs vs && tl.all (WFVal t) && ((encFields fs vs ++ (tl.map (encTy t)).flatten).length < 2 ^ 64)
    | .ptr t, .psome v => WFVal t v
    | .ptrNil t, .psome v => WFVal t v && (encTy t v).head? != some 0x80 && (encTy t v).head? != some 0xC0
    | .ptrNil t, .pnil =>
      (t.nilEnc == [0x80] && t.emptyKind != .list) || (t.nilEnc == [0xC0] && t.emptyKind != .str)
    | .raw, .bytes b => rawOk b
    | .iface, .item it => it.sizeOk
    | _, _ => false
  def WFFields : List Ty → List Val → Bool
    | [], [] => true
    | t :: ts, v :: vs => WFVal t v && WFFields ts vs
    | _, _ => false
end

mutual
  /-- types whose decoder is canonical (one accepted encoding per value).  The only exclusions are `rlp:"nil"`
      pointers whose element is itself a pointer (Go accepts both empty values there: `strict = false`) or a
      RawValue (a nil *RawValue encodes to nothing); integer widths must be real (8 to 64 bits). -/
  def Ty.canon : Ty → Bool
    | .uint bits => 8 ≤ bits && bits ≤ 64
    | .list t | .arr _ t | .ptr t => t.canon
    | .struct fs => Ty.canonAll fs
    | .structTail fs t => Ty.canonAll fs && t.canon
    | .ptrNil t =>
      t.canon && ((t.emptyKind == .str && t.nilEnc == [0x80]) || (t.emptyKind == .list && t.nilEnc == [0xC0]))
    | _ => true
  def Ty.canonAll : List Ty → Bool
    | [] => true
    | t :: ts => t.canon && Ty.canonAll ts
end

/-! ### Values as items (the view the harness renders) -/

/-- generalised items: like `Item` plus an opaque leaf for RawValue content (which need not be a valid item). -/
inductive GItem where
  | str (b : Bytes)
  | rawv (b : Bytes)
  | list (xs : List GItem)
  deriving Repr, Inhabited

mutual
  def GItem.enc : GItem → Bytes
    | .str b => encStr b
    | .rawv b => b
    | .list xs => header 0xC0 (GItem.encList xs).length ++ GItem.encList xs
  def GItem.encList : List GItem → Bytes
    | [] => []
    | x :: xs => x.enc ++ GItem.encList xs
end

mutual
  def GItem.ofItem : Item → GItem
    | .str b => .str b
    | .list xs => .list (GItem.ofItems xs)
  def GItem.ofItems : List Item → List GItem
    | [] => []
    | x :: xs => GItem.ofItem x :: GItem.ofItems xs
end

mutual
  def GItem.render : GItem → String
    | .str b => "s" ++ hexOfBytes b
    | .rawv b => "r" ++ hexOfBytes b
    | .list xs => "[" ++ GItem.renderList xs ++ "]"
  def GItem.renderList : List GItem → String
    | [] => ""
    | [x] => x.render
    | x :: y :: xs => x.render ++ "," ++ GItem.renderList (y :: xs)
end

/-- the item a nil pointer to `t` stands for (what its encoding decodes to). -/
def Ty.nilItem (t : Ty) : GItem :=
  match t.nilEnc with
  | [0x80] => .str []
  | [0xC0] => .list []
  | b => .rawv b

mutual
  /-- the (generalised) item a typed value encodes: `GItem.enc (toG ty v) = encTy ty v` on well-formed values. -/
  def toG : Ty → Val → GItem
    | .uint _, .num n => .str (beBytes n)
    | .big, .num n => .str (beBytes n)
    | .bool, .bool b => .str (if b then [1] else [])
    | .bytes, .bytes b => .str b
    | .bytesN _, .bytes b => .str b
    | .list t, .list vs => .list (vs.map (toG t))
    | .arr _ t, .list vs => .list (vs.map (toG t))
    | .struct fs, .list vs => .list (toGFields fs vs)
    | .structTail fs t, .tail vs tl => .list (toGFields fs vs ++ tl.map (toG t))
    | .ptr t, .psome v => toG t v
    | .ptr t, .pnil => t.nilItem
    | .ptrNil t, .psome v => toG t v
    | .ptrNil t, .pnil => t.nilItem
    | .raw, .bytes b => .rawv b
    | .iface, .item it => GItem.ofItem it
    | _, _ => .rawv []
  def toGFields : List Ty → List Val → List GItem
    | t :: ts, v :: vs => toG t v :: toGFields ts vs
    | _, _ => []
end

end Aqv.Rlp

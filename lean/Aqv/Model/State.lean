/-
  Aqv.Model.State — executable model of core/state (statedb.go, state_object.go, journal.go).  Core-only.

  What is modelled, function by function (Go names in comments):
    StateDB:      getStateObject, GetOrNewStateObject, createObject, CreateAccount, Add/Sub/SetBalance, SetNonce, SetCode,
                  SetState, Suicide, AddRefund, AddLog, AddPreimage, Prepare, Snapshot, RevertToSnapshot, Finalise,
                  IntermediateRoot, Commit, Copy, Reset, New, MarkStateObjectDirty, clearJournalAndRefund
    stateObject:  empty, touch, markSuicided, setBalance/setNonce/setCode/setState (the one-shot onDirty callback),
                  GetState, updateTrie/updateRoot/CommitTrie, deepCopy
    journal:      all eleven entry kinds with their undo functions

  Abstractions (each is validated by the correspondence run, none is relied on silently by a theorem):
    * the account trie and every storage trie are total functions key -> value (absent = none / 0); by C10 a trie commits
      to exactly its content, so the state root is `mptRoot trie` for an abstract `mptRoot` (a parameter of the theorems);
    * addresses, slots, words, log payloads and preimages are natural numbers (the harness maps them to 20/32-byte values);
      the RIPEMD precompile address 0x…03 (special-cased in touchChange.undo) is the number 3;
    * code is identified with its hash (collision-freedom of Keccak on the codes involved): `empty` tests `code = []`;
      the code store (`db.ContractCode`) is folded into the account content;
    * read caches (stateObjects filled by getStateObject on a read, cachedStorage, the lazily loaded code) are not
      modelled: getters are pure.  A write materialises the object exactly as Go's load-then-mutate does;
    * whether the nodes of a storage trie are in the node database is not modelled: Finalise only hashes a storage trie,
      Commit writes it. A leaf written by Finalise is never re-read in a state satisfying the cache invariant (the cached
      object shadows it); it is in the defect states F2/F3 (see Props.C09), where Go then sees an empty storage;
    * Go panics are explicit: `revertTo` returns `none` for an id that is not live; nil dereferences and the RLP encoder's
      panic on a negative balance set the sticky `fault` flag.
  The journal and the revision stack are kept newest-first (Go appends; `journal[:n]` = drop from the front here).
-/
import Aqv.Base.Bytes
namespace Aqv.State

abbrev Addr := Nat
abbrev Slot := Nat
abbrev Word := Nat

/-- the RIPEMD-160 precompile address, special-cased by `touchChange.undo` (journal.go `ripemd`). -/
def ripemd : Addr := 3

/-- point update of a total map. -/
def upd {β : Type} (m : Nat → β) (a : Nat) (v : β) : Nat → β := fun x => if x = a then v else m x

/-- a leaf of the account trie: `Account{Nonce, Balance, Root, CodeHash}` with the storage trie and code it commits to. -/
structure Acct where
  nonce : Nat
  balance : Int
  code : Bytes
  storage : Slot → Word

/-- `stateObject` (state_object.go). `base` = content of the object's storage trie; `armed` = `onDirty != nil`. -/
structure Obj where
  nonce : Nat
  balance : Int
  code : Bytes
  base : Slot → Word
  dirtySt : Slot → Option Word
  suicided : Bool
  touched : Bool
  deleted : Bool
  armed : Bool

/-- journal.go entry kinds. -/
inductive Entry
  | createObject (a : Addr)
  | resetObject (a : Addr) (prev : Obj)
  | suicide (a : Addr) (prev : Bool) (prevBalance : Int)
  | balance (a : Addr) (prev : Int)
  | nonce (a : Addr) (prev : Nat)
  | storage (a : Addr) (k : Slot) (prev : Word)
  | code (a : Addr) (prev : Bytes)
  | refund (prev : Nat)
  | addLog (txhash : Nat)
  | addPreimage (h : Nat)
  | touch (a : Addr) (prev : Bool) (prevDirty : Bool)

/-- `StateDB` (statedb.go). `logs` newest-first as (txhash, index, payload); `revs` newest-first as (id, journal length). -/
structure SDB where
  trie : Addr → Option Acct
  objs : Addr → Option Obj
  dirty : List Addr
  journal : List Entry
  revs : List (Nat × Nat)
  nextId : Nat
  refund : Nat
  thash : Nat
  logs : List (Nat × Nat × Nat)
  logSize : Nat
  preimages : Nat → Option Nat
  fault : Bool

/-- `newObject(db, addr, Account{}, MarkStateObjectDirty)`. -/
def blank : Obj :=
  { nonce := 0, balance := 0, code := [], base := fun _ => 0, dirtySt := fun _ => none,
    suicided := false, touched := false, deleted := false, armed := true }

/-- `newObject(db, addr, data, MarkStateObjectDirty)` for an account decoded from the trie. -/
def fromAcct (c : Acct) : Obj :=
  { blank with nonce := c.nonce, balance := c.balance, code := c.code, base := c.storage }

/-- `state.New(root, db)` where `content` is what the trie at `root` holds. -/
def fresh (content : Addr → Option Acct) : SDB :=
  { trie := content, objs := fun _ => none, dirty := [], journal := [], revs := [], nextId := 0, refund := 0,
    thash := 0, logs := [], logSize := 0, preimages := fun _ => none, fault := false }

/-- `getStateObject`: live non-deleted object, else the trie leaf; `none` = nil. (pure: the read cache is not modelled) -/
def look (s : SDB) (a : Addr) : Option Obj :=
  match s.objs a with
  | some o => if o.deleted then none else some o
  | none => (s.trie a).map fromAcct

/-- `stateObject.GetState`: cachedStorage/dirtyStorage first, then the storage trie. -/
def getState (o : Obj) (k : Slot) : Word :=
  match o.dirtySt k with
  | some v => v
  | none => o.base k

/-- `stateObject.empty`. -/
def Obj.empty (o : Obj) : Bool := o.nonce == 0 && o.balance == 0 && o.code.isEmpty

/-- `MarkStateObjectDirty`. -/
def markDirty (s : SDB) (a : Addr) : SDB := if a ∈ s.dirty then s else { s with dirty := a :: s.dirty }

/-- `s.stateObjects[a] = o` without touching the callback. -/
def putObj (s : SDB) (a : Addr) (o : Obj) : SDB := { s with objs := upd s.objs a (some o) }

/-- store a modified object and fire the one-shot `onDirty` callback (tail of setBalance/setNonce/setCode/setState/
    markSuicided/touch): `if onDirty != nil { onDirty(addr); onDirty = nil }`. -/
def writeObj (s : SDB) (a : Addr) (o : Obj) : SDB :=
  putObj (if o.armed then markDirty s a else s) a { o with armed := false }

def push (s : SDB) (e : Entry) : SDB := { s with journal := e :: s.journal }

/-- `createObject`: returns the new state, the new object and the previous one. -/
def createObject (s : SDB) (a : Addr) : SDB × Obj × Option Obj :=
  let prev := look s a
  let newobj : Obj := { blank with armed := false }      -- newobj.setNonce(0) fires onDirty
  let s1 := markDirty s a
  let s2 := push s1 (match prev with | none => .createObject a | some p => .resetObject a p)
  (putObj s2 a newobj, newobj, prev)

/-- `GetOrNewStateObject`. -/
def getOrNew (s : SDB) (a : Addr) : SDB × Obj :=
  match look s a with
  | some o => (s, o)
  | none => let r := createObject s a; (r.1, r.2.1)

/-- `stateObject.touch`. -/
def touch (s : SDB) (a : Addr) (o : Obj) : SDB :=
  writeObj (push s (.touch a o.touched (!o.armed))) a { o with touched := true }

/-- `stateObject.SetBalance` (journal + setBalance). -/
def setBalanceJ (s : SDB) (a : Addr) (o : Obj) (v : Int) : SDB :=
  writeObj (push s (.balance a o.balance)) a { o with balance := v }

def addBalance (s : SDB) (a : Addr) (amt : Int) : SDB :=
  let r := getOrNew s a
  if amt = 0 then (if r.2.empty then touch r.1 a r.2 else r.1)
  else setBalanceJ r.1 a r.2 (r.2.balance + amt)

def subBalance (s : SDB) (a : Addr) (amt : Int) : SDB :=
  let r := getOrNew s a
  if amt = 0 then r.1 else setBalanceJ r.1 a r.2 (r.2.balance - amt)

def setBalance (s : SDB) (a : Addr) (v : Int) : SDB :=
  let r := getOrNew s a
  setBalanceJ r.1 a r.2 v

def setNonce (s : SDB) (a : Addr) (n : Nat) : SDB :=
  let r := getOrNew s a
  writeObj (push r.1 (.nonce a r.2.nonce)) a { r.2 with nonce := n }

def setCode (s : SDB) (a : Addr) (c : Bytes) : SDB :=
  let r := getOrNew s a
  writeObj (push r.1 (.code a r.2.code)) a { r.2 with code := c }

def setState (s : SDB) (a : Addr) (k : Slot) (v : Word) : SDB :=
  let r := getOrNew s a
  writeObj (push r.1 (.storage a k (getState r.2 k))) a { r.2 with dirtySt := upd r.2.dirtySt k (some v) }

/-- `Suicide`: returns the state (the Go return value is `look s a ≠ none`). -/
def suicide (s : SDB) (a : Addr) : SDB :=
  match look s a with
  | none => s
  | some o => writeObj (push s (.suicide a o.suicided o.balance)) a { o with suicided := true, balance := 0 }

/-- `CreateAccount`: the balance of an existing account is carried over. -/
def createAccount (s : SDB) (a : Addr) : SDB :=
  let r := createObject s a
  match r.2.2 with
  | some p => putObj r.1 a { r.2.1 with balance := p.balance }
  | none => r.1

def two64 : Nat := 18446744073709551616

/-- `AddRefund` (uint64 addition wraps). -/
def addRefund (s : SDB) (g : Nat) : SDB :=
  { push s (.refund s.refund) with refund := (s.refund + g) % two64 }

/-- `AddLog`: payload abstracted to a tag; TxHash/Index as assigned by the StateDB. -/
def addLog (s : SDB) (tag : Nat) : SDB :=
  { push s (.addLog s.thash) with logs := (s.thash, s.logSize, tag) :: s.logs, logSize := s.logSize + 1 }

/-- `AddPreimage`. -/
def addPreimage (s : SDB) (h p : Nat) : SDB :=
  match s.preimages h with
  | some _ => s
  | none => { push s (.addPreimage h) with preimages := upd s.preimages h (some p) }

/-- `Prepare` (not journalled). -/
def prepare (s : SDB) (th : Nat) : SDB := { s with thash := th }

/-- remove the newest log of the given transaction hash (`addLogChange.undo` pops the bucket `logs[txhash]`). -/
def popLog (th : Nat) : List (Nat × Nat × Nat) → List (Nat × Nat × Nat)
  | [] => []
  | l :: ls => if l.1 = th then ls else l :: popLog th ls

/-- the `undo` methods of journal.go. A nil dereference (`s.getStateObject(a).setX`) sets `fault`. -/
def undo (e : Entry) (s : SDB) : SDB :=
  match e with
  | .createObject a => { s with objs := upd s.objs a none, dirty := s.dirty.filter (· != a) }
  | .resetObject a prev => putObj s a prev
  | .suicide a prev pb =>
    match look s a with
    | none => s
    | some o => writeObj s a { o with suicided := prev, balance := pb }
  | .balance a prev =>
    match look s a with
    | none => { s with fault := true }
    | some o => writeObj s a { o with balance := prev }
  | .nonce a prev =>
    match look s a with
    | none => { s with fault := true }
    | some o => writeObj s a { o with nonce := prev }
  | .storage a k prev =>
    match look s a with
    | none => { s with fault := true }
    | some o => writeObj s a { o with dirtySt := upd o.dirtySt k (some prev) }
  | .code a prev =>
    match look s a with
    | none => { s with fault := true }
    | some o => writeObj s a { o with code := prev }
  | .refund prev => { s with refund := prev }
  | .addLog th => { s with logs := popLog th s.logs, logSize := s.logSize - 1 }
  | .addPreimage h => { s with preimages := upd s.preimages h none }
  | .touch a prev prevDirty =>
    if !prev && a != ripemd then
      match look s a with
      | none => { s with fault := true }
      | some o =>
        let s1 := putObj s a { o with touched := prev }
        if !prevDirty then { s1 with dirty := s1.dirty.filter (· != a) } else s1
    else s

/-- undo the `n` newest journal entries, newest first, dropping them (the loop + truncation of RevertToSnapshot). -/
def undoN : Nat → SDB → SDB
  | 0, s => s
  | n + 1, s =>
    match s.journal with
    | [] => s
    | e :: js => undoN n (undo e { s with journal := js })

/-- `Snapshot`: returns the state and the revision id. -/
def snapshot (s : SDB) : SDB × Nat :=
  ({ s with revs := (s.nextId, s.journal.length) :: s.revs, nextId := s.nextId + 1 }, s.nextId)

/-- `RevertToSnapshot`; `none` = panic("revision id cannot be reverted"). -/
def revertTo (id : Nat) (s : SDB) : Option SDB :=
  match s.revs.dropWhile (fun r => id < r.1) with
  | [] => none
  | r :: rest =>
    if r.1 = id then some { undoN (s.journal.length - r.2) s with revs := rest } else none

def Obj.toAcct (o : Obj) : Acct :=
  { nonce := o.nonce, balance := o.balance, code := o.code, storage := fun k => getState o k }

/-- `updateTrie` (+ updateRoot/CommitTrie): dirty storage is written into the storage trie, zero values delete. -/
def Obj.flush (o : Obj) : Obj := { o with base := fun k => getState o k, dirtySt := fun _ => none }

/-- the deletion test of Finalise: `stateObject.suicided || (deleteEmptyObjects && stateObject.empty())`. -/
def delCond (d : Bool) (o : Obj) : Bool := o.suicided || (d && o.empty)

def clearJournalAndRefund (s : SDB) : SDB := { s with journal := [], revs := [], refund := 0 }

/-- one iteration of the loop of `Finalise` (the raw map entry is used, also for already deleted objects). -/
def finStep (d : Bool) (s : SDB) (a : Addr) : SDB :=
  match s.objs a with
  | none => { s with fault := true }
  | some o =>
    if delCond d o then { s with objs := upd s.objs a (some { o with deleted := true }), trie := upd s.trie a none }
    else { s with objs := upd s.objs a (some o.flush), trie := upd s.trie a (some o.toAcct),
                  fault := s.fault || decide (o.balance < 0) }

/-- `Finalise` with the iteration order over `stateObjectsDirty` made explicit. -/
def finaliseFold (d : Bool) (order : List Addr) (s : SDB) : SDB :=
  clearJournalAndRefund (order.foldl (finStep d) s)

/-- `Finalise`, order-free form (equal to `finaliseFold` for every iteration order: Props.C09.finalise_perm_invariant). -/
def finalise (d : Bool) (s : SDB) : SDB :=
  { s with
    trie := fun a =>
      if a ∈ s.dirty then
        match s.objs a with
        | none => s.trie a
        | some o => if delCond d o then none else some o.toAcct
      else s.trie a
    objs := fun a =>
      if a ∈ s.dirty then
        match s.objs a with
        | none => none
        | some o => if delCond d o then some { o with deleted := true } else some o.flush
      else s.objs a
    fault := s.fault || s.dirty.any (fun a =>
      match s.objs a with
      | none => true
      | some o => !delCond d o && decide (o.balance < 0))
    journal := [], revs := [], refund := 0 }

/-- `Commit` (order-free: every map entry is handled independently). The root is `mptRoot (commit d s).trie`. -/
def commit (d : Bool) (s : SDB) : SDB :=
  let del := fun (a : Addr) (o : Obj) => o.suicided || (decide (a ∈ s.dirty) && d && o.empty)
  { s with
    trie := fun a =>
      match s.objs a with
      | none => s.trie a
      | some o => if del a o then none else if a ∈ s.dirty then some o.toAcct else s.trie a
    objs := fun a =>
      match s.objs a with
      | none => none
      | some o => if del a o then some { o with deleted := true } else if a ∈ s.dirty then some o.flush else some o
    dirty := s.dirty.filter (fun a => (s.objs a).isNone)
    fault := s.fault || s.dirty.any (fun a =>
      match s.objs a with
      | none => false
      | some o => !del a o && decide (o.balance < 0))
    journal := [], revs := [], refund := 0 }

/-- `stateObject.deepCopy` with a fresh callback. -/
def Obj.deepCopy (o : Obj) : Obj := { o with touched := false, armed := true }

/-- `Copy`: only dirty objects are copied; journal, revisions and the Prepare context are not. -/
def copy (s : SDB) : SDB :=
  { trie := s.trie
    objs := fun a => if a ∈ s.dirty then (s.objs a).map Obj.deepCopy else none
    dirty := s.dirty, journal := [], revs := [], nextId := 0, refund := s.refund, thash := 0
    logs := s.logs, logSize := s.logSize, preimages := s.preimages
    fault := s.fault || s.dirty.any (fun a => (s.objs a).isNone) }

/-- `Reset(root)` where `content` is what the trie at `root` holds (nextRevisionId is kept). -/
def reset (s : SDB) (content : Addr → Option Acct) : SDB :=
  { fresh content with nextId := s.nextId, fault := s.fault }

/-! ### Spec-level observations -/

/-- what the getters report for one account. -/
structure AcctView where
  nonce : Nat
  balance : Int
  code : Bytes
  suicided : Bool
  storage : Slot → Word

def Obj.view (o : Obj) : AcctView :=
  { nonce := o.nonce, balance := o.balance, code := o.code, suicided := o.suicided, storage := fun k => getState o k }

/-- GetNonce/GetBalance/GetCode/GetState/HasSuicided/Exist of one address (`none` = does not exist). -/
def viewAt (s : SDB) (a : Addr) : Option AcctView := (look s a).map Obj.view

def exist (s : SDB) (a : Addr) : Bool := (look s a).isSome
def isEmpty (s : SDB) (a : Addr) : Bool := match look s a with | none => true | some o => o.empty
def balanceOf (s : SDB) (a : Addr) : Int := match look s a with | none => 0 | some o => o.balance
def nonceOf (s : SDB) (a : Addr) : Nat := match look s a with | none => 0 | some o => o.nonce
def codeOf (s : SDB) (a : Addr) : Bytes := match look s a with | none => [] | some o => o.code
def stateOf (s : SDB) (a : Addr) (k : Slot) : Word := match look s a with | none => 0 | some o => getState o k
def suicidedOf (s : SDB) (a : Addr) : Bool := match look s a with | none => false | some o => o.suicided

/-- everything the property's getters can see. -/
structure View where
  accts : Addr → Option AcctView
  refund : Nat
  logs : List (Nat × Nat × Nat)
  preimages : Nat → Option Nat

def view (s : SDB) : View :=
  { accts := viewAt s, refund := s.refund, logs := s.logs, preimages := s.preimages }

/-- the content the getters describe: the set of existing accounts with their contents (what the root must commit to). -/
def contentOf (s : SDB) : Addr → Option Acct := fun a => (look s a).map Obj.toAcct

/-! ### Operations as data (histories) -/

/-- journalled mutators (everything the EVM may call between Snapshot and RevertToSnapshot). -/
inductive Mut
  | createAccount (a : Addr)
  | addBalance (a : Addr) (v : Int)
  | subBalance (a : Addr) (v : Int)
  | setBalance (a : Addr) (v : Int)
  | setNonce (a : Addr) (n : Nat)
  | setCode (a : Addr) (c : Bytes)
  | setState (a : Addr) (k : Slot) (v : Word)
  | suicide (a : Addr)
  | addRefund (g : Nat)
  | addLog (tag : Nat)
  | addPreimage (h p : Nat)

def applyMut (m : Mut) (s : SDB) : SDB :=
  match m with
  | .createAccount a => createAccount s a
  | .addBalance a v => addBalance s a v
  | .subBalance a v => subBalance s a v
  | .setBalance a v => setBalance s a v
  | .setNonce a n => setNonce s a n
  | .setCode a c => setCode s a c
  | .setState a k v => setState s a k v
  | .suicide a => suicide s a
  | .addRefund g => addRefund s g
  | .addLog t => addLog s t
  | .addPreimage h p => addPreimage s h p

/-- operations inside one transaction: mutators, Snapshot, RevertToSnapshot. -/
inductive TxOp
  | mutate (m : Mut)
  | snap
  | revert (id : Nat)

/-- `none` = the Go code panics (revert to an id that is not live). -/
def stepTx (op : TxOp) (s : SDB) : Option SDB :=
  match op with
  | .mutate m => some (applyMut m s)
  | .snap => some (snapshot s).1
  | .revert id => revertTo id s

def runTx : List TxOp → SDB → Option SDB
  | [], s => some s
  | op :: ops, s =>
    match stepTx op s with
    | none => none
    | some s' => runTx ops s'

/-- block-level operations on one StateDB. `commitReset d` = `Commit(d)` followed by `Reset(root)`/`New(root)`, the only
    way the callers in /repo continue after a Commit. -/
inductive Op
  | tx (op : TxOp)
  | prepare (th : Nat)
  | finalise (d : Bool)
  | commitReset (d : Bool)

def step (op : Op) (s : SDB) : Option SDB :=
  match op with
  | .tx o => stepTx o s
  | .prepare th => some (prepare s th)
  | .finalise d => some (finalise d s)
  | .commitReset d => let c := commit d s; some (reset c c.trie)

def run : List Op → SDB → Option SDB
  | [], s => some s
  | op :: ops, s =>
    match step op s with
    | none => none
    | some s' => run ops s'

/-! ### several StateDB instances over one `state.Database` -/

/-- the `state.Database` (content by committed root, append-only: the index of a commit stands for its root) and the
    StateDB instances opened over it (`state.New`, `Reset`, `Copy`). In Go they share the node database and the cachingDB's
    past-trie cache; `OpenTrie`/`CopyTrie` hand out copies, so in the model every instance is a value of its own. -/
structure World where
  committed : List (Addr → Option Acct)
  insts : List SDB

/-- operations on one instance of a `World`. -/
inductive IOp
  | tx (o : TxOp)
  | prepare (th : Nat)
  | finalise (d : Bool)
  | commit (d : Bool)
  | reset (k : Nat)

/-- apply `op` to instance `i` (`none`: no such instance / no such commit / the Go code panics). -/
def World.stepAt (w : World) (i : Nat) (op : IOp) : Option World :=
  match w.insts[i]? with
  | none => none
  | some s =>
    match op with
    | .tx o => (stepTx o s).map fun s' => { w with insts := w.insts.set i s' }
    | .prepare th => some { w with insts := w.insts.set i (prepare s th) }
    | .finalise d => some { w with insts := w.insts.set i (finalise d s) }
    | .commit d => some { committed := w.committed ++ [(commit d s).trie], insts := w.insts.set i (commit d s) }
    | .reset k => (w.committed[k]?).map fun c => { w with insts := w.insts.set i (reset s c) }

/-- `state.New(root_k, db)`: one more instance. -/
def World.openAt (w : World) (k : Nat) : Option World :=
  (w.committed[k]?).map fun c => { w with insts := w.insts ++ [fresh c] }

/-- `insts[i].Copy()`: one more instance. -/
def World.copyOf (w : World) (i : Nat) : Option World :=
  (w.insts[i]?).map fun s => { w with insts := w.insts ++ [copy s] }

/-- a history over a world: steps on chosen instances, opens and copies. -/
inductive WStep
  | at (i : Nat) (op : IOp)
  | openAt (k : Nat)
  | copyOf (i : Nat)

def World.step (w : World) : WStep → Option World
  | .at i op => w.stepAt i op
  | .openAt k => w.openAt k
  | .copyOf i => w.copyOf i

def World.run : List WStep → World → Option World
  | [], w => some w
  | st :: sts, w =>
    match w.step st with
    | none => none
    | some w' => World.run sts w'

/-- the step does not operate on instance `j` (reading it for a Copy is allowed). -/
def WStep.avoids (j : Nat) : WStep → Bool
  | .at i _ => i != j
  | _ => true

end Aqv.State

/-
  Aqv.Model.Scope — small-step model of `event.SubscriptionScope` (aqua/event/subscription.go: Track, Close, Count,
  scopeSub.Unsubscribe), core Lean only.

  `sc.mu` is explicit: Track, Count and the `delete` at the end of scopeSub.Unsubscribe are lock–op–unlock sections (one
  step each); Close holds `sc.mu` from its entry until it has called `Unsubscribe` on every tracked subscription (one step
  per subscription, in ANY order — Go iterates over a map) and set `sc.subs = nil` (`step false`, the code as written;
  `step true` is the variant that releases `sc.mu` before unsubscribing, used only for a witness).  An inner subscription is identified
  with the wrapper that Track returns for it; each inner subscription is offered to Track once and each wrapper's
  Unsubscribe is called at most once (further calls only repeat idempotent operations).  The inner `Unsubscribe` is the
  feed's (Aqv.Model.Feed: it returns, `remove_terminates`; `errOnce` makes repeated calls no-ops) and is a single step here.
-/
namespace Aqv.Scope

abbrev Sub := Nat
abbrev Cid := Nat

/-- program counter of one `Close` call -/
inductive CPc
  | idle | called | running (todo : List Sub) | done
  deriving DecidableEq, Repr

/-- program counter of one wrapper's `Unsubscribe` -/
inductive WPc
  | idle | inner | wait | done      -- `inner`: about to call s.s.Unsubscribe(); `wait`: about to lock sc.mu and delete
  deriving DecidableEq, Repr

inductive Ev
  | trackOk (i : Sub)       -- Track(i) returned a wrapper
  | trackNil (i : Sub)      -- Track(i) returned nil
  | closeCall (k : Cid)
  | closeRet (k : Cid)
  | unsub (i : Sub)         -- the inner Unsubscribe of i returned
  | wrapCall (i : Sub)
  | wrapRet (i : Sub)
  | count (n : Nat)         -- Count() returned n
  deriving DecidableEq, Repr

def upd {α : Type} (f : Nat → α) (a : Nat) (v : α) : Nat → α := fun x => if x = a then v else f x

structure St where
  muFree : Bool
  closed : Bool
  subs : List Sub
  cpc : Cid → CPc
  wpc : Sub → WPc
  -- ghost
  closer : Option Cid
  offered : Sub → Bool
  tracked : Sub → Bool
  unsubbed : Sub → Bool
  tr : List Ev

def init : St where
  muFree := true
  closed := false
  subs := []
  cpc := fun _ => .idle
  wpc := fun _ => .idle
  closer := none
  offered := fun _ => false
  tracked := fun _ => false
  unsubbed := fun _ => false
  tr := []

inductive Act
  | track (i : Sub)
  | closeCall (k : Cid)
  | closeEnter (k : Cid)
  | closeStep (k : Cid) (i : Sub)
  | closeExit (k : Cid)
  | wrapCall (i : Sub)
  | wrapInner (i : Sub)
  | wrapDelete (i : Sub)
  | count
  deriving DecidableEq, Repr

def step (early : Bool) (s : St) : Act → Option St
  -- Track: `sc.mu.Lock(); if sc.closed { return nil }; …; sc.subs[ss] = struct{}{}; return ss`
  | .track i =>
    if s.muFree = true ∧ s.offered i = false then
      if s.closed = true then some { s with offered := upd s.offered i true, tr := s.tr ++ [.trackNil i] }
      else some { s with offered := upd s.offered i true, tracked := upd s.tracked i true, subs := s.subs ++ [i],
                         tr := s.tr ++ [.trackOk i] }
    else none
  | .closeCall k =>
    if s.cpc k = .idle then some { s with cpc := upd s.cpc k .called, tr := s.tr ++ [.closeCall k] } else none
  -- Close: `sc.mu.Lock(); if sc.closed { return }; sc.closed = true; for s := range sc.subs {`
  | .closeEnter k =>
    if s.cpc k = .called ∧ s.muFree = true then
      if s.closed = true then some { s with cpc := upd s.cpc k .done, tr := s.tr ++ [.closeRet k] }
      else if early then
        -- seeded variant C19-9: `sc.closed = true; subs := sc.subs; sc.subs = nil; sc.mu.Unlock()` and unsubscribe afterwards
        some { s with closed := true, subs := [], cpc := upd s.cpc k (.running s.subs) }
      else some { s with muFree := false, closed := true, closer := some k, cpc := upd s.cpc k (.running s.subs) }
    else none
  -- `s.s.Unsubscribe()` for some not yet visited key of the map
  | .closeStep k i =>
    match s.cpc k with
    | .running todo =>
      if i ∈ todo then
        some { s with cpc := upd s.cpc k (.running (todo.erase i)), unsubbed := upd s.unsubbed i true, tr := s.tr ++ [.unsub i] }
      else none
    | _ => none
  -- `}; sc.subs = nil; sc.mu.Unlock()`
  | .closeExit k =>
    match s.cpc k with
    | .running todo =>
      if todo = [] then
        if early then some { s with cpc := upd s.cpc k .done, tr := s.tr ++ [.closeRet k] }
        else some { s with subs := [], muFree := true, closer := none, cpc := upd s.cpc k .done, tr := s.tr ++ [.closeRet k] }
      else none
    | _ => none
  | .wrapCall i =>
    if s.tracked i = true ∧ s.wpc i = .idle then some { s with wpc := upd s.wpc i .inner, tr := s.tr ++ [.wrapCall i] }
    else none
  -- scopeSub.Unsubscribe: `s.s.Unsubscribe()`
  | .wrapInner i =>
    if s.wpc i = .inner then
      some { s with wpc := upd s.wpc i .wait, unsubbed := upd s.unsubbed i true, tr := s.tr ++ [.unsub i] }
    else none
  -- `s.sc.mu.Lock(); delete(s.sc.subs, s); s.sc.mu.Unlock()`
  | .wrapDelete i =>
    if s.wpc i = .wait ∧ s.muFree = true then
      some { s with subs := s.subs.erase i, wpc := upd s.wpc i .done, tr := s.tr ++ [.wrapRet i] }
    else none
  -- Count: `sc.mu.Lock(); return len(sc.subs)`
  | .count => if s.muFree = true then some { s with tr := s.tr ++ [.count s.subs.length] } else none

def run (early : Bool) (s : St) : List Act → Option St
  | [] => some s
  | a :: as => match step early s a with
    | some s' => run early s' as
    | none => none

inductive Reach : St → Prop
  | init : Reach init
  | step {s s' : St} (a : Act) : Reach s → step false s a = some s' → Reach s'

theorem reach_run {s s' : St} (h : Reach s) : ∀ {as : List Act}, run false s as = some s' → Reach s' := by
  intro as
  induction as generalizing s with
  | nil => intro e; simp [run] at e; exact e ▸ h
  | cons a as ih =>
    intro e
    simp only [run] at e
    split at e
    · next s1 h1 => exact ih (Reach.step a h h1) e
    · cases e

/-- some occurrence of `a` strictly precedes some occurrence of `b` in the history -/
def Before (tr : List Ev) (a b : Ev) : Prop := List.Sublist [a, b] tr

end Aqv.Scope

/-
  Aqv.Model.Feed — small-step transition system of `event.Feed` (aqua/event/feed.go) for property C19.
  Core Lean only (linked into the driver).

  Granularity.  One model step = the code a goroutine executes between two points at which the real code can be
  interleaved with other goroutines in an observable way: channel operations (`<-f.sendLock`, `f.sendLock <- …`,
  `TrySend`, `reflect.Select`, the `removeSub` rendezvous, receiver `<-ch`) and `f.mu` critical sections.  Everything a
  goroutine does between two such points touches only state it owns exclusively at that moment (locals, or
  `f.sendCases` while holding the `sendLock` token), so executing it atomically loses no behaviour.  The five `verif`
  yield points of DESIGN §2.3 sit exactly on such boundaries (noted on the program counters below).

  Identification.  A subscription is identified with its channel (`Chan`); `Subscribe` is only enabled for a channel
  that is not subscribed yet (subscribing one channel twice is outside the model).  Every `Send` call has its own id
  `Sid`, which is also the value it sends (values are unique per call, as in the harness).  `Unsubscribe` is called at
  most once per subscription (`feedSub.errOnce` makes later calls wait for the first and then return).

  State that exists in the Go program: `tokenFree` (sendLock holds its token), `inbox`, `sendCases` (= f.sendCases[1:],
  index 0 is the removeSub receive case), `active` (= len(cases)-1: `cases` is `f.sendCases[:active+1]`, sharing the
  backing array, which is why `deactivate` is a swap inside `sendCases`), per channel `cap/buf/waiting`, per Send call
  the program counter and the local `nsent`, per subscription the program counter of `remove`.
  Ghost state (history only, never read by a guard): `holder`, `subscribed`, `atCall`, `atRet`, `placed`, `rcvd`,
  `rank`, `nextRank`, `tr`.
-/
namespace Aqv.Feed

abbrev Chan := Nat
abbrev Sid := Nat

/-- program counter of one `Feed.Send` call -/
inductive SPc
  | idle                 -- not called yet
  | start                -- called, blocked in `<-f.sendLock`
  | locked               -- holds the token; next: lock f.mu, merge inbox            (verifYield 1)
  | sweep (i : Nat)      -- in the TrySend loop, next index `i+1`                     (verifYield 2 on entry)
  | sel                  -- in `reflect.Select(cases)`                                (verifYield 3)
  | removing (c : Chan)  -- Select returned case 0 with `recv = c`; next: find/delete
  | done (n : Nat)       -- returned `n`
  | panicked             -- `caseList.delete(-1)` (slice bounds) — proved unreachable
  deriving DecidableEq, Repr

/-- program counter of `feedSub.Unsubscribe` / `Feed.remove` for one subscription -/
inductive RPc
  | idle                 -- Unsubscribe not called yet
  | start                -- called; next: lock f.mu, look in the inbox
  | sel                  -- inbox miss; in `select { removeSub <- ch ; <-sendLock }`   (verifYield 4)
  | token                -- took the token; next: find/delete in sendCases
  | deleted              -- deleted; next: put the token back                          (verifYield 5)
  | done                 -- Unsubscribe returned
  | panicked             -- `delete(-1)` — proved unreachable
  deriving DecidableEq, Repr

inductive Holder
  | none | sender (g : Sid) | remover (c : Chan)
  deriving DecidableEq, Repr

/-- observable events (plus the ghost event `place`); the chronological list `St.tr` is the history. -/
inductive Ev
  | subRet (c : Chan)              -- Subscribe(c) returned (call and return surround one f.mu section)
  | sendCall (g : Sid)
  | sendRet (g : Sid) (n : Nat)
  | unsubCall (c : Chan)
  | unsubRet (c : Chan)
  | place (c : Chan) (g : Sid)     -- value g was put into channel c (TrySend succeeded / Select chose the case)
  | recv (c : Chan) (g : Sid)      -- the receiver of c took value g out of the channel
  deriving DecidableEq, Repr

def upd {α : Type} (f : Nat → α) (a : Nat) (v : α) : Nat → α := fun x => if x = a then v else f x

/-- exchange positions i and j (caseList.deactivate: `cs[index], cs[last] = cs[last], cs[index]`) -/
def swapAt (l : List Chan) (i j : Nat) : List Chan := (l.set i (l.getD j 0)).set j (l.getD i 0)

structure St where
  tokenFree : Bool
  inbox : List Chan
  sendCases : List Chan
  active : Nat
  cap : Chan → Nat
  buf : Chan → List Sid
  waiting : Chan → Nat
  spc : Sid → SPc
  nsent : Sid → Nat
  rpc : Chan → RPc
  -- ghost
  holder : Holder
  subscribed : Chan → Bool
  atCall : Sid → Chan → Bool      -- snapshot of `subscribed` when Send g was called
  atRet : Sid → Chan → Bool       -- snapshot of "Unsubscribe(c) has been called" when Send g returned
  placed : List (Chan × Sid)      -- chronological log of placements
  rcvd : Chan → List Sid          -- chronological log of what the receiver of c took
  rank : Sid → Nat                -- position of Send g in the order in which the token was acquired
  nextRank : Nat
  tr : List Ev

def init : St where
  tokenFree := true
  inbox := []
  sendCases := []
  active := 0
  cap := fun _ => 0
  buf := fun _ => []
  waiting := fun _ => 0
  spc := fun _ => .idle
  nsent := fun _ => 0
  rpc := fun _ => .idle
  holder := .none
  subscribed := fun _ => false
  atCall := fun _ _ => false
  atRet := fun _ _ => false
  placed := []
  rcvd := fun _ => []
  rank := fun _ => 0
  nextRank := 0
  tr := []

inductive Act
  | subscribe (c : Chan) (cap : Nat)
  | sendCall (g : Sid)
  | acquire (g : Sid)
  | merge (g : Sid)
  | tryOk (g : Sid)
  | tryFail (g : Sid)
  | sweepEnd (g : Sid)
  | selPlace (g : Sid) (i : Nat)
  | selRecv (g : Sid) (c : Chan)
  | doRemove (g : Sid)
  | unsubCall (c : Chan)
  | rmInbox (c : Chan)
  | rmToken (c : Chan)
  | rmDelete (c : Chan)
  | rmRelease (c : Chan)
  | recvBegin (c : Chan)
  | recvTake (c : Chan)
  deriving DecidableEq, Repr

/-- a send on channel c can complete now: free buffer slot, or a receiver is blocked in `<-c` with nothing queued for it -/
def canPlace (s : St) (c : Chan) : Bool := (s.buf c).length < s.cap c + s.waiting c

/-- Send g puts its value into `cases[i+1]` and deactivates that case (`nsent++; cases = cases.deactivate(i)`). -/
def place (s : St) (g : Sid) (i : Nat) (pc : SPc) : St :=
  let c := s.sendCases.getD i 0
  { s with buf := upd s.buf c (s.buf c ++ [g]), nsent := upd s.nsent g (s.nsent g + 1),
           sendCases := swapAt s.sendCases i (s.active - 1), active := s.active - 1,
           spc := upd s.spc g pc,
           placed := s.placed ++ [(c, g)], tr := s.tr ++ [.place c g] }

def step (s : St) : Act → Option St
  -- Feed.Subscribe: under f.mu, `f.inbox = append(f.inbox, cas)`
  | .subscribe c k =>
    if s.subscribed c = false then
      some { s with inbox := s.inbox ++ [c], cap := upd s.cap c k, subscribed := upd s.subscribed c true,
                    tr := s.tr ++ [.subRet c] }
    else none
  | .sendCall g =>
    if s.spc g = .idle then
      some { s with spc := upd s.spc g .start, atCall := upd s.atCall g s.subscribed, tr := s.tr ++ [.sendCall g] }
    else none
  -- `<-f.sendLock`
  | .acquire g =>
    if s.spc g = .start ∧ s.tokenFree = true then
      some { s with tokenFree := false, holder := .sender g, spc := upd s.spc g .locked, nsent := upd s.nsent g 0,
                    rank := upd s.rank g s.nextRank, nextRank := s.nextRank + 1 }
    else none
  -- under f.mu: `f.sendCases = append(f.sendCases, f.inbox...); f.inbox = nil`; then `cases := f.sendCases`
  | .merge g =>
    if s.spc g = .locked then
      some { s with sendCases := s.sendCases ++ s.inbox, inbox := [], active := (s.sendCases ++ s.inbox).length,
                    spc := upd s.spc g (.sweep 0) }
    else none
  -- `cases[i].Chan.TrySend(rvalue)` succeeds
  | .tryOk g =>
    match s.spc g with
    | .sweep i => if i < s.active ∧ canPlace s (s.sendCases.getD i 0) = true then some (place s g i (.sweep i)) else none
    | _ => none
  -- TrySend fails: `i++`
  | .tryFail g =>
    match s.spc g with
    | .sweep i =>
      if i < s.active ∧ canPlace s (s.sendCases.getD i 0) = false then some { s with spc := upd s.spc g (.sweep (i + 1)) }
      else none
    | _ => none
  -- loop exit `i >= len(cases)`: `if len(cases) == firstSubSendCase { break }` → clear, release the token, return
  | .sweepEnd g =>
    match s.spc g with
    | .sweep i =>
      if s.active ≤ i then
        if s.active = 0 then
          some { s with tokenFree := true, holder := .none, spc := upd s.spc g (.done (s.nsent g)),
                        atRet := upd s.atRet g (fun c => s.rpc c != .idle), tr := s.tr ++ [.sendRet g (s.nsent g)] }
        else some { s with spc := upd s.spc g .sel }
      else none
    | _ => none
  -- reflect.Select chooses send case i+1 (any ready case may be chosen); back to the top of the `for`
  | .selPlace g i =>
    if s.spc g = .sel ∧ i < s.active ∧ canPlace s (s.sendCases.getD i 0) = true then some (place s g i (.sweep 0)) else none
  -- reflect.Select chooses case 0: rendezvous on removeSub with the `remove` of c, which then returns
  | .selRecv g c =>
    if s.spc g = .sel ∧ s.rpc c = .sel then
      some { s with spc := upd s.spc g (.removing c), rpc := upd s.rpc c .done, tr := s.tr ++ [.unsubRet c] }
    else none
  -- `index := f.sendCases.find(recv); f.sendCases = f.sendCases.delete(index); if index >= 0 && index < len(cases) {…}`
  | .doRemove g =>
    match s.spc g with
    | .removing c =>
      let idx := s.sendCases.idxOf c
      if idx < s.sendCases.length then
        some { s with sendCases := s.sendCases.eraseIdx idx, active := if idx < s.active then s.active - 1 else s.active,
                      spc := upd s.spc g (.sweep 0) }
      else some { s with spc := upd s.spc g .panicked }
    | _ => none
  | .unsubCall c =>
    if s.subscribed c = true ∧ s.rpc c = .idle then some { s with rpc := upd s.rpc c .start, tr := s.tr ++ [.unsubCall c] }
    else none
  -- remove: under f.mu, `index := f.inbox.find(ch); if index != -1 { f.inbox = f.inbox.delete(index); return }`
  | .rmInbox c =>
    if s.rpc c = .start then
      let idx := s.inbox.idxOf c
      if idx < s.inbox.length then
        some { s with inbox := s.inbox.eraseIdx idx, rpc := upd s.rpc c .done, tr := s.tr ++ [.unsubRet c] }
      else some { s with rpc := upd s.rpc c .sel }
    else none
  -- remove: `case <-f.sendLock:`
  | .rmToken c =>
    if s.rpc c = .sel ∧ s.tokenFree = true then
      some { s with tokenFree := false, holder := .remover c, rpc := upd s.rpc c .token }
    else none
  -- `f.sendCases = f.sendCases.delete(f.sendCases.find(ch))`
  | .rmDelete c =>
    if s.rpc c = .token then
      let idx := s.sendCases.idxOf c
      if idx < s.sendCases.length then some { s with sendCases := s.sendCases.eraseIdx idx, rpc := upd s.rpc c .deleted }
      else some { s with rpc := upd s.rpc c .panicked }
    else none
  -- `f.sendLock <- struct{}{}`; remove and Unsubscribe return
  | .rmRelease c =>
    if s.rpc c = .deleted then
      some { s with tokenFree := true, holder := .none, rpc := upd s.rpc c .done, tr := s.tr ++ [.unsubRet c] }
    else none
  -- a receiver arrives at `<-c`
  | .recvBegin c => some { s with waiting := upd s.waiting c (s.waiting c + 1) }
  -- … and takes the oldest queued value
  | .recvTake c =>
    match s.buf c with
    | v :: rest =>
      if 0 < s.waiting c then
        some { s with buf := upd s.buf c rest, waiting := upd s.waiting c (s.waiting c - 1),
                      rcvd := upd s.rcvd c (s.rcvd c ++ [v]), tr := s.tr ++ [.recv c v] }
      else none
    | [] => none

/-- run a schedule (list of actions); `none` if some action is not enabled. -/
def run (s : St) : List Act → Option St
  | [] => some s
  | a :: as => match step s a with
    | some s' => run s' as
    | none => none

/-- states reachable from `init` under ANY interleaving of any number of Send / Subscribe / Unsubscribe calls and receivers -/
inductive Reach : St → Prop
  | init : Reach init
  | step {s s' : St} (a : Act) : Reach s → step s a = some s' → Reach s'

theorem reach_run {s s' : St} (h : Reach s) : ∀ {as : List Act}, run s as = some s' → Reach s' := by
  intro as
  induction as generalizing s with
  | nil => intro e; simp [run] at e; exact e ▸ h
  | cons a as ih =>
    intro e
    simp only [run] at e
    split at e
    · next s1 h1 => exact ih (Reach.step a h h1) e
    · cases e

/-- values placed into channel c, in order -/
def placedOn (s : St) (c : Chan) : List Sid := (s.placed.filter (fun p => p.1 == c)).map (·.2)

/-- number of placements made by Send g -/
def placedBy (s : St) (g : Sid) : Nat := s.placed.countP (fun p => p.2 == g)

/-- the part of `sendCases` that `cases` still covers -/
def activeCases (s : St) : List Chan := s.sendCases.take s.active


/-! ### Vocabulary for statements about the chronological history `tr` -/

/-- some occurrence of `a` strictly precedes some occurrence of `b` -/
def Before (tr : List Ev) (a b : Ev) : Prop := List.Sublist [a, b] tr

/-- the placements recorded in a history, in order -/
def placesOf (tr : List Ev) : List (Chan × Sid) :=
  tr.filterMap (fun e => match e with | .place c g => some (c, g) | _ => none)

/-- what the receiver of `c` took, in order -/
def recvsOf (c : Chan) (tr : List Ev) : List Sid :=
  tr.filterMap (fun e => match e with | .recv c' g => if c' = c then some g else none | _ => none)

/-- what was put into `c`, in order -/
def placesOn (c : Chan) (tr : List Ev) : List Sid :=
  tr.filterMap (fun e => match e with | .place c' g => if c' = c then some g else none | _ => none)

/-- number of placements made by Send g -/
def placesBy (g : Sid) (tr : List Ev) : Nat :=
  tr.countP (fun e => match e with | .place _ g' => g' == g | _ => false)

end Aqv.Feed

/-
  Aqv.Model.TxPool — executable model of the transaction pool (core/tx_list.go, core/tx_pool.go,
  core/state/managed_state.go) and the specification `Inv` of property C15.  Core-only (linked into the driver).

  Abstractions (DESIGN.md §4 C15):
  * a transaction is its five relevant fields; the hash is injective on them (signing is deterministic);
  * `txSortedMap` (hash map + nonce heap + sorted cache) is a nonce-sorted list without duplicates;
  * `pendingState` (ManagedState) is the map of virtual next nonces, reset to the chain nonces by `reset`;
  * the eviction *policy* (price-heap order among equal prices, spammer queue order, heartbeat order, Go map iteration
    order) is a parameter of the operation (an oracle); theorems quantify over every oracle;
  * `beats`, `priced`, the journal and the event feed are not modelled.
-/
namespace Aqv.TxPool

abbrev Addr := Nat

structure Tx where
  sender : Addr
  nonce  : Nat
  price  : Nat
  gas    : Nat
  value  : Nat
deriving DecidableEq, Repr

/-- types.Transaction.Cost: value + gasprice * gaslimit -/
def Tx.cost (t : Tx) : Nat := t.value + t.price * t.gas

/-! ## txSortedMap (tx_list.go) as a nonce-sorted list -/

/-- txSortedMap.Get -/
def getN : List Tx → Nat → Option Tx
  | [], _ => none
  | x :: xs, n => if x.nonce = n then some x else getN xs n

/-- txSortedMap.Put: insert, overwriting a transaction with the same nonce -/
def put (t : Tx) : List Tx → List Tx
  | [] => [t]
  | x :: xs =>
    if t.nonce < x.nonce then t :: x :: xs
    else if t.nonce = x.nonce then t :: xs
    else x :: put t xs

/-- txSortedMap.Forward: (removed, kept) — everything below the threshold is removed -/
def forward (th : Nat) (l : List Tx) : List Tx × List Tx :=
  (l.filter (fun t => decide (t.nonce < th)), l.filter (fun t => !decide (t.nonce < th)))

/-- txSortedMap.Cap: (drops, kept) — the highest nonces beyond the threshold are dropped -/
def capL (k : Nat) (l : List Tx) : List Tx × List Tx := (l.drop k, l.take k)

/-- the maximal run of consecutive nonces starting at `next` at the head of the list: (run, rest) -/
def runFrom : Nat → List Tx → List Tx × List Tx
  | _, [] => ([], [])
  | next, x :: xs =>
    if x.nonce = next then
      let r := runFrom (next + 1) xs
      (x :: r.1, r.2)
    else ([], x :: xs)

/-- txSortedMap.Ready: (ready, rest). Nothing if the lowest nonce is above `start`; otherwise the consecutive run
    starting at the LOWEST nonce (also when that is below `start`, as the Go code does). -/
def ready (start : Nat) (l : List Tx) : List Tx × List Tx :=
  match l with
  | [] => ([], [])
  | x :: _ => if start < x.nonce then ([], l) else runFrom x.nonce l

/-- smallest nonce of a non-empty list (0 for the empty list, never used) -/
def lowest : List Tx → Nat
  | [] => 0
  | [x] => x.nonce
  | x :: y :: ys => min x.nonce (lowest (y :: ys))

/-! ## txList -/

structure TxL where
  strict  : Bool
  items   : List Tx
  costcap : Nat
  gascap  : Nat
deriving DecidableEq, Repr

def TxL.empty (strict : Bool) : TxL := ⟨strict, [], 0, 0⟩

/-- the acceptance rule of txList.Add for replacing `old` by `new` -/
def bumpOK (old new : Tx) (bump : Nat) : Bool :=
  decide (old.price < new.price) && decide (old.price * (100 + bump) / 100 ≤ new.price)

def TxL.putTx (l : TxL) (t : Tx) : TxL :=
  { l with items := put t l.items, costcap := max l.costcap t.cost, gascap := max l.gascap t.gas }

/-- txList.Add: (inserted, replaced old, list) -/
def TxL.add (l : TxL) (t : Tx) (bump : Nat) : Bool × Option Tx × TxL :=
  match getN l.items t.nonce with
  | some o => if bumpOK o t bump then (true, some o, l.putTx t) else (false, none, l)
  | none => (true, none, l.putTx t)

def TxL.overlaps (l : TxL) (t : Tx) : Bool := (getN l.items t.nonce).isSome

/-- the predicate of txList.Filter: too costly or too much gas -/
def unpayable (costLimit gasLimit : Nat) (t : Tx) : Bool :=
  decide (costLimit < t.cost) || decide (gasLimit < t.gas)

/-- txList.Filter: (removed, invalids, list) with the costcap/gascap short circuit and strict-mode invalidation -/
def TxL.filter (l : TxL) (costLimit gasLimit : Nat) : List Tx × List Tx × TxL :=
  if l.costcap ≤ costLimit ∧ l.gascap ≤ gasLimit then ([], [], l)
  else
    let removed := l.items.filter (unpayable costLimit gasLimit)
    let kept := l.items.filter (fun t => !unpayable costLimit gasLimit t)
    if l.strict && !removed.isEmpty then
      let low := lowest removed
      (removed, kept.filter (fun t => decide (low < t.nonce)),
        { l with items := kept.filter (fun t => !decide (low < t.nonce)), costcap := costLimit, gascap := gasLimit })
    else
      (removed, [], { l with items := kept, costcap := costLimit, gascap := gasLimit })

/-- txList.Remove (by nonce!): (found, invalids, list) -/
def TxL.remove (l : TxL) (t : Tx) : Bool × List Tx × TxL :=
  match getN l.items t.nonce with
  | none => (false, [], l)
  | some _ =>
    let rest := l.items.filter (fun u => !decide (u.nonce = t.nonce))
    if l.strict then
      (true, rest.filter (fun u => decide (t.nonce < u.nonce)), { l with items := rest.filter (fun u => !decide (t.nonce < u.nonce)) })
    else (true, [], { l with items := rest })

/-! ## pool state -/

structure Cfg where
  priceLimit   : Nat
  priceBump    : Nat
  accountSlots : Nat
  globalSlots  : Nat
  accountQueue : Nat
  globalQueue  : Nat
  noLocals     : Bool
  intrinsic    : Nat      -- params.TxGas (plain transfers without data)
deriving DecidableEq, Repr

/-- TxPoolConfig.sanitize -/
def Cfg.sanitize (c : Cfg) : Cfg :=
  { c with priceLimit := if c.priceLimit < 1 then 1 else c.priceLimit,
           priceBump := if c.priceBump < 1 then 10 else c.priceBump }

/-- what the pool sees of the chain head: account nonces and balances, block gas limit -/
structure View where
  nonce   : Addr → Nat
  balance : Addr → Nat
  maxGas  : Nat

structure Pool where
  cfg      : Cfg
  pending  : Addr → TxL        -- absent list = TxL.empty true
  queue    : Addr → TxL        -- absent list = TxL.empty false
  all      : List Tx
  pnonce   : Addr → Nat        -- pendingState.GetNonce
  cnonce   : Addr → Nat        -- currentState.GetNonce
  balance  : Addr → Nat        -- currentState.GetBalance
  maxGas   : Nat               -- currentMaxGas
  gasPrice : Nat
  locals   : List Addr
  accts    : List Addr         -- every account that may own a list (iteration domain of the map loops)

def upd {α : Type} (f : Addr → α) (a : Addr) (v : α) : Addr → α := fun x => if x = a then v else f x

def Pool.setP (s : Pool) (a : Addr) (l : TxL) : Pool := { s with pending := upd s.pending a l }
def Pool.setQ (s : Pool) (a : Addr) (l : TxL) : Pool := { s with queue := upd s.queue a l }
def Pool.setN (s : Pool) (a : Addr) (n : Nat) : Pool := { s with pnonce := upd s.pnonce a n }

def insertAll (t : Tx) (all : List Tx) : List Tx := if t ∈ all then all else t :: all

/-- `delete(pool.all, hash)` -/
def delAll (t : Tx) (all : List Tx) : List Tx := all.filter (fun x => !decide (x = t))

/-- `delete(pool.pending, addr)` when the list became empty -/
def dropIfEmpty (l : TxL) : TxL := if l.items.isEmpty then TxL.empty l.strict else l

def Pool.isLocal (s : Pool) (a : Addr) : Bool := decide (a ∈ s.locals)

/-- NewTxPool on a chain view -/
def Pool.init (c : Cfg) (v : View) : Pool :=
  let c := c.sanitize
  { cfg := c, pending := fun _ => TxL.empty true, queue := fun _ => TxL.empty false, all := [],
    pnonce := v.nonce, cnonce := v.nonce, balance := v.balance, maxGas := v.maxGas, gasPrice := c.priceLimit,
    locals := [], accts := [] }

inductive Err
  | ok | known | oversized | negative | gaslimit | sender | underpriced | nonce | funds | intrinsic | replace
deriving DecidableEq, Repr

/-- malformed-input classes recognised by validateTx before anything else -/
inductive Shape
  | wellformed | oversized | negative | badsig
deriving DecidableEq, Repr

/-- validateTx -/
def Pool.validateTx (s : Pool) (t : Tx) (loc : Bool) (sh : Shape) : Err :=
  if sh = .oversized then .oversized
  else if sh = .negative then .negative
  else if s.maxGas < t.gas then .gaslimit
  else if sh = .badsig then .sender
  else if !(loc || s.isLocal t.sender) && decide (t.price < s.gasPrice) then .underpriced
  else if t.nonce < s.cnonce t.sender then .nonce
  else if s.balance t.sender < t.cost then .funds
  else if t.gas < s.cfg.intrinsic then .intrinsic
  else .ok

/-- enqueueTx: (replaced?, error?, pool) -/
def Pool.enqueueTx (s : Pool) (t : Tx) : Bool × Bool × Pool :=
  let r := (s.queue t.sender).add t s.cfg.priceBump
  if !r.1 then (false, false, s)
  else
    let all := match r.2.1 with
      | some o => delAll o s.all
      | none => s.all
    (r.2.1.isSome, true, { s with queue := upd s.queue t.sender r.2.2, all := insertAll t all,
                                  accts := if t.sender ∈ s.accts then s.accts else t.sender :: s.accts })

/-- promoteTx -/
def Pool.promoteTx (s : Pool) (a : Addr) (t : Tx) : Pool :=
  let r := (s.pending a).add t s.cfg.priceBump
  if !r.1 then { s with all := delAll t s.all }
  else
    let all := match r.2.1 with
      | some o => delAll o s.all
      | none => s.all
    { s with pending := upd s.pending a r.2.2, all := insertAll t all, pnonce := upd s.pnonce a (t.nonce + 1),
             accts := if a ∈ s.accts then s.accts else a :: s.accts }

/-- removeTx. `fixed = false` is the code before commit f30bc16 (followers re-queued only when the pending list
    stays non-empty); `fixed = true` is the code at HEAD. -/
def Pool.removeTxG (fixed : Bool) (s : Pool) (t : Tx) : Pool :=
  if t ∉ s.all then s
  else
    let s := { s with all := delAll t s.all }
    let a := t.sender
    let r := (s.pending a).remove t
    if r.1 then
      let emptied := r.2.2.items.isEmpty
      let s := s.setP a (dropIfEmpty r.2.2)
      let s := if fixed || !emptied then r.2.1.foldl (fun s u => (s.enqueueTx u).2.2) s else s
      if t.nonce < s.pnonce a then s.setN a t.nonce else s
    else
      let q := (s.queue a).remove t
      s.setQ a (dropIfEmpty q.2.2)

def Pool.removeTx (s : Pool) (t : Tx) : Pool := s.removeTxG true t

/-- the per-account body of promoteExecutables -/
def Pool.promoteAcct (s : Pool) (a : Addr) : Pool :=
  let q := s.queue a
  -- drop too old
  let f := forward (s.cnonce a) q.items
  let s := { s with all := s.all.filter (fun t => !decide (t ∈ f.1)) }
  let q := { q with items := f.2 }
  -- drop unpayable
  let g := q.filter (s.balance a) s.maxGas
  let s := { s with all := s.all.filter (fun t => !decide (t ∈ g.1)) }
  let q := g.2.2
  -- promote the executable run
  let r := ready (s.pnonce a) q.items
  let q := { q with items := r.2 }
  let s := s.setQ a q
  let s := r.1.foldl (fun s t => s.promoteTx a t) s
  -- per-account queue limit
  let s :=
    if !s.isLocal a then
      let c := capL s.cfg.accountQueue (s.queue a).items
      { s with all := s.all.filter (fun t => !decide (t ∈ c.1)), queue := upd s.queue a { (s.queue a) with items := c.2 } }
    else s
  s.setQ a (dropIfEmpty (s.queue a))

def sumLen (f : Addr → TxL) (as : List Addr) : Nat := (as.map (fun a => (f a).items.length)).sum

def Pool.pendingCount (s : Pool) : Nat := sumLen s.pending s.accts
def Pool.queuedCount (s : Pool) : Nat := sumLen s.queue s.accts

/-- a non-local account holding more than its guaranteed slots -/
def Pool.offender (s : Pool) (a : Addr) : Bool :=
  !s.isLocal a && decide (s.cfg.accountSlots < (s.pending a).items.length)

/-- one fairness eviction `list.Cap(list.Len()-1)` with the bookkeeping the Go loop does for every dropped tx -/
def Pool.capOne (s : Pool) (a : Addr) : Pool :=
  let p := s.pending a
  let c := capL (p.items.length - 1) p.items
  let s := { s with pending := upd s.pending a { p with items := c.2 }, all := s.all.filter (fun t => !decide (t ∈ c.1)) }
  c.1.foldl (fun s t => if t.nonce < s.pnonce a then s.setN a t.nonce else s) s

/-- finish the equalisation deterministically: evict from the first offender until the limit holds or none is left -/
def Pool.slotFinish : Nat → Pool → Pool
  | 0, s => s
  | fuel + 1, s =>
    if s.pendingCount ≤ s.cfg.globalSlots then s
    else match s.accts.find? (fun a => s.offender a) with
      | none => s
      | some a => slotFinish fuel (s.capOne a)

/-- pending-slot equalisation of promoteExecutables: the schedule (which offender loses its last transaction next) is
    the oracle; whatever the schedule leaves undone is finished by `slotFinish`. -/
def Pool.slotEvict (s : Pool) (sched : List Addr) : Pool :=
  if s.pendingCount ≤ s.cfg.globalSlots then s
  else
    let s := sched.foldl (fun s a => if s.offender a then s.capOne a else s) s
    s.slotFinish s.pendingCount

/-- remove every queued transaction of `a` through removeTx (`for _, tx := range list.Flatten()`) -/
def Pool.dropQueued (s : Pool) (a : Addr) (ts : List Tx) : Pool := ts.foldl (fun s t => s.removeTx t) s

/-- the drop loop of the global queue limit over an ordered list of non-local accounts -/
def Pool.queueDrop : Nat → List Addr → Pool → Pool
  | _, [], s => s
  | 0, _, s => s
  | drop + 1, a :: rest, s =>
    let l := (s.queue a).items
    if l.length ≤ drop + 1 then queueDrop (drop + 1 - l.length) rest (s.dropQueued a l)
    else s.dropQueued a (l.drop (l.length - (drop + 1))).reverse

/-- global queue limit of promoteExecutables; the heartbeat order is the oracle (completed by the account list) -/
def Pool.queueEvict (s : Pool) (order : List Addr) : Pool :=
  if s.queuedCount ≤ s.cfg.globalQueue then s
  else
    let nl := fun a => !s.isLocal a
    Pool.queueDrop (s.queuedCount - s.cfg.globalQueue) (order.filter nl ++ s.accts.filter nl) s

/-- promoteExecutables(accounts); `none` = all accounts -/
def Pool.promoteExecutables (s : Pool) (accounts : Option (List Addr)) (slots qorder : List Addr) : Pool :=
  let as := match accounts with
    | some l => l
    | none => s.accts
  let s := as.foldl (fun s a => s.promoteAcct a) s
  let s := s.slotEvict slots
  s.queueEvict qorder

/-- the per-account body of demoteUnexecutables. `gapFix = true`: the code at HEAD (commit c2af732: everything from the
    first missing nonce on is postponed); `gapFix = false`: the code before c2af732 (only a gap in FRONT of the list was
    detected), kept to document the defect that commit fixed. -/
def Pool.demoteAcct (gapFix : Bool) (s : Pool) (a : Addr) : Pool :=
  let p := s.pending a
  let n := s.cnonce a
  let f := forward n p.items
  let s := { s with all := s.all.filter (fun t => !decide (t ∈ f.1)) }
  let p := { p with items := f.2 }
  let g := p.filter (s.balance a) s.maxGas
  let s := { s with all := s.all.filter (fun t => !decide (t ∈ g.1)) }
  let p := g.2.2
  let s := s.setP a p
  let s := g.2.1.foldl (fun s u => (s.enqueueTx u).2.2) s
  let p := s.pending a
  let keep :=
    if gapFix then (runFrom n p.items).1.length
    else if !p.items.isEmpty && (getN p.items n).isNone then 0 else p.items.length
  let c := capL keep p.items
  let s := s.setP a { p with items := c.2 }
  let s := c.1.foldl (fun s u => (s.enqueueTx u).2.2) s
  s.setP a (dropIfEmpty (s.pending a))

def Pool.demoteUnexecutables (gapFix : Bool) (s : Pool) : Pool :=
  s.accts.foldl (fun s a => s.demoteAcct gapFix a) s

/-- Discard: the victims proposed by the oracle, restricted to what the Go code can drop (non-local members of `all`,
    at most `count` of them). -/
def Pool.sanitizeVictims (s : Pool) (count : Nat) (vs : List Tx) : List Tx :=
  (vs.filter (fun t => decide (t ∈ s.all) && !s.isLocal t.sender)).take count

def minPrice : List Tx → Option Nat
  | [] => none
  | x :: xs => match minPrice xs with
    | none => some x.price
    | some m => some (min x.price m)

/-- txPricedList.Underpriced -/
def Pool.underpriced (s : Pool) (t : Tx) : Bool :=
  if s.isLocal t.sender then false
  else match minPrice s.all with
    | none => false
    | some m => decide (t.price ≤ m)

/-- what `add` does after validation and after making room -/
def Pool.addCore (s : Pool) (t : Tx) (loc : Bool) : Err × Bool × Pool :=
  if (s.pending t.sender).overlaps t then
    let r := (s.pending t.sender).add t s.cfg.priceBump
    if !r.1 then (.replace, false, s)
    else
      let all := match r.2.1 with
        | some o => delAll o s.all
        | none => s.all
      (.ok, r.2.1.isSome, { s with pending := upd s.pending t.sender r.2.2, all := insertAll t all })
  else
    let q := s.enqueueTx t
    if !q.2.1 then (.replace, false, s)
    else
      let s := q.2.2
      let s := if loc && !s.isLocal t.sender then { s with locals := t.sender :: s.locals } else s
      (.ok, q.1, s)

/-- add: (error, replaced?, pool). A malformed transaction has another hash than the well-formed one with the same five
    fields, so only well-formed ones can be "known". -/
def Pool.add (s : Pool) (t : Tx) (loc : Bool) (sh : Shape) (victims : List Tx) : Err × Bool × Pool :=
  if sh = .wellformed ∧ t ∈ s.all then (.known, false, s)
  else
    let e := s.validateTx t loc sh
    if e ≠ .ok then (e, false, s)
    else
      let cap := s.cfg.globalSlots + s.cfg.globalQueue
      let full := decide (cap ≤ s.all.length)
      if full && s.underpriced t then (.underpriced, false, s)
      else
        let s := if full then (s.sanitizeVictims (s.all.length + 1 - cap) victims).foldl (fun s v => s.removeTx v) s else s
        if (s.pending t.sender).overlaps t then
          let r := (s.pending t.sender).add t s.cfg.priceBump
          if !r.1 then (.replace, false, s)
          else
            let all := match r.2.1 with
              | some o => delAll o s.all
              | none => s.all
            (.ok, r.2.1.isSome, { s with pending := upd s.pending t.sender r.2.2, all := insertAll t all })
        else
          let q := s.enqueueTx t
          if !q.2.1 then (.replace, false, s)
          else
            let s := q.2.2
            let s := if loc && !s.isLocal t.sender then { s with locals := t.sender :: s.locals } else s
            (.ok, q.1, s)

/-- addTx (AddLocal / AddRemote) -/
def Pool.addTx (s : Pool) (t : Tx) (loc : Bool) (sh : Shape) (victims : List Tx) (slots qorder : List Addr) : Err × Pool :=
  let loc := loc && !s.cfg.noLocals
  let r := s.add t loc sh victims
  if r.1 ≠ .ok then (r.1, r.2.2)
  else if !r.2.1 then (.ok, r.2.2.promoteExecutables (some [t.sender]) slots qorder)
  else (.ok, r.2.2)

/-- the add loop of addTxsLocked: (errors, dirty accounts, pool) -/
def Pool.addMany (s : Pool) (loc : Bool) : List Tx → List (List Tx) → List Err × List Addr × Pool
  | [], _ => ([], [], s)
  | t :: ts, vs =>
    let r := s.add t loc .wellformed (vs.headD [])
    let rest := Pool.addMany r.2.2 loc ts vs.tail
    (r.1 :: rest.1, (if r.1 = .ok && !r.2.1 then [t.sender] else []) ++ rest.2.1, rest.2.2)

/-- addTxsLocked -/
def Pool.addTxs (s : Pool) (ts : List Tx) (loc : Bool) (victims : List (List Tx)) (slots qorder : List Addr) : List Err × Pool :=
  let r := s.addMany loc ts victims
  if r.2.1.isEmpty then (r.1, r.2.2)
  else (r.1, r.2.2.promoteExecutables (some r.2.1.eraseDups) slots qorder)

/-- SetGasPrice: priced.Cap pops every transaction below the threshold; the non-local ones are removed -/
def Pool.setGasPrice (s : Pool) (p : Nat) : Pool :=
  let s := { s with gasPrice := p }
  let drop := s.all.filter (fun t => decide (t.price < p) && !s.isLocal t.sender)
  drop.foldl (fun s t => s.removeTx t) s

/-- SetGasPrice with the list of transactions popped by `priced.Cap` as an argument (restricted to what Cap can return:
    pooled, cheaper than the new floor, not local); `setGasPrice` is the instance with every such transaction. -/
def Pool.setGasPriceO (s : Pool) (p : Nat) (drops : List Tx) : Pool :=
  let s := { s with gasPrice := p }
  (drops.filter (fun t => decide (t ∈ s.all) && decide (t.price < p) && !s.isLocal t.sender)).foldl (fun s t => s.removeTx t) s

/-- types.TxDifference -/
def txDifference (a b : List Tx) : List Tx := a.filter (fun t => !decide (t ∈ b))

/-- the oracle of one reset -/
structure ResetOracle where
  victims : List (List Tx)
  slots1  : List Addr
  qorder1 : List Addr
  slots2  : List Addr
  qorder2 : List Addr

/-- the "update all accounts to the latest known pending nonce" loop of reset -/
def Pool.syncNonces (s : Pool) : Pool :=
  s.accts.foldl (fun s a =>
    match (s.pending a).items.getLast? with
    | some t => s.setN a (t.nonce + 1)
    | none => s) s

/-- reset(oldHead, newHead): `reorg` = oldHead.Hash() ≠ newHead.ParentHash; discarded/included are the transactions of
    the two branches down to the common ancestor (computed by the chain, not by the pool model). -/
def Pool.reset (gapFix : Bool) (s : Pool) (v : View) (oldNum newNum : Nat) (reorg : Bool) (disc inc : List Tx)
    (o : ResetOracle) : Pool :=
  let depth := if oldNum ≤ newNum then newNum - oldNum else oldNum - newNum
  let reinject := if reorg && decide (depth ≤ 64) then txDifference disc inc else []
  let s := { s with cnonce := v.nonce, balance := v.balance, maxGas := v.maxGas, pnonce := v.nonce }
  let s := if reinject.isEmpty then s else (s.addTxs reinject false o.victims o.slots1 o.qorder1).2
  let s := s.demoteUnexecutables gapFix
  let s := s.syncNonces
  s.promoteExecutables none o.slots2 o.qorder2

/-- pool.local(): what `journal.rotate` writes — the pending and queued transactions of every local account -/
def Pool.localTxs (s : Pool) : List Tx := s.locals.flatMap (fun a => (s.pending a).items ++ (s.queue a).items)

/-- the eviction tick of the pool loop for one inactive non-local account -/
def Pool.evictIdle (s : Pool) (a : Addr) : Pool :=
  if s.isLocal a then s else s.dropQueued a (s.queue a).items

/-! ## operations -/

inductive Op
  | add (t : Tx) (loc : Bool) (sh : Shape) (victims : List Tx) (slots qorder : List Addr)
  | adds (ts : List Tx) (loc : Bool) (victims : List (List Tx)) (slots qorder : List Addr)
  | setGasPrice (p : Nat)
  | setGasPriceO (p : Nat) (drops : List Tx)
  | reset (v : View) (oldNum newNum : Nat) (reorg : Bool) (disc inc : List Tx) (o : ResetOracle)
  | evictIdle (a : Addr)

/-- one step of the pool state machine; `gapFix = true` is the code at HEAD, `false` the demotion before commit c2af732
    (see `demoteAcct`) -/
def Pool.step (gapFix : Bool) (s : Pool) : Op → Pool
  | .add t loc sh vs sl qo => (s.addTx t loc sh vs sl qo).2
  | .adds ts loc vs sl qo => (s.addTxs ts (loc && !s.cfg.noLocals) vs sl qo).2
  | .setGasPrice p => s.setGasPrice p
  | .setGasPriceO p drops => s.setGasPriceO p drops
  | .reset v o n r d i orc => s.reset gapFix v o n r d i orc
  | .evictIdle a => s.evictIdle a

/-! ## Spec: the clauses of property C15 and nothing else -/

/-- consecutive nonces starting at `c` -/
def IsRun : Nat → List Tx → Prop
  | _, [] => True
  | c, x :: xs => x.nonce = c ∧ IsRun (c + 1) xs

instance : (c : Nat) → (l : List Tx) → Decidable (IsRun c l)
  | _, [] => isTrue trivial
  | c, x :: xs =>
    match decEq x.nonce c, instDecidableIsRun (c + 1) xs with
    | isTrue h, isTrue h' => isTrue ⟨h, h'⟩
    | isFalse h, _ => isFalse (fun hh => h hh.1)
    | _, isFalse h' => isFalse (fun hh => h' hh.2)

/-- membership in pending ∪ queue -/
def Pool.pooled (s : Pool) (t : Tx) : Prop :=
  t ∈ (s.pending t.sender).items ∨ t ∈ (s.queue t.sender).items

instance (s : Pool) (t : Tx) : Decidable (s.pooled t) := by unfold Pool.pooled; exact inferInstance

/-- Clauses 1–3 of the property on a state: per sender the pending nonces are a gap-free run starting at the chain
    nonce; every pending transaction is affordable; at most one transaction per (sender, nonce) across pending ∪ queue
    (each list holds its owner's transactions, distinct nonces within a list, no nonce in both lists). -/
structure Inv (s : Pool) : Prop where
  run    : ∀ a, IsRun (s.cnonce a) (s.pending a).items
  afford : ∀ a, ∀ t ∈ (s.pending a).items, t.cost ≤ s.balance a ∧ t.gas ≤ s.maxGas
  owner  : ∀ a, ∀ t, (t ∈ (s.pending a).items ∨ t ∈ (s.queue a).items) → t.sender = a
  unique : ∀ a, ∀ t u, (t ∈ (s.pending a).items ∨ t ∈ (s.queue a).items) →
             (u ∈ (s.pending a).items ∨ u ∈ (s.queue a).items) → t.nonce = u.nonce → t = u

/-- Clause "pool-wide and per-account limits hold for non-local senders" (what the enforcement establishes):
    queued per account ≤ AccountQueue; queued pool-wide ≤ GlobalQueue; pending pool-wide ≤ GlobalSlots unless no
    non-local account holds more than its guaranteed AccountSlots. -/
structure Limits (s : Pool) : Prop where
  acctQueue   : ∀ a, a ∉ s.locals → (s.queue a).items.length ≤ s.cfg.accountQueue
  globalQueue : sumLen s.queue (s.accts.filter (fun a => !s.isLocal a)) ≤ s.cfg.globalQueue
  globalSlots : s.pendingCount ≤ s.cfg.globalSlots ∨
                  ∀ a, a ∉ s.locals → (s.pending a).items.length ≤ s.cfg.accountSlots

/-- Clause "a same-nonce replacement is accepted only with the configured price bump", on a transition: a slot whose
    occupant changes satisfies the rule of txList.Add. -/
def ReplacementOK (s s' : Pool) : Prop :=
  ∀ o n, s.pooled o → s'.pooled n → o.sender = n.sender → o.nonce = n.nonce → o ≠ n → bumpOK o n s.cfg.priceBump = true

/-! ### executable versions used by the driver on observed states (over an explicit account list) -/

def occupants (s : Pool) (a : Addr) : List Tx := (s.pending a).items ++ (s.queue a).items

def noDupNonce : List Tx → Bool
  | [] => true
  | x :: xs => xs.all (fun y => !decide (y.nonce = x.nonce)) && noDupNonce xs

def Pool.checkRun (s : Pool) (a : Addr) : Bool := decide (IsRun (s.cnonce a) (s.pending a).items)
def Pool.checkAfford (s : Pool) (a : Addr) : Bool :=
  (s.pending a).items.all (fun t => decide (t.cost ≤ s.balance a) && decide (t.gas ≤ s.maxGas))
def Pool.checkUnique (s : Pool) (a : Addr) : Bool :=
  (occupants s a).all (fun t => decide (t.sender = a)) && noDupNonce (occupants s a)

def Pool.checkLimits (s : Pool) (as : List Addr) : Bool :=
  let nl := as.filter (fun a => !s.isLocal a)
  nl.all (fun a => decide ((s.queue a).items.length ≤ s.cfg.accountQueue)) &&
  decide (sumLen s.queue nl ≤ s.cfg.globalQueue) &&
  (decide (sumLen s.pending as ≤ s.cfg.globalSlots) || nl.all (fun a => decide ((s.pending a).items.length ≤ s.cfg.accountSlots)))

end Aqv.TxPool

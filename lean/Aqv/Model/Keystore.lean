/-
  Aqv.Model.Keystore — model of aqua/accounts/keystore: EncryptKey / DecryptKey (v3 scrypt|pbkdf2, v1), getKDFKey,
  keyStorePassphrase.GetKey (keystore_passphrase.go), the 32-byte key encoding (common/math PaddedBigBytes,
  crypto.ToECDSAUnsafe) and the hex codec of encoding/hex.  Core-only.

  The cryptographic primitives are PARAMETERS (`Prims`): the KDF (scrypt / PBKDF2), Keccak-256 (`H`), the AES-128-CTR
  keystream, raw AES-128-CBC decryption, and scalar -> address (secp256k1 + Keccak).  Nothing below depends on what
  they compute.  Failures the Go code has are explicit outcomes: `err e` (an `error` is returned) and `panic`
  (a run-time panic).  Since a73be14 / e55659c the code validates the KDF parameters and the IV and compares the decrypted
  key with the file's "address"; the only panics left in the modelled expressions are a panic inside the KDF call itself
  and `derivedKey[16:32]` on a buffer of capacity < 32 (neither happens for scrypt / PBKDF2 with positive parameters).

  JSON: the model starts from what `encoding/json` delivers (the three `json.Unmarshal` calls of DecryptKey):
  `KeyFile.jsonOk/verTop/v1ok/v3ok` + the string fields + `kdfparams` as the `map[string]interface{}` content.
  All JSON strings are kept as their UTF-8 bytes.
-/
import Aqv.Base.Bytes
namespace Aqv.Keystore
open Aqv

/-! ### outcomes -/

inductive Err
  | json | version | cipher | hexMac | hexIv | hexCt | hexSalt | kdf | prf | unsupportedKdf | decrypt | mismatch
  | kdfParams      -- "invalid KDF params: ..." / "invalid scrypt params: ..." (missing, wrongly typed or non-positive entry)
  | ivLength       -- "invalid IV length" / "invalid IV or ciphertext length"
  | corrupted      -- "key file corrupted: decrypted key has address X, file says Y"
  deriving DecidableEq, Repr

inductive Res (α : Type)
  | ok (a : α)
  | err (e : Err)
  | panic
  deriving DecidableEq, Repr

/-! ### small codecs -/

/-- ASCII bytes of a string literal (all literals used here are ASCII). -/
def ascii (s : String) : Bytes := s.toList.map (fun c => UInt8.ofNat c.toNat)

def hexNib (n : Nat) : UInt8 := if n < 10 then UInt8.ofNat (48 + n) else UInt8.ofNat (87 + n)

/-- encoding/hex EncodeToString (lower case). -/
def hexEncode : Bytes → Bytes
  | [] => []
  | b :: r => hexNib (b.toNat / 16) :: hexNib (b.toNat % 16) :: hexEncode r

/-- encoding/hex fromHexChar. -/
def nibVal (c : UInt8) : Option Nat :=
  if 48 ≤ c.toNat ∧ c.toNat ≤ 57 then some (c.toNat - 48)
  else if 97 ≤ c.toNat ∧ c.toNat ≤ 102 then some (c.toNat - 87)
  else if 65 ≤ c.toNat ∧ c.toNat ≤ 70 then some (c.toNat - 55)
  else none

/-- encoding/hex DecodeString: `none` = error (odd length or a non-hex character). -/
def hexDecode : Bytes → Option Bytes
  | [] => some []
  | [_] => none
  | a :: b :: r =>
    match nibVal a, nibVal b, hexDecode r with
    | some x, some y, some t => some (UInt8.ofNat (x * 16 + y) :: t)
    | _, _, _ => none

/-- common/math PaddedBigBytes(d, n): big-endian, left-padded with zeros to n bytes (longer values are not cut). -/
def paddedBigBytes (d n : Nat) : Bytes :=
  let b := beBytes d
  List.replicate (n - b.length) 0 ++ b

def secpN : Nat := 0xfffffffffffffffffffffffffffffffebaaedce6af48a03bbfd25e8cd0364141

/-- crypto.ToECDSAUnsafe -> btcec.PrivKeyFromBytes -> ModNScalar.SetByteSlice: the first 32 bytes, big-endian, mod N. -/
def scalarOfBytes (b : Bytes) : Nat := beNat (b.take 32) % secpN

/-- XOR with a keystream given as a function of the byte position (cipher.Stream.XORKeyStream). -/
def xorStream (f : Nat → UInt8) : Nat → Bytes → Bytes
  | _, [] => []
  | off, b :: r => (b ^^^ f off) :: xorStream f (off + 1) r

/-- keystore/presale.go pkcs7Unpad (`none` = nil = failure). -/
def pkcs7Unpad (inp : Bytes) : Option Bytes :=
  match inp.getLast? with
  | none => none
  | some padding =>
    if padding.toNat > inp.length ∨ padding.toNat > 16 then none
    else if padding.toNat = 0 then none
    else if (inp.drop (inp.length - padding.toNat)).all (· == padding) then some (inp.take (inp.length - padding.toNat))
    else none

/-! ### the key file as delivered by encoding/json -/

/-- a value of `kdfparams` (`map[string]interface{}`): JSON string, JSON number (float64; `i` is Go's `int(x)`),
    anything else (bool, null, object, array). -/
inductive JVal
  | str (s : Bytes)
  | num (i : Int)
  | other
  deriving DecidableEq, Repr

structure Crypto where
  cipher : Bytes
  ciphertext : Bytes
  iv : Bytes
  kdf : Bytes
  kdfparams : List (Bytes × JVal)
  mac : Bytes
  deriving DecidableEq, Repr

structure KeyFile where
  jsonOk : Bool            -- json.Unmarshal(keyjson, &map[string]interface{}) succeeded
  verTop : Option Bytes    -- m["version"].(string): `some s` iff the top-level version is a JSON string
  v1ok : Bool              -- json.Unmarshal into encryptedKeyJSONV1 succeeded
  v3ok : Bool              -- json.Unmarshal into encryptedKeyJSONV3 succeeded
  version3 : Int           -- encryptedKeyJSONV3.Version
  address : Bytes          -- "address" of the struct DecryptKey dispatched to ("" when absent)
  id : Bytes
  crypto : Crypto
  deriving DecidableEq, Repr

/-! ### primitives -/

inductive KdfReq
  | scrypt (pw salt : Bytes) (n r p dklen : Int)
  | pbkdf2 (pw salt : Bytes) (c dklen : Int)
  deriving DecidableEq, Repr

/-- what the KDF call does.  `ok buf len`: `buf` is the returned slice extended to its capacity (pbkdf2.Key allocates
    whole 32-byte blocks and returns `dk[:keyLen]`), `len` its length. -/
inductive KdfRes
  | ok (buf : Bytes) (len : Nat)
  | err
  | panic
  deriving DecidableEq, Repr

structure Prims where
  kdf : KdfReq → KdfRes
  H : Bytes → Bytes                         -- crypto.Keccak256 of the concatenated arguments
  ks : Bytes → Bytes → Nat → UInt8          -- AES-128-CTR keystream byte: key, iv, position
  cbc : Bytes → Bytes → Bytes → Bytes       -- raw AES-128-CBC decryption: key, iv, ciphertext (before unpadding)
  addrOf : Nat → Bytes                      -- crypto.PubkeyToAddress(priv.PubKey()) of a scalar

structure Key where
  d : Nat          -- the private scalar
  addr : Bytes     -- Key.Address
  deriving DecidableEq, Repr

/-- btcec PrivateKey.Serialize / the bytes EncryptKey encrypts. -/
def Key.bytes (k : Key) : Bytes := paddedBigBytes k.d 32

/-! ### getKDFKey -/

def lookup (kp : List (Bytes × JVal)) (k : Bytes) : Option JVal :=
  match kp with
  | [] => none
  | (k', v) :: r => if k' = k then some v else lookup r k

/-- `x.(string)` with the comma-ok form; `none` = not a string. -/
def asString : Option JVal → Option Bytes
  | some (.str s) => some s
  | _ => none

/-- `ensureInt(x)`; `none` = not a number (an error since e55659c). -/
def ensureInt : Option JVal → Option Int
  | some (.num i) => some i
  | _ => none

def kdfRes : KdfRes → Res (Bytes × Nat)
  | .ok buf len => .ok (buf, len)
  | .err => .err .kdf
  | .panic => .panic

/-- keystore_passphrase.go getKDFKey (e55659c: every entry is type-checked, dklen / r / p must be positive). -/
def getKDFKey (P : Prims) (c : Crypto) (auth : Bytes) : Res (Bytes × Nat) :=
  match asString (lookup c.kdfparams (ascii "salt")) with
  | none => .err .kdfParams
  | some saltHex =>
    match hexDecode saltHex with
    | none => .err .hexSalt
    | some salt =>
      match ensureInt (lookup c.kdfparams (ascii "dklen")) with
      | none => .err .kdfParams
      | some dkLen =>
        if dkLen ≤ 0 then .err .kdfParams
        else if c.kdf = ascii "scrypt" then
          match ensureInt (lookup c.kdfparams (ascii "n")) with
          | none => .err .kdfParams
          | some n =>
            match ensureInt (lookup c.kdfparams (ascii "r")) with
            | none => .err .kdfParams
            | some r =>
              match ensureInt (lookup c.kdfparams (ascii "p")) with
              | none => .err .kdfParams
              | some p =>
                if r ≤ 0 ∨ p ≤ 0 then .err .kdfParams
                else kdfRes (P.kdf (.scrypt auth salt n r p dkLen))
        else if c.kdf = ascii "pbkdf2" then
          match ensureInt (lookup c.kdfparams (ascii "c")) with
          | none => .err .kdfParams
          | some cc =>
            match asString (lookup c.kdfparams (ascii "prf")) with
            | none => .err .kdfParams
            | some prf =>
              if prf ≠ ascii "hmac-sha256" then .err .prf
              else kdfRes (P.kdf (.pbkdf2 auth salt cc dkLen))
        else .err .unsupportedKdf

/-- `derivedKey[:16]` and `derivedKey[16:32]` (within capacity). -/
def encKey (buf : Bytes) : Bytes := buf.take 16
def macKey (buf : Bytes) : Bytes := (buf.drop 16).take 16

/-- the common prefix of decryptKeyV3 / decryptKeyV1: hex fields, KDF, MAC check.  Returns (derived buffer, iv, ciphertext). -/
def checkMac (P : Prims) (c : Crypto) (auth : Bytes) : Res (Bytes × Bytes × Bytes) :=
  match hexDecode c.mac with
  | none => .err .hexMac
  | some mac =>
    match hexDecode c.iv with
    | none => .err .hexIv
    | some iv =>
      match hexDecode c.ciphertext with
      | none => .err .hexCt
      | some ct =>
        match getKDFKey P c auth with
        | .err e => .err e
        | .panic => .panic
        | .ok (buf, _) =>
          if buf.length < 32 then .panic                       -- derivedKey[16:32] beyond capacity
          else if P.H (macKey buf ++ ct) ≠ mac then .err .decrypt
          else .ok (buf, iv, ct)

/-- decryptKeyV3. -/
def decryptKeyV3 (P : Prims) (f : KeyFile) (auth : Bytes) : Res Bytes :=
  if f.version3 ≠ 3 then .err .version
  else if f.crypto.cipher ≠ ascii "aes-128-ctr" then .err .cipher
  else
    match checkMac P f.crypto auth with
    | .err e => .err e
    | .panic => .panic
    | .ok (buf, iv, ct) =>
      if iv.length ≠ 16 then .err .ivLength                    -- e55659c (was: cipher.NewCTR panics)
      else .ok (xorStream (P.ks (encKey buf) iv) 0 ct)

/-- decryptKeyV1 (AES-128-CBC under Keccak(derivedKey[:16])[:16], PKCS#7). -/
def decryptKeyV1 (P : Prims) (f : KeyFile) (auth : Bytes) : Res Bytes :=
  match checkMac P f.crypto auth with
  | .err e => .err e
  | .panic => .panic
  | .ok (buf, iv, ct) =>
    if iv.length ≠ 16 ∨ ct.length % 16 ≠ 0 then .err .ivLength   -- e55659c (was: NewCBCDecrypter / CryptBlocks panic)
    else
      match pkcs7Unpad (P.cbc ((P.H (encKey buf)).take 16) iv ct) with
      | none => .err .decrypt
      | some pt => .ok pt

def isV1 (f : KeyFile) : Bool := f.verTop = some (ascii "1")

/-- DecryptKey down to the plaintext key bytes. -/
def decryptBytes (P : Prims) (f : KeyFile) (auth : Bytes) : Res Bytes :=
  if !f.jsonOk then .err .json
  else if isV1 f then
    if !f.v1ok then .err .json else decryptKeyV1 P f auth
  else
    if !f.v3ok then .err .json else decryptKeyV3 P f auth

/-- strings.TrimPrefix. -/
def trimPrefix (p s : Bytes) : Bytes := if p.isPrefixOf s then s.drop p.length else s

/-- the address bytes the file claims: TrimPrefix "0x" then "0X", hex-decoded (`none` = not hex). -/
def fileAddr (address : Bytes) : Option Bytes := hexDecode (trimPrefix (ascii "0X") (trimPrefix (ascii "0x") address))

/-- keystore.DecryptKey (a73be14: when the file names an address, the decrypted key must have it). -/
def decryptKey (P : Prims) (f : KeyFile) (auth : Bytes) : Res Key :=
  match decryptBytes P f auth with
  | .err e => .err e
  | .panic => .panic
  | .ok pt =>
    let d := scalarOfBytes pt
    if f.address ≠ [] ∧ fileAddr f.address ≠ some (P.addrOf d) then .err .corrupted
    else .ok ⟨d, P.addrOf d⟩

/-- KeyStore.Import down to the address of the account it stores: bare DecryptKey, then importKey under key.Address. -/
def importAccount (P : Prims) (f : KeyFile) (auth : Bytes) : Res Bytes :=
  match decryptKey P f auth with
  | .ok k => .ok k.addr
  | .err e => .err e
  | .panic => .panic

/-- keyStorePassphrase.GetKey (after the file was read): decrypt, then compare with the account's address. -/
def getKey (P : Prims) (addr : Bytes) (f : KeyFile) (auth : Bytes) : Res Key :=
  match decryptKey P f auth with
  | .ok k => if k.addr ≠ addr then .err .mismatch else .ok k
  | r => r

/-! ### the key directory: writeKeyFile / UpdateKey -/

/-- the key directory: path -> content (the serialised key file, byte for byte). -/
abbrev Disk := Bytes → Option Bytes

/-- key.go writeKeyFile (os.WriteFile: create or TRUNCATE, then write): the file is exactly the last write. -/
def writeFile (d : Disk) (path content : Bytes) : Disk := fun p => if p = path then some content else d p

/-- what a write WITHOUT truncation (O_WRONLY|O_CREATE only) leaves in an existing file: the new bytes followed by the
    tail of the old content. -/
def writeNoTrunc (old new : Bytes) : Bytes := new ++ old.drop new.length

/-- the same directory at the level of parsed key files (what DecryptKey sees of each path). -/
abbrev Store := Bytes → Option KeyFile

def Store.write (s : Store) (path : Bytes) (f : KeyFile) : Store := fun p => if p = path then some f else s p

/-- keyStorePassphrase.GetKey on the directory (ReadFile failure = `none`). -/
def getKeyAt (P : Prims) (s : Store) (addr path auth : Bytes) : Option (Res Key) := (s path).map (fun f => getKey P addr f auth)

/-! ### the unlocked-key table (keystore.go: `unlocked map[common.Address]*unlocked`, TimedUnlock / Lock / expire / Update) -/

structure KsState where
  store : Bytes → Option KeyFile           -- account address -> its key file
  unlocked : Bytes → Option (Key × Bool)   -- account address -> live decrypted key, and whether the unlock has an expiry

inductive KsOp
  | unlock (a pw : Bytes) (timed : Bool)            -- Unlock (timed = false) / TimedUnlock
  | lock (a : Bytes)                                -- Lock, or the expiry timer firing
  | update (a pwOld pwNew : Bytes) (fNew : KeyFile) -- Update: fNew is what EncryptKey wrote for the decrypted key

/-- one operation.  TimedUnlock: decrypt first (GetKey); on success an address that is unlocked INDEFINITELY keeps its live
    key (the fresh copy is the one that is zeroed), otherwise the entry is replaced by the fresh key.  Update rewrites the
    file only with an encoding of the key it decrypted. -/
def KsState.step (P : Prims) (s : KsState) : KsOp → KsState
  | .unlock a pw timed =>
    match (s.store a).map (fun f => getKey P a f pw) with
    | some (.ok k) =>
      match s.unlocked a with
      | some (_, false) => s
      | _ => { s with unlocked := fun x => if x = a then some (k, timed) else s.unlocked x }
    | _ => s
  | .lock a => { s with unlocked := fun x => if x = a then none else s.unlocked x }
  | .update a pwOld pwNew fNew =>
    match (s.store a).map (fun f => getKey P a f pwOld) with
    | some (.ok k) =>
      if getKey P a fNew pwNew = .ok k then { s with store := fun x => if x = a then some fNew else s.store x } else s
    | _ => s

/-- the key SignHash / SignTx sign with (`none` = ErrLocked). -/
def KsState.signingKey (s : KsState) (a : Bytes) : Option Key := (s.unlocked a).map (·.1)

/-! ### EncryptKey -/

def scryptR : Int := 8
def scryptDKLen : Int := 32

/-- keystore.EncryptKey with the two random draws (salt, iv) as arguments.  `addr` is `key.Address`, `id` the UUID string.
    The result is the file as `encoding/json` reads it back (`version` is the number 3: not a string, does not fit V1). -/
def encryptKey (P : Prims) (d : Nat) (addr id auth salt iv : Bytes) (n p : Int) : Res KeyFile :=
  match P.kdf (.scrypt auth salt n scryptR p scryptDKLen) with
  | .err => .err .kdf
  | .panic => .panic
  | .ok buf _ =>
    if buf.length < 32 then .panic
    else if iv.length ≠ 16 then .panic
    else
      let keyBytes := paddedBigBytes d 32
      let ct := xorStream (P.ks (encKey buf) iv) 0 keyBytes
      let mac := P.H (macKey buf ++ ct)
      .ok { jsonOk := true, verTop := none, v1ok := false, v3ok := true, version3 := 3,
            address := hexEncode addr, id := id,
            crypto := { cipher := ascii "aes-128-ctr", ciphertext := hexEncode ct, iv := hexEncode iv,
                        kdf := ascii "scrypt",
                        kdfparams := [(ascii "dklen", .num scryptDKLen), (ascii "n", .num n), (ascii "p", .num p),
                                      (ascii "r", .num scryptR), (ascii "salt", .str (hexEncode salt))],
                        mac := hexEncode mac } }

end Aqv.Keystore

/-
  Aqv.Model.Pow — model of the proof-of-work seal rules (property C14).

  Impl (mirrors the Go code):
    getBlockVersion                     params/hf.go  (*ChainConfig).GetBlockVersion
    rlpHash, headerHash, hashNoNonce    core/types/block.go  rlpHash, (*Header).Hash, (*Header).HashNoNonce
    sealSeed, minerHash                 consensus.go / sealer.go seed construction, (*Block).MinerHash
    verifySeal                          consensus/aquahash/consensus.go (*Aquahash).VerifySeal (ModeNormal/ModeTest, not shared)
    mine                                consensus/aquahash/sealer.go (*Aquahash).mine (one thread; threads only choose start nonces)
  Spec: `SealValid`, `versionSpec`.

  The hash primitives are PARAMETERS: `Hashes.vh v data` is crypto.VersionHash(v, data) for v ≥ 2 (argon2id), `Hashes.keccak`
  is Keccak-256, `Hashes.ethash number hashNoNonce nonce` is hashimoto (digest, result).  The harness evaluates them with the
  real Go primitives and passes the values; no theorem depends on what they compute.   Core Lean only.
-/
import Aqv.Base.Bytes
import Aqv.Model.Rlp
import Aqv.Model.Consensus
namespace Aqv.Pow
open Aqv Aqv.Consensus

/-- `(*ChainConfig).GetBlockVersion`: 4 from HF9, 3 from HF8, 2 from HF5, else 1. -/
def getBlockVersion (c : Config) (height : Nat) : Nat :=
  if c.isHF 9 height then 4 else if c.isHF 8 height then 3 else if c.isHF 5 height then 2 else 1

/-- **Spec**: the version is a function of the height alone through three thresholds of the fork schedule. -/
def versionSpec (hf5 hf8 hf9 : Option Nat) (height : Nat) : Nat :=
  let active (o : Option Nat) : Bool := match o with | none => false | some s => decide (s ≤ height)
  if active hf9 then 4 else if active hf8 then 3 else if active hf5 then 2 else 1

/-- the hash primitives (parameters of the model). -/
structure Hashes where
  keccak : Bytes → Bytes                         -- Keccak-256
  vh : Nat → Bytes → Bytes                       -- crypto.VersionHash(v, ·) for v = 2, 3, 4 (argon2id, 32 bytes)
  ethash : Nat → Bytes → Nat → Bytes × Bytes     -- (digest, result) of hashimoto for (block number, HashNoNonce, nonce)

/-- outcome classes of hashing / sealing code that can panic. -/
inductive Out (α : Type) where
  | ok (a : α)
  | panic
  deriving Repr, DecidableEq

/-- `crypto.VersionHash(v, data)`: 1 ↦ Keccak-256, 2..4 ↦ argon2id, everything else panics ("invalid block version"). -/
def versionHash (Hs : Hashes) (v : Nat) (data : Bytes) : Out Bytes :=
  if v = 1 then .ok (Hs.keccak data) else if v = 2 ∨ v = 3 ∨ v = 4 then .ok (Hs.vh v data) else .panic

/-- `rlpHash(version, x)` on the RLP encoding `enc` of x: versions 0 and 1 ↦ Keccak-256, otherwise `VersionHash(version, enc)`. -/
def rlpHash (Hs : Hashes) (version : Nat) (enc : Bytes) : Out Bytes :=
  if version = 0 ∨ version = 1 then .ok (Hs.keccak enc) else versionHash Hs version enc

/-- the RLP-visible fields of `types.Header` (Version is `rlp:"-"`). Integers are big-endian minimal byte strings. -/
structure HeaderFields where
  parentHash : Bytes
  uncleHash : Bytes
  coinbase : Bytes
  root : Bytes
  txHash : Bytes
  receiptHash : Bytes
  bloom : Bytes
  difficulty : Nat
  number : Nat
  gasLimit : Nat
  gasUsed : Nat
  time : Nat
  extra : Bytes
  mixDigest : Bytes
  nonce : Bytes          -- 8 bytes, big endian (types.BlockNonce)
  deriving Repr, DecidableEq

def HeaderFields.itemsNoNonce (h : HeaderFields) : List Rlp.Item :=
  [.str h.parentHash, .str h.uncleHash, .str h.coinbase, .str h.root, .str h.txHash, .str h.receiptHash, .str h.bloom,
   .str (beBytes h.difficulty), .str (beBytes h.number), .str (beBytes h.gasLimit), .str (beBytes h.gasUsed), .str (beBytes h.time), .str h.extra]

/-- `(*Header).Hash()`: panics when the version is unset, else `rlpHash(version, header)` over all 15 fields. -/
def headerHash (Hs : Hashes) (version : Nat) (h : HeaderFields) : Out Bytes :=
  if version = 0 then .panic
  else rlpHash Hs version (Rlp.enc (.list (h.itemsNoNonce ++ [.str h.mixDigest, .str h.nonce])))

/-- `(*Header).HashNoNonce()`: `v := 1; if h.Version == 3 { v = 3 }; rlpHash(v, first 13 fields)` — as written. -/
def hashNoNonce (Hs : Hashes) (version : Nat) (h : HeaderFields) : Out Bytes :=
  rlpHash Hs (if version = 3 then 3 else 1) (Rlp.enc (.list h.itemsNoNonce))

/-- little-endian 8 bytes of a uint64 (`binary.LittleEndian.PutUint64`). -/
def le64 (n : Nat) : Bytes := (List.range 8).map (fun i => UInt8.ofNat (n / 256 ^ i % 256))

/-- `seed := make([]byte, 40); copy(seed, hashNoNonce); LittleEndian.PutUint64(seed[32:], nonce)` (hashNoNonce is 32 bytes). -/
def sealSeed (hnn : Bytes) (nonce : Nat) : Bytes := hnn ++ le64 nonce

/-- what `VerifySeal` reads. -/
structure SealInput where
  number : Nat
  difficulty : Int
  mixDigest : Bytes       -- 32 bytes
  nonce : Nat             -- header.Nonce.Uint64()
  version : Nat           -- header.Version
  hnn : Bytes             -- header.HashNoNonce() (computed with header.Version)
  deriving Repr, DecidableEq

inductive SealErr where
  | nonceOutOfRange | invalidDifficulty | invalidMixDigest | invalidPoW | panic
  deriving Repr, DecidableEq

def SealErr.name : SealErr → String
  | .nonceOutOfRange => "nonce-out-of-range" | .invalidDifficulty => "invalid-difficulty" | .invalidMixDigest => "invalid-mix-digest"
  | .invalidPoW => "invalid-pow" | .panic => "panic"

/-- constants of the seal check: `epochLength`, `maxEpoch`, and the numerator `maxUint256` (= 2^256). -/
structure PowParams where
  epochLength : Nat
  maxEpoch : Nat
  maxUint256 : Nat
  deriving Repr, DecidableEq

def Spec.powParams : PowParams := { epochLength := 30000, maxEpoch := 2048, maxUint256 := Aqv.Consensus.two256 }

def zeroDigest : Bytes := List.replicate 32 0

/-- (digest, result) the verifier recomputes. -/
def recompute (Hs : Hashes) (s : SealInput) : Out (Bytes × Bytes) :=
  if s.version = 0 then .panic
  else if s.version = 1 then .ok (Hs.ethash s.number s.hnn s.nonce)
  else match versionHash Hs s.version (sealSeed s.hnn s.nonce) with
    | .ok r => .ok (zeroDigest, r)
    | .panic => .panic

/-- `(*Aquahash).VerifySeal` (real engine); `none` = accepted. -/
def verifySeal (Pp : PowParams) (Hs : Hashes) (s : SealInput) : Option SealErr :=
  if s.number % Aqv.Consensus.two64 / Pp.epochLength ≥ Pp.maxEpoch then some .nonceOutOfRange
  else if s.difficulty ≤ 0 then some .invalidDifficulty
  else match recompute Hs s with
    | .panic => some .panic
    | .ok (digest, result) =>
      if s.mixDigest ≠ digest then some .invalidMixDigest
      else if beNat result > Pp.maxUint256 / s.difficulty.toNat then some .invalidPoW
      else none

/-- the acceptance predicate for an arbitrary epoch bound and target numerator `N` (the statement has 30000·2048 and 2^256). -/
def SealValidP (Pp : PowParams) (Hs : Hashes) (s : SealInput) : Prop :=
  s.number % Aqv.Consensus.two64 / Pp.epochLength < Pp.maxEpoch ∧
  0 < s.difficulty ∧
  ((s.version = 1 ∧ s.mixDigest = (Hs.ethash s.number s.hnn s.nonce).1 ∧
      (beNat (Hs.ethash s.number s.hnn s.nonce).2 : Int) ≤ (Pp.maxUint256 : Int) / s.difficulty) ∨
   ((s.version = 2 ∨ s.version = 3 ∨ s.version = 4) ∧ s.mixDigest = zeroDigest ∧
      (beNat (Hs.vh s.version (s.hnn ++ le64 s.nonce)) : Int) ≤ (Pp.maxUint256 : Int) / s.difficulty))

/-- **Spec**: a sealed header is acceptable: positive difficulty, the expected mix digest (ethash's for version 1, zero for
    the argon2id versions), and the fork-selected hash of (seal-free hash ‖ nonce) at most 2^256 / difficulty
    (block numbers stay below the ethash table bound 2048 · 30000). -/
def SealValid (Hs : Hashes) (s : SealInput) : Prop := SealValidP Spec.powParams Hs s

instance (Pp : PowParams) (Hs : Hashes) (s : SealInput) : Decidable (SealValidP Pp Hs s) := by unfold SealValidP; exact inferInstance

instance (Hs : Hashes) (s : SealInput) : Decidable (SealValid Hs s) := by unfold SealValid; exact inferInstance

/-- `(*Aquahash).mine` for one thread: walk nonces from `start` (uint64, wrapping) until the result meets the target;
    `fuel` bounds the walk (the Go loop is unbounded and is stopped by `abort`).  `blockVersion` is the version the block's
    header carried when `hash = header.HashNoNonce()` was taken — BEFORE `header.Version = version` — as written.
    Returns the nonce and mix digest placed in the sealed header. -/
def mineFrom (Hs : Hashes) (version : Nat) (number : Nat) (hnn : Bytes) (target : Int) : Nat → Nat → Option (Nat × Bytes)
  | 0, _ => none
  | fuel + 1, nonce =>
    let dr : Bytes × Bytes := if version = 1 then Hs.ethash number hnn nonce else (zeroDigest, Hs.vh version (sealSeed hnn nonce))
    if (beNat dr.2 : Int) ≤ target then some (nonce, dr.1)
    else mineFrom Hs version number hnn target fuel ((nonce + 1) % Aqv.Consensus.two64)

/-- outcome of `mine`: a sealed (nonce, digest), nothing (aborted / refused), or the division-by-zero panic of `target`. -/
def mine (Pp : PowParams) (Hs : Hashes) (version : Nat) (number : Nat) (difficulty : Int) (hnnBlockVersion : Bytes) (start fuel : Nat) :
    Out (Option (Nat × Bytes)) :=
  if difficulty = 0 then .panic                                   -- new(big.Int).Div(maxUint256, header.Difficulty)
  else if version = 0 ∨ version > 4 then .ok none                 -- "Mining incorrect version"
  else .ok (mineFrom Hs version number hnnBlockVersion ((Pp.maxUint256 : Int) / difficulty) fuel start)

/-! ## `Seal` with n sealer threads: an interleaving model

    Each `mine` goroutine owns its nonce walk and its 40-byte seed buffer (`seed := make([]byte, 40)` inside the loop).
    One loop iteration is three atomic steps: WRITE the nonce into the buffer, HASH the buffer, COMPARE with the target (a hit
    is sent on `found`; the first one wins, `abort` stops everybody else).  A schedule is an arbitrary list of thread indices.
    `sharedBuf = true` is the variant in which all threads write into and hash ONE buffer (what a shared seed slice would do). -/

inductive Pc where
  | write | hash | compare | done
  deriving Repr, DecidableEq

structure Miner where
  nonce : Nat
  buf : Bytes        -- the thread's own seed buffer
  res : Bytes        -- the result of its last hash
  pc : Pc
  deriving Repr, DecidableEq

structure SealState where
  miners : List Miner
  shared : Bytes                      -- the single buffer of the shared variant
  found : Option (Nat × Bytes)        -- (nonce, mix digest) of the block `Seal` returns
  deriving Repr, DecidableEq

/-- one atomic step of thread `i` (argon2id versions: the digest is zero). -/
def sealStep (Hs : Hashes) (version : Nat) (hnn : Bytes) (target : Int) (sharedBuf : Bool) (st : SealState) (i : Nat) : SealState :=
  match st.found with
  | some _ => st                                        -- abort closed: the others stop
  | none =>
    match st.miners[i]? with
    | none => st
    | some m =>
      match m.pc with
      | .write =>
        if sharedBuf then { st with shared := sealSeed hnn m.nonce, miners := st.miners.set i { m with pc := .hash } }
        else { st with miners := st.miners.set i { m with buf := sealSeed hnn m.nonce, pc := .hash } }
      | .hash =>
        { st with miners := st.miners.set i { m with res := Hs.vh version (if sharedBuf then st.shared else m.buf), pc := .compare } }
      | .compare =>
        if (beNat m.res : Int) ≤ target then
          { st with found := some (m.nonce, zeroDigest), miners := st.miners.set i { m with pc := .done } }
        else { st with miners := st.miners.set i { m with nonce := (m.nonce + 1) % Aqv.Consensus.two64, pc := .write } }
      | .done => st

/-- the threads start at their own start nonces (`uint64(mrand.Int63())` each). -/
def sealInit (starts : List Nat) : SealState :=
  { miners := starts.map (fun s => { nonce := s, buf := [], res := [], pc := .write }), shared := [], found := none }

/-- `Seal` under a schedule: what it returns (if some thread has hit the target by then). -/
def sealRun (Pp : PowParams) (Hs : Hashes) (version : Nat) (difficulty : Int) (hnn : Bytes) (sharedBuf : Bool) (starts : List Nat) (schedule : List Nat) :
    Option (Nat × Bytes) :=
  (schedule.foldl (sealStep Hs version hnn ((Pp.maxUint256 : Int) / difficulty) sharedBuf) (sealInit starts)).found

end Aqv.Pow

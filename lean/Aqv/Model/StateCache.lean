/-
  Aqv.Model.StateCache — the READ caches of core/state as explicit model state.  Core-only.

  `getStateObject` (behind Exist, Empty, GetBalance, GetNonce, GetCode, GetCodeSize, GetCodeHash, GetState, HasSuicided and
  behind every mutator's lookup) does not only return the object: when the address has no entry in `stateObjects` and the
  account trie has a leaf, it decodes the leaf into a fresh object (callback armed, nothing dirty) and STORES it in
  `stateObjects`.  `loadObj` is exactly that side effect.  In `Aqv.Model.State` a cached object carries its code and its
  storage-trie content (`base`), so the object cache stands for all three Go read caches at once (`stateObjects`, the lazily
  loaded `code`, `cachedStorage`): loading an object = "everything about this account has been read".
  A nil result (no leaf, or a deleted tombstone) is not cached, as in Go.
-/
import Aqv.Model.State
namespace Aqv.State

/-- the cache fill of one read of address `a` (`getStateObject`'s `setStateObject(obj)` on the load path). -/
def loadObj (s : SDB) (a : Addr) : SDB :=
  match s.objs a with
  | some _ => s
  | none =>
    match s.trie a with
    | some c => putObj s a (fromAcct c)
    | none => s

/-- the state after any sequence of reads (getter calls) of the listed addresses. -/
def warm (s : SDB) (reads : List Addr) : SDB := reads.foldl loadObj s

end Aqv.State

/-
  Aqv.Model.Rpc — model of the RPC signing lock-down (property C18). Core Lean only.

  Mirrors, step by step:
    rpc/server.go   RegisterName        (caller-suffix switch → is_allowed; the loop that deletes protected methods;
                                         subscriptions are never filtered)
    rpc/server.go   isProtectedMethodName
    node/node.go    startInProc / startIPC / startHTTP / startWS   (module white-lists, api.Public, WSExposeAll)
    aqua/backend.go CreateConsensusEngine / (*Aquachain).APIs      (which rpc.API entries exist for which engine)

  The facts that come from the source (method inventory, protected names, flag table) are NOT in this file: they are
  regenerated into Aqv.Gen.Rpc on every run and passed in through `Params`.
-/
namespace Aqv.Model.Rpc

/-- the four RPC transports of node/node.go (one `rpc.Server` each, built by the start function of the same name). -/
inductive Transport where
  | inproc | ipc | http | ws
  deriving DecidableEq, Repr, Inhabited

def Transport.all : List Transport := [.inproc, .ipc, .http, .ws]

def Transport.name : Transport → String
  | .inproc => "inproc" | .ipc => "ipc" | .http => "http" | .ws => "ws"

/-- suffix of the runtime function name of the start function (what RegisterName matches with strings.HasSuffix). -/
def Transport.startSuffix : Transport → String
  | .inproc => ".startInProc" | .ipc => ".startIPC" | .http => ".startHTTP" | .ws => ".startWS"

/-- the opt-in variables read by package rpc at start-up (`sense.EnvBool`). -/
inductive EnvVar where
  | allowSignInproc   -- UNSAFE_ALLOW_SIGN_INPROC
  | allowSignIpc      -- UNSAFE_ALLOW_SIGN_IPC
  | rpcSigningHttp    -- UNSAFE_RPC_SIGNING_HTTP
  | rpcSigningWs      -- UNSAFE_RPC_SIGNING_WS
  | rpcSigning        -- UNSAFE_RPC_SIGNING
  deriving DecidableEq, Repr, Inhabited

def EnvVar.name : EnvVar → String
  | .allowSignInproc => "UNSAFE_ALLOW_SIGN_INPROC"
  | .allowSignIpc => "UNSAFE_ALLOW_SIGN_IPC"
  | .rpcSigningHttp => "UNSAFE_RPC_SIGNING_HTTP"
  | .rpcSigningWs => "UNSAFE_RPC_SIGNING_WS"
  | .rpcSigning => "UNSAFE_RPC_SIGNING"

def EnvVar.all : List EnvVar := [.allowSignInproc, .allowSignIpc, .rpcSigningHttp, .rpcSigningWs, .rpcSigning]

def EnvVar.ofName (s : String) : Option EnvVar := EnvVar.all.find? (fun v => v.name == s)

/-- the environment as package rpc sees it: the truth value `sense.EnvBool` gives each variable. -/
structure Env where
  inproc : Bool
  ipc : Bool
  http : Bool
  ws : Bool
  all : Bool
  deriving DecidableEq, Repr, Inhabited

def Env.get (e : Env) : EnvVar → Bool
  | .allowSignInproc => e.inproc
  | .allowSignIpc => e.ipc
  | .rpcSigningHttp => e.http
  | .rpcSigningWs => e.ws
  | .rpcSigning => e.all

def Env.set (e : Env) (v : EnvVar) (b : Bool) : Env :=
  match v with
  | .allowSignInproc => { e with inproc := b }
  | .allowSignIpc => { e with ipc := b }
  | .rpcSigningHttp => { e with http := b }
  | .rpcSigningWs => { e with ws := b }
  | .rpcSigning => { e with all := b }

/-- none of the opt-in variables set. -/
def Env.default : Env := ⟨false, false, false, false, false⟩

/-- which consensus engine aqua.CreateConsensusEngine builds: `chainConfig.Clique != nil` selects clique. -/
inductive Kind where
  | pow | clique
  deriving DecidableEq, Repr, Inhabited

/-- one exported method (or subscription) of one service registered under one namespace. -/
structure Method where
  ns : String          -- namespace of the rpc.API entry
  name : String        -- RPC-visible name (formatName of goName)
  goName : String      -- Go method name (what isProtectedMethodName sees)
  rcvr : String        -- receiver type, e.g. "aquaapi.PrivateAccountAPI"
  isSub : Bool         -- registered as a subscription (rpc.isPubSub)
  isPublic : Bool      -- rpc.API.Public
  builtin : Bool       -- registered by rpc.NewServer itself on every server (the "rpc" metadata service), not from the API list
  cliqueOnly : Bool    -- the rpc.API entry is built by a method of the clique engine (absent on a pow node)
  reachesSign : Bool   -- static reachability to a keystore signing entry point (class-hierarchy call graph, whole program)
  reachesSignPow : Bool -- the same with the methods of engines a pow node never constructs removed
  deriving DecidableEq, Repr, Inhabited

/-- node.Config fields that gate modules per transport. -/
structure Cfg where
  httpModules : List String
  wsModules : List String
  wsExposeAll : Bool
  deriving DecidableEq, Repr, Inhabited

def Cfg.default : Cfg := ⟨[], [], false⟩

/-- facts regenerated from the source (Aqv.Gen.Rpc). -/
structure Params where
  protectedNames : List String            -- string constants of isProtectedMethodName
  flagOf : Transport → Option EnvVar      -- RegisterName: which variable `is_allowed` is loaded from per start function

/-- rpc.isProtectedMethodName -/
def isProtected (P : Params) (goName : String) : Bool := P.protectedNames.contains goName

/-- RegisterName: value of `is_allowed` when called from the start function of transport `t` (false when no suffix matches). -/
def allowed (P : Params) (env : Env) (t : Transport) : Bool :=
  match P.flagOf t with
  | some v => env.get v
  | none => false

/-- RegisterName's loops: a callback survives iff it is not protected or the caller is allowed; subscriptions always survive.
    (rpc.NewServer's own registration runs with `is_allowed = false`: its runtime name matches no suffix.) -/
def passesFilter (P : Params) (env : Env) (t : Transport) (m : Method) : Bool :=
  m.isSub || !isProtected P m.goName || (!m.builtin && allowed P env t)

/-- startInProc/startIPC register every API; startHTTP/startWS apply the white-list (or Public when it is empty). -/
def moduleAllowed (cfg : Cfg) (t : Transport) (m : Method) : Bool :=
  m.builtin ||
  match t with
  | .inproc => true
  | .ipc => true
  | .http => cfg.httpModules.contains m.ns || (cfg.httpModules.isEmpty && m.isPublic)
  | .ws => cfg.wsExposeAll || cfg.wsModules.contains m.ns || (cfg.wsModules.isEmpty && m.isPublic)

/-- the rpc.API entry exists on a node of kind `k`. -/
def present (k : Kind) (m : Method) : Bool := !m.cliqueOnly || k == .clique

/-- method `m` is registered on the server of transport `t`. -/
def exposed (P : Params) (k : Kind) (cfg : Cfg) (env : Env) (t : Transport) (m : Method) : Bool :=
  present k m && moduleAllowed cfg t m && passesFilter P env t m

/-- static "can reach a keystore signing entry point" on a node of kind `k`. -/
def signs (k : Kind) (m : Method) : Bool :=
  match k with
  | .pow => m.reachesSignPow
  | .clique => m.reachesSign

/-! ### Spec -/

/-- the variable the documentation designates for each transport (hand-written: this is the specification side). -/
def designated : Transport → EnvVar
  | .inproc => .allowSignInproc
  | .ipc => .allowSignIpc
  | .http => .rpcSigningHttp
  | .ws => .rpcSigningWs

/-- "explicitly opted in for transport t". -/
def optedIn (env : Env) (t : Transport) : Bool := env.get (designated t)

/-- Spec acceptor for one observation: a method that produced a keystore signature on transport `t` under `env`. -/
def specAcceptsSigning (env : Env) (t : Transport) : Bool := optedIn env t


/-! ### reading the variables: common/sense/ext.go EnvBool / boolString -/

def truthyWords : List String := ["true", "yes", "1", "on", "enabled", "enable"]
def falsyWords : List String := ["false", "no", "0", "off", "disabled", "disable"]

/-- sense.boolString: `switch strings.ToLower(s)` — "" → unset; a truthy word → true; a falsy word → false; otherwise unparsable. -/
def boolString (s : String) (unset unparsable : Bool) : Bool :=
  let l := s.toLower
  if l == "" then unset
  else if truthyWords.contains l then true
  else if falsyWords.contains l then false
  else unparsable

/-- sense.EnvBool on the result of os.LookupEnv (`none` = the variable is not in the environment):
    `if !ok { return false }; return boolString(x, false, true)`. -/
def envBool : Option String → Bool
  | none => false
  | some x => boolString x false true

/-- Spec, the documented reading ("EnvBool returns false if empty/unset/falsy, true if otherwise non-empty"):
    a variable opts in iff it is present, not empty and not one of the falsy spellings. -/
def envOn : Option String → Bool
  | none => false
  | some x => x.toLower != "" && !falsyWords.contains x.toLower

/-- the process environment restricted to the five variables, as raw values (`none` = unset, `some ""` = present but empty). -/
structure RawEnv where
  inproc : Option String
  ipc : Option String
  http : Option String
  ws : Option String
  all : Option String
  deriving DecidableEq, Repr, Inhabited

def RawEnv.unset : RawEnv := ⟨none, none, none, none, none⟩

def RawEnv.get (r : RawEnv) : EnvVar → Option String
  | .allowSignInproc => r.inproc
  | .allowSignIpc => r.ipc
  | .rpcSigningHttp => r.http
  | .rpcSigningWs => r.ws
  | .rpcSigning => r.all

/-- what package rpc's variable initialisers compute from the process environment. -/
def RawEnv.read (r : RawEnv) : Env := ⟨envBool r.inproc, envBool r.ipc, envBool r.http, envBool r.ws, envBool r.all⟩

/-- Spec: "explicitly opted in for transport t" on the raw environment — the designated variable carries an opting-in value. -/
def optedInRaw (r : RawEnv) (t : Transport) : Bool := envOn (r.get (designated t))


/-! ### which engine a chain configuration selects: aqua/backend.go CreateConsensusEngine -/

/-- `cliqueSet` = `chainConfig.Clique != nil`, the guard of the only call of clique.New (regenerated: Gen.Rpc.gatedEngines).
    The PowMode cases that precede it in the switch (fake/test/shared → aquahash) only make this an over-approximation of
    "the node signs blocks": a configuration without a Clique section never gets the clique engine. -/
def kindOfCfg (cliqueSet : Bool) : Kind := if cliqueSet then .clique else .pow

/-! ### helpers for the driver -/

def Method.key (m : Method) : String :=
  m.ns ++ "." ++ m.name ++ (if m.isSub then "~" else "=") ++ m.rcvr ++ "." ++ m.goName

/-- insertion sort on strings (the driver prints sets in the same order as the harness: byte-wise ascending). -/
def insertSorted (s : String) : List String → List String
  | [] => [s]
  | x :: xs => if s ≤ x then s :: x :: xs else x :: insertSorted s xs

def sortStrings (l : List String) : List String := l.foldr insertSorted []

def dedup : List String → List String
  | [] => []
  | x :: xs => if xs.contains x then dedup xs else x :: dedup xs

def exposedKeys (P : Params) (methods : List Method) (k : Kind) (cfg : Cfg) (env : Env) (t : Transport) : List String :=
  sortStrings ((methods.filter (exposed P k cfg env t)).map Method.key)

/-- what rpc_modules answers: every namespace with at least one registered callback or subscription, plus "rpc". -/
def modules (P : Params) (methods : List Method) (k : Kind) (cfg : Cfg) (env : Env) (t : Transport) : List String :=
  sortStrings (dedup ("rpc" :: (methods.filter (exposed P k cfg env t)).map (·.ns)))

end Aqv.Model.Rpc

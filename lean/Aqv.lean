import Aqv.Base.Bytes
import Aqv.Base.Proto
import Aqv.Model.Rlp
import Aqv.Props.C11

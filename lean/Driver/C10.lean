import Aqv.Base.Proto
import Aqv.Base.Keccak
import Aqv.Model.Trie
import Aqv.Model.TrieProof
import Aqv.Model.TrieLoad
import Aqv.Model.TrieLoadFast
import Aqv.Model.TrieGc
open Aqv Aqv.Proto Aqv.Trie Aqv.Rlp

/-! Model driver for C10. One case line = one whole history (or one codec / decode / verify probe).

  T <plain|secure> <op>|<op>|…      ops: u:<key>:<val>  d:<key>  g:<key>  h  c  r  l:<n>  i  p:<key>  x:<key>:<otherkey>
                                     Go output: one field per producing op, joined by `|`
  D <item>,<item>,…                 types.DeriveSha over the byte strings (keys rlp(0), rlp(1), …)
  K <bytes>                         keybytesToHex / hexToCompact (with and without terminator) / compactToHex / hexToKeybytes
  N <blob>                          decodeNode
  V <root> <key> <h>=<blob>,…       VerifyProof over an explicit (possibly hostile) database
-/

def H : Bytes → Bytes := Keccak.keccak256

def nibsHex (k : List Nib) : String := hexOrDash (k.map nibByte)

def hexB (s : String) : Bytes := (bytesOfHex s).getD []

/-- reference map (Spec): association list sorted in iteration order. -/
abbrev RMap := List (Bytes × Bytes)

def rmErase (m : RMap) (k : Bytes) : RMap := m.filter (fun kv => kv.1 != k)

def rmInsert : RMap → Bytes → Bytes → RMap
  | [], k, v => [(k, v)]
  | (k', v') :: rest, k, v =>
    if k' == k then (k, v) :: rest
    else if keyLt (keybytesToHex k) (keybytesToHex k') then (k, v) :: (k', v') :: rest
    else (k', v') :: rmInsert rest k v

def rmUpdate (m : RMap) (k v : Bytes) : RMap := if v.isEmpty then rmErase m k else rmInsert m k v

def rmGet (m : RMap) (k : Bytes) : Option Bytes := (m.find? (fun kv => kv.1 == k)).map (·.2)

def specRoot (m : RMap) : Bytes := mptRoot H (m.map fun kv => (keybytesToHex kv.1, kv.2))

def renderOpt (o : Option Bytes) : String :=
  match o with
  | none => "-"
  | some v => hexOrDash v

def renderIter (kvs : List (Bytes × Bytes)) : String :=
  if kvs.isEmpty then "-" else ",".intercalate (kvs.map fun kv => hexOrDash kv.1 ++ "=" ++ hexOrDash kv.2)

def renderVRes : VRes → String
  | .value v => "v" ++ hexOrDash v
  | .absent => "absent"
  | .err => "err"
  | .panic => "panic"
  | .hang => "hang"

def renderProof (els : List Bytes) (r : VRes) : String :=
  ",".intercalate (els.map hexOfBytes) ++ ">" ++ renderVRes r

/-- model iteration: leaves of the model trie, paths converted back with hexToKeybytes. -/
def implIter (t : Node) : String :=
  let kvs := (toList t).map fun kv =>
    match hexToKeybytes kv.1 with
    | some k => (k, kv.2)
    | none => ([0xEE, 0xEE], kv.2)
  renderIter kvs

/-! The history replay runs in the PARTIAL-LOAD model (Model.TrieLoad): state = node database + partially loaded root.
  `c` stores the loaded nodes (`commitDb`) and then unloads every stored node below depth `limit` (the model's own
  choice among the unloadings `Unload` permits — Go's choice depends on cache generations; every choice must be
  invisible), `r` commits and restarts from the bare root hash node, `u`/`d`/`g` resolve hash nodes on demand through
  the database. Iteration and proofs first reload the whole trie (`loadP`). -/

/-- unload every clean node at depth ≥ d (root forced, others only when their RLP is ≥ 32 bytes). -/
def unloadD : Nat → Bool → PNode → PNode
  | 0, r, .short k c =>
    let e := enc (bodyX H (.short k c)); if r || decide (32 ≤ e.length) then .hash (H e) else .short k c
  | 0, r, .full cs =>
    let e := enc (bodyX H (.full cs)); if r || decide (32 ≤ e.length) then .hash (H e) else .full cs
  | d + 1, _, .short k c => .short k (unloadD d false c)
  | d + 1, _, .full cs =>
    let arr := ((List.finRange 17).map fun i => unloadD d false (cs i)).toArray
    .full fun i => arr.getD i.val .nil
  | _, _, x => x

-- `DbMap`, `dbFun`, `storePass`, `commitMap`, `loadFast`: Model.TrieLoadFast, proved equal to `commitDb` / `storeList` /
-- `loadP` (Props.C10 `commit_fast_refines`, `load_fast_refines`).

structure St where
  dbm : DbMap := {}
  x : PNode := .nil
  limit : Nat := 0
  m : RMap := []
  impl : List String := []          -- model outputs (reverse order)
  goLeft : List String := []        -- Go outputs still to be judged
  specOk : Bool := true
  why : String := ""
  panicked : Bool := false
  bad : String := ""

def St.db (s : St) : Bytes → Option Bytes := dbFun s.dbm

def St.emit (s : St) (implOut : String) (specAccepts : String → Bool) (why : String) : St :=
  match s.goLeft with
  | [] => { s with impl := implOut :: s.impl, specOk := false, why := if s.specOk then "missing-output" else s.why }
  | g :: rest =>
    let ok := g == implOut || specAccepts g
    { s with impl := implOut :: s.impl, goLeft := rest, specOk := s.specOk && ok,
             why := if s.specOk && !ok then why else s.why }

def applyKey (secure : Bool) (k : Bytes) : Bytes := if secure then H k else k

def St.fail (s : St) (what : String) : St := { s with panicked := true, bad := what }

def xresTag {α : Type} : XRes α → String
  | .ok _ => "ok"
  | .missing _ => "missing-node"
  | .panic => "panic"
  | .fuel => "fuel"

/-- the fully reloaded trie (for iteration / Prove). -/
def St.loaded (s : St) : Option Node := loadFast s.db 200 s.x

def stepOp (secure : Bool) (s : St) (op : String) : St :=
  if s.panicked then s else
  match op.splitOn ":" with
  | ["u", k, v] =>
    let kb := applyKey secure (hexB k); let vb := hexB v
    let key := keybytesToHex kb
    let r := if vb.length != 0 then xinsert s.db (xfuel key) s.x key vb else xdelete s.db (xfuel key) s.x key
    match r with
    | .ok (_, n) => { s with x := n, m := rmUpdate s.m kb vb }
    | e => s.fail ("update:" ++ xresTag e)
  | ["d", k] =>
    let kb := applyKey secure (hexB k)
    let key := keybytesToHex kb
    match xdelete s.db (xfuel key) s.x key with
    | .ok (_, n) => { s with x := n, m := rmErase s.m kb }
    | e => s.fail ("delete:" ++ xresTag e)
  | ["g", k] =>
    let kb := applyKey secure (hexB k)
    let key := keybytesToHex kb
    match xget s.db (xfuel key) s.x key with
    | .ok (r, n) =>
      ({ s with x := n }).emit (renderOpt r) (fun g => g == renderOpt (rmGet s.m kb)) "get-differs-from-content"
    | e => s.fail ("get:" ++ xresTag e)
  | ["h"] =>
    s.emit (hexOfBytes (hashRootX H s.x)) (fun g => g == hexOfBytes (specRoot s.m)) "root-differs-from-mptRoot-of-content"
  | ["c"] =>
    let root := hashRootX H s.x
    let s' := { s with dbm := commitMap H s.dbm s.x, x := unloadD s.limit true s.x }
    s'.emit (hexOfBytes root) (fun g => g == hexOfBytes (specRoot s.m)) "root-differs-from-mptRoot-of-content"
  | ["r"] =>
    let root := hashRootX H s.x
    let x' : PNode := match s.x with
      | .nil => .nil
      | _ => .hash root
    let s' := { s with dbm := commitMap H s.dbm s.x, x := x' }
    s'.emit (hexOfBytes root) (fun g => g == hexOfBytes (specRoot s.m)) "root-differs-from-mptRoot-of-content"
  | ["l", n] => { s with limit := n.toNat! }
  | ["i"] =>
    match s.loaded with
    | some t => s.emit (implIter t) (fun g => g == renderIter s.m) "iteration-differs-from-content"
    | none => s.fail "iterate:reload-failed"
  | ["p", k] =>
    let kb := applyKey secure (hexB k)
    let key := keybytesToHex kb
    match s.loaded with
    | none => s.fail "prove:reload-failed"
    | some t =>
    match prove H t key with
    | none => s.fail "prove:panic"
    | some els =>
      let r := verifyProof H (dbOf H els) (verifyFuel key + els.length) (hashRootX H s.x) key
      let want : VRes := match rmGet s.m kb with | some v => .value v | none => .absent
      -- Spec: whatever node list Go produced must verify, against the spec root, to the content
      let accepts := fun (g : String) =>
        match g.splitOn ">" with
        | [elsS, _] =>
          let gels := (elsS.splitOn ",").map hexB
          renderVRes (verifyProof H (dbOf H gels) (verifyFuel key + gels.length) (specRoot s.m) key) == renderVRes want
            && g.endsWith (">" ++ renderVRes want)
        | _ => false
      s.emit (renderProof els r) accepts "proof-does-not-verify-to-content"
  | ["x", k, k2] =>
    -- proof produced for k, verified for k2 against the same root: must yield k2's value, its absence, or an error
    let kb := applyKey secure (hexB k); let kb2 := applyKey secure (hexB k2)
    match s.loaded with
    | none => s.fail "prove:reload-failed"
    | some t =>
    match prove H t (keybytesToHex kb) with
    | none => s.fail "prove:panic"
    | some els =>
      let key2 := keybytesToHex kb2
      let r := verifyProof H (dbOf H els) (verifyFuel key2 + els.length) (hashRootX H s.x) key2
      let want := match rmGet s.m kb2 with | some v => "v" ++ hexOrDash v | none => "absent"
      s.emit (renderVRes r) (fun g => g == "err" || g == want) "foreign-proof-verifies-to-wrong-value"
  | _ => s

/-! ## G cases: the reference-counted node store (Model.TrieGc) replayed against trie.Database

  G <op>|<op>|…   v:<base|->:<k=v;k=v;…>   new version: open the trie of version <base> (or the empty trie), apply the
                                            mutations (v = `-` deletes), Commit, Reference(root, {})      -> root
                  f:<idx>                   Dereference(root of version idx, {})                          -> (nothing)
                  k                         the set of cached node hashes                                  -> <count>:<digest>
-/

/-- post-order list of (hash, hash children) of the nodes `Commit` stores (children before parents, as the hasher). -/
def gcPass (root : Bool) : PNode → Item × List Bytes × List (Bytes × List Bytes)
  | .nil => (.str [], [], [])
  | .value v => (.str v, [], [])
  | .hash h => (.str h, [h], [])
  | .short k c =>
    let (rc, kc, es) := gcPass false c
    let it : Item := .list [.str (hexToCompact k), rc]
    let e := enc it
    if root || decide (32 ≤ e.length) then (.str (H e), [H e], es ++ [(H e, kc)]) else (it, kc, es)
  | .full cs =>
    let parts := (List.finRange 17).map fun i => gcPass false (cs i)
    let it : Item := .list (parts.map (·.1))
    let ks := parts.flatMap (·.2.1)
    let es := parts.flatMap (·.2.2)
    let e := enc it
    if root || decide (32 ≤ e.length) then (.str (H e), [H e], es ++ [(H e, ks)]) else (it, ks, es)

def bytesLt : Bytes → Bytes → Bool
  | [], [] => false
  | [], _ :: _ => true
  | _ :: _, [] => false
  | a :: as, b :: bs => if a < b then true else if b < a then false else bytesLt as bs

def insertSorted (x : Bytes) : List Bytes → List Bytes
  | [] => [x]
  | y :: ys => if bytesLt x y then x :: y :: ys else y :: insertSorted x ys

def nodesDigest (ns : List Bytes) : String :=
  let sorted := ns.foldl (fun acc x => insertSorted x acc) []
  toString ns.length ++ ":" ++ hexOfBytes ((H (sorted.flatMap id)).take 8)

structure GSt where
  store : Gc.Store Bytes := Gc.Store.empty
  versions : Array (PNode × Bytes) := #[]
  outs : List String := []
  bad : String := ""

def noDb : Bytes → Option Bytes := fun _ => none

def applyMut (x : PNode) (m : String) : Option PNode :=
  match m.splitOn "=" with
  | [k, v] =>
    let key := keybytesToHex (hexB k); let vb := hexB v
    let r := if vb.length != 0 then xinsert noDb (xfuel key) x key vb else xdelete noDb (xfuel key) x key
    match r with
    | .ok (_, n) => some n
    | _ => none
  | _ => some x

def gStep (g : GSt) (op : String) : GSt :=
  if g.bad != "" then g else
  match op.splitOn ":" with
  | ["v", base, muts] =>
    let x0 : PNode := if base == "-" then .nil else (g.versions.getD base.toNat! (.nil, [])).1
    let ms := if muts == "" then [] else muts.splitOn ";"
    match ms.foldl (fun (o : Option PNode) m => o.bind (applyMut · m)) (some x0) with
    | none => { g with bad := "model-failure:mutation" }
    | some x =>
      let root := hashRootX H x
      let (_, _, es) := gcPass true x
      let st := es.foldl (fun s e => Gc.storeNode s e.1 e.2) g.store
      let st := match x with
        | .nil => st
        | _ => Gc.pin st root
      { g with store := st, versions := g.versions.push (x, root), outs := hexOfBytes root :: g.outs }
  | ["f", idx] =>
    let root := (g.versions.getD idx.toNat! (.nil, [])).2
    match Gc.unpin 100000 g.store root with
    | some st => { g with store := st }
    | none => { g with bad := "model-failure:deref-fuel" }
  | ["k"] => { g with outs := nodesDigest g.store.nodes :: g.outs }
  | _ => g

def renderNib (n : Nib) : Char := hexDigit (n.val % 16)

partial def renderP : PNode → String
  | .nil => "n"
  | .value v => "v" ++ hexOrDash v
  | .hash h => "h" ++ hexOrDash h
  | .short k c => "s" ++ nibsHex k ++ "(" ++ renderP c ++ ")"
  | .full cs => "f[" ++ ",".intercalate ((List.finRange 17).map fun i => renderP (cs i)) ++ "]"

def outDecode (blob : Bytes) : String :=
  match decodeNode (blob.length + 1) blob with
  | .ok n => "ok " ++ renderP n
  | .error .err => "err"
  | .error .panic => "panic"

def parsePairs (s : String) : List (Bytes × Bytes) :=
  if s == "-" then [] else
  (s.splitOn ",").filterMap fun p =>
    match p.splitOn "=" with
    | [h, b] => some (hexB h, hexB b)
    | _ => none

def handle (l : String) : String :=
  let (inp, go) := splitCase l
  match fields inp with
  | ["T", kind, ops] =>
    let secure := kind == "secure"
    let goOuts := if go == "" then [] else go.splitOn "|"
    let s0 : St := { goLeft := goOuts }
    let s := (ops.splitOn "|").foldl (stepOp secure) s0
    if s.panicked then verdict ("model-failure:" ++ s.bad) go false "model-failed-on-api-history"
    else
      let implOut := "|".intercalate s.impl.reverse
      -- internal consistency of the run-time model against the run-time spec (a theorem; checked anyway)
      let consistent := hexOfBytes (hashRootX H s.x) == hexOfBytes (specRoot s.m)
      if !consistent then implOut ++ "\tspec-reject:model-root-differs-from-spec-root"
      else verdict implOut go (s.specOk && s.goLeft.isEmpty) s.why
  | ["G", ops] =>
    let g := (ops.splitOn "|").foldl gStep {}
    if g.bad != "" then verdict g.bad go false "gc-model-failed"
    else
      -- Spec judgement of a differing Go output: the ROOTS must be the model's; which unreferenced nodes the store
      -- still caches is not prescribed by the property (the harness judges reopening of pinned roots directly)
      let mo := g.outs.reverse
      let gosOuts := go.splitOn "|"
      let rootsAgree := mo.length == gosOuts.length &&
        (mo.zip gosOuts).all fun (a, b) => if a.contains ':' then b.contains ':' else a == b
      verdict ("|".intercalate mo) go rootsAgree "gc-history-root-differs"
  | ["D", items] =>
    let its := if items == "-" then [] else (items.splitOn ",").map hexB
    let keyed := (List.range its.length).zip its |>.map fun (i, v) => (enc (.str (beBytes i)), v)
    let t := keyed.foldl (fun t kv => (tryUpdate t kv.1 kv.2).getD t) Node.nil
    let m := keyed.foldl (fun m kv => rmUpdate m kv.1 kv.2) ([] : RMap)
    let implOut := hexOfBytes (hashRoot H t)
    verdict implOut go (go == hexOfBytes (specRoot m)) "derivesha-differs-from-mptRoot"
  | ["K", hex] =>
    let b := hexB hex
    let hx := keybytesToHex b
    let back := match hexToKeybytes hx with | some k => hexOrDash k | none => "panic"
    let c2h := match compactToHex b with | some k => nibsHex k | none => "panic"
    let out := nibsHex hx ++ " " ++ hexOrDash (hexToCompact hx) ++ " " ++ hexOrDash (hexToCompact hx.dropLast) ++ " " ++ c2h ++ " " ++ back
    let rt (k : List Nib) := compactToHex (hexToCompact k) == some k
    -- Spec: round trips (the Go output is judged by re-parsing is not possible here; only equality with the model counts)
    verdict out go (false && rt hx) "key-encoding-differs"
  | ["N", hex] => verdict (outDecode (hexB hex)) go false "decodeNode-differs"
  | ["V", root, key, pairs] =>
    let db := dbOfPairs (parsePairs pairs)
    let k := keybytesToHex (hexB key)
    let r := verifyProof H db (verifyFuel k + (parsePairs pairs).length + 8) (hexB root) k
    verdict (renderVRes r) go false "verifyproof-differs"
  | _ => "bad-op\tagree"

def main : IO Unit := runLines handle

/-
  Driver.C08 — model driver for property C08 (core-only). One case line per stdin line:
      <input fields>\t<what the real Go code produced>
  answer: <Impl model output>\t<verdict>.  For every case BOTH the Impl model (Aqv.Model.EvmOps, mirrors the Go code) and the
  Spec (Aqv.Model.EvmSpec, Yellow Paper) are evaluated; the verdict judges the Go output against the Spec:
      go = spec, go = impl   → agree
      go = spec, go ≠ impl   → spec-ok                     (harmless difference: broken correspondence)
      go ≠ spec              → spec-reject:<tag>           (tag names the modelled deviation when go = impl and the operands
                                                            lie in the operand set excluded by the `_partial` theorem)
-/
import Aqv.Base.Proto
import Aqv.Model.EvmOps
import Aqv.Model.EvmSpec
import Aqv.Model.EvmSelect
import Aqv.Model.EvmRun
import Aqv.Base.Keccak
open Aqv Aqv.Proto Aqv.Big Aqv.Evm Aqv.Gen.VmTable

def hexNatAux : List Char → Nat → Option Nat
  | [], acc => some acc
  | c :: cs, acc =>
    match hexVal c with
    | some v => hexNatAux cs (acc * 16 + v)
    | none => none

def hexNat (s : String) : Option Nat := if s.isEmpty then none else hexNatAux s.toList 0

def natHex (n : Nat) : String := String.ofList (Nat.toDigits 16 n)

def judge (impl go : String) (specAcceptsGo : Bool) (tag : String) : String :=
  if specAcceptsGo then (if impl == go then impl ++ "\tagree" else impl ++ "\tspec-ok")
  else impl ++ "\tspec-reject:" ++ tag

def parseEpoch : String → Option Epoch
  | "frontier" => some .frontier
  | "homestead" => some .homestead
  | "byzantium" => some .byzantium
  | "constantinople" => some .constantinople
  | "spring" => some .spring
  | _ => none

def parseGt : String → Option GasTableName
  | "hs" => some .homestead
  | "hf1" => some .hf1
  | _ => none

def w (n : Nat) : EvmSpec.W := BitVec.ofNat 256 n

/-- Impl: op name → result, arguments in pop order -/
def implOp (name : String) (a : List Int) : Option Int :=
  match name, a with
  | "ADD", [x, y] => some (opAdd x y)
  | "SUB", [x, y] => some (opSub x y)
  | "MUL", [x, y] => some (opMul x y)
  | "DIV", [x, y] => some (opDiv x y)
  | "SDIV", [x, y] => some (opSdiv x y)
  | "MOD", [x, y] => some (opMod x y)
  | "SMOD", [x, y] => some (opSmod x y)
  | "ADDMOD", [x, y, z] => some (opAddmod x y z)
  | "MULMOD", [x, y, z] => some (opMulmod x y z)
  | "EXP", [x, y] => some (opExp x y)
  | "SIGNEXTEND", [x, y] => some (opSignExtend x y)
  | "LT", [x, y] => some (opLt x y)
  | "GT", [x, y] => some (opGt x y)
  | "SLT", [x, y] => some (opSlt x y)
  | "SGT", [x, y] => some (opSgt x y)
  | "EQ", [x, y] => some (opEq x y)
  | "ISZERO", [x] => some (opIszero x)
  | "AND", [x, y] => some (opAnd x y)
  | "OR", [x, y] => some (opOr x y)
  | "XOR", [x, y] => some (opXor x y)
  | "NOT", [x] => some (opNot x)
  | "BYTE", [x, y] => some (opByte x y)
  | "SHL", [x, y] => some (opSHL x y)
  | "SHR", [x, y] => some (opSHR x y)
  | "SAR", [x, y] => some (opSAR x y)
  | _, _ => none

def specOp (name : String) (a : List EvmSpec.W) : Option EvmSpec.W :=
  match name, a with
  | "ADD", [x, y] => some (EvmSpec.add x y)
  | "SUB", [x, y] => some (EvmSpec.sub x y)
  | "MUL", [x, y] => some (EvmSpec.mul x y)
  | "DIV", [x, y] => some (EvmSpec.div x y)
  | "SDIV", [x, y] => some (EvmSpec.sdiv x y)
  | "MOD", [x, y] => some (EvmSpec.mod x y)
  | "SMOD", [x, y] => some (EvmSpec.smod x y)
  | "ADDMOD", [x, y, z] => some (EvmSpec.addmod x y z)
  | "MULMOD", [x, y, z] => some (EvmSpec.mulmod x y z)
  | "EXP", [x, y] => some (EvmSpec.exp x y)
  | "SIGNEXTEND", [x, y] => some (EvmSpec.signextend x y)
  | "LT", [x, y] => some (EvmSpec.lt x y)
  | "GT", [x, y] => some (EvmSpec.gt x y)
  | "SLT", [x, y] => some (EvmSpec.slt x y)
  | "SGT", [x, y] => some (EvmSpec.sgt x y)
  | "EQ", [x, y] => some (EvmSpec.eq x y)
  | "ISZERO", [x] => some (EvmSpec.iszero x)
  | "AND", [x, y] => some (EvmSpec.and x y)
  | "OR", [x, y] => some (EvmSpec.or x y)
  | "XOR", [x, y] => some (EvmSpec.xor x y)
  | "NOT", [x] => some (EvmSpec.not x)
  | "BYTE", [x, y] => some (EvmSpec.byte x y)
  | "SHL", [x, y] => some (EvmSpec.shl x y)
  | "SHR", [x, y] => some (EvmSpec.shr x y)
  | "SAR", [x, y] => some (EvmSpec.sar x y)
  | _, _ => none

/-- opcode → generated table entry (driver-side helper) -/
def implInfoAt (e : Epoch) (opc : Nat) : Option OpInfo := (table e).find? (fun i => i.op == opc)

def optGas : Option UInt64 → Option Nat
  | some g => some g.toNat
  | none => none

/-- Impl gas of the single-op program `PUSH32 × arity, OP, PUSH1 0, MSTORE, PUSH1 32, PUSH1 0, RETURN`, from the generated table
    and the gas-function models. -/
def implProgGas (e : Epoch) (gt : GasTable) (info : OpInfo) (args : List Int) : Option Nat := do
  let p32 ← (← implInfoAt e 0x7f).constGas
  let p1 ← (← implInfoAt e 0x60).constGas
  let opGas ←
    match info.constGas with
    | some g => some g
    | none =>
      if info.gasFn == "gasExp" then optGas (gasExp (UInt64.ofNat gt.expByte) (args.getD 1 0)) else none
  let mstore ← optGas (gasMemVeryLow ⟨0, 0⟩ 32)
  let ret ← optGas (gasReturn ⟨32, 3⟩ 32)
  some (p32 * args.length + opGas + p1 + mstore + p1 + p1 + ret)

def specRow (level op : Nat) : Option EvmSpec.Row := specRowAt level op

def specProgGas (level : Nat) (expByte : Nat) (opc : Nat) (args : List Nat) : Option Nat := do
  let row ← specRow level opc
  let opGas ←
    match row.gas with
    | some g => some g
    | none => if opc == 0x0a then some (EvmSpec.gasExp expByte (args.getD 1 0)) else none
  -- PUSH*: W_verylow; MSTORE: W_verylow + C_mem(1) − C_mem(0); RETURN: no further expansion
  some (3 * args.length + opGas + 3 + (3 + (EvmSpec.cmem 1 - EvmSpec.cmem 0)) + 3 + 3 + 0)

def specExpByteOf : GasTableName → Nat
  | .hf1 => 50
  | _ => 10

def caseOp (eS gtS name : String) (argS : List String) (go : String) : String :=
  match parseEpoch eS, parseGt gtS, argS.mapM hexNat with
  | some e, some gtn, some args =>
    let argsI : List Int := args.map Int.ofNat
    let info := (table e).find? (fun i => i.name == name)
    let impl : String :=
      match info with
      | none => "err invalid"
      | some info =>
        match implOp name argsI, implProgGas e (gasTableOf gtn) info argsI with
        | some r, some g => "ok " ++ natHex r.toNat ++ " " ++ toString g
        | _, _ => "err unmodelled"
    -- Spec: validity from the hand-written table, result from BitVec semantics, gas from the Yellow Paper tiers
    let opc := ((frontier ++ constantinople).find? (fun i => i.name == name)).map (·.op)
    let spec : String :=
      match opc with
      | none => "err unmodelled"
      | some opc =>
        match specRow (epochLevel e) opc with
        | none => "err invalid"
        | some _ =>
          match specOp name (args.map w), specProgGas (epochLevel e) (specExpByteOf gtn) opc args with
          | some r, some g => "ok " ++ natHex r.toNat ++ " " ++ toString g
          | _, _ => "err unmodelled"
    let tag :=
      if impl == go then
        (if name == "SAR" ∧ args.getD 0 0 ≥ 256 ∧ args.getD 1 1 = 0 then "sar-shift-ge-256-of-zero" else "unexpected-modelled-deviation")
      else "result-or-gas-differs-from-spec"
    judge impl go (go == spec) tag
  | _, _, _ => "bad-op\tagree"

/-- `c:<homestead>:<byzantium>:<constantinople>:<hf1>:<hf5>` (`-` = nil) or the name of a built-in config -/
def parseCfg (s : String) : Option ChainCfg :=
  match s.splitOn ":" with
  | ["c", hs, bz, cs, h1, h5] =>
    let o (t : String) : Option Nat := if t == "-" then none else t.toNat?
    let hf := (match o h1 with | some h => [(1, h)] | none => []) ++ (match o h5 with | some h => [(5, h)] | none => [])
    some { name := s, homestead := o hs, eip150 := none, eip155 := none, eip158 := none, byzantium := o bz, constantinople := o cs, hf := hf }
  | [n] => configs.find? (fun c => c.name == n)
  | _ => none

def bitmapHex (valid : Nat → Bool) : String :=
  String.ofList ((List.range 64).map fun i =>
    let nib := (if valid (4 * i) then 8 else 0) + (if valid (4 * i + 1) then 4 else 0) + (if valid (4 * i + 2) then 2 else 0) + (if valid (4 * i + 3) then 1 else 0)
    hexDigit nib)

def caseSel (cfgS hS : String) (go : String) : String :=
  match parseCfg cfgS, hS.toNat? with
  | some c, some h =>
    let e := selectEpoch c h
    let impl := bitmapHex (fun op => (implInfoAt e op).isSome) ++ " " ++ toString (gasTableOf (selectGasTable c h)).expByte
    let lvl := specLevel c h
    let spec := bitmapHex (fun op => (specRow lvl op).isSome) ++ " " ++ toString (specExpByte c h)
    judge impl go (go == spec) (if impl == go then "unexpected-modelled-deviation" else "valid-opcode-set-or-gas-table-differs-from-fork-schedule")
  | _, _ => "bad-op\tagree"

def caseArity (eS bS : String) (go : String) : String :=
  match parseEpoch eS, bS.toNat? with
  | some e, some b =>
    let pushesKnown := !(go.endsWith " -")
    let render (pops pushes : Nat) : String := "ok " ++ toString pops ++ " " ++ (if pushesKnown then toString pushes else "-")
    let impl := match implInfoAt e b with
      | none => "invalid"
      | some i => render i.pops i.pushes
    let spec := match specRow (epochLevel e) b with
      | none => "invalid"
      | some r => render r.pops r.pushes
    judge impl go (go == spec) (if impl == go then "unexpected-modelled-deviation" else "stack-arity-or-validity-differs-from-spec")
  | _, _ => "bad-op\tagree"

def caseJd (hex : String) (go : String) : String :=
  match bytesOfHex hex with
  | none => "bad-op\tagree"
  | some code =>
    let arr := code.toArray
    let bits := codeBitmap arr
    let impl := String.ofList ((List.range code.length).map fun i =>
      if arr[i]! == 0x5b && codeSegment bits i then '1' else '0')
    let isc := EvmSpec.isCode code
    let spec := String.ofList ((List.range code.length).map fun i =>
      if code.getD i 0 == 0x5b && isc.getD i false then '1' else '0')
    let impl := if impl.isEmpty then "-" else impl
    let spec := if spec.isEmpty then "-" else spec
    judge impl go (go == spec) (if impl == go then "unexpected-modelled-deviation" else "jumpdest-analysis-differs-from-spec")

def caseJdx (hex destS : String) (go : String) : String :=
  match bytesOfHex hex, hexNat destS with
  | some code, some dest =>
    let impl := if hasJumpdest code.toArray (Int.ofNat dest) then "1" else "0"
    let spec := if EvmSpec.validJumpdest code dest then "1" else "0"
    judge impl go (go == spec) (if impl == go then "unexpected-modelled-deviation" else "jumpdest-validity-differs-from-spec")
  | _, _ => "bad-op\tagree"

/-- real-EVM jump: code' = PUSH32 dest ++ JUMP ++ code -/
def caseJump (hex destS : String) (go : String) : String :=
  match bytesOfHex hex, hexNat destS with
  | some code, some dest =>
    let pad := (List.replicate 32 (0 : UInt8)) ++ beBytes dest
    let code' : Bytes := [0x7f] ++ pad.drop (pad.length - 32) ++ [0x56] ++ code
    let impl := if hasJumpdest code'.toArray (Int.ofNat dest) then "valid" else "invalid"
    let spec := if EvmSpec.validJumpdest code' dest then "valid" else "invalid"
    judge impl go (go == spec) (if impl == go then "unexpected-modelled-deviation" else "jump-validity-differs-from-spec")
  | _, _ => "bad-op\tagree"

def u64 (n : Nat) : UInt64 := UInt64.ofNat n

/-- Spec fee for growing a memory of `memLen` bytes (a multiple of 32, fully paid) to cover `newSize` bytes. -/
def specMemFee (memLen newSize : Nat) : Nat :=
  if newSize = 0 then 0
  else
    let wNew := EvmSpec.words newSize
    let wCur := memLen / 32
    if wNew > wCur then EvmSpec.cmem wNew - EvmSpec.cmem wCur else 0

/-- assumption A1 (notes/C08.md): no frame ever has 2^55 gas, so reporting "gas overflow → out of gas" is what the
    specification prescribes whenever the specified cost is ≥ 2^55. An `ok g` answer must be exact. -/
def gasAccept (go : String) (spec : Nat) : Bool :=
  if go == "overflow" then spec ≥ 2 ^ 55 else go == "ok " ++ toString spec

def wrapRange (n : Nat) : Bool := n > 0x1fffffffe0 ∧ n ≤ 0xffffffffe0

def caseMemgas (a b c : String) (go : String) : String :=
  match hexNat a, hexNat b, hexNat c with
  | some memLen, some last, some newSize =>
    let impl := match memoryGasCost ⟨u64 memLen, u64 last⟩ (u64 newSize) with
      | none => "overflow"
      | some (fee, m) => "ok " ++ toString fee.toNat ++ " " ++ toString m.lastGasCost.toNat
    let fee := specMemFee memLen newSize
    let specLast := if fee = 0 then last else EvmSpec.cmem (EvmSpec.words newSize)
    let ok := if go == "overflow" then fee ≥ 2 ^ 55 else go == "ok " ++ toString fee ++ " " ++ toString specLast
    judge impl go ok (if impl == go then (if wrapRange newSize then "memgas-square-wraps-uint64" else "unexpected-modelled-deviation") else "memory-gas-differs-from-spec")
  | _, _, _ => "bad-op\tagree"

def renderGas : Option UInt64 → String
  | none => "overflow"
  | some g => "ok " ++ toString g.toNat

/-- `g <kind> <param> <memLen> <last> <memorySize> <operand>` -/
def caseG (kind pS a b c d : String) (go : String) : String :=
  match pS.toNat?, hexNat a, hexNat b, hexNat c, hexNat d with
  | some p, some memLen, some last, some msz, some opnd =>
    let mem : Mem := ⟨u64 memLen, u64 last⟩
    let m := u64 msz
    let oi : Int := Int.ofNat opnd
    let mfee := specMemFee memLen msz
    let res : Option (Option UInt64 × Nat) :=
      match kind with
      | "mload" | "mstore" | "mstore8" => some (gasMemVeryLow mem m, mfee + 3)
      | "sha3" => some (gasSha3 mem m oi, mfee + EvmSpec.gasSha3 opnd)
      | "cdcopy" | "codecopy" | "rdcopy" => some (gasCopy gasFastestStep mem m oi, mfee + EvmSpec.gasCopy 3 opnd)
      | "extcopy" => some (gasCopy (u64 p) mem m oi, mfee + EvmSpec.gasCopy p opnd)
      | "log" => some (gasLog (u64 p) mem m oi, mfee + EvmSpec.gasLog p opnd)
      | "create" => some (gasCreate mem m, mfee + 32000)
      | "return" | "revert" => some (gasReturn mem m, mfee)
      | "exp" => some (gasExp (u64 p) oi, EvmSpec.gasExp p opnd)
      | _ => none
    match res with
    | none => "bad-op\tagree"
    | some (ig, spec) =>
      let impl := renderGas ig
      judge impl go (gasAccept go spec) (if impl == go then (if wrapRange msz then "memgas-square-wraps-uint64" else "unexpected-modelled-deviation") else "gas-differs-from-spec")
  | _, _, _, _, _ => "bad-op\tagree"

def caseCallgas (a b c d : String) (go : String) : String :=
  match hexNat a, hexNat b, hexNat c, hexNat d with
  | some cbs, some avail, some base, some cost =>
    let impl := renderGas (callGas (u64 cbs) (u64 avail) (u64 base) (Int.ofNat cost))
    -- Spec: after EIP-150 the callee gets min(requested, L(available − extra)) (defined when extra ≤ available);
    -- before EIP-150 the requested amount, which cannot be paid when it does not fit 64 bits.
    let ok :=
      if cbs > 0 then
        (if base ≤ avail then go == "ok " ++ toString (EvmSpec.callGasCap avail base cost) else true)
      else (if cost < 2 ^ 64 then go == "ok " ++ toString cost else go == "overflow")
    judge impl go ok (if impl == go then "unexpected-modelled-deviation" else "call-gas-differs-from-spec")
  | _, _, _, _ => "bad-op\tagree"

def caseWs (a : String) (go : String) : String :=
  match hexNat a with
  | some n =>
    let impl := toString (toWordSize (u64 n)).toNat
    judge impl go (go == toString (EvmSpec.words n)) (if impl == go then "unexpected-modelled-deviation" else "word-size-differs-from-spec")
  | none => "bad-op\tagree"

def caseMs (a b : String) (go : String) : String :=
  match hexNat a, hexNat b with
  | some off, some len =>
    let impl := natHex (calcMemSize (Int.ofNat off) (Int.ofNat len)).toNat
    let spec := natHex (if len = 0 then 0 else off + len)
    judge impl go (go == spec) (if impl == go then "unexpected-modelled-deviation" else "mem-size-differs-from-spec")
  | _, _ => "bad-op\tagree"

/-- depth and the top four words of the stack the halting instruction found (what a tracer sees at the last step) -/
def stackDigest (st : List Int) : String :=
  "d" ++ toString st.length ++ ":" ++ String.intercalate "," ((st.take 4).map fun v => natHex v.toNat)

def renderOutcome : Outcome → String
  | .ok ret g st => "ok " ++ hexOrDash ret ++ " " ++ toString g ++ " " ++ stackDigest st
  | .revert ret g st => "revert " ++ hexOrDash ret ++ " " ++ toString g ++ " " ++ stackDigest st
  | .fail f => "fail " ++ f.name
  | .skip op => "skip " ++ toString op
  | .deviation => "deviation"
  | .fuel => "fuel"

/-- the Spec does not distinguish the kinds of exceptional halt -/
def normFail (s : String) : String := if s.startsWith "fail" then "fail" else s

def harnessEnv (code calldata retdata : Bytes) : Env :=
  { code := code.toArray, calldata := calldata, returndata := retdata, address := 0xc0de0, caller := 0xc0ffe, origin := 0xc0ffe,
    callvalue := 0, gasprice := 1, coinbase := 0, timestamp := 1000, number := 0, difficulty := 1, gaslimit := 10000000 }

/-- SAR part of `devSet` only (to name the deviation a run went through) -/
def devSar (_ : Entry) (opc : Nat) (m : Machine) : Bool :=
  opc == 0x1d && decide (back m.stack 0 ≥ 256) && decide (back m.stack 1 = 0)

/-- judge a whole-program outcome: Impl and Spec interpreters from the given start machine -/
def judgeRun (env : Env) (e : Epoch) (gtn : GasTableName) (m0 : Machine) (go : String) : String :=
  let fuel := m0.gas + 2
  let H := Aqv.Keccak.keccak256
  match runImpl env H e (gasTableOf gtn) noGuard fuel m0 with
  | .skip op => "skip " ++ toString op ++ "\tagree"
  | oi =>
    let impl := renderOutcome oi
    let spec := renderOutcome (runSpec env H (epochLevel e) (specExpByteOf gtn) noGuard fuel m0)
    if spec.startsWith "skip" then impl ++ "\tagree"
    else
      let gon := normFail go
      if gon == normFail spec then judge impl go true ""
      else if impl == go then
        -- Go = Impl ≠ Spec: by run_refines_spec_partial the run went through one of the two recorded operand sets
        (match runSpec env H (epochLevel e) (specExpByteOf gtn) devSet fuel m0 with
         | .deviation =>
           (match runSpec env H (epochLevel e) (specExpByteOf gtn) devSar fuel m0 with
            | .deviation => impl ++ "\tspec-reject:sar-shift-ge-256-of-zero"
            | _ => impl ++ "\tspec-reject:memgas-square-wraps-uint64")
         | _ => impl ++ "\tspec-reject:unexpected-modelled-deviation")
      else impl ++ "\tspec-reject:program-outcome-differs-from-spec"

/-- `prog <epoch> <gt> <gas> <code> <calldata>`: whole programs over the modelled opcode subset -/
def caseProg (eS gtS gasS codeS dataS : String) (go : String) : String :=
  match parseEpoch eS, parseGt gtS, gasS.toNat?, bytesOfHex codeS, bytesOfHex dataS with
  | some e, some gtn, some gas, some code, some data => judgeRun (harnessEnv code data []) e gtn (startMachine gas) go
  | _, _, _, _, _ => "bad-op\tagree"

/-- `frame <epoch> <gt> <gas> <code> <calldata> <address> <caller> …`: one child frame of a call tree (CREATE init code or CALLed
    code) as the tracer saw it, judged on ITS OWN code; the trailing fields (index, factory code, factory input) only make the
    case replayable -/
def caseFrame (eS gtS gasS codeS dataS addrS callerS : String) (go : String) : String :=
  match parseEpoch eS, parseGt gtS, gasS.toNat?, bytesOfHex codeS, bytesOfHex dataS, hexNat addrS, hexNat callerS with
  | some e, some gtn, some gas, some code, some data, some addr, some caller =>
    let env := { harnessEnv code data [] with address := addr, caller := caller }
    judgeRun env e gtn (startMachine gas) go
  | _, _, _, _, _, _, _ => "bad-op\tagree"

/-- `rdc <returndata> <memLen> <memOff> <dataOff> <len>`: RETURNDATACOPY on a zero memory with a non-empty buffer -/
def caseRdc (retS memLenS moS doS lenS : String) (go : String) : String :=
  match bytesOfHex retS, memLenS.toNat?, hexNat moS, hexNat doS, hexNat lenS with
  | some ret, some memLen, some mo, some dof, some len =>
    let env := harnessEnv [] [] ret
    let m : Machine := { pc := 0, stack := [Int.ofNat mo, Int.ofNat dof, Int.ofNat len], mem := List.replicate memLen 0, last := 0, gas := 0 }
    match specLookup 3 0x3e with
    | none => "bad-op\tagree"
    | some en =>
      let render : Step → String
        | .cont _ m2 => "ok " ++ hexOrDash m2.mem
        | .fail .rdoob => "oob"
        | .fail f => "fail " ++ f.name
        | .skip => "skip"
      let impl := render (implExec env Aqv.Keccak.keccak256 en 0x3e m)
      let spec := render (specExec env Aqv.Keccak.keccak256 en 0x3e m)
      judge impl go (go == spec) (if impl == go then "unexpected-modelled-deviation" else "returndatacopy-differs-from-spec")
  | _, _, _, _, _ => "bad-op\tagree"

/-- `gdb <data> <start> <size>`: getDataBig directly -/
def caseGdb (dataS startS sizeS : String) (go : String) : String :=
  match bytesOfHex dataS, hexNat startS, hexNat sizeS with
  | some data, some start, some size =>
    let impl := hexOrDash (getDataBig data start size)
    let spec := hexOrDash (specRead data start size)
    judge impl go (go == spec) (if impl == go then "unexpected-modelled-deviation" else "getDataBig-differs-from-spec")
  | _, _, _ => "bad-op\tagree"

def handle (l : String) : String :=
  let (inp, go) := splitCase l
  match fields inp with
  | "op" :: e :: gt :: name :: args => caseOp e gt name args go
  | ["sel", c, h] => caseSel c h go
  | ["arity", e, b] => caseArity e b go
  | ["jd", hex] => caseJd hex go
  | ["jdx", hex, d] => caseJdx hex d go
  | ["jump", hex, d] => caseJump hex d go
  | ["memgas", a, b, c] => caseMemgas a b c go
  | ["g", k, p, a, b, c, d] => caseG k p a b c d go
  | ["callgas", a, b, c, d] => caseCallgas a b c d go
  | ["ws", a] => caseWs a go
  | ["ms", a, b] => caseMs a b go
  | ["prog", e, gt, gas, code, data] => caseProg e gt gas code data go
  | "frame" :: e :: gt :: gas :: code :: data :: addr :: caller :: _ => caseFrame e gt gas code data addr caller go
  | ["rdc", r, ml, mo, d, n] => caseRdc r ml mo d n go
  | ["gdb", d, st, sz] => caseGdb d st sz go
  | _ => "bad-op\tagree"

def main : IO Unit := runLines handle

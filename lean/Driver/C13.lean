import Aqv.Base.Proto
open Aqv Aqv.Proto

/-- stub driver for C13 (answers every case line with "bad-op"); replaced when the property is built. -/
def handle (l : String) : String := let _ := l; "bad-op\tagree"

def main : IO Unit := runLines handle

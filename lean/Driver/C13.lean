import Aqv.Base.Proto
import Aqv.Model.ConsensusGen
open Aqv Aqv.Proto Aqv.Consensus

/-! model driver for C13: answers every harness case with the Impl output (model instantiated with the REGENERATED
    constants and fork maps) and judges the Go output by the Spec (the statement's constants and schedules of record). -/

def natOfHex (s : String) : Option Nat :=
  if s.isEmpty then none
  else s.toList.foldl (fun acc c => match acc, hexVal c with
    | some a, some v => some (a * 16 + v)
    | _, _ => none) (some 0)

def intOfHex (s : String) : Option Int :=
  match s.toList with
  | '-' :: rest => (natOfHex (String.ofList rest)).map (fun n => - (n : Int))
  | _ => (natOfHex s).map (fun n => (n : Int))

def hexOfNat (n : Nat) : String := String.ofList (Nat.toDigits 16 n)

def hexOfInt (i : Int) : String := if i < 0 then "-" ++ hexOfNat i.natAbs else hexOfNat i.toNat

def parseHeader (s : String) : Option Header :=
  match s.splitOn ":" with
  | [a, b, c, d, e, f, g, h] => do
    let hash ← natOfHex a
    let parentHash ← natOfHex b
    let number ← natOfHex c
    let time ← natOfHex d
    let difficulty ← intOfHex e
    let gasLimit ← natOfHex f
    let gasUsed ← natOfHex g
    let extraLen ← natOfHex h
    pure { hash, parentHash, number, time, difficulty, gasLimit, gasUsed, extraLen }
  | _ => none

def parseOptHeader (s : String) : Option (Option Header) :=
  if s == "-" then some none else (parseHeader s).map some

def parseHeaders (s : String) : Option (List Header) :=
  if s == "-" then some [] else (s.splitOn ",").mapM parseHeader

def parseBlock (s : String) : Option Block :=
  match (s.splitOn "+").mapM parseHeader with
  | some (h :: us) => some { header := h, uncles := us }
  | _ => none

def parseBlocks (s : String) : Option (List Block) :=
  if s == "-" then some [] else (s.splitOn ",").mapM parseBlock

/-- "@name" | "c<chainId>/<hf>=<h>,..."  ↦  (configuration for Impl, configuration for Spec). -/
def parseCfg (s : String) : Option (Config × Config) :=
  match s.toList with
  | '@' :: rest =>
    let name := String.ofList rest
    match Gen.config? name, Spec.config? name with
    | some a, some b => some (a, b)
    | _, _ => none
  | 'c' :: rest =>
    match (String.ofList rest).splitOn "/" with
    | [cid, fs] => do
      let chainId ← cid.toNat?
      let forks ← if fs.isEmpty then some [] else (fs.splitOn ",").mapM (fun kv =>
        match kv.splitOn "=" with
        | [k, v] => do pure ((← k.toNat?), (← v.toNat?))
        | _ => none)
      let c : Config := { chainId, forks }
      pure (c, c)
    | _ => none
  | _ => none

def chainOf (hs : List Header) (bs : List Block) : Chain :=
  { getHeader := fun hash number => hs.find? (fun x => x.hash == hash && x.number == number)
    getBlock := fun hash number => bs.find? (fun b => b.header.hash == hash && b.header.number == number) }

def sealBadOf (fail : Nat) : Header → Bool := fun h => h.number % two64 == fail

def envImpl (cfg : Config) (now fail : Nat) : Env :=
  { P := Gen.diffParams, V := Gen.vParams, cfg := cfg, now := now, sealBad := sealBadOf fail }

def envSpec (cfg : Config) (now fail : Nat) : Env :=
  { P := Spec.diffParams, V := Spec.vParams, cfg := cfg, now := now, sealBad := sealBadOf fail }

def showRes : Option VErr → String
  | none => "ok"
  | some .panic => "panic"
  | some e => "err " ++ e.name

def goAccepts (go : String) : Bool := go == "ok"

def bit (s : String) : Bool := s == "1"

/-- contiguity of a batch: numbers ascend by one and each header names its predecessor's hash. -/
def contiguous : List Header → Bool
  | a :: b :: rest => b.number == a.number + 1 && b.parentHash == a.hash && contiguous (b :: rest)
  | _ => true

/-- every batch header that is already known has its parent (and, above height 2, its grandparent) known too
    (a chain database is closed under parents). -/
def closedFor (chain : Chain) (batch : List Header) : Bool :=
  batch.all (fun h =>
    match chain.getHeader h.hash h.number with
    | none => true
    | some _ =>
      match chain.getHeader h.parentHash (subU64 h.number 1) with
      | none => false
      | some p => h.number ≤ 2 || (chain.getHeader p.parentHash (subU64 h.number 2)).isSome)

def showFirst : Option (Nat × VErr) → String
  | none => "none"
  | some (i, e) => toString i ++ " " ++ e.name

def firstOfGo (go : String) : String :=
  let rec loop (xs : List String) (i : Nat) : String :=
    match xs with
    | [] => "none"
    | x :: rest => if x == "ok" then loop rest (i + 1) else toString i ++ " " ++ x
  loop (go.splitOn ",") 0

/-- mainnet's historic uncle exemptions may apply (block low enough and an uncle matches an entry). -/
def grandfathered (cfg : Config) (b : Block) : Bool :=
  cfg.chainId == Spec.diffParams.mainnetChainId && b.header.number ≤ 15008 &&
  b.uncles.any (fun u => dupExemptions.contains (b.header.hash, u.number) || danglingParentExemptions.contains (u.parentHash, u.number)
    || danglingHashExemptions.contains (u.hash, u.number))

/-- every case is judged by the Spec, also when Go and Impl agree (Impl itself may deviate from the Spec: known findings). -/
def verdict' (model go : String) (specAcceptsGo : Bool) (why : String) : String :=
  if !specAcceptsGo then model ++ "\tspec-reject:" ++ why
  else if model == go then model ++ "\tagree"
  else model ++ "\tspec-ok"

def handle (l : String) : String :=
  let (inp, go) := splitCase l
  match fields inp with
  | ["diff", cs, tm, ps, gs] =>
    match parseCfg cs, tm.toNat?, parseHeader ps, parseOptHeader gs with
    | some (ci, csp), some time, some parent, some grand =>
      let m := match calcDifficultyHFX Gen.diffParams ci time parent grand with
        | .val d => "ok " ++ hexOfInt d
        | .panic => "panic"
      -- Spec: for schedules with an unambiguous era reading the value must be the scheduled formula
      let specOk := if csp.ordered then go == "ok " ++ hexOfInt (difficultySpec Spec.diffParams csp time parent) else true
      verdict' m go specOk "difficulty-differs-from-the-fork-scheduled-formula"
    | _, _, _, _ => "bad-op\tagree"
  | ["hdr", cs, now, un, sl, fl, ps, gs, hs] =>
    match parseCfg cs, now.toNat?, fl.toNat?, parseHeader ps, parseOptHeader gs, parseHeader hs with
    | some (ci, csp), some now, some fail, some parent, some grand, some h =>
      let m := showRes (verifyHeader (envImpl ci now fail) h parent grand (bit un) (bit sl))
      -- Spec domain: unambiguous schedule, parent within the gas cap (any verified parent is)
      let specOk :=
        if csp.ordered && decide (parent.gasLimit < two63) then
          goAccepts go == (headerRule Spec.diffParams csp now (sealBadOf fail) h parent (bit un) (bit sl)).isNone
        else true
      verdict' m go specOk "header-accepted-iff-valid-fails"
    | _, _, _, _, _, _ => "bad-op\tagree"
  | ["vh", cs, now, sl, fl, st, hs] =>
    match parseCfg cs, now.toNat?, fl.toNat?, parseHeaders st, parseHeader hs with
    | some (ci, csp), some now, some fail, some stored, some h =>
      let chain := chainOf stored []
      let m := showRes (verifyHeaderEntry (envImpl ci now fail) chain h (bit sl))
      let specAccept : Bool :=
        (chain.getHeader h.hash h.number).isSome ||
        (match chain.getHeader h.parentHash (subU64 h.number 1) with
         | none => false
         | some p =>
           (h.number ≤ 2 || (chain.getHeader p.parentHash (subU64 h.number 2)).isSome) &&
           (headerRule Spec.diffParams csp now (sealBadOf fail) h p false (bit sl)).isNone)
      let specOk := if csp.ordered then goAccepts go == specAccept else true
      verdict' m go specOk "VerifyHeader-accepted-iff-valid-fails"
    | _, _, _, _, _ => "bad-op\tagree"
  | ["batch", cs, now, fl, _, st, bs, sb] =>
    match parseCfg cs, now.toNat?, fl.toNat?, parseHeaders st, parseHeaders bs with
    | some (ci, csp), some now, some fail, some stored, some batch =>
      let chain := chainOf stored []
      let seals := sb.toList.map (· == '1')
      let res := verifyHeadersBatch (envImpl ci now fail) chain batch seals (List.range batch.length)
      let res' := verifyHeadersBatch (envImpl ci now fail) chain batch seals (List.range batch.length).reverse
      let m := if res == res' then String.intercalate "," (res.map (fun r => match r with
                    | none => "ok" | some .panic => "panic" | some e => e.name))
               else "model-schedule-dependent"
      -- Spec: for contiguous batches over a parent-closed chain the first failure is that of one-by-one verification
      let specOk :=
        if contiguous batch && closedFor chain batch && csp.ordered && (batch.head?.map (fun h => decide (h.number ≥ 1))).getD true then
          firstOfGo go == showFirst (sequentialFirstFailure (envSpec csp now fail) seals chain batch 0)
        else true
      verdict' m go specOk "batch-first-failure-differs-from-one-by-one"
    | _, _, _, _, _ => "bad-op\tagree"
  | ["ihc", cs, now, st, bs] =>
    -- HeaderChain.ValidateHeaderChain / BlockChain.InsertHeaderChain on the real chain: outcome, number of batch headers newly
    -- stored after a rejection, head changed after a rejection
    match parseCfg cs, now.toNat?, parseHeaders st, parseHeaders bs with
    | some (ci, csp), some now, some stored, some batch =>
      let chain := chainOf stored []
      let seals := batch.map (fun _ => true)
      let render (r : ImportResult) : String := match r with
        | .accepted => "ok"
        | .nonContiguous => "err noncontiguous 0 0"
        | .rejected i e => "err " ++ toString i ++ " " ++ e.name ++ " 0 0"
      let m := render (validateHeaderChain (envImpl ci now 0) chain batch seals (List.range batch.length).reverse)
      -- Spec: accepted iff linked and valid one by one; a refused batch leaves nothing behind
      let spec : ImportResult :=
        if contiguous batch then
          (match sequentialFirstFailure (envSpec csp now 0) seals chain batch 0 with
           | none => .accepted
           | some (i, e) => .rejected i e)
        else .nonContiguous
      let specOk :=
        if csp.ordered && closedFor chain batch && (batch.head?.map (fun h => decide (h.number ≥ 1))).getD true then
          (match spec with
           | .accepted => go == "ok"
           | _ => go.startsWith "err " && go.endsWith " 0 0")
        else true
      verdict' m go specOk "header-batch-import-differs-from-one-by-one-or-leaves-headers-behind"
    | _, _, _, _ => "bad-op\tagree"
  | ["unc", cs, fl, st, bl] =>
    match parseCfg cs, fl.toNat?, parseBlocks st, parseBlock bl with
    | some (ci, csp), some fail, some stored, some block =>
      let chain := chainOf (stored.map (·.header)) stored
      let m := showRes (verifyUncles (envImpl ci 0 fail) chain block)
      let specOk :=
        if !csp.ordered || grandfathered csp block then true
        else goAccepts go == decide (UnclesValid Spec.diffParams csp (sealBadOf fail) chain block)
      verdict' m go specOk "uncles-accepted-iff-valid-fails"
    | _, _, _, _ => "bad-op\tagree"
  | _ => "bad-op\tagree"

def main : IO Unit := runLines handle

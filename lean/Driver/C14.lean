import Aqv.Base.Proto
import Aqv.Base.Keccak
import Aqv.Model.PowGen
open Aqv Aqv.Proto Aqv.Consensus Aqv.Pow

/-! model driver for C14.  The hash primitives are evaluated by the harness with the real Go code and arrive as a table
    `<version>:<data hex>=<value hex>` (crypto.VersionHash) / `e:<digest>/<result>` (hashimoto for this header); Keccak-256 is
    computed here (Aqv.Base.Keccak), the RLP encoding of the header here as well (Aqv.Model.Rlp). -/

def natOfHex (s : String) : Option Nat :=
  if s.isEmpty then none
  else s.toList.foldl (fun acc c => match acc, hexVal c with
    | some a, some v => some (a * 16 + v)
    | _, _ => none) (some 0)

def intOfHex (s : String) : Option Int :=
  match s.toList with
  | '-' :: rest => (natOfHex (String.ofList rest)).map (fun n => - (n : Int))
  | _ => (natOfHex s).map (fun n => (n : Int))

def bytesOpt (s : String) : Option Bytes := if s == "-" then some [] else bytesOfHex s

def parseCfg (s : String) : Option (Config × Config) :=
  match s.toList with
  | '@' :: rest =>
    let name := String.ofList rest
    match Gen.config? name, Spec.config? name with
    | some a, some b => some (a, b)
    | _, _ => none
  | 'c' :: rest =>
    match (String.ofList rest).splitOn "/" with
    | [cid, fs] => do
      let chainId ← cid.toNat?
      let forks ← if fs.isEmpty then some [] else (fs.splitOn ",").mapM (fun kv =>
        match kv.splitOn "=" with
        | [k, v] => do pure ((← k.toNat?), (← v.toNat?))
        | _ => none)
      let c : Config := { chainId, forks }
      pure (c, c)
    | _ => none
  | _ => none

structure Table where
  vh : List (Nat × Bytes × Bytes)
  eth : Option (Bytes × Bytes)

def parseTable (s : String) : Option Table :=
  if s == "-" then some { vh := [], eth := none }
  else (s.splitOn ",").foldlM (fun (t : Table) (e : String) =>
    match e.splitOn "=" with
    | [k, v] =>
      match k.splitOn ":" with
      | [vs, ds] => do
        let ver ← vs.toNat?
        let d ← bytesOpt ds
        let val ← bytesOpt v
        pure { t with vh := (ver, d, val) :: t.vh }
      | _ => none
    | [k] =>
      match k.splitOn ":" with
      | ["e", dr] =>
        match dr.splitOn "/" with
        | [d, r] => do pure { t with eth := some ((← bytesOpt d), (← bytesOpt r)) }
        | _ => none
      | _ => none
    | _ => none) { vh := [], eth := none }

def Table.lookup (t : Table) (v : Nat) (d : Bytes) : Option Bytes :=
  (t.vh.find? (fun e => e.1 == v && e.2.1 == d)).map (·.2.2)

/-- the hash primitives backed by the table (missing entries are detected by the caller before the model runs). -/
def hashesOf (t : Table) : Hashes :=
  { keccak := Keccak.keccak256
    vh := fun v d => (t.lookup v d).getD []
    ethash := fun _ _ _ => t.eth.getD ([], []) }

def showSeal : Option SealErr → String
  | none => "ok"
  | some .panic => "panic"
  | some e => "err " ++ e.name

def showOut : Out Bytes → String
  | .ok b => hexOrDash b
  | .panic => "panic"

def verdict' (model go : String) (specAcceptsGo : Bool) (why : String) : String :=
  if !specAcceptsGo then model ++ "\tspec-reject:" ++ why
  else if model == go then model ++ "\tagree"
  else model ++ "\tspec-ok"

def parseFields (fs : List String) : Option HeaderFields :=
  match fs with
  | [a, b, c, d, e, f, g, h, i, j, k, l, m, n, o] => do
    pure { parentHash := (← bytesOpt a), uncleHash := (← bytesOpt b), coinbase := (← bytesOpt c), root := (← bytesOpt d),
           txHash := (← bytesOpt e), receiptHash := (← bytesOpt f), bloom := (← bytesOpt g), difficulty := (← natOfHex h),
           number := (← natOfHex i), gasLimit := (← natOfHex j), gasUsed := (← natOfHex k), time := (← natOfHex l),
           extra := (← bytesOpt m), mixDigest := (← bytesOpt n), nonce := (← bytesOpt o) }
  | _ => none

/-- table entries the hash computations of a header need (argon2id versions only). -/
def neededFor (t : Table) (v : Nat) (data : Bytes) : Bool := !(v == 2 || v == 3 || v == 4) || (t.lookup v data).isSome

/-- Hash(), HashNoNonce(), MinerHash for a header carrying version `v`. -/
def hashTriple (t : Table) (v : Nat) (h : HeaderFields) : Option String :=
  let Hs := hashesOf t
  let encAll := Rlp.enc (.list (h.itemsNoNonce ++ [.str h.mixDigest, .str h.nonce]))
  let encNo := Rlp.enc (.list h.itemsNoNonce)
  if !neededFor t v encAll || (v == 3 && !neededFor t 3 encNo) then none
  else
    let hash := headerHash Hs v h
    let hnn := hashNoNonce Hs v h
    let miner : Out Bytes := match hnn with
      | .ok x =>
        let seed := sealSeed x (beNat h.nonce)
        if !neededFor t v seed then .ok [0xde, 0xad] else versionHash Hs v seed
      | .panic => .panic
    some (showOut hash ++ " " ++ showOut hnn ++ " " ++ showOut miner)

def handle (l : String) : String :=
  let (inp, go) := splitCase l
  match fields inp with
  | ["ver", cs, hs] =>
    match parseCfg cs, hs.toNat? with
    | some (ci, csp), some height =>
      let m := toString (getBlockVersion ci height)
      let specOk := go == toString (versionSpec (csp.getHF 5) (csp.getHF 8) (csp.getHF 9) height)
      verdict' m go specOk "version-not-determined-by-the-fork-schedule"
    | _, _ => "bad-op\tagree"
  | ["seal", ns, ds, ms, nos, vs, hs, ts] =>
    match ns.toNat?, intOfHex ds, bytesOpt ms, nos.toNat?, vs.toNat?, bytesOpt hs, parseTable ts with
    | some number, some difficulty, some mixDigest, some nonce, some version, some hnn, some t =>
      let s : SealInput := { number, difficulty, mixDigest, nonce, version, hnn }
      let needs := decide (number % two64 / 30000 < 2048) && decide (0 < difficulty)
      if needs && (version == 1 && t.eth.isNone || !neededFor t version (sealSeed hnn nonce)) then "table-miss\tspec-ok"
      else
        let Hs := hashesOf t
        let m := showSeal (verifySeal Gen.powParams Hs s)
        let specOk := (go == "ok") == decide (SealValid Hs s)
        verdict' m go specOk "seal-accepted-iff-it-meets-the-target-fails"
    | _, _, _, _, _, _, _ => "bad-op\tagree"
  | ["sealn", nn, ns, ds, ms, nos, vs, hs, ts] =>
    -- the target numerator replaced by N (overlay accessor VerifSetMaxUint256): the comparison at the exact boundary
    match natOfHex nn, ns.toNat?, intOfHex ds, bytesOpt ms, nos.toNat?, vs.toNat?, bytesOpt hs, parseTable ts with
    | some numer, some number, some difficulty, some mixDigest, some nonce, some version, some hnn, some t =>
      let s : SealInput := { number, difficulty, mixDigest, nonce, version, hnn }
      if !neededFor t version (sealSeed hnn nonce) then "table-miss\tspec-ok"
      else
        let Hs := hashesOf t
        let m := showSeal (verifySeal { Gen.powParams with maxUint256 := numer } Hs s)
        let specOk := (go == "ok") == decide (SealValidP { Spec.powParams with maxUint256 := numer } Hs s)
        verdict' m go specOk "seal-accepted-iff-hash-at-most-target-fails"
    | _, _, _, _, _, _, _, _ => "bad-op\tagree"
  | "hh" :: cs :: rest =>
    match parseCfg cs, parseFields rest.dropLast, rest.getLast?.bind parseTable with
    | some (ci, csp), some h, some t =>
      let v := getBlockVersion ci h.number
      let vs := versionSpec (csp.getHF 5) (csp.getHF 8) (csp.getHF 9) h.number
      match hashTriple t v h, hashTriple t vs h with
      | some m, some ms =>
        verdict' (toString v ++ " " ++ m) go (go == toString vs ++ " " ++ ms) "hashes-not-computed-with-the-version-of-the-height"
      | _, _ => "table-miss\tspec-ok"
    | _, _, _ => "bad-op\tagree"
  | "hv" :: vs :: rest =>
    match vs.toNat?, parseFields rest.dropLast, rest.getLast?.bind parseTable with
    | some v, some h, some t =>
      match hashTriple t v h with
      | some m => verdict' m go (go == m) "hashes-not-computed-with-the-header-version"
      | none => "table-miss\tspec-ok"
    | _, _, _ => "bad-op\tagree"
  | _ => "bad-op\tagree"

def main : IO Unit := runLines handle

import Aqv.Base.Proto
import Aqv.Base.Keccak
import Aqv.Model.TxSign
import Aqv.Model.TxApply
open Aqv Aqv.Proto Aqv.TxSign

/-!
  Model driver for C12.  Case lines (see go/harness/cmd/c12); numbers are minimal hex, byte strings hex ("-" = empty),
  tx9 = nonce price gas to value data v r s, signer = F | H | E:<chainId>:
    snd <signer> <tx9> <recO>                       -> ok <addr> | err <class>
    sign <signer> <tx9 unsigned> <key> <addr> <signO> <recO>  -> ok <v> <r> <s> | err <class>
    hash <tx9> / sighash <signer> <tx9>             -> <hash>
    rlp <hex>                                       -> ok <tx9> | err
    json <tx9>                                      -> 9 JSON string fields (S<hex> | N)
    unjson <9 fields>                               -> ok <tx9> | err
    cache <signer;signer;...> <tx9> <recO>          -> answers joined by |
    life <tx9> <op;op;...> <recO>                   -> observations joined by |  (ops: h, z, s=<signer>, w=<signer>,<r>,<s>,<rid>)
    prot <v>                                        -> <0|1> <chainId>
    mk <homesteadBlock|-> <eip155Block|-> <chainId> <number|->   -> F | H | E:<chainId>
    apply <homesteadBlock|-> <eip155Block|-> <chainId> <number> <tx9> <recO>   -> ok <addr> | err <class>
        (core.ApplyTransaction's verdict / debited account at that height, whatever was applied before: applySender)
  secp256k1 is instantiated with the values supplied by the harness (recO: hash:r:s:rid=addr|err, signO: hash=r:s:rid);
  Keccak-256 and RLP are computed here.
-/

def hexNat (s : String) : Option Nat :=
  s.toList.foldlM (fun acc c => (hexVal c).map (fun d => acc * 16 + d)) 0

def natHex (n : Nat) : String :=
  if n = 0 then "0" else String.ofList ((hexDigitsF n n).map hexDigit)

def hexB (s : String) : Bytes := (bytesOfHex s).getD []
def splitC (s : String) (c : Char) : List String := s.splitOn (String.singleton c)

def parseSigner (s : String) : Option Signer :=
  match splitC s ':' with
  | ["F"] => some .frontier
  | ["H"] => some .homestead
  | ["E", c] => (hexNat c).map .eip155
  | _ => none

def renderSigner : Signer → String
  | .frontier => "F"
  | .homestead => "H"
  | .eip155 c => "E:" ++ natHex c

def parseTx (fs : List String) : Option Tx :=
  match fs with
  | [n, p, g, to, v, d, vv, r, s] =>
    match hexNat n, hexNat p, hexNat g, hexNat v, hexNat vv, hexNat r, hexNat s with
    | some n, some p, some g, some v, some vv, some r, some s =>
      some ⟨n, p, g, (if to == "-" then none else some (hexB to)), v, hexB d, vv, r, s⟩
    | _, _, _, _, _, _, _ => none
  | _ => none

def renderTx (t : Tx) : String :=
  " ".intercalate [natHex t.nonce, natHex t.price, natHex t.gas, hexOrDash (t.to.getD []), natHex t.value, hexOrDash t.data,
    natHex t.v, natHex t.r, natHex t.s]

structure RecEntry where
  hash : Bytes
  r : Nat
  s : Nat
  rid : Nat
  res : Option Bytes

def parseRec (s : String) : List RecEntry :=
  if s == "-" then [] else
  (splitC s ',').filterMap fun e =>
    match splitC e '=' with
    | [k, v] =>
      match splitC k ':' with
      | [h, r, ss, rid] =>
        match hexNat r, hexNat ss, rid.toNat? with
        | some r, some ss, some rid => some ⟨hexB h, r, ss, rid, if v == "err" then none else some (hexB v)⟩
        | _, _, _ => none
      | _ => none
    | _ => none

def missMarker : Bytes := [0x4d, 0x49, 0x53, 0x53]   -- "MISS": a value the harness did not supply

def mkEcdsa (recs : List RecEntry) (signO : Option (Bytes × Nat × Nat × Nat)) (addr : Bytes) : Ecdsa :=
  { sign := fun _ h => match signO with
      | some (h', r, s, rid) => if h == h' then (r, s, rid) else (0, 0, 0)
      | none => (0, 0, 0),
    recover := fun h r s rid =>
      match recs.find? (fun e => e.hash == h && e.r == r && e.s == s && e.rid == rid) with
      | some e => e.res
      | none => some missMarker,
    addr := fun _ => addr }

def errName : Err → String
  | .invalidSig => "invalidSig" | .invalidChainId => "invalidChainId" | .recover => "recover" | .mismatch => "mismatch"

def renderSender (sep : String) : Except Err Bytes → String
  | .ok a => "ok" ++ sep ++ hexOfBytes a
  | .error e => "err" ++ sep ++ errName e

def kec : Bytes → Bytes := Keccak.keccak256

def jsonField : Option Bytes → String
  | some b => "S" ++ hexOrDash b
  | none => "N"

def parseJsonField (s : String) : Option (Option Bytes) :=
  match s.toList with
  | 'S' :: r => some (some (hexB (String.ofList r)))
  | ['N'] => some none
  | _ => none

def handle (l : String) : String :=
  let (inp, go) := splitCase l
  match fields inp with
  | "snd" :: sg :: rest =>
    (match parseSigner sg, parseTx (rest.take 9), rest.drop 9 with
     | some sg, some t, [recO] =>
       let E := mkEcdsa (parseRec recO) none []
       let m := renderSender " " (senderOf E kec sg t)
       -- both sides rejecting (for whatever reason) is within the property; anything else must match exactly
       verdict m go (go.startsWith "err" && m.startsWith "err") "sender-differs-from-model"
     | _, _, _ => "bad-op\tspec-ok")
  | "sign" :: sg :: rest =>
    (match parseSigner sg, parseTx (rest.take 9), rest.drop 9 with
     | some sg, some t, [_key, addr, signO, recO] =>
       let so := match splitC signO '=' with
         | [h, v] => (match splitC v ':' with
           | [r, s, rid] => (match hexNat r, hexNat s, rid.toNat? with
             | some r, some s, some rid => some (hexB h, r, s, rid)
             | _, _, _ => none)
           | _ => none)
         | _ => none
       let E := mkEcdsa (parseRec recO) so (hexB addr)
       let m := match signTx E kec sg t 0 with
         | .ok t' => s!"ok {natHex t'.v} {natHex t'.r} {natHex t'.s}"
         | .error e => "err " ++ errName e
       verdict m go false "SignTx-differs-from-model"
     | _, _, _ => "bad-op\tspec-ok")
  | "hash" :: rest =>
    (match parseTx rest with
     | some t => verdict (hexOfBytes (txHash kec t)) go false "tx-hash-differs-from-model"
     | none => "bad-op\tspec-ok")
  | "sighash" :: sg :: rest =>
    (match parseSigner sg, parseTx rest with
     | some sg, some t => verdict (hexOfBytes (sigHash kec sg t)) go false "signing-hash-differs-from-model"
     | _, _ => "bad-op\tspec-ok")
  | ["rlp", hex] =>
    let m := match decodeTx (hexB hex) with
      | some t => "ok " ++ renderTx t
      | none => "err"
    verdict m go false "tx-rlp-decoding-differs-from-model"
  | "json" :: rest =>
    (match parseTx rest with
     | some t =>
       let j := jsonOfTx t
       let m := " ".intercalate [jsonField (some j.nonce), jsonField (some j.gasPrice), jsonField (some j.gas), jsonField j.to,
         jsonField (some j.value), jsonField (some j.input), jsonField (some j.v), jsonField (some j.r), jsonField (some j.s)]
       verdict m go false "tx-json-differs-from-model"
     | none => "bad-op\tspec-ok")
  | "unjson" :: rest =>
    (match rest.map parseJsonField with
     | [some (some n), some (some p), some (some g), some to, some (some v), some (some d), some (some vv), some (some r), some (some s)] =>
       let m := match txOfJson ⟨n, p, g, to, v, d, vv, r, s⟩ with
         | some t => "ok " ++ renderTx t
         | none => "err"
       verdict m go false "tx-json-decoding-differs-from-model"
     | _ =>
       -- a required field that is null / not a string: UnmarshalJSON must fail
       verdict "err" go false "tx-json-decoding-differs-from-model")
  | "cache" :: sgs :: rest =>
    (match (splitC sgs ';').mapM parseSigner, parseTx (rest.take 9), rest.drop 9 with
     | some qs, some t, [recO] =>
       let E := mkEcdsa (parseRec recO) none []
       let m := "|".intercalate ((senderSeq E kec t none qs).map (renderSender "_"))
       verdict m go false "cached-sender-differs-from-model"
     | _, _, _ => "bad-op\tspec-ok")
  | "life" :: rest =>
    -- object lifetime: ops = h | z | s=<signer> | w=<signer>,<r>,<s>,<rid> joined by ';'
    (match parseTx (rest.take 9), rest.drop 9 with
     | some t, [opsS, recO] =>
       let parseOp (o : String) : Option Op :=
         if o == "h" then some .hash else if o == "z" then some .size else
         match splitC o '=' with
         | ["s", sg] => (parseSigner sg).map .sender
         | ["w", a] => (match splitC a ',' with
           | [sg, r, s, rid] => (match parseSigner sg, hexNat r, hexNat s, rid.toNat? with
             | some sg, some r, some s, some rid => some (.withSig sg r s rid)
             | _, _, _, _ => none)
           | _ => none)
         | _ => none
       (match (splitC opsS ';').mapM parseOp with
        | some ops =>
          let E := mkEcdsa (parseRec recO) none []
          let render : Obs → String
            | .hash h => "h:" ++ hexOfBytes h
            | .size n => s!"z:{n}"
            | .sender r => renderSender "_" r
            | .resigned => "w"
          let m := "|".intercalate ((runOps E kec (TxObj.fresh t) ops).map render)
          verdict m go false "object-lifetime-observation-differs-from-model"
        | none => "bad-op\tspec-ok")
     | _, _ => "bad-op\tspec-ok")
  | ["prot", v] =>
    (match hexNat v with
     | some v => verdict ((if isProtectedV v then "1 " else "0 ") ++ natHex (deriveChainId v)) go false "protected/chain-id-differs-from-model"
     | none => "bad-op\tspec-ok")
  | ["mk", hb, eb, c, num] =>
    let opt (s : String) : Option Nat := if s == "-" then none else hexNat s
    (match hexNat c with
     | some c => verdict (renderSigner (makeSigner (opt hb) (opt eb) c (opt num))) go false "MakeSigner-differs-from-model"
     | none => "bad-op\tspec-ok")
  | "apply" :: hb :: eb :: c :: num :: rest =>
    let opt (s : String) : Option Nat := if s == "-" then none else hexNat s
    (match hexNat c, hexNat num, parseTx (rest.take 9), rest.drop 9 with
     | some c, some num, some t, [recO] =>
       let E := mkEcdsa (parseRec recO) none []
       let m := renderSender " " (applySender E kec ⟨⟨opt hb, opt eb, c⟩, num, t⟩)
       -- the accept / reject verdict and the attributed account must be the model's; two rejections may differ in their reason
       verdict m go (go.startsWith "err" && m.startsWith "err") "ApplyTransaction-sender-differs-from-MakeSigner-by-height-model"
     | _, _, _, _ => "bad-op\tspec-ok")
  | _ => "bad-op\tspec-ok"

def main : IO Unit := runLines handle

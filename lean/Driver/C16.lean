/-
  Driver.C16 — model driver for property C16 (log blooms, bloom-bits index, log queries). Core-only.
  Reads the case lines of go/harness/cmd/c16 and answers with the output of Aqv.Model.LogFilter, every hash recomputed with
  the Lean Keccak (`Aqv.Keccak.keccak256`, memoised per line for the items that occur in it — same function).
  Stateful lines: `pool` (item pools), `mset` (raw blooms + index for `mq`), `chain` (chain + index for `q`).
-/
import Aqv.Base.Proto
import Aqv.Base.Keccak
import Aqv.Model.LogFilter
import Aqv.Model.HashMemo
open Aqv Aqv.Proto Aqv.LogFilter

structure St where
  poolA : Array Bytes := #[]
  poolT : Array Bytes := #[]
  poolH : List (Bytes × Bytes) := []          -- memo: item ↦ keccak256 item
  msize : Nat := 0
  mindex : List (List Bytes) := []
  csize : Nat := 0
  cindex : List (List Bytes) := []
  chain : List Block := []

/-- Keccak-256 with a memo table: `Aqv.HashMemo.mkH` over `keccak256` (= `keccak256`, theorem `memoised_hash_is_the_hash`). -/
def mkH (tbl : List (Bytes × Bytes)) : HashFn := HashMemo.mkH Keccak.keccak256 tbl

def memo (tbl : List (Bytes × Bytes)) (items : List Bytes) : List (Bytes × Bytes) := HashMemo.memo Keccak.keccak256 tbl items

def parseItem (st : St) (tok : String) : Option Bytes :=
  match tok.toList with
  | 'A' :: r => (String.ofList r).toNat?.bind (fun i => st.poolA[i]?)
  | 'T' :: r => (String.ofList r).toNat?.bind (fun i => st.poolT[i]?)
  | ['x'] => some []
  | 'x' :: r => bytesOfHexAux r []
  | _ => none

def parseItems (st : St) (s : String) : Option (List Bytes) :=
  (s.splitOn ",").mapM (parseItem st)

/-- `<z|n><id>:<addr>:<topic>,<topic>…` -/
def parseLog (st : St) (tok : String) : Option Log :=
  match tok.splitOn ":" with
  | [hd, a, ts] =>
    match hd.toList with
    | f :: idc =>
      match (String.ofList idc).toNat?, parseItem st a, (if ts == "" then some [] else parseItems st ts) with
      | some id, some addr, some topics => some ⟨addr, topics, f == 'z', id⟩
      | _, _, _ => none
    | [] => none
  | _ => none

def parseReceipts (st : St) (s : String) : Option (List (List Log)) :=
  if s == "-" then some []
  else (s.splitOn "|").mapM (fun r => if r == "_" then some [] else (r.splitOn ";").mapM (parseLog st))

def parseCrit (st : St) (a t : String) : Option Criteria :=
  let addrs := if a == "-" then some [] else parseItems st a
  let topics := if t == "-" then some [] else (t.splitOn "/").mapM (fun p => if p == "*" then some [] else parseItems st p)
  match addrs, topics with
  | some x, some y => some ⟨x, y⟩
  | _, _ => none

def critItems (c : Criteria) : List Bytes := c.addresses ++ c.topics.flatten

def idsTok (logs : List Log) : String :=
  if logs.isEmpty then "-" else ",".intercalate (logs.map (fun l => toString l.id))

def natsTok (ns : List Nat) : String :=
  if ns.isEmpty then "-" else ",".intercalate (ns.map toString)

def parseBits (s : String) : Option (List Nat) :=
  if s == "" then some [] else (s.splitOn ".").mapM String.toNat?

/-- a bloom given by its set bit indices: `BytesToBloom(n.Bytes())`. -/
def bloomOfBits (bits : List Nat) : Bytes := bytesToBloom (beBytes (bits.foldl (fun n b => n ||| (1 <<< b)) 0))

def genErrTok : GenErr → String
  | .notMultipleOf8 => "err8"
  | .sectionOutOfBounds => "oob"
  | .unexpectedIndex => "idx"
  | .notFull => "notfull"
  | .indexPanic => "panic"

/-- one generator session: ops `a<index>:<bits>` / `q<idx>`. Returns the model outputs and, per op, the output the Spec also
    accepts (a generator that hands out the correct column where the code as written refuses is a harmless difference). -/
def runGen (size : Nat) (ops : List String) : List String × List String :=
  match newGenerator size with
  | .error e => ([genErrTok e], [genErrTok e])
  | .ok g0 =>
    let (_, _, outs, alts) := ops.foldl (fun (acc : Generator × Array Bytes × List String × List String) op =>
      let (g, added, outs, alts) := acc
      match op.toList with
      | 'a' :: r =>
        match (String.ofList r).splitOn ":" with
        | [i, bits] =>
          match i.toNat?, parseBits bits with
          | some idx, some bs =>
            let bl := bloomOfBits bs
            match g.addBloom idx bl with
            | .ok g' => (g', added.push bl, "ok" :: outs, "ok" :: alts)
            | .error e => (g, added, genErrTok e :: outs, genErrTok e :: alts)
          | _, _ => (g, added, "bad-op" :: outs, "bad-op" :: alts)
        | _ => (g, added, "bad-op" :: outs, "bad-op" :: alts)
      | 'q' :: r =>
        match (String.ofList r).toNat? with
        | some idx =>
          -- Spec: a bit index outside the bloom may be refused with an error; inside, a filled generator may hand out the column
          let alt := if idx ≥ 2048 then "oob"
            else if added.size == size then "ok:" ++ hexOrDash (specColumn added.toList size idx) else ""
          match g.bitset idx with
          | .ok v => (g, added, ("ok:" ++ hexOrDash v) :: outs, alt :: alts)
          | .error e => (g, added, genErrTok e :: outs, alt :: alts)
        | none => (g, added, "bad-op" :: outs, "bad-op" :: alts)
      | _ => (g, added, "bad-op" :: outs, "bad-op" :: alts)) (g0, #[], [], [])
    (outs.reverse, alts.reverse)

def genVerdict (size : Nat) (ops : List String) (go : String) : String :=
  let (outs, alts) := runGen size ops
  let m := ";".intercalate outs
  let gos := go.splitOn ";"
  let ok := gos.length == outs.length &&
    ((gos.zip (outs.zip alts)).all (fun (g, o, a) => g == o || (a != "" && g == a)))
  verdict m go ok "generator-differs-from-transposition-spec"

/-- blooms `n:bits;n:bits…` placed into a list of `total` blooms (others empty). -/
def placeBlooms (total : Nat) (s : String) : Option (List Bytes) :=
  let empty := bloomOfBits []
  let entries := if s == "-" || s == "" then some [] else (s.splitOn ";").mapM (fun e =>
    match e.splitOn ":" with
    | [n, bits] => match n.toNat?, parseBits bits with
      | some n, some bs => some (n, bloomOfBits bs)
      | _, _ => none
    | _ => none)
  match entries with
  | none => none
  | some es =>
    let arr := es.foldl (fun (a : Array Bytes) (e : Nat × Bytes) => if e.1 < a.size then a.set! e.1 e.2 else a) (Array.replicate total empty)
    some arr.toList

def parseFilters (st : St) (s : String) : Option (List (List (Option Bytes))) :=
  if s == "-" then some []
  else (s.splitOn "/").mapM (fun g =>
    if g == "*" then some []
    else (g.splitOn ",").mapM (fun c => if c == "nil" then some none else (parseItem st c).map some))

def parseInt (s : String) : Option Int :=
  match s.toList with
  | '-' :: r => (String.ofList r).toNat?.map (fun n => -(n : Int))
  | _ => s.toNat?.map (fun n => (n : Int))

def step (st : St) (l : String) : St × String :=
  let (inp, go) := splitCase l
  let bad := (st, "bad-op\tspec-reject:unparsed-case")
  match fields inp with
  | ["pool", a, t] =>
    match (a.splitOn ",").mapM (fun h => bytesOfHexAux h.toList []), (t.splitOn ",").mapM (fun h => bytesOfHexAux h.toList []) with
    | some as, some ts =>
      ({ st with poolA := as.toArray, poolT := ts.toArray, poolH := memo [] (as ++ ts) }, verdict "ok" go false "pool")
    | _, _ => bad
  | ["b9", it] =>
    match parseItem st it with
    | some b => (st, verdict (hexOrDash (beBytes (bloom9 (mkH st.poolH) b))) go false "bloom9-differs")
    | none => bad
  | ["idx", it] =>
    match parseItem st it with
    | some b =>
      let (x, y, z) := calcBloomIndexes (mkH st.poolH) b
      -- Spec: the three positions bloom9 sets
      let h := mkH st.poolH b
      let spec := s!"{bloom9Idx h 0},{bloom9Idx h 2},{bloom9Idx h 4}"
      (st, verdict s!"{x},{y},{z}" go (go == spec) "calcBloomIndexes-differs-from-bloom9")
    | none => bad
  | ["cb", rs] =>
    match parseReceipts st rs with
    | some receipts => (st, verdict (hexOfBytes (createBloom (mkH st.poolH) receipts)) go false "CreateBloom-differs")
    | none => bad
  | ["lk", bl, it] =>
    match bytesOfHex bl, parseItem st it with
    | some bloom, some b => (st, verdict (toString (bloomLookup (mkH st.poolH) bloom b)) go false "BloomLookup-differs")
    | _, _ => bad
  | ["tb", bl, it] =>
    match bytesOfHex bl, parseItem st it with
    | some bloom, some b =>
      (st, verdict (toString (bloomTestBytes (mkH st.poolH) bloom b)) go false "TestBytes-differs-from-BloomLookup")
    | _, _ => bad
  | ["cz", hx] =>
    match bytesOfHex hx with
    | some v =>
      let c := compressBytes v
      let rt := match decompressBytes c v.length with
        | .ok d => if d == v then "ok" else "bad"
        | .error _ => "err"
      -- Spec: any stored form that the decoder turns back into the vector is acceptable
      let specOk := match go.splitOn " " with
        | [gc, gs] => gs == "ok" && (match bytesOfHex gc with
            | some gcb => (match decompressBytes gcb v.length with | .ok d => d == v | .error _ => false)
            | none => false)
        | _ => false
      (st, verdict (hexOrDash c ++ " " ++ rt) go specOk "stored-vector-does-not-round-trip")
    | none => bad
  | ["dz", hx, t] =>
    match bytesOfHex hx, t.toNat? with
    | some data, some target =>
      let m := match decompressBytes data target with
        | .ok d => "ok:" ++ hexOrDash d
        | .error .missingData => "missing"
        | .error .unreferencedData => "unreferenced"
        | .error .exceededTarget => "exceeded"
        | .error .zeroContent => "zero"
      (st, verdict m go false "DecompressBytes-differs")
    | _, _ => bad
  | ["bf", bl, a, t] =>
    match bytesOfHex bl, parseCrit st a t with
    | some bloom, some c =>
      let H := mkH (memo st.poolH (critItems c))
      (st, verdict (toString (bloomFilter H bloom c)) go false "bloomFilter-differs")
    | _, _ => bad
  | ["fl", r, a, t] =>
    match parseReceipts st r, parseCrit st a t with
    | some [logs], some c =>
      let m := idsTok (filterLogs logs c)
      let spec := idsTok (logs.filter (Spec.logMatches c))
      (st, verdict m go (go == spec) "filterLogs-differs-from-spec")
    | some [], some _ => (st, verdict "-" go false "filterLogs")
    | _, _ => bad
  | "gen" :: sz :: rest =>
    match sz.toNat? with
    | some size =>
      let ops := match rest with
        | [o] => if o == "-" then [] else o.splitOn ";"
        | _ => []
      (st, genVerdict size ops go)
    | none => bad
  | "mset" :: sz :: ns :: rest =>
    match sz.toNat?, ns.toNat? with
    | some size, some nsec =>
      match placeBlooms (size * nsec) (match rest with | [b] => b | _ => "-") with
      | some blooms =>
        match buildIndex size blooms nsec with
        | .ok idx => ({ st with msize := size, mindex := idx }, verdict "ok" go false "index")
        | .error _ => ({ st with msize := size, mindex := [] }, verdict "generr" go false "index")
      | none => bad
    | _, _ => bad
  | ["mq", f, b, e] =>
    match parseFilters st f, b.toNat?, e.toNat? with
    | some fs, some b, some e =>
      let H := mkH (memo st.poolH (fs.flatten.filterMap id))
      (st, verdict (natsTok (matcherRun st.mindex st.msize (newMatcherFilters H fs) b e)) go false "matcher-session-differs")
    | _, _, _ => bad
  | "chain" :: sz :: ns :: nb :: rest =>
    match sz.toNat?, ns.toNat?, nb.toNat? with
    | some size, some nsec, some nblocks =>
      let H := mkH st.poolH
      let bt := match rest with | [b] => b | _ => "-"
      let entries : Option (List (Nat × List (List Log))) :=
        if bt == "-" then some [] else (bt.splitOn "&").mapM (fun e =>
          match e.splitOn "=" with
          | [n, rs] => match n.toNat?, parseReceipts st rs with
            | some n, some r => some (n, r)
            | _, _ => none
          | _ => none)
      match entries with
      | none => bad
      | some es =>
        let emptyBlk : Block := ⟨createBloom H [], []⟩
        let arr := es.foldl (fun (a : Array Block) (e : Nat × List (List Log)) =>
          if e.1 < a.size then a.set! e.1 ⟨createBloom H e.2, e.2⟩ else a) (Array.replicate nblocks emptyBlk)
        let chain := arr.toList
        match buildIndex size (chain.map (·.bloom)) nsec with
        -- whether the indexer could commit is not a clause of the property: either status is accepted by the Spec; the
        -- queries that follow are judged against brute force whatever the progress
        | .ok idx => ({ st with csize := size, cindex := idx, chain := chain }, verdict "ok" go (go == "generr") "index")
        | .error _ => ({ st with csize := size, cindex := [], chain := chain }, verdict "generr" go (go == "ok") "index")
    | _, _, _ => bad
  | ["q", b, e, a, t] =>
    match parseInt b, parseInt e, parseCrit st a t with
    | some b, some e, some c =>
      let H := mkH (memo st.poolH (critItems c))
      let m := idsTok (filterLogsQuery H st.cindex st.chain st.csize c b e)
      let spec := idsTok (Spec.bruteForce st.chain c b e)
      (st, verdict m go (go == spec) "Filter.Logs-differs-from-bruteforce")
    | _, _, _ => bad
  | _ => bad

partial def loopSt (h : IO.FS.Stream) (out : IO.FS.Stream) (st : St) : IO Unit := do
  let line ← h.getLine
  if line.isEmpty then
    out.flush
    return ()
  let l := String.ofList (line.toList.filter (fun c => c != '\n' && c != '\r'))
  let (st', o) := step st l
  out.putStrLn o
  loopSt h out st'

def main : IO Unit := do
  let i ← IO.getStdin
  let o ← IO.getStdout
  loopSt i o {}

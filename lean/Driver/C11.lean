import Aqv.Base.Proto
import Aqv.Model.Rlp
open Aqv Aqv.Rlp Aqv.Proto

/-- parse the rendering produced by `Item.render` (and by the Go harness): `s<hex>` | `[i,i,...]`. -/
partial def parseItem (cs : List Char) : Option (Item × List Char) :=
  match cs with
  | 's' :: rest =>
    let hex := rest.takeWhile (fun c => c != ',' && c != ']')
    let rem := rest.dropWhile (fun c => c != ',' && c != ']')
    match bytesOfHexAux hex [] with
    | some b => some (.str b, rem)
    | none => none
  | '[' :: ']' :: rest => some (.list [], rest)
  | '[' :: rest =>
    let rec go (cs : List Char) (acc : List Item) : Option (List Item × List Char) :=
      match parseItem cs with
      | some (it, ',' :: r) => go r (it :: acc)
      | some (it, ']' :: r) => some ((it :: acc).reverse, r)
      | _ => none
    match go rest [] with
    | some (xs, r) => some (.list xs, r)
    | none => none
  | _ => none

def parseItemStr (s : String) : Option Item :=
  match parseItem s.toList with
  | some (it, []) => some it
  | _ => none

def outDec (bs : Bytes) : String :=
  match dec bs with
  | .ok it => "ok " ++ it.render
  | .error _ => "err"

/-- rlp.Split: kind, content, rest (raw.go). -/
def outSplit (bs : Bytes) : String :=
  match readHead bs with
  | .error _ => "err"
  | .ok (.byte b rest) => "ok S " ++ hexOrDash [b] ++ " " ++ hexOrDash rest
  | .ok (.str n rest) =>
    if rest.length < n then "err"
    else
      match rest.take n with
      | [x] => if x < 0x80 then "err" else "ok S " ++ hexOrDash [x] ++ " " ++ hexOrDash (rest.drop n)
      | s => "ok S " ++ hexOrDash s ++ " " ++ hexOrDash (rest.drop n)
  | .ok (.list n rest) =>
    if rest.length < n then "err" else "ok L " ++ hexOrDash (rest.take n) ++ " " ++ hexOrDash (rest.drop n)

def handle (l : String) : String :=
  let (inp, go) := splitCase l
  match fields inp with
  | ["dec", hex] =>
    match bytesOfHex hex with
    | none => "bad-op\tagree"
    | some bs =>
      let m := outDec bs
      -- Spec judgement of the Go output: an accepted value must re-encode to the input; a rejected input must
      -- not be the canonical encoding of any item.
      let specOk :=
        if go.startsWith "ok " then
          match parseItemStr (strDrop go 3) with
          | some it => enc it == bs
          | none => false
        else if go == "err" then (match dec bs with | .ok _ => false | .error _ => true)
        else false
      verdict m go specOk "decode-accepts-noncanonical-or-rejects-canonical"
  | ["enc", r] =>
    match parseItemStr r with
    | none => "bad-op\tagree"
    | some it =>
      let m := "ok " ++ hexOrDash (enc it)
      verdict m go false "encoding-differs-from-spec"
  | ["split", hex] =>
    match bytesOfHex hex with
    | none => "bad-op\tagree"
    | some bs => verdict (outSplit bs) go false "split-differs-from-spec"
  | _ => "bad-op\tagree"

def main : IO Unit := runLines handle

import Aqv.Base.Proto
import Aqv.Model.Rlp
import Aqv.Model.RlpTyped
import Aqv.Model.RlpStream
import Aqv.Model.RlpRaw
open Aqv Aqv.Rlp Aqv.Proto

/-- parse the rendering produced by `Item.render` (and by the Go harness): `s<hex>` | `[i,i,...]`. -/
partial def parseItem (cs : List Char) : Option (Item × List Char) :=
  match cs with
  | 's' :: rest =>
    let hex := rest.takeWhile (fun c => c != ',' && c != ']')
    let rem := rest.dropWhile (fun c => c != ',' && c != ']')
    match bytesOfHexAux hex [] with
    | some b => some (.str b, rem)
    | none => none
  | '[' :: ']' :: rest => some (.list [], rest)
  | '[' :: rest =>
    let rec go (cs : List Char) (acc : List Item) : Option (List Item × List Char) :=
      match parseItem cs with
      | some (it, ',' :: r) => go r (it :: acc)
      | some (it, ']' :: r) => some ((it :: acc).reverse, r)
      | _ => none
    match go rest [] with
    | some (xs, r) => some (.list xs, r)
    | none => none
  | _ => none

def parseItemStr (s : String) : Option Item :=
  match parseItem s.toList with
  | some (it, []) => some it
  | _ => none

def outDec (bs : Bytes) : String :=
  match dec bs with
  | .ok it => "ok " ++ it.render
  | .error _ => "err"

/-- rlp.Split: kind, content, rest (raw.go). -/
def outSplit (bs : Bytes) : String :=
  match readHead bs with
  | .error _ => "err"
  | .ok (.byte b rest) => "ok S " ++ hexOrDash [b] ++ " " ++ hexOrDash rest
  | .ok (.str n rest) =>
    if rest.length < n then "err"
    else
      match rest.take n with
      | [x] => if x < 0x80 then "err" else "ok S " ++ hexOrDash [x] ++ " " ++ hexOrDash (rest.drop n)
      | s => "ok S " ++ hexOrDash s ++ " " ++ hexOrDash (rest.drop n)
  | .ok (.list n rest) =>
    if rest.length < n then "err" else "ok L " ++ hexOrDash (rest.take n) ++ " " ++ hexOrDash (rest.drop n)

/-! ### typed layer: type descriptors, value renderings -/

def takeDigits (cs : List Char) : Nat × List Char :=
  let ds := cs.takeWhile Char.isDigit
  (ds.foldl (fun acc c => acc * 10 + (c.toNat - 48)) 0, cs.dropWhile Char.isDigit)

/-- type descriptors: `u8 u16 u32 u64 big bool b b<N> l(T) a<N>(T) s(T,…) st(T,…;T) p(T) pn(T) raw if`. -/
partial def parseTy (cs : List Char) : Option (Ty × List Char) :=
  let rec tys (cs : List Char) (acc : List Ty) : Option (List Ty × List Char) :=
    -- parses `T,T,…` up to (not including) `)` or `;`
    match cs with
    | ')' :: _ => some (acc.reverse, cs)
    | ';' :: _ => some (acc.reverse, cs)
    | _ =>
      match parseTy cs with
      | some (t, ',' :: r) => tys r (t :: acc)
      | some (t, r) => some ((t :: acc).reverse, r)
      | none => none
  match cs with
  | 'u' :: r =>
    match takeDigits r with
    | (0, _) => none
    | (n, r') => some (.uint n, r')
  | 'b' :: 'i' :: 'g' :: r => some (.big, r)
  | 'b' :: 'o' :: 'o' :: 'l' :: r => some (.bool, r)
  | 'b' :: r =>
    match r with
    | c :: _ => if c.isDigit then (let (n, r') := takeDigits r; some (.bytesN n, r')) else some (.bytes, r)
    | [] => some (.bytes, [])
  | 'r' :: 'a' :: 'w' :: r => some (.raw, r)
  | 'i' :: 'f' :: r => some (.iface, r)
  | 'l' :: '(' :: r =>
    match parseTy r with
    | some (t, ')' :: r') => some (.list t, r')
    | _ => none
  | 'a' :: r =>
    match takeDigits r with
    | (n, '(' :: r') =>
      match parseTy r' with
      | some (t, ')' :: r'') => some (.arr n t, r'')
      | _ => none
    | _ => none
  | 's' :: 't' :: '(' :: r =>
    match tys r [] with
    | some (fs, ';' :: r') =>
      match parseTy r' with
      | some (t, ')' :: r'') => some (.structTail fs t, r'')
      | _ => none
    | _ => none
  | 's' :: '(' :: r =>
    match tys r [] with
    | some (fs, ')' :: r') => some (.struct fs, r')
    | _ => none
  | 'p' :: 'n' :: '(' :: r =>
    match parseTy r with
    | some (t, ')' :: r') => some (.ptrNil t, r')
    | _ => none
  | 'p' :: '(' :: r =>
    match parseTy r with
    | some (t, ')' :: r') => some (.ptr t, r')
    | _ => none
  | _ => none

def parseTyStr (s : String) : Option Ty :=
  match parseTy s.toList with
  | some (t, []) => some t
  | _ => none

/-- parsed value rendering: `s<hex>` string, `r<hex>` raw bytes, `n` nil pointer (tenc only), `[…]` list. -/
inductive PVal where
  | s (b : Bytes)
  | r (b : Bytes)
  | n
  | l (xs : List PVal)
  deriving Inhabited

partial def parsePVal (cs : List Char) : Option (PVal × List Char) :=
  let leaf (rest : List Char) (mk : Bytes → PVal) : Option (PVal × List Char) :=
    let hex := rest.takeWhile (fun c => c != ',' && c != ']')
    let rem := rest.dropWhile (fun c => c != ',' && c != ']')
    match bytesOfHexAux hex [] with
    | some b => some (mk b, rem)
    | none => none
  match cs with
  | 's' :: rest => leaf rest .s
  | 'r' :: rest => leaf rest .r
  | 'n' :: rest => some (.n, rest)
  | '[' :: ']' :: rest => some (.l [], rest)
  | '[' :: rest =>
    let rec go (cs : List Char) (acc : List PVal) : Option (List PVal × List Char) :=
      match parsePVal cs with
      | some (it, ',' :: r) => go r (it :: acc)
      | some (it, ']' :: r) => some ((it :: acc).reverse, r)
      | _ => none
    match go rest [] with
    | some (xs, r) => some (.l xs, r)
    | none => none
  | _ => none

def parsePValStr (s : String) : Option PVal :=
  match parsePVal s.toList with
  | some (v, []) => some v
  | _ => none

partial def PVal.toG : PVal → Option GItem
  | .s b => some (.str b)
  | .r b => some (.rawv b)
  | .n => none
  | .l xs => (xs.mapM PVal.toG).map .list

partial def PVal.toItem : PVal → Option Item
  | .s b => some (.str b)
  | .l xs => (xs.mapM PVal.toItem).map .list
  | _ => none

/-- read a rendered Go value as a value of type `ty` (inverse of the harness' `specItem` rendering). -/
partial def fromP : Ty → PVal → Option Val
  | .uint _, .s b => some (.num (beNat b))
  | .big, .s b => some (.num (beNat b))
  | .bool, .s [] => some (.bool false)
  | .bool, .s [1] => some (.bool true)
  | .bytes, .s b => some (.bytes b)
  | .bytesN _, .s b => some (.bytes b)
  | .list t, .l xs => (xs.mapM (fromP t)).map .list
  | .arr _ t, .l xs => (xs.mapM (fromP t)).map .list
  | .struct fs, .l xs =>
    if fs.length = xs.length then ((fs.zip xs).mapM (fun (t, x) => fromP t x)).map .list else none
  | .structTail fs t, .l xs =>
    if fs.length ≤ xs.length then
      match ((fs.zip (xs.take fs.length)).mapM (fun (t, x) => fromP t x)), ((xs.drop fs.length).mapM (fromP t)) with
      | some a, some b => some (.tail a b)
      | _, _ => none
    else none
  | .ptr _, .n => some .pnil
  | .ptrNil _, .n => some .pnil
  | .ptr t, x => (fromP t x).map .psome
  | .ptrNil t, x => (fromP t x).map .psome
  | .raw, .r b => some (.bytes b)
  | .iface, x => x.toItem.map .item
  | _, _ => none

def outTDec (ty : Ty) (bs : Bytes) : String :=
  match decTop ty bs with
  | .ok v => "ok " ++ (toG ty v).render
  | .error _ => "err"

/-! ### Stream machine outcomes -/

def errName : Aqv.RlpStream.SErr → String
  | .eol => "eol" | .eof => "eof" | .unexpectedEOF => "unexpectedEOF" | .expectedString => "expectedString"
  | .expectedList => "expectedList" | .canonInt => "canonInt" | .canonSize => "canonSize"
  | .elemTooLarge => "elemTooLarge" | .valueTooLarge => "valueTooLarge" | .moreThanOneValue => "moreThanOneValue"
  | .notInList => "notInList" | .notAtEOL => "notAtEOL" | .uintOverflow => "uintOverflow" | .badBool => "badBool"
  | .fuel => "fuel"

/-- `<ok|err> S=<tok> B=<tok>`, tok = `ok:<item>` | `err:<kind>`; for the Stream entry point a failing second phase (a second
    value, or an error other than io.EOF) is `err:more`. -/
def sdecOut (bs : Bytes) : String :=
  let f := Aqv.RlpStream.fuelFor bs.length
  let tokS :=
    match Aqv.RlpStream.decodeInterface f (Aqv.RlpStream.newStream bs bs.length) with
    | (.error e, _) => "err:" ++ errName e
    | (.ok it, s) =>
      match (Aqv.RlpStream.decodeInterface f s).1 with
      | .error .eof => "ok:" ++ it.render
      | _ => "err:more"
  -- the function the theorems are about must tell the same accept/reject story
  let tokS :=
    match (Aqv.RlpStream.decodeStream bs).1 with
    | .ok it => if tokS == "ok:" ++ it.render then tokS else "model-internal-mismatch"
    | .error _ => if tokS.startsWith "err:" then tokS else "model-internal-mismatch"
  let tokB :=
    match (Aqv.RlpStream.decodeBytes bs).1 with
    | .ok it => "ok:" ++ it.render
    | .error e => "err:" ++ errName e
  (if tokS.startsWith "err" then "err" else "ok") ++ " S=" ++ tokS ++ " B=" ++ tokB

/-! ### raw.go outcomes -/

def rerrName : Aqv.RlpRaw.RErr → String
  | .unexpectedEOF => "unexpectedEOF" | .canonSize => "canonSize" | .valueTooLarge => "valueTooLarge"
  | .expectedString => "expectedString" | .expectedList => "expectedList" | .fuel => "fuel"

/-- `<ok|err> split=<tok> str=<tok> list=<tok>`; tok = `ok:<K>:<content>:<rest>` / `ok:<content>:<rest>` | `err:<kind>` | `panic`. -/
def rsplitOut (bs : Bytes) : String :=
  let kname (k : Aqv.RlpRaw.K) : String := match k with | .byte => "Byte" | .string => "String" | .list => "List"
  let t1 :=
    match Aqv.RlpRaw.split bs with
    | .ok (k, c, r) => "ok:" ++ kname k ++ ":" ++ hexOrDash c ++ ":" ++ hexOrDash r
    | .err e => "err:" ++ rerrName e
    | .panic => "panic"
  let two (o : Aqv.RlpRaw.Out (Bytes × Bytes)) : String :=
    match o with
    | .ok (c, r) => "ok:" ++ hexOrDash c ++ ":" ++ hexOrDash r
    | .err e => "err:" ++ rerrName e
    | .panic => "panic"
  (if t1.startsWith "ok" then "ok" else "err") ++ " split=" ++ t1 ++ " str=" ++ two (Aqv.RlpRaw.splitString bs) ++
    " list=" ++ two (Aqv.RlpRaw.splitList bs)

def handle (l : String) : String :=
  let (inp, go) := splitCase l
  match fields inp with
  | ["dec", hex] =>
    match bytesOfHex hex with
    | none => "bad-op\tagree"
    | some bs =>
      let m := outDec bs
      -- Spec judgement of the Go output: an accepted value must re-encode to the input; a rejected input must
      -- not be the canonical encoding of any item.
      let specOk :=
        if go.startsWith "ok " then
          match parseItemStr (strDrop go 3) with
          | some it => enc it == bs
          | none => false
        else if go == "err" then (match dec bs with | .ok _ => false | .error _ => true)
        else false
      verdict m go specOk "decode-accepts-noncanonical-or-rejects-canonical"
  | ["enc", r] =>
    match parseItemStr r with
    | none => "bad-op\tagree"
    | some it =>
      let m := "ok " ++ hexOrDash (enc it)
      verdict m go false "encoding-differs-from-spec"
  | ["sdec", hex] =>
    -- the Go-shaped Stream machine, both entry points, WITH the error kind:
    --   S = NewStream(r, len) + Decode + second Decode must be io.EOF;   B = DecodeBytes
    match bytesOfHex hex with
    | none => "bad-op\tspec-ok"
    | some bs =>
      let m := sdecOut bs
      let tokOk (t : String) : Bool :=
        if t.startsWith "ok:" then
          match parseItemStr (strDrop t 3) with
          | some it => enc it == bs
          | none => false
        else if t.startsWith "err:" then (match dec bs with | .ok _ => false | .error _ => true)
        else false
      let specOk :=
        match fields go with
        | [_, a, b] => a.startsWith "S=" && b.startsWith "B=" && tokOk (strDrop a 2) && tokOk (strDrop b 2)
        | _ => false
      verdict m go specOk "stream-decode-accepts-noncanonical-or-rejects-canonical"
  | ["sprim", op, hex] =>
    -- one primitive of the Stream machine on a fresh NewStream(r, len): Uint / Bool / Bytes / Raw / Kind
    match bytesOfHex hex with
    | none => "bad-op\tspec-ok"
    | some bs =>
      let s0 := Aqv.RlpStream.newStream bs bs.length
      let err (e : Aqv.RlpStream.SErr) : String := "err " ++ errName e
      let m :=
        match op with
        | "uint" => (match (Aqv.RlpStream.uint 8 s0).1 with | .ok n => "ok " ++ toString n | .error e => err e)
        | "bool" => (match (Aqv.RlpStream.bool s0).1 with | .ok b => "ok " ++ toString b | .error e => err e)
        | "bytes" => (match (Aqv.RlpStream.bytes s0).1 with | .ok b => "ok " ++ hexOrDash b | .error e => err e)
        | "raw" => (match (Aqv.RlpStream.raw s0).1 with | .ok b => "ok " ++ hexOrDash b | .error e => err e)
        | "kind" =>
          (match (Aqv.RlpStream.kindOf s0).1 with
           | .ok (k, n) =>
             "ok " ++ (match k with | .byte => "Byte" | .string => "String" | .list => "List") ++ " " ++ toString n
           | .error e => err e)
        | _ => "bad-op"
      -- both reject with different error kinds: the correspondence is broken, the property is not
      verdict m go (go.startsWith "err" && m.startsWith "err") "stream-primitive-differs"
  | ["rsplit", hex] =>
    -- Go-shaped raw.go: Split / SplitString / SplitList with error kinds and the panic outcome
    match bytesOfHex hex with
    | none => "bad-op\tspec-ok"
    | some bs =>
      let m := rsplitOut bs
      -- Spec: never a panic; both rejecting with different error kinds only breaks the correspondence
      let goPanics := (go.splitOn "panic").length > 1
      verdict m go (!goPanics && go.startsWith "err" && m.startsWith "err") "raw-split-panics-or-differs"
  | ["cv", hex] =>
    match bytesOfHex hex with
    | none => "bad-op\tspec-ok"
    | some bs =>
      let m :=
        match Aqv.RlpRaw.countValues bs with
        | .ok n => "ok " ++ toString n
        | .err e => "err " ++ rerrName e
        | .panic => "panic"
      let goPanics := (go.splitOn "panic").length > 1
      verdict m go (!goPanics && go.startsWith "err" && m.startsWith "err") "countvalues-panics-or-differs"
  | ["tdec", td, hex] =>
    match parseTyStr td, bytesOfHex hex with
    | some ty, some bs =>
      let m := outTDec ty bs
      -- Spec judgement of the Go output: an accepted value, seen as an item, must re-encode to the input
      -- (canonicity); a rejected input must not be the encoding of a supported value of the type.
      let specOk :=
        if go.startsWith "ok " then
          match (parsePValStr (strDrop go 3)).bind PVal.toG with
          | some g => g.enc == bs
          | none => false
        else if go == "err" then (match decTop ty bs with | .ok _ => false | .error _ => true)
        else false
      verdict m go specOk "typed-decode-accepts-noncanonical-or-rejects-canonical"
    | _, _ => "bad-op\tspec-ok"   -- reported as broken correspondence: the driver must understand every typed line
  | ["tenc", td, r] =>
    match parseTyStr td, parsePValStr r with
    | some ty, some pv =>
      match fromP ty pv with
      | some v => verdict ("ok " ++ hexOrDash (encTy ty v)) go false "typed-encoding-differs-from-spec"
      | none => "bad-value\tspec-ok"
    | _, _ => "bad-op\tspec-ok"
  | ["split", hex] =>
    match bytesOfHex hex with
    | none => "bad-op\tagree"
    | some bs => verdict (outSplit bs) go false "split-differs-from-spec"
  | _ => "bad-op\tagree"

def main : IO Unit := runLines handle

import Aqv.Base.Proto
import Aqv.Model.FeedSpec
open Aqv Aqv.Proto Aqv.FeedSpec

/-
  Model driver for C19.  Case lines:
    tr <ev>*                       observed history of one scheduled run of the real event.Feed;  go output: ok | reject <clause>
    mx <ev>*                       observed history of one round on the real event.TypeMux;      go output: ok | reject <clause>
    st live=<ids> sc=<ids> ib=<ids>   internal state at quiescence (overlay accessor);           go output: ok | reject state
  The driver judges the line with the executable Spec (`Aqv.FeedSpec.judge`) — the judgement never depends on which
  schedule produced the history, and two runs are never compared.
-/

def parseNat? (s : String) : Option Nat := s.toNat?

def parseEv (t : String) : Option GEv :=
  if t == "hang" then some .hang
  else
    let tag := String.ofList (t.toList.take 2)
    let rest := String.ofList (t.toList.drop 2)
    match tag, rest.splitOn ":" with
    | "sb", [a] => (parseNat? a).map .sb
    | "se", [a] => (parseNat? a).map .se
    | "cb", [a] => (parseNat? a).map .cb
    | "ub", [a] => (parseNat? a).map .ub
    | "ue", [a] => (parseNat? a).map .ue
    | "em", [a] => (parseNat? a).map .em
    | "ce", [a, b] => match parseNat? a, parseNat? b with | some x, some y => some (.ce x y) | _, _ => none
    | "rv", [a, b] => match parseNat? a, parseNat? b with | some x, some y => some (.rv x y) | _, _ => none
    | _, _ => none

def parseMEv (t : String) : Option MEv :=
  if t == "hang" then some .hang
  else if t == "Tb" then some .tb
  else if t == "Te" then some .te
  else
    let tag := String.ofList (t.toList.take 2)
    let rest := String.ofList (t.toList.drop 2)
    match tag, rest.splitOn ":" with
    | "Sb", [a] => (parseNat? a).map .sb
    | "Ub", [a] => (parseNat? a).map .ub
    | "Ue", [a] => (parseNat? a).map .ue
    | "Se", [a, b] => match parseNat? a, parseNat? b with | some x, some y => some (.se x y) | _, _ => none
    | "Pb", [a, b] => match parseNat? a, parseNat? b with | some x, some y => some (.pb x y) | _, _ => none
    | "Pe", [a, b] => match parseNat? a, parseNat? b with | some x, some y => some (.pe x y) | _, _ => none
    | "Rv", [a, b] => match parseNat? a, parseNat? b with | some x, some y => some (.rv x y) | _, _ => none
    | _, _ => none

def parseIds (s : String) : Option (List Nat) :=
  match s.splitOn "=" with
  | [_, v] => if v == "" then some [] else (v.splitOn ",").mapM parseNat?
  | _ => none

def handle (l : String) : String :=
  let (inp, go) := splitCase l
  match fields inp with
  | "tr" :: evs =>
    match evs.mapM parseEv with
    | none => "bad-op\tagree"
    | some es =>
      -- a history the Spec rejects is a violation whatever the Go-side judge said; if the Spec accepts it and the
      -- Go-side judge did not, the two judges differ (reported as broken correspondence)
      match judge es.toArray with
      | none => verdict "ok" go true ""
      | some why => "reject " ++ why ++ "\tspec-reject:" ++ why
  | "mx" :: evs =>
    match evs.mapM parseMEv with
    | none => "bad-op\tagree"
    | some es =>
      match judgeMux es.toArray with
      | none => verdict "ok" go true ""
      | some why => "reject " ++ why ++ "\tspec-reject:" ++ why
  | ["st", a, b, c] =>
    match parseIds a, parseIds b, parseIds c with
    | some live, some sc, some ib =>
      if judgeState live sc ib then verdict "ok" go true "" else "reject state\tspec-reject:state"
    | _, _, _ => "bad-op\tagree"
  | _ => "bad-op\tagree"

def main : IO Unit := runLines handle

/-
  Model driver for C07. Case lines (see go/harness/cmd/c07/main.go):

    cfg <name> <height>                                  \t <sets> <homestead> <eip150> <eip158> <byzantium> <gas table>
    pre <cfg> <addr> <gas> <input hex|->                 \t pre-<class> <leftover> <output length|->   (direct call of a precompile address)
    run <cfg> <kind> <gas> <valueNZ> <t|n> <step>*       \t <class> <leftover> <ticks> <maxDepth> <maxMem> <checksum>

  A step is `op:args:flags` (hex opcode, `.`-separated hex operands or `-`, oracle flags); step 0 describes the top-level
  callee. The model replays the oracle with `Aqv.Vm.topCall`/`topCreate` over the generated tables and prints the same summary.
-/
import Aqv.Base.Proto
import Aqv.Model.Vm
import Aqv.Model.VmPrecompile
open Aqv Aqv.Proto Aqv.Vm Aqv.Gen.VmFlags

def hexDig7 (c : Char) : Option Nat :=
  if '0' ≤ c ∧ c ≤ '9' then some (c.toNat - '0'.toNat)
  else if 'a' ≤ c ∧ c ≤ 'f' then some (c.toNat - 'a'.toNat + 10)
  else none

def hexNat (s : String) : Nat := s.toList.foldl (fun acc c => match hexDig7 c with | some d => acc * 16 + d | none => acc) 0

def decNat (cs : List Char) : Nat := cs.foldl (fun acc c => acc * 10 + (c.toNat - '0'.toNat)) 0

/-- oracle flags: s<d> sstoreKind, E/e exist, M/m empty, B selfBalanceNZ, T/t canTransfer, P<dec>. precompile gas, Z code empty,
    X collision, x execErr -/
partial def parseFlags (cs : List Char) (i : StepIn Unit) : StepIn Unit :=
  match cs with
  | [] => i
  | 's' :: d :: rest => parseFlags rest { i with sstoreKind := d.toNat - '0'.toNat }
  | 'E' :: rest => parseFlags rest { i with exist := true }
  | 'e' :: rest => parseFlags rest { i with exist := false }
  | 'M' :: rest => parseFlags rest { i with empty := true }
  | 'm' :: rest => parseFlags rest { i with empty := false }
  | 'B' :: rest => parseFlags rest { i with selfBalanceNZ := true }
  | 'T' :: rest => parseFlags rest { i with canTransfer := true }
  | 't' :: rest => parseFlags rest { i with canTransfer := false }
  | 'P' :: rest =>
    let ds := rest.takeWhile (· != '.')
    parseFlags ((rest.dropWhile (· != '.')).drop 1) { i with precompile := some (decNat ds) }
  | 'Z' :: rest => parseFlags rest { i with codeEmpty := true }
  | 'X' :: rest => parseFlags rest { i with collision := true }
  | 'x' :: rest => parseFlags rest { i with execErr := true }
  | _ :: rest => parseFlags rest i

def parseStep (s : String) : StepIn Unit :=
  match s.splitOn ":" with
  | [op, args, flags] =>
    let a := if args == "-" then [] else (args.splitOn ".").map hexNat
    parseFlags flags.toList { op := if op == "-" then 0 else hexNat op, args := a }
  | _ => { op := 0xfe, args := [] }

def errName : Err → String
  | .invalidOpcode => "invalidOpcode" | .stackUnderflow => "stackUnderflow" | .stackLimit => "stackLimit"
  | .writeProtection => "writeProtection" | .gasUintOverflow => "gasUintOverflow" | .outOfGas => "outOfGas"
  | .execError => "execError" | .depth => "depth" | .insufficientBalance => "insufficientBalance" | .collision => "collision"
  | .codeStoreOutOfGas => "codeStoreOutOfGas" | .maxCodeSize => "maxCodeSize"

def outName : Outcome → String
  | .ok => "ok" | .revert => "revert" | .fail e => "fail-" ++ errName e | .outOfFuel => "MODEL-OUT-OF-FUEL" | .panic => "MODEL-PANIC"

def csMod : Nat := 2147483647

def checksum (tr : List Event) : Nat :=
  tr.foldl (fun h e => (h * 1000003 + e.gasBefore % csMod + 3 * (e.cost % csMod) + 5 * e.memLen + 7 * e.depth + 11 * e.stack + 13 * e.op + 17 * (if e.ro then 1 else 0)) % csMod) 0

def epochName : Epoch → String
  | .frontier => "frontier" | .homestead => "homestead" | .byzantium => "byzantium" | .constantinople => "constantinople" | .spring => "spring"

def gtStr (g : GasTable) : String :=
  ".".intercalate ([g.extcodeSize, g.extcodeCopy, g.balance, g.sLoad, g.calls, g.suicide, g.expByte, g.createBySuicide].map toString)

def envOf (c : Cfg) : Option Env :=
  match c.sets with
  | [] => none
  | e :: _ => some ⟨e, c.gasTable, c.homestead, c.eip150, c.eip158, c.byzantium⟩

def findCfg (name : String) : Option Cfg := configs.find? (fun c => c.name == name)

def summary (triv : Bool) (r : Res Unit) : String :=
  let maxD := r.trace.foldl (fun m e => max m e.depth) 0
  let maxM := r.trace.foldl (fun m e => max m e.memLen) 0
  (if triv then "t-" else "") ++ outName r.out ++ s!" {r.gas} {r.tick} {maxD} {maxM} {checksum r.trace}"

def handle (l : String) : String :=
  let (inp, go) := splitCase l
  match fields inp with
  | ["cfg", name, height] =>
    match findCfg name with
    | none => "unknown-config\tspec-ok"
    | some c =>
      let m := ",".intercalate (c.sets.map epochName) ++ s!" {c.homestead} {c.eip150} {c.eip158} {c.byzantium} " ++ gtStr c.gasTable
      if toString c.height != height then verdict "height-differs" go true ""
      else verdict m go true ""
  | "run" :: name :: kind :: gas :: vnz :: triv :: steps =>
    match (findCfg name).bind envOf with
    | none => "unknown-config\tspec-ok"
    | some env =>
      let arr := (steps.map parseStep).toArray
      let o : Nat → StepIn Unit := fun t => arr.getD t { op := 0xfe, args := [] }
      let g := gas.toNat!
      let fuel := g + 2
      let db : Db Unit := ⟨(), [], 0⟩
      let r :=
        if kind == "create" then topCreate env o fuel g db
        else
          let k : CallKind := if kind == "callcode" then .callcode else if kind == "static" then .static else .call
          topCall env o fuel k g (vnz == "1") db
      let m := summary (triv == "t") r
      -- Spec judgement of what Go reported when it differs from Impl: the only clause visible in the summary is leftover ≤ given
      let goLeft := match fields go with | _ :: lo :: _ => lo.toNat! | _ => 0
      verdict m go (goLeft ≤ g) "leftover-gas-exceeds-given"
  | ["pre", name, addr, gas, inputHex] =>
    match findCfg name, (if inputHex == "-" then some [] else bytesOfHex inputHex) with
    | some c, some input =>
      let a := addr.toNat!
      let g := gas.toNat!
      let isPre := (if c.byzantium then precompilesByzantium else precompilesHomestead).contains a
      -- not a precompile: the address has no code, the call succeeds and returns all gas
      let (ok, left) := if isPre then Pre.runPrecompile a input g else (true, g)
      let ol := if !isPre || !ok then "0" else match Pre.outLen a input with | some n => toString n | none => "-"
      -- 4th field of the Go output: bytes allocated during the call (measured, so echoed into the model output); judged against
      -- the buffers the MODEL says Run materialises: 1 MiB + 16·buffers (modexp, when Run is reached), 1 MiB otherwise
      let goF := fields go
      let goAlloc := match goF with | [_, _, _, al] => al.toNat! | _ => 0
      let buffers := if isPre && ok then Pre.runBuffers a input else 0
      let m := (if ok then "pre-ok" else "pre-fail-outOfGas") ++ s!" {if ok then left else 0} {ol} {goAlloc}"
      let goLeft := match goF with | _ :: lo :: _ => lo.toNat! | _ => 0
      if goAlloc > 1048576 + 16 * buffers then
        m ++ s!"\tspec-reject:precompile-allocation-{goAlloc}-exceeds-modelled-buffers-{buffers}"
      else verdict m go (goLeft ≤ g) "leftover-gas-exceeds-given"
    | _, _ => "unknown-config-or-bad-hex\tspec-ok"
  | _ => "bad-op\tagree"

def main : IO Unit := runLines handle

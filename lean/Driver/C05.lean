import Aqv.Base.Proto
import Aqv.Model.Supply
open Aqv Aqv.Proto Aqv.Tx Aqv.Supply

/-!
  Model driver for C05. Case kinds (see go/harness/cmd/c05/main.go):
    rw  <h> <cb> <uncles>                         uncles = num:who,… | -        → balances after accumulateRewards on an empty state
    tx  <sender> <coinbase> <gas·price> <pre> <log…>                            → balances after the transaction (after Finalise)
        log tokens: S<a>:<v> SubBalance, A<a>:<v> AddBalance, K<a> Suicide (true), k<a> Suicide (false), C<a> CreateAccount,
                    P<id> Snapshot → id, R<id> RevertToSnapshot(id)
    blk <h> <hf4> <hf5> <cb> <uncles> <dealloc|-> <pre> <selfdestructs> <Σafter>        → Σafter (exact) | bounded
  balances = i:bal,i:bal,… (non-zero ones, by account index) | -
-/

def nat? (s : String) : Option Nat := s.toNat?

def parseBalances (s : String) : Option AMap :=
  if s == "-" then some [] else
  (s.splitOn ",").mapM (fun p => match p.splitOn ":" with
    | [a, b] => do let x ← nat? a; let y ← nat? b; pure (x, y)
    | _ => none)

def parseUncles (s : String) : Option (List Uncle) := parseBalances s

def parseIdxList (s : String) : Option (List Nat) :=
  if s == "-" then some [] else (s.splitOn ",").mapM nat?

/-- canonical rendering: non-zero balances by increasing account index. -/
def showBalances (m : AMap) : String :=
  let keys := (m.map (·.1)).eraseDups
  let sorted := keys.toArray.qsort (· < ·) |>.toList
  let xs := sorted.filterMap (fun k => let v := lookup m k; if v == 0 then none else some (toString k ++ ":" ++ toString v))
  if xs.isEmpty then "-" else ",".intercalate xs

inductive Tok
  | sub (a v : Nat) | add (a v : Nat) | kill (a : Nat) | killFalse (a : Nat) | create (a : Nat) | snap (id : Nat) | rev (id : Nat)

def parseTok (s : String) : Option Tok :=
  let body := strDrop s 1
  match s.toList.head? with
  | some 'S' => (match body.splitOn ":" with | [a, v] => do pure (.sub (← nat? a) (← nat? v)) | _ => none)
  | some 'A' => (match body.splitOn ":" with | [a, v] => do pure (.add (← nat? a) (← nat? v)) | _ => none)
  | some 'K' => do pure (.kill (← nat? body))
  | some 'k' => do pure (.killFalse (← nat? body))
  | some 'C' => do pure (.create (← nat? body))
  | some 'P' => do pure (.snap (← nat? body))
  | some 'R' => do pure (.rev (← nat? body))
  | _ => none

/-- parse the EVM part of the raw log into a word over the alphabet, executing it on the machine as we go (the suicide pattern
    `AddBalance(b, x); Suicide(a)` needs the current balance x of a). `ids` = revision ids of the live snapshots, oldest first. -/
def runBody : List Tok → Machine → List Nat → Except String Machine
  | [], M, _ => .ok M
  | .create a :: rest, M, ids => runBody rest (step M (.createAccount a)) ids
  | .snap id :: rest, M, ids => runBody rest (step M .snapshot) (ids ++ [id])
  | .rev id :: rest, M, ids =>
    match ids.findIdx? (· == id) with
    | some k => runBody rest (step M (.revert k)) (ids.take k)
    | none => .error "revert-to-unknown-snapshot"
  | .sub a v :: .add b v' :: rest, M, ids =>
    if v != v' then .error "sub-add-amounts-differ"
    else if lookup M.cur.bal a < v then .error "transfer-without-funds"   -- CanTransfer must have guarded it
    else runBody rest (step M (.transfer a b v)) ids
  | .add b x :: .kill a :: rest, M, ids =>
    if x != lookup M.cur.bal a then .error "suicide-credit-differs-from-balance"
    else runBody rest (step M (.suicide a b)) ids
  | .sub _ _ :: _, _, _ => .error "bare-SubBalance"
  | .add _ _ :: _, _, _ => .error "bare-AddBalance"
  | .kill _ :: _, _, _ => .error "bare-Suicide"
  | .killFalse _ :: _, _, _ => .error "suicide-of-missing-account"

/-- one transaction: [CreateAccount sender]* buyGas body refund fee, then Finalise. -/
def runTx (sender coinbase mgval : Nat) (pre : AMap) (toks : List Tok) : Except String AMap :=
  let rec dropCreates : List Tok → List Tok
    | .create a :: rest => if a == sender then dropCreates rest else .create a :: rest
    | ts => ts
  match dropCreates toks with
  | .sub s v :: rest =>
    if s != sender || v != mgval then .error "first-debit-is-not-buyGas"
    else if lookup pre s < v then .error "buyGas-without-funds"
    else
      let bal1 := if v == 0 then pre else update pre s (lookup pre s - v)
      let n := rest.length
      if n < 2 then .error "missing-refund-or-fee"
      else
        match rest.drop (n - 2) with
        | [.add s2 r, .add c f] =>
          if s2 != sender then .error "refund-not-to-sender"
          else if c != coinbase then .error "fee-not-to-coinbase"
          else if r + f != mgval then .error "refund+fee-differs-from-prepaid-gas"
          else
            match runBody (rest.take (n - 2)) { cur := { bal := bal1, suicided := [] }, snaps := [] } [] with
            | .error e => .error e
            | .ok M =>
              let w : SWorld := { bal := M.cur.bal, nonce := [], rest := M.cur.suicided }
              let w := addBal (addBal w sender r) coinbase f
              .ok (finWorld w).bal
        | _ => .error "tail-is-not-refund-fee"
  | _ => .error "no-buyGas"

def handleTx (fs : List String) (go : String) : String :=
  match fs with
  | sender :: coinbase :: mgval :: pre :: log =>
    match nat? sender, nat? coinbase, nat? mgval, parseBalances pre, log.mapM parseTok with
    | some s, some c, some g, some pre, some toks =>
      match runTx s c g pre toks with
      | .error e => "outside-alphabet:" ++ e ++ "\tspec-reject:balance-change-outside-the-modelled-alphabet"
      | .ok bal =>
        -- Spec on the Go result: Σ after ≤ Σ before
        let specOk := match parseBalances go with
          | some after => total after ≤ total pre
          | none => false
        verdict (showBalances bal) go specOk "supply-increased-by-transaction"
    | _, _, _, _, _ => "bad-op\tagree"
  | _ => "bad-op\tagree"

def handleRw (fs : List String) (go : String) : String :=
  match fs with
  | [h, cb, uncles] =>
    match nat? h, nat? cb, parseUncles uncles with
    | some h, some cb, some us =>
      let w := accumulateRewards h cb us { bal := [], nonce := [], rest := [] }
      let specOk := match parseBalances go with
        | some after => total after == issuance h us
        | none => false
      verdict (showBalances w.bal) go specOk "issuance-differs-from-schedule"
    | _, _, _ => "bad-op\tagree"
  | _ => "bad-op\tagree"

def handleBlk (fs : List String) (go : String) : String :=
  match fs with
  | [h, hf4, hf5, cb, uncles, dealloc, pre, sd, after] =>
    match nat? h, nat? cb, parseUncles uncles, parseIdxList dealloc, parseBalances pre, nat? sd, nat? after with
    | some h, some _, some us, some dl, some pre, some sd, some after =>
      let w : SWorld := { bal := pre, nonce := [], rest := [] }
      let w1 := if hf4 == "1" then applyHF4 dl w else w
      let w1 := if hf5 == "1" then applyHF5 dl w1 else w1     -- misc.ApplyHardFork5 as written: a query per listed account
      let bound := total w1.bal + issuance h us
      let m := if sd == 0 then toString bound else (if after ≤ bound then "bounded" else "exceeds")
      -- Spec on the Go result: never above Σ before + issuance
      verdict m go (after ≤ total pre + issuance h us && (sd > 0 || hf4 == "1" || after == total pre + issuance h us)) "supply-above-issuance"
    | _, _, _, _, _, _, _ => "bad-op\tagree"
  | _ => "bad-op\tagree"

def handle (l : String) : String :=
  let (inp, go) := splitCase l
  match fields inp with
  | "rw" :: rest => handleRw rest go
  | "tx" :: rest => handleTx rest go
  | "blk" :: rest => handleBlk rest go
  | _ => "bad-op\tagree"

def main : IO Unit := runLines handle

import Aqv.Base.Proto
import Aqv.Model.ChainDb
import Aqv.Model.ChainWriter
open Aqv Aqv.Proto Aqv.ChainDb

/-!
  Model driver for C04.  One case line per scenario:

    trace <archive 0|1> <ghost0> | <initial writes> | <steps> | <observed events>  TAB  V=<variant> L=ok R=<per-prefix>

  * writes: `h<id>:<parent>:<num>:<root>` `t<id>` `c<num>:<id>` `y<id>:<tx>.<tx>…` `r<id>` `H<id>:<num>` `l<tx>:<id>` `B<id>` `E<id>`
    `F<id>` `n<id>:<c>.<c>…` `s<id>` `o`; a leading `-` is a deletion.
  * events: `p=<w>@<ghost>` `d=<w>@<ghost>` `b=<w>,<w>,…@<ghost>`
  * steps: `I/<id>:<parent>:<num>:<root>:<tx.tx>/<canon>/<flush>/<flush>…`  `N/<blk>` (WriteBlockWithoutState)  `S/<flush>/…`  `Z/<n>`  `O` (NewBlockChain)
  Output: which writer variant reproduces the observed log (`V=`), `L=ok` or the first differing event, and for every
  prefix the outcome of `recover` (`k<head>` / `P` / `E`) followed by `+`/`-` = `imageOK`.
-/

def natOf (s : String) : Nat := s.toNat?.getD 0

def splitNats (s : String) (sep : Char) : List Nat := ((s.split (· == sep)).toList.map (·.toString)).filter (· ≠ "") |>.map natOf

def strSplit (s : String) (sep : Char) : List String := (s.split (· == sep)).toList.map (·.toString)

/-- parse one write token -/
def parseW (t : String) : Option (Key × Option Val) :=
  let (isDel, t) := if t.startsWith "-" then (true, strDrop t 1) else (false, t)
  match t.toList with
  | [] => none
  | c :: rest =>
    let body := String.ofList rest
    let fs := strSplit body ':'
    let n (i : Nat) : Nat := natOf (fs.getD i "")
    let mk (k : Key) (v : Val) : Option (Key × Option Val) := some (k, if isDel then none else some v)
    match c with
    | 'h' => mk (.header (n 0)) (.hdr (n 1) (n 2) (n 3))
    | 't' => mk (.td (n 0)) .blob
    | 'c' => mk (.canon (n 0)) (.ref (n 1))
    | 'y' => mk (.body (n 0)) (.txs (splitNats (fs.getD 1 "") '.'))
    | 'r' => mk (.receipts (n 0)) .blob
    | 'H' => mk (.hashNum (n 0)) (.num (n 1))
    | 'l' => mk (.lookup (n 0)) (.ref (n 1))
    | 'B' => mk .lastBlock (.ref (n 0))
    | 'E' => mk .lastHeader (.ref (n 0))
    | 'F' => mk .lastFast (.ref (n 0))
    | 'n' => mk (.node (n 0)) (.node (splitNats (fs.getD 1 "") '.'))
    | 's' => mk (.preimage (n 0)) .blob
    | 'o' => mk .other .blob
    | _ => none

def parseWs (s : String) : Writes := ((strSplit s ',').filter (· ≠ "")).filterMap parseW

def parseEvent (t : String) : Option GEvent :=
  match strSplit t '@' with
  | [e, g] =>
    let kind := e.take 2 |>.toString
    let rest := strDrop e 2
    if kind == "p=" then
      match parseW rest with
      | some (k, some v) => some (.put k v, natOf g)
      | _ => none
    else if kind == "d=" then
      match parseW rest with
      | some (k, none) => some (.del k, natOf g)
      | _ => none
    else if kind == "b=" then some (.batch (parseWs rest), natOf g)
    else none
  | _ => none

def parseBlk (s : String) : Blk :=
  let fs := strSplit s ':'
  let n (i : Nat) : Nat := natOf (fs.getD i "")
  { hash := n 0, parent := n 1, num := n 2, root := n 3, txs := splitNats (fs.getD 4 "") '.' }

def parseStep (t : String) : Option Step :=
  match strSplit t '/' with
  | "I" :: b :: c :: fl => some (.importBlock (parseBlk b) (c == "1") (fl.map parseWs))
  | ["N", b] => some (.sideNoState (parseBlk b))
  | "S" :: fl => some (.stop (fl.map parseWs))
  | ["Z", n] => some (.setHead (natOf n))
  | ["O"] => some .opened
  | _ => none

/-! rendering (canonical: the writes of a batch are compared as a multiset) -/

def renderKey : Key → String
  | .header h => s!"h{h}" | .td h => s!"t{h}" | .canon n => s!"c{n}" | .body h => s!"y{h}" | .receipts h => s!"r{h}"
  | .hashNum h => s!"H{h}" | .lookup t => s!"l{t}" | .lastBlock => "B" | .lastHeader => "E" | .lastFast => "F"
  | .node h => s!"n{h}" | .preimage h => s!"s{h}" | .other => "o"

def renderVal : Val → String
  | .hdr p n r => s!":{p}:{n}:{r}" | .num n => s!":{n}" | .ref h => s!":{h}" | .txs ts => ":" ++ ".".intercalate (ts.map toString)
  | .node cs => ":" ++ ".".intercalate (cs.map toString) | .blob => ""

def renderW : Key × Option Val → String
  | (k, some v) => renderKey k ++ renderVal v
  | (k, none) => "-" ++ renderKey k

def insertSorted (x : String) : List String → List String
  | [] => [x]
  | y :: ys => if x ≤ y then x :: y :: ys else y :: insertSorted x ys

def sortStrs (xs : List String) : List String := xs.foldr insertSorted []

def renderEvent : GEvent → String
  | (.put k v, g) => s!"p={renderW (k, some v)}@{g}"
  | (.del k, g) => s!"d={renderW (k, none)}@{g}"
  | (.batch ws, g) => "b=" ++ ",".intercalate (sortStrs (ws.map renderW)) ++ s!"@{g}"

def firstDiff : List String → List String → Nat → Option String
  | [], [], _ => none
  | a :: as, b :: bs, i => if a == b then firstDiff as bs (i + 1) else some s!"{i}:model={a}:observed={b}"
  | a :: _, [], i => some s!"{i}:model={a}:observed=end"
  | [], b :: _, i => some s!"{i}:model=end:observed={b}"

def outcomeStr : Outcome → String
  | .ok h _ => s!"k{h}"
  | .errNoGenesis => "E"
  | .panicReset => "P"
  | .panicRepair => "P"

/-- per-prefix `recover` outcome and `imageOK` -/
def prefixes (archive : Bool) : Db → Hash → List GEvent → List String
  | db, g, [] => [outcomeStr (recover db) ++ (if imageOK archive db g then "+" else "-")]
  | db, g, (e, g') :: rest =>
    (outcomeStr (recover db) ++ (if imageOK archive db g then "+" else "-")) :: prefixes archive (apply db e) g' rest

/-- does the Go string contain a bad prefix where the model's image is OK?  (both are lists of `k<id>+` style tokens) -/
def contradicts : List String → List String → Bool
  | m :: ms, g :: gs => (m.endsWith "+" && (!(g.endsWith "+") || m != g)) || contradicts ms gs
  | _, _ => false

def dropLast (s : String) : String := String.ofList s.toList.dropLast

/-- the per-prefix strings correspond: the same `recover` outcome everywhere, and wherever the image satisfies the
    discipline the real reopen was judged good.  (`LocalOK` is sufficient, not necessary: e.g. a pruning node that
    rewinds below a mismatching canonical entry still satisfies the property.) -/
def corresponds : List String → List String → Bool
  | [], [] => true
  | m :: ms, g :: gs => dropLast m == dropLast g && (!(m.endsWith "+") || g.endsWith "+") && corresponds ms gs
  | _, _ => false

/-- `triemem <root> <fuel> <k> | n<id>:<c>.<c> …`: the memory layer of a real trie.Database before a `Commit(root)` whose flush
    failed after `k` node puts had reached the disk, followed by a successful `Commit(root)`.  The model answers whether the
    disk is closed afterwards and how many distinct nodes the SECOND commit puts (the failed one must not have uncached). -/
def handleTrieMem (hd : String) (nodesS : String) (go : String) : String :=
  match fields hd with
  | ["triemem", r, f, k] =>
    let mem : Mem := (fields nodesS).filterMap fun t =>
      match parseW t with
      | some (.node h, some (.node cs)) => some (h, cs)
      | _ => none
    let root := natOf r
    let fuel := natOf f
    let md1 := commitStep true fuel (mem, []) root (some (natOf k))
    let second := (commitMem md1.1 fuel root).map (·.1)
    let md2 := commitStep true fuel md1 root none
    let m := s!"closed={if closedB md2.2 then 1 else 0} second={second.eraseDups.length} fuelok={if commitFuelOK mem fuel root then 1 else 0}"
    if m == go then m ++ "\tagree"
    else if go.startsWith "closed=0" then m ++ "\tspec-reject:disk-not-closed-after-failed-and-retried-commit"
    else m ++ "\tspec-ok"
  | _ => "bad-op\tagree"

def handle (l : String) : String :=
  let (inp, go) := splitCase l
  if inp.startsWith "triemem " then
    match inp.splitOn " | " with
    | [hd, nodesS] => handleTrieMem hd nodesS go
    | _ => "bad-op\tagree"
  else
  match inp.splitOn " | " with
  | [hd, initS, stepsS, evS] =>
    match fields hd with
    | ["trace", ar, g0] =>
      let archive := ar == "1"
      let ghost0 := natOf g0
      let db0 : Db := (parseWs (",".intercalate (fields initS))).foldl applyW []
      let steps := (fields stepsS).filterMap parseStep
      let obs := (fields evS).filterMap parseEvent
      if steps.length != (fields stepsS).length || obs.length != (fields evS).length then "bad-parse\tspec-ok"
      else
        let obsR := obs.map renderEvent
        let variants : List (String × Variant) :=
          [("preFix", .preFix), ("batchFirstOnly", ⟨true, false, false⟩), ("atomicInsertOnly", ⟨false, true, false⟩),
           ("fix1", .fix1), ("head", .head)]
        let diffs := variants.map fun (nm, v) => (nm, firstDiff ((writeLog v db0 ghost0 steps).map renderEvent) obsR 0)
        let matching := (diffs.filter fun d => d.2.isNone).map (·.1)
        let (v, ltxt) :=
          if matching.isEmpty then
            ("none", "diff" ++ String.join (diffs.map fun d => s!"[{d.1}@{d.2.getD ""}]"))
          else ("+".intercalate matching, "ok")
        let pr := prefixes archive db0 ghost0 obs
        let m := s!"V={v} L={ltxt} R=" ++ " ".intercalate pr
        -- Go: V=… L=ok R=tok tok …
        let goR := match go.splitOn " R=" with
          | [_, r] => fields r
          | _ => []
        -- the variant is reported by the model only (the harness cannot tell variants apart that produce the same log)
        if ltxt == "ok" && corresponds pr goR then m ++ "\tagree"
        else if contradicts pr goR then m ++ "\tspec-reject:image-satisfies-LocalOK-but-real-reopen-fails"
        else m ++ "\tspec-ok"
    | _ => "bad-op\tagree"
  | _ => "bad-op\tagree"

def main : IO Unit := runLines handle

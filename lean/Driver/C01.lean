import Aqv.Base.Proto
import Aqv.Model.BlockImport
open Aqv Aqv.Proto Aqv.BlockImport

/-!
  Model driver for C01.  Two kinds of case lines (see go/harness/cmd/c01/cases.go and fin.go):

  `imp …`  one block delivered to a node that holds its parent.  The harness supplies the header's six commitments and
           the component values recomputed by the real code outside the import path (DeriveSha of the body, CalcUncleHash,
           the engine's header / uncle verdicts, per-transaction gas / status / logs of an independent Process, its state
           root and receipt root).  The driver instantiates the abstract components of `Aqv.BlockImport` with these values
           (Keccak-based bloom computed here), builds a two-block store and runs the MODEL's `importBlock`; it answers what
           the model stores (`accept gas= cum= bloom=`) or the first failing check (`reject <class>`).
  `fin …`  a dirty set dumped right before `StateDB.Finalise`.  The driver runs the model's `finalise` in the given order
           and in the reversed order (they must agree) and answers the account / storage contents afterwards.
-/

def hexNat (s : String) : Nat :=
  s.toList.foldl (fun acc c => match hexVal c with | some d => acc * 16 + d | none => acc) 0

def natHex (n : Nat) : String :=
  if n = 0 then "0" else
    let rec go (fuel n : Nat) (acc : List Char) : List Char :=
      match fuel with
      | 0 => acc
      | f + 1 => if n = 0 then acc else go f (n / 16) (hexDigit (n % 16) :: acc)
    String.ofList (go (n.log2 + 2) n [])

def padLeft (w : Nat) (bs : Bytes) : Bytes := List.replicate (w - bs.length) 0 ++ bs

def kv (tok : String) : String × String :=
  match tok.splitOn "=" with
  | [k] => (k, "")
  | k :: rest => (k, "=".intercalate rest)
  | [] => ("", "")

def lookup (m : List (String × String)) (k : String) : String :=
  match m.find? (fun p => p.1 == k) with
  | some p => p.2
  | none => ""

structure RInfo where
  failed : Bool
  post : Option Nat
  gas : Nat
  logs : List Log

def parseLog (s : String) : Log :=
  match s.splitOn ":" with
  | a :: ts => { addr := hexNat a, topics := ts.map hexNat, data := 0 }
  | [] => { addr := 0, topics := [], data := 0 }

def parseR (s : String) : RInfo :=
  match s.splitOn ";" with
  | [f, p, g, ls] =>
    { failed := f == "1", post := if p == "-" then none else some (hexNat p), gas := g.toNat!,
      logs := if ls == "" then [] else (ls.splitOn "+").map parseLog }
  | _ => { failed := false, post := none, gas := 0, logs := [] }

def finalMark : Nat := 1000000007

def mkComp (ri : Array RInfo) (pOk : Bool) (cTx cUn cRoot cRc : Nat) : Comp Nat Nat :=
  { applyMsg := fun _ _ st pool tx =>
      if !pOk then .error 1 else
      match ri[tx]? with
      | some r => .ok { st := st + 1, gas := r.gas, failed := r.failed, logs := r.logs, pool := pool - r.gas }
      | none => .error 2,
    finalise := fun _ st => st,
    root := fun st => if st = finalMark then cRoot else
      match ri[st - 1]? with
      | some r => r.post.getD 0
      | none => 0,
    hf4Edit := id, hf5Edit := id,
    addBalance := fun _ _ _ => finalMark,
    txRoot := fun _ => cTx, uncleHash := fun _ => cUn, receiptRoot := fun _ => cRc,
    logBloom := fun l => logBloomBytes (padLeft 20 (beBytes l.addr)) (l.topics.map (fun t => padLeft 32 (beBytes t))),
    hashHeader := fun h => h.extra,
    blockReward := 1, maxMoney := 42000000,
    calcGasLimit := fun _ => 0, calcDifficulty := fun _ _ => 0 }

def errClass : Err → String
  | .headerInvalid => "header" | .blacklisted => "header" | .noChain => "header"
  | .unknownAncestor => "unknown-ancestor" | .noParentState => "no-parent-state" | .panic => "panic"
  | .unclesInvalid => "uncles" | .uncleHash => "uncle-hash" | .txRoot => "tx-root" | .apply _ => "apply"
  | .gasUsed => "gas-used" | .bloom => "bloom" | .receiptRoot => "receipt-root" | .stateRoot => "state-root"

def handleImp (toks : List String) (go : String) : String :=
  let m := toks.map kv
  let num := (lookup m "num").toNat!
  let ntx := (lookup m "ntx").toNat!
  let hs := (lookup m "H").splitOn ","
  let bs := (lookup m "B").splitOn ","
  let ps := (lookup m "P").splitOn ","
  match hs, bs, ps with
  | [hTx, hUn, hRoot, hRc, hBloom, hGas], [cTx, cUn], [pOk, cRoot, cRc] =>
    let rstr := lookup m "R"
    let ri : Array RInfo := if rstr == "" then #[] else ((rstr.splitOn "/").map parseR).toArray
    let comp := mkComp ri (pOk == "ok") (hexNat cTx) (hexNat cUn) (hexNat cRoot) (hexNat cRc)
    let hv := lookup m "hv" == "1"
    let uv := lookup m "uv" == "1"
    let C : ChainComp Nat Nat :=
      { comp with verifyHeader := fun _ _ => hv, verifyUncles := fun _ _ => uv, blacklisted := fun _ => false, bodyFirst := true }
    let cfg : Cfg := { hf4 := none, hf5 := none, byzantium := if lookup m "byz" == "1" then some 0 else none, eip158 := some 0 }
    let ph : Header := { parentHash := 0, number := num - 1, coinbase := 0, gasLimit := 0, time := 0, difficulty := 1, extra := 1,
                         uncleHash := 0, root := 77, txHash := 0, receiptHash := 0, bloom := 0, gasUsed := 0 }
    let S : Store Nat Nat :=
      { blocks := upd (fun _ => none) 1 (some { block := { header := ph, txs := [], uncles := [] }, td := 1, receipts := some [], gasUsed := 0 }),
        states := upd (fun _ => none) 77 (some 0), head := 1, log := [] }
    let h : Header := { parentHash := 1, number := num, coinbase := 0, gasLimit := 1000000000000, time := 1, difficulty := 1, extra := 2,
                        uncleHash := hexNat hUn, root := hexNat hRoot, txHash := hexNat hTx, receiptHash := hexNat hRc,
                        bloom := hexNat hBloom, gasUsed := hGas.toNat! }
    let b : Block Nat := { header := h, txs := List.range ntx, uncles := [] }
    let (o, S') := importBlock C cfg false S b
    let model :=
      match o with
      | .written =>
        match S'.blocks 2 with
        | some s =>
          let rs := s.receipts.getD []
          s!"accept gas={s.gasUsed} cum={",".intercalate (rs.map (fun r => toString r.cumGas))} bloom={natHex (createBloom comp rs)}"
        | none => "accept-but-not-stored"
      | .abort e => "reject " ++ errClass e
      | .skipped => "skipped"
      | .side => "side"
    -- Spec judgement of the real node's verdict: accepting is allowed only when the model (= the recomputed commitments) accepts
    -- with the same stored results; refusing is always within the property.
    let specOk := !(go.startsWith "accept")
    verdict model go specOk "accepted-block-fails-recomputed-commitments"
  | _, _, _ => "bad-op\tagree"

def parseKV3 (s : String) : List (Nat × Nat × Nat) :=
  if s == "" then [] else
  (s.splitOn ";").map (fun e =>
    match e.splitOn ":" with
    | [k, v, p] => (k.toNat!, v.toNat!, p.toNat!)
    | _ => (0, 0, 0))

def handleFin (toks : List String) (go : String) : String :=
  match toks with
  | [_, delS, body] =>
    let del := delS == "1"
    let entries := (body.splitOn "|").map (fun e => e.splitOn ",")
    let parsed := entries.filterMap (fun f =>
      match f with
      | [idx, hasObj, sui, nonce, bal, codeEmpty, kvs] =>
        some (idx.toNat!, hasObj == "1", sui == "1", nonce.toNat!, bal.toNat!, codeEmpty == "1", parseKV3 kvs)
      | [idx, hasObj, sui, nonce, bal, codeEmpty] =>
        some (idx.toNat!, hasObj == "1", sui == "1", nonce.toNat!, bal.toNat!, codeEmpty == "1", [])
      | _ => none)
    let objs : Nat → Option Obj := parsed.foldl (fun m (idx, hasObj, sui, nonce, bal, ce, kvs) =>
      if hasObj then
        upd m idx (some { nonce := nonce, balance := bal, codeHash := if ce then 0 else 1, sroot := 0,
                          storage := kvs.foldl (fun s (k, _, p) => upd s k p) (fun _ => 0),
                          dirty := kvs.foldl (fun d (k, v, _) => upd d k (some v)) (fun _ => none),
                          suicided := sui, deleted := false })
      else m) (fun _ => none)
    let s : SDB := { trie := fun _ => none, objs := objs, dirty := fun a => parsed.any (fun p => p.1 == a), fault := false }
    let order := parsed.map (·.1)
    let keysOf (a : Nat) : List Nat := match parsed.find? (fun p => p.1 == a) with | some p => p.2.2.2.2.2.2.map (·.1) | none => []
    let R : (Slot → Word) → Hash := fun _ => 0
    let s1 := finalise R del order keysOf s
    let s2 := finalise R del order.reverse (fun a => (keysOf a).reverse) s
    let render (t : SDB) : String :=
      "|".intercalate (order.map (fun a =>
        match t.trie a, t.objs a with
        | some l, some o => s!"{a}=1,{l.nonce},{l.balance}," ++ ";".intercalate ((keysOf a).map (fun k => s!"{k}:{o.storage k}"))
        | _, _ => s!"{a}=0"))
    let out := if s1.fault then "fault" else if render s1 != render s2 then "order-dependent" else render s1
    verdict out go true "finalise"
  | _ => "bad-op\tagree"

def handle (l : String) : String :=
  let (inp, go) := splitCase l
  match fields inp with
  | "imp" :: rest => handleImp rest go
  | "fin" :: rest => handleFin ("fin" :: rest) go
  | _ => "bad-op\tagree"

def main : IO Unit := runLines handle

/-
  Model driver for C09 (journalled StateDB). One case line = one history:
    input  : `h <action> <action> ...`          (actions as produced by go/harness/cmd/c09)
    go out : one observation per action, space separated
  The driver replays the actions on `Aqv.Model.State` and prints the same observations. Roots are compared as classes:
  the Go side numbers distinct root hashes by first appearance, the model numbers distinct trie contents (restricted to
  the tracked accounts/slots) by first appearance — equal strings mean "equal content ⇔ equal root" on the whole history.
  When the outputs differ the Go output is judged against the property on its own (revert restores the recorded view,
  roots are a function of the reported content, reopen/copy read back) to tell spec-reject from spec-ok.
-/
import Aqv.Base.Proto
import Aqv.Model.State
import Aqv.Model.StateRoot
import Aqv.Model.StateCache
import Aqv.Base.Keccak
open Aqv Aqv.Proto Aqv.State

def tracked : List Nat := [1, 2, 3, 4, 5]
def slots : List Nat := [0, 1, 2]
def hkeys : List Nat := [0, 1, 2]

def joinWith (sep : String) (xs : List String) : String := sep.intercalate xs

def showAcctView (a : Nat) (s : SDB) : String :=
  match look s a with
  | none => toString a ++ ":-"
  | some o =>
    toString a ++ ":" ++ toString o.nonce ++ "," ++ toString o.balance ++ "," ++ hexOrDash o.code ++ "," ++
      (if o.suicided then "S" else "s") ++ "," ++ joinWith "," (slots.map (fun k => toString (getState o k)))

def showAccts (s : SDB) : String := joinWith ";" (tracked.map (fun a => showAcctView a s))

def showAux (s : SDB) : String :=
  "R" ++ toString s.refund ++ ";L" ++
    joinWith "," (s.logs.reverse.map (fun l => toString l.1 ++ "." ++ toString l.2.1 ++ "." ++ toString l.2.2)) ++
    ";P" ++ joinWith "," (hkeys.map (fun h => match s.preimages h with | some p => toString p | none => "-"))

def insertSorted (x : Nat) : List Nat → List Nat
  | [] => [x]
  | y :: ys => if x ≤ y then x :: y :: ys else y :: insertSorted x ys

def showInternal (s : SDB) : String :=
  "D" ++ joinWith "." ((s.dirty.foldl (fun acc x => insertSorted x acc) []).map toString) ++ ";F" ++
    String.join (tracked.map (fun a =>
      match s.objs a with
      | none => "a-n"
      | some o => (if o.armed then "a" else "u") ++ (if o.deleted then "x" else "-") ++ "p")) ++
    ";J" ++ toString s.journal.length ++ "." ++ toString s.revs.length

def showState (s : SDB) : String := showAccts s ++ ";" ++ showAux s ++ ";" ++ showInternal s

/-- fingerprint of a trie content on the tracked accounts/slots (stands for `mptRoot content`). -/
def fingerprint (t : Addr → Option Acct) : String :=
  joinWith ";" (tracked.map (fun a =>
    match t a with
    | none => "-"
    | some c => toString c.nonce ++ "," ++ toString c.balance ++ "," ++ hexOrDash c.code ++ "," ++
        joinWith "," (slots.map (fun k => toString (c.storage k)))))

/-- Keccak-256 with the (constant) secure-trie keys of the tracked addresses and slots precomputed once. -/
def keyTable : List (Bytes × Bytes) :=
  (tracked.map fun a => (addrBytes a, Keccak.keccak256 (addrBytes a))) ++ (slots.map fun k => (slotBytes k, Keccak.keccak256 (slotBytes k)))

def HK (b : Bytes) : Bytes :=
  match keyTable.find? (fun kv => kv.1 == b) with
  | some kv => kv.2
  | none => Keccak.keccak256 b

/-- the real 32-byte state root of a trie content, recomputed independently of the Go code (spec construction, Lean Keccak). -/
def realRoot (t : Addr → Option Acct) : String := hexOfBytes (stateRootSpec HK tracked slots t)

structure DState where
  cur : SDB
  alts : List SDB            -- the other live StateDBs (copies, instances opened at a committed root), at most 2
  committed : Array (Addr → Option Acct)
  classes : Array String
  quiet : Bool := false      -- cold-cache history: observations only after fi/rt/cm/dm

def pushAlt (alts : List SDB) (o : SDB) : List SDB :=
  (if alts.length ≥ 2 then alts.drop 1 else alts) ++ [o]

def classOf (d : DState) (fp : String) : DState × String :=
  match d.classes.findIdx? (· == fp) with
  | some i => (d, "r" ++ toString i)
  | none => ({ d with classes := d.classes.push fp }, "r" ++ toString d.classes.size)

/-- root observation: content class and the recomputed 32-byte root. -/
def rootObs (d : DState) (t : Addr → Option Acct) : DState × String :=
  let (d', c) := classOf d (fingerprint t)
  (d', c ++ ":" ++ realRoot t)

def parseInt (s : String) : Option Int := s.toInt?
def parseNat (s : String) : Option Nat := s.toNat?

/-- net-effect replay: a fresh StateDB populated through the setters with the content the getters report. -/
def netEffect (s : SDB) : SDB :=
  let f := tracked.foldl (fun (acc : SDB) a =>
    match look s a with
    | none => acc
    | some o =>
      let acc := addBalance acc a 0
      let acc := if o.balance ≠ 0 then setBalance acc a o.balance else acc
      let acc := if o.nonce ≠ 0 then setNonce acc a o.nonce else acc
      let acc := if !o.code.isEmpty then setCode acc a o.code else acc
      slots.foldl (fun acc k => if getState o k ≠ 0 then setState acc a k (getState o k) else acc) acc) (fresh (fun _ => none))
  finalise false f

inductive Res
  | ok (d : DState) (obs : String)
  | panic

/-- execute one action; `none` = malformed action text. -/
def act (d : DState) (a : String) (dump : Bool) : Option Res :=
  let f := a.splitOn ":"
  let s := d.cur
  -- the harness reads every getter of the tracked accounts before it prints an observation: `getStateObject` caches the
  -- objects it loads (Aqv.Model.StateCache); in cold-cache histories nothing is read between checkpoints
  let wm (x : SDB) : SDB := if dump then warm x tracked else x
  let fin (s' : SDB) (ret : String) : Option Res :=
    if s'.fault then some .panic else some (.ok { d with cur := wm s' } (ret ++ "/" ++ showState (wm s')))
  match f with
  | ["ca", x] => do let x ← parseNat x; fin (createAccount s x) ""
  | ["ab", x, v] => do let x ← parseNat x; let v ← parseInt v; fin (addBalance s x v) ""
  | ["sb", x, v] => do let x ← parseNat x; let v ← parseInt v; fin (subBalance s x v) ""
  | ["bl", x, v] => do let x ← parseNat x; let v ← parseInt v; fin (setBalance s x v) ""
  | ["no", x, n] => do let x ← parseNat x; let n ← parseNat n; fin (setNonce s x n) ""
  | ["co", x, c] => do let x ← parseNat x; let c ← bytesOfHex c; fin (setCode s x c) ""
  | ["st", x, k, v] => do let x ← parseNat x; let k ← parseNat k; let v ← parseNat v; fin (setState s x k v) ""
  | ["sd", x] => do let x ← parseNat x; fin (suicide s x) (if (look s x).isSome then "1" else "0")
  | ["rf", g] => do let g ← parseNat g; fin (addRefund s g) ""
  | ["lg", t] => do let t ← parseNat t; fin (addLog s t) ""
  | ["pi", h, p] => do let h ← parseNat h; let p ← parseNat p; fin (addPreimage s h p) ""
  | ["pp", t] => do let t ← parseNat t; fin (prepare s t) ""
  | ["sn"] => let r := snapshot s; fin r.1 (toString r.2)
  | ["rv", id] => do
    let id ← parseNat id
    match revertTo id s with
    | none => some .panic
    | some s' => fin s' ""
  | ["fi", b] => fin (finalise (b == "1") s) ""
  | ["rt", b] =>
    let s' := finalise (b == "1") s
    if s'.fault then some .panic else
    let (d', c) := rootObs d s'.trie
    some (.ok { d' with cur := wm s' } (c ++ "/" ++ showState (wm s')))
  | ["cm", b] =>
    let s' := commit (b == "1") s
    if s'.fault then some .panic else
    let (d', c) := rootObs d s'.trie
    some (.ok { d' with cur := wm s', committed := d'.committed.push s'.trie } (c ++ "/" ++ showState (wm s')))
  | ["ro", k] => do
    let k ← parseNat k
    match d.committed[k]? with
    | none => some .panic
    | some c => let s' := wm (fresh c); some (.ok { d with cur := s' } ("ok/" ++ showState s'))
  | ["rs", k] => do
    let k ← parseNat k
    match d.committed[k]? with
    | none => some .panic
    | some c => let s' := wm (reset s c); if s'.fault then some .panic else some (.ok { d with cur := s' } ("ok/" ++ showState s'))
  | ["cp"] =>
    let c := copy s
    if c.fault then some .panic else
    some (.ok { d with cur := wm s, alts := pushAlt d.alts (wm c) } ("ok/" ++ showState (wm s) ++ "/" ++ showState (wm c)))
  | ["on", k] => do
    let k ← parseNat k
    match d.committed[k]? with
    | none => some .panic
    | some c => let n := wm (fresh c); some (.ok { d with cur := wm s, alts := pushAlt d.alts n } ("ok/" ++ showState (wm s) ++ "/" ++ showState n))
  | ["q"] => some (.ok { d with quiet := true } ("ok/" ++ showState s))
  | ["dm"] => some (.ok { d with cur := wm s } ("ok/" ++ showState (wm s)))
  | ["sw"] =>
    match d.alts with
    | [] => some (.ok { d with cur := wm s } ("ok/" ++ showState (wm s)))
    | o :: rest => some (.ok { d with cur := wm o, alts := rest ++ [s] } ("ok/" ++ showState (wm o)))
  | ["ne"] =>
    let n := netEffect s
    if n.fault then some .panic else
    let (d', c) := rootObs d n.trie
    some (.ok { d' with cur := wm s } (c ++ "/" ++ showState (wm s)))
  | _ => none

def isCheckpoint (a : String) : Bool :=
  match a.splitOn ":" with
  | "fi" :: _ => true
  | "rt" :: _ => true
  | "cm" :: _ => true
  | "dm" :: _ => true
  | _ => false

def retOf (ob : String) : String := (ob.splitOn "/").headD ""

def runActs : List String → DState → List String → List String
  | [], _, acc => acc.reverse
  | a :: rest, d, acc =>
    let dump := !((d.quiet || a == "q") && !isCheckpoint a)
    match act d a dump with
    | none => ("bad-op" :: acc).reverse
    | some .panic => ("panic" :: acc).reverse
    | some (.ok d' o) =>
      let o' := if !dump then retOf o ++ "/~" else o
      runActs rest d' (o' :: acc)

/-! ### judging the Go output on its own (only used when it differs from the model) -/

/-- the getters' part of one observation (`ret/accts;R;L;P;D;F;J`): accounts, refund, logs, preimages. -/
def viewPart (ob : String) : String :=
  match ob.splitOn "/" with
  | _ :: st :: _ => joinWith ";" ((st.splitOn ";").take 8)
  | _ => ob

def acctPart (ob : String) : String :=
  match ob.splitOn "/" with
  | _ :: st :: _ => joinWith ";" ((st.splitOn ";").take 5)
  | _ => ob

def retPart (ob : String) : String := (ob.splitOn "/").headD ""

def copyPart (ob : String) : String :=
  match ob.splitOn "/" with
  | _ :: _ :: st :: _ => joinWith ";" ((st.splitOn ";").take 8)
  | _ => ""

/-- parse one account of a Go view (`a:-` or `a:nonce,balance,code,S|s,k0,k1,k2`). -/
def parseAcctView (f : String) : Option (Nat × Option Acct) :=
  match f.splitOn ":" with
  | [a, "-"] => a.toNat?.map fun a => (a, none)
  | [a, rest] =>
    match rest.splitOn ",", a.toNat? with
    | [n, b, c, _, k0, k1, k2], some a => do
      let n ← n.toNat?; let b ← b.toInt?; let c ← bytesOfHex c
      let k0 ← k0.toNat?; let k1 ← k1.toNat?; let k2 ← k2.toNat?
      if b < 0 then none else
      some (a, some { nonce := n, balance := b, code := c, storage := fun k => if k = 0 then k0 else if k = 1 then k1 else if k = 2 then k2 else 0 })
    | _, _ => none
  | _ => none

/-- the content a Go observation reports, as a map (none = unparsable / negative balance). -/
def contentOfObs (ob : String) : Option (Addr → Option Acct) :=
  match ob.splitOn "/" with
  | _ :: st :: _ =>
    ((st.splitOn ";").take 5).foldl (fun acc f =>
      match acc, parseAcctView f with
      | some m, some (a, c) => some (upd m a c)
      | _, _ => none) (some (fun _ => none))
  | _ => none

/-- the root the specification defines for the content the Go getters report after a root action, vs the root Go returned. -/
def goRootMatchesSpec (ob : String) : Bool :=
  match (retPart ob).splitOn ":", contentOfObs ob with
  | [_, hex], some m => hex == realRoot m
  | _, _ => true

structure JState where
  curId : Nat := 0
  altIds : List Nat := []
  nextState : Nat := 1
  snaps : List ((Nat × String) × String) := []      -- ((state id, snapshot id), view)
  commits : Array String := #[]
  roots : List (String × String) := []               -- (content, class)
  why : Option String := none

def judgeStep (j : JState) (a ob : String) : JState :=
  if j.why.isSome then j else
  if ob.endsWith "/~" then
    -- cold-cache observation: nothing to judge, but keep track of which StateDB is current
    match a.splitOn ":" with
    | ["ro", _] => { j with curId := j.nextState, nextState := j.nextState + 1 }
    | ["cp"] => { j with altIds := (if j.altIds.length ≥ 2 then j.altIds.drop 1 else j.altIds) ++ [j.nextState], nextState := j.nextState + 1 }
    | ["on", _] => { j with altIds := (if j.altIds.length ≥ 2 then j.altIds.drop 1 else j.altIds) ++ [j.nextState], nextState := j.nextState + 1 }
    | ["sw"] => (match j.altIds with | o :: rest => { j with curId := o, altIds := rest ++ [j.curId] } | [] => j)
    | _ => j
  else
  let f := a.splitOn ":"
  let bad (w : String) : JState := { j with why := some w }
  let rootCheck (content cls : String) : JState :=
    match j.roots.find? (fun r => r.1 == content), j.roots.find? (fun r => r.2 == cls) with
    | some r, _ => if r.2 == cls then j else bad "root-depends-on-history"
    | none, some _ => bad "distinct-contents-share-a-root"
    | none, none => { j with roots := (content, cls) :: j.roots }
  match f with
  | ["sn"] => { j with snaps := ((j.curId, retPart ob), viewPart ob) :: j.snaps }
  | ["rv", id] =>
    match j.snaps.find? (fun s => s.1 == (j.curId, id)) with
    | some s => if s.2 == viewPart ob then j else bad "revert-not-exact"
    | none => j
  | ["rt", _] =>
    if goRootMatchesSpec ob then rootCheck (acctPart ob) (retPart ob) else bad "root-differs-from-stateRootSpec-of-reported-content"
  | ["cm", _] =>
    if goRootMatchesSpec ob then { rootCheck (acctPart ob) (retPart ob) with commits := j.commits.push (acctPart ob) }
    else bad "root-differs-from-stateRootSpec-of-reported-content"
  | ["ro", k] | ["rs", k] =>
    match k.toNat? with
    | some k =>
      let j' := if f.head! == "ro" then { j with curId := j.nextState, nextState := j.nextState + 1 } else j
      match j.commits[k]? with
      | some c => if c == acctPart ob then j' else bad "reopen-differs"
      | none => j'
    | none => j
  | ["cp"] =>
    let j' := { j with altIds := (if j.altIds.length ≥ 2 then j.altIds.drop 1 else j.altIds) ++ [j.nextState], nextState := j.nextState + 1 }
    if copyPart ob == viewPart ob then j' else bad "copy-differs"
  | ["on", k] =>
    let j' := { j with altIds := (if j.altIds.length ≥ 2 then j.altIds.drop 1 else j.altIds) ++ [j.nextState], nextState := j.nextState + 1 }
    match k.toNat? with
    | some k =>
      match j.commits[k]? with
      | some c => if c == joinWith ";" ((copyPart ob).splitOn ";" |>.take 5) then j' else bad "reopen-differs"
      | none => j'
    | none => j'
  | ["sw"] =>
    match j.altIds with
    | o :: rest => { j with curId := o, altIds := rest ++ [j.curId] }
    | [] => j
  | _ => j

def judge (acts obs : List String) : Option String :=
  let rec go (j : JState) : List String → List String → JState
    | a :: as, o :: os => go (judgeStep j a o) as os
    | _, _ => j
  (go {} acts obs).why

def handle (l : String) : String :=
  let (inp, go) := splitCase l
  match fields inp with
  | "h" :: acts =>
    let d0 : DState := { cur := fresh (fun _ => none), alts := [], committed := #[], classes := #[] }
    let m := joinWith " " (runActs acts d0 [])
    if m == go then m ++ "\tagree"
    else
      match judge acts (fields go) with
      | none => m ++ "\tspec-ok"
      | some w => m ++ "\tspec-reject:" ++ w
  | _ => "bad-op\tagree"

def main : IO Unit := runLines handle

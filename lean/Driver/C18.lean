import Aqv.Base.Proto
import Aqv.Gen.Rpc
open Aqv Aqv.Proto Aqv.Model.Rpc Aqv.Gen.Rpc

/-!
  Model driver for C18. Case lines (written by go/harness/cmd/c18):

    F <env>                                   go: inproc=b ipc=b http=b ws=b all=b      flags as package rpc read them
    X <kind> <env> <cfg> <transport>          go: sorted keys of Server.services        exact exposed set
    M <kind> <env> <cfg> <transport>          go: rpc_modules answer                    exposed namespaces
    S <kind> <env> <cfg> <transport> <key> <variant>
                                              go: <signed|entered|quiet> <outcome> <evidence> <delta>

  <env> = five comma-separated raw values (inproc,ipc,http,ws,all): `u` unset | `s<hex>` present with that value, <cfg> = h=<mods|->;w=<mods|->;a=<0|1>, <key> = ns.name(=|~)rcvr.GoName.
  The judgements use the definitions the theorems of Aqv.Props.C18 are about: `exposed`, `signs`, `optedIn`.
-/

/-- one variable: `u` = unset, `s<hex>` = present with that value (hex of the bytes; `s` alone = present but empty). -/
def parseVal (s : String) : Option (Option String) :=
  match s.toList with
  | ['u'] => some none
  | 's' :: hex =>
    match bytesOfHex (if hex.isEmpty then "-" else String.ofList hex) with
    | some bs => some (some (String.ofList (bs.map (fun b => Char.ofNat b.toNat))))
    | none => none
  | _ => none

/-- the raw environment: five comma-separated values in the order inproc, ipc, http, ws, all. -/
def parseRaw (s : String) : Option RawEnv :=
  match (s.splitOn ",").map parseVal with
  | [some a, some b, some c, some d, some e] => some ⟨a, b, c, d, e⟩
  | _ => none

/-- the flags as the documented reading gives them (= the model of sense.EnvBool, theorem envBool_eq_envOn). -/
def parseEnv (s : String) : Option Env := (parseRaw s).map RawEnv.read

def parseKind : String → Option Kind
  | "pow" => some .pow
  | "clique" => some .clique
  | _ => none

def parseTransport (s : String) : Option Transport := Transport.all.find? (fun t => t.name == s)

def parseMods (s : String) : List String := if s == "-" || s == "" then [] else s.splitOn ","

def parseCfg (s : String) : Cfg :=
  (s.splitOn ";").foldl (fun c part =>
    match part.splitOn "=" with
    | ["h", v] => { c with httpModules := parseMods v }
    | ["w", v] => { c with wsModules := parseMods v }
    | ["a", v] => { c with wsExposeAll := v == "1" }
    | _ => c) Cfg.default

def b01 (b : Bool) : String := if b then "1" else "0"

def joinOrDash (l : List String) : String := if l.isEmpty then "-" else ",".intercalate l

def findMethod (key : String) : Option Method := methods.find? (fun m => m.key == key)

/-- Spec judgement of an exposed set observed on the real node: no listed method that can reach signing without the opt-in,
    and (second sentence of the property) an opted-in transport offers the protected methods of the modules it serves. -/
def judgeExposure (k : Kind) (cfg : Cfg) (env : Env) (t : Transport) (goKeys : List String) : Option String :=
  let bad := goKeys.filter (fun key =>
    match findMethod key with
    | some m => signs k m && !optedIn env t
    | none => false)
  match bad with
  | b :: _ => some ("exposes-signer-without-opt-in:" ++ b)
  | [] =>
    let missing := (methods.filter (fun m => exposed params k cfg env t m && isProtected params m.goName && !m.isSub
                      && optedIn env t && !goKeys.contains m.key))
    match missing with
    | m :: _ => some ("opt-in-does-not-enable:" ++ m.key)
    | [] => none

def handle (l : String) : String :=
  let (inp, go) := splitCase l
  match fields inp with
  | ["F", bits] =>
    match parseEnv bits with
    | none => "bad-op\tagree"
    | some e =>
      let m := s!"inproc={b01 e.inproc} ipc={b01 e.ipc} http={b01 e.http} ws={b01 e.ws} all={b01 e.all}"
      -- an environment the process did not read as intended voids every other line of that child: not spec-acceptable
      verdict m go false "environment-not-read-as-set"
  | ["X", ks, bits, cfgs, ts] =>
    match parseKind ks, parseEnv bits, parseTransport ts with
    | some k, some env, some t =>
      let cfg := parseCfg cfgs
      let m := joinOrDash (exposedKeys params methods k cfg env t)
      if m == go then m ++ "\tagree"
      else
        match judgeExposure k cfg env t (parseMods go) with
        | some why => m ++ "\tspec-reject:" ++ why
        | none => m ++ "\tspec-ok"
    | _, _, _ => "bad-op\tagree"
  | ["M", ks, bits, cfgs, ts] =>
    match parseKind ks, parseEnv bits, parseTransport ts with
    | some k, some env, some t =>
      let m := joinOrDash (modules params methods k (parseCfg cfgs) env t)
      verdict m go true ""
    | _, _, _ => "bad-op\tagree"
  | ["S", ks, bits, _cfgs, ts, key, _variant] =>
    match parseKind ks, parseEnv bits, parseTransport ts with
    | some k, some env, some t =>
      let (obs, outcome) := match fields go with
        | o :: oc :: _ => (o, oc)
        | _ => ("?", "?")
      let produced := obs == "signed" || (obs == "entered" && outcome == "ok")
      let touched := obs == "signed" || obs == "entered"
      let opted := optedIn env t
      match findMethod key with
      | none =>
        let m := "unknown-method opted=" ++ b01 opted
        if produced && !opted then m ++ "\tspec-reject:signed-without-opt-in"
        else m ++ "\tspec-ok"
      | some row =>
        let may := signs k row
        let m := (if may then "may-sign" else "never-signs") ++ " opted=" ++ b01 opted
        if produced && !opted then m ++ "\tspec-reject:signed-without-opt-in"
        else if touched && !may then m ++ "\tspec-ok"   -- the static analysis missed a signing path: the tie is broken
        else if obs == "signed" || obs == "entered" || obs == "quiet" then m ++ "\tagree"
        else m ++ "\tspec-ok"
    | _, _, _ => "bad-op\tagree"
  | _ => "bad-op\tagree"

def main : IO Unit := runLines handle

import Aqv.Base.Proto
import Aqv.Model.Tx
open Aqv Aqv.Proto Aqv.Tx

/-!
  Model driver for C06. Case kinds (see go/harness/cmd/c06/main.go):
    ig  <nz> <z> <create> <homestead>
    gp  a<n>,s<n>,...
    srd <cumulative gas of the receipts of one block, as served by a fast-synced node>     → their per-transaction GasUsed
    msg <hs> <byz> <cb> <gp> <from> <c|t> <nonce> <check> <price> <gas> <value> <nz> <z> <pre> <evm>
    blk <hs> <byz> <cb> <gasLimit> <pre> <tx>...        tx = from:c|t:nonce:price:gas:value:nz:z:evm
  `pre`/`post` = b0,n0;b1,n1;b2,n2;b3,n3 (tracked accounts: three senders and the dedicated coinbase).
  `evm` = na | skip | coll | f~gasLeft~(n|i|r|o)~refundAdded~b0,n0;...   — what the real EVM left behind at depth 0.
-/

/-- the EVM oracle of one transaction. -/
inductive Oracle
  | na | skip | coll
  | fired (gasLeft : Nat) (err : Option VmErr) (refund : Nat) (obs : List (Nat × Nat))

def nat? (s : String) : Option Nat := s.toNat?

def parsePairs (s : String) : Option (List (Nat × Nat)) :=
  (s.splitOn ";").mapM (fun p => match p.splitOn "," with
    | [a, b] => do let x ← nat? a; let y ← nat? b; pure (x, y)
    | _ => none)

def parseOracle (s : String) : Option Oracle :=
  match s.splitOn "~" with
  | ["na"] => some .na
  | ["skip"] => some .skip
  | ["coll"] => some .coll
  | ["f", gl, e, rf, obs] => do
    let gl ← nat? gl
    let rf ← nat? rf
    let obs ← parsePairs obs
    let e ← (match e with
      | "n" => some none | "i" => some (some VmErr.insufficientBalance) | "r" => some (some VmErr.reverted)
      | "o" => some (some VmErr.other) | _ => none)
    pure (.fired gl e rf obs)
  | _ => none

/-- the world of the driver: tracked balances/nonces; `rest` = the refund counter. -/
abbrev W := World Nat

def mkWorld (pairs : List (Nat × Nat)) : W :=
  let idx := List.range pairs.length
  { bal := (idx.zip pairs).map (fun (i, p) => (i, p.1)), nonce := (idx.zip pairs).map (fun (i, p) => (i, p.2)), rest := 0 }

def setAll (m : AMap) (vals : List Nat) : AMap :=
  ((List.range vals.length).zip vals).foldl (fun acc (i, v) => update acc i v) m

def oracleRun (orc : Msg → Oracle) (m : Msg) (g : Nat) (w : W) : EvmOut Nat :=
  if lookup w.bal m.sender < m.value then { world := w, gasLeft := g, err := some .insufficientBalance }
  else match orc m with
    | .na | .skip => { world := w, gasLeft := g, err := none }
    | .coll => { world := setNonce w m.sender (nonceInc (lookup w.nonce m.sender)), gasLeft := 0, err := some .other }
    | .fired gl e rf obs =>
      -- `rf` = what the EVM ADDED to the refund counter (AddRefund; journalled, so 0 after a failure)
      { world := { bal := setAll w.bal (obs.map (·.1)), nonce := setAll w.nonce (obs.map (·.2)), rest := w.rest + rf }, gasLeft := gl, err := e }

def mkEnv (orc : Msg → Oracle) (cb : Nat) (hs byz : Bool) : Env Nat :=
  { run := oracleRun orc, refund := fun w => w.rest, fin := fun w => { w with rest := 0 }, coinbase := cb, homestead := hs, byzantium := byz }

def mkData (nz z : Nat) : List UInt8 := List.replicate nz 1 ++ List.replicate z 0

def showTracked (w : W) (n : Nat) : String :=
  ";".intercalate ((List.range n).map (fun i => toString (lookup w.bal i) ++ "," ++ toString (lookup w.nonce i)))

def errName : TxErr → String
  | .nonceTooHigh => "nonce-high" | .nonceTooLow => "nonce-low" | .insufficientFundsForGas => "funds-for-gas"
  | .gasLimitReached => "gas-limit-reached" | .intrinsicOverflow => "oog" | .belowIntrinsic => "oog"
  | .insufficientBalance => "insufficient-balance" | .poolPanic => "panic"

def b01 (b : Bool) : String := if b then "1" else "0"

/-- the contract `EvmOk` checked on one oracle answer (tracked accounts only). -/
def oracleObeysContract (o : Oracle) (m : Msg) (hs : Bool) (gasGiven : Nat) (wIn : W) : Bool :=
  match o with
  | .fired gl e _ obs =>
    gl ≤ gasGiven &&
    (match e with
     | none => true
     | some .insufficientBalance => false   -- the tracer never fires on that path
     | some _ =>
       -- (pre-Homestead a creation's code-store-out-of-gas error is not reverted: outside the contract)
       (m.to.isNone && !hs) ||
       -- reverted: tracked balances as on entry; nonces as on entry (+1 for the creating sender)
       (List.range obs.length).all (fun i =>
         (obs.getD i (0, 0)).1 == lookup wIn.bal i &&
         (obs.getD i (0, 0)).2 == (if m.to.isNone && i == m.sender then nonceInc (lookup wIn.nonce i) else lookup wIn.nonce i)))
  | _ => true

structure TxLine where
  m : Msg
  orc : Oracle

def parseTxFields (from_ ct nonce check price gas value nz z evm : String) : Option TxLine := do
  let f ← nat? from_
  let nonce ← nat? nonce
  let price ← nat? price
  let gas ← nat? gas
  let value ← nat? value
  let nz ← nat? nz
  let z ← nat? z
  let orc ← parseOracle evm
  let to ← (match ct with | "c" => some none | "t" => some (some 99) | _ => none)
  pure { m := { sender := f, to := to, nonce := nonce, checkNonce := check == "1", gasPrice := price, gas := gas, value := value, data := mkData nz z }, orc := orc }

/-- Spec judgement of a Go `msg` result that differs from the model. -/
def specMsg (t : TxLine) (cb : Nat) (hs : Bool) (gp : Nat) (pre : W) (go : String) (modelOk : Bool) : Bool :=
  match fields go with
  | ["ok", used, failed, gp', post] =>
    modelOk &&
    (match nat? used, nat? gp', parsePairs post, intrinsicGas t.m.data t.m.to.isNone hs with
     | some used, some gp', some post, some ig =>
       let pw := preWorld t.m pre
       let (evS, evC, gl, rf) := (match t.orc with
         | .fired gl _ rf obs => ((obs.getD t.m.sender (0, 0)).1, (obs.getD cb (0, 0)).1, gl, rf)
         | .coll => (lookup pw.bal t.m.sender, lookup pw.bal cb, 0, 0)
         | _ => (lookup pw.bal t.m.sender, lookup pw.bal cb, t.m.gas - ig, 0))
       specTx t.m cb ig
         { senderBefore := lookup pre.bal t.m.sender, nonceBefore := lookup pre.nonce t.m.sender, coinbaseBefore := lookup pre.bal cb,
           senderAfter := (post.getD t.m.sender (0, 0)).1, nonceAfter := (post.getD t.m.sender (0, 0)).2, coinbaseAfter := (post.getD cb (0, 0)).1,
           evmSender := evS, evmSenderIn := lookup pw.bal t.m.sender, evmCoinbase := evC, evmCoinbaseIn := lookup pw.bal cb,
           gasUsed := used, failed := failed == "1", gasLeft := gl, refundCounter := rf, gpBefore := gp, gpAfter := gp' }
     | _, _, _, _ => false)
  | "err" :: _ => !modelOk
  | _ => false

def handleMsg (fs : List String) (go : String) : String :=
  match fs with
  | [hs, byz, cb, gp, from_, ct, nonce, check, price, gas, value, nz, z, pre, evm] =>
    match nat? cb, nat? gp, parsePairs pre, parseTxFields from_ ct nonce check price gas value nz z evm with
    | some cb, some gp, some pre, some t =>
      let w := mkWorld pre
      let env := mkEnv (fun _ => t.orc) cb (hs == "1") (byz == "1")
      let ig := (intrinsicGas t.m.data t.m.to.isNone (hs == "1")).getD 0
      if !oracleObeysContract t.orc t.m (hs == "1") (t.m.gas - ig) (preWorld t.m w) then "evm-contract-broken\tspec-reject:evm-contract"
      else
        match transitionDb env t.m gp w with
        | .error e =>
          let m := "err " ++ errName e
          verdict m go (specMsg t cb (hs == "1") gp w go false) "tx-equations"
        | .ok r =>
          let m := "ok " ++ toString r.usedGas ++ " " ++ b01 r.failed ++ " " ++ toString r.gp ++ " " ++ showTracked r.world pre.length
          verdict m go (specMsg t cb (hs == "1") gp w go true) "tx-equations"
    | _, _, _, _ => "bad-op\tagree"
  | _ => "bad-op\tagree"

def showReceipt (r : Receipt) : String :=
  b01 r.failed ++ "," ++ toString r.cumulativeGasUsed ++ "," ++ toString r.gasUsed ++ "," ++ b01 r.hasRoot ++ "," ++ b01 r.creation

/-- index of the first transaction `applyTransaction` refuses (stepping exactly like `processTxs`). -/
def firstErr (env : Env Nat) : List Msg → Nat → W → Nat → Nat → Nat
  | [], _, _, _, i => i
  | m :: ms, gp, w, used, i =>
    match applyTransaction env m gp w used with
    | .error _ => i
    | .ok a => firstErr env ms a.gp a.world a.usedGas (i + 1)

/-- Spec judgement of a Go `blk` result that differs from the model: validity must agree; receipts must add up below the limit. -/
def specBlk (gasLimit : Nat) (go : String) (modelErrIdx : Option Nat) : Bool :=
  match fields go with
  | ["ok", used, _, recs, _] =>
    modelErrIdx.isNone &&
    (match nat? used with
     | some used =>
       let rs := (recs.splitOn ";").filterMap (fun r => match r.splitOn "," with
         | [_, cum, g, _, _] => (do let c ← nat? cum; let g ← nat? g; pure (c, g))
         | _ => none)
       let sums := rs.foldl (fun (acc : Nat × Bool) (cg : Nat × Nat) => (acc.1 + cg.2, acc.2 && cg.1 == acc.1 + cg.2)) (0, true)
       sums.2 && sums.1 == used && used ≤ gasLimit
     | none => false)
  | ["err", idx, _] => modelErrIdx == nat? idx && modelErrIdx.isSome
  | _ => false

def handleBlk (fs : List String) (go : String) : String :=
  match fs with
  | hs :: byz :: cb :: gasLimit :: pre :: txs =>
    let parsed := txs.mapM (fun t => match t.splitOn ":" with
      | [from_, ct, nonce, price, gas, value, nz, z, evm] => parseTxFields from_ ct nonce "1" price gas value nz z evm
      | _ => none)
    match nat? cb, nat? gasLimit, parsePairs pre, parsed with
    | some cb, some gasLimit, some pre, some ts =>
      let w := mkWorld pre
      let orc : Msg → Oracle := fun m =>
        match ts.find? (fun t => t.m.sender == m.sender && t.m.nonce == m.nonce) with
        | some t => t.orc
        | none => .na
      let env := mkEnv orc cb (hs == "1") (byz == "1")
      let ms := ts.map (·.m)
      match process env id id gasLimit ms w with
      | .error e =>
        let idx := firstErr env ms gasLimit w 0 0
        verdict ("err " ++ toString idx ++ " " ++ errName e) go (specBlk gasLimit go (some idx)) "block-validity-or-cumulative-gas"
      | .ok b =>
        let m := "ok " ++ toString b.usedGas ++ " " ++ toString b.gp ++ " " ++ ";".intercalate (b.receipts.map showReceipt) ++ " " ++ showTracked b.world pre.length
        verdict m go (specBlk gasLimit go none) "block-validity-or-cumulative-gas"
    | _, _, _, _ => "bad-op\tagree"
  | _ => "bad-op\tagree"

def handleGp (script : String) (go : String) : String :=
  let steps := script.splitOn ","
  let rec goSteps (ss : List String) (gp : Nat) (acc : List String) : List String :=
    match ss with
    | [] => acc.reverse
    | s :: rest =>
      let n := (nat? (strDrop s 1)).getD 0
      if s.startsWith "a" then
        match addGas gp n with
        | none => ("panic" :: acc).reverse
        | some g => goSteps rest g (toString g :: acc)
      else
        match subGas gp n with
        | none => goSteps rest gp ("limit" :: acc)
        | some g => goSteps rest g (toString g :: acc)
  verdict (",".intercalate (goSteps steps 0 [])) go false "gaspool"

def handle (l : String) : String :=
  let (inp, go) := splitCase l
  match fields inp with
  | ["ig", nz, z, c, h] =>
    match nat? nz, nat? z with
    | some nz, some z =>
      let m := match intrinsicGasN nz z (c == "1") (h == "1") with
        | some g => "ok " ++ toString g
        | none => "err"
      verdict m go false "intrinsic-gas-formula"
    | _, _ => "bad-op\tagree"
  | ["gp", script] => handleGp script go
  | ["srd", cums] =>
    -- per-transaction gas the fast-sync path must record: differences of the cumulative values (core.SetReceiptsData)
    match (cums.splitOn ",").mapM nat? with
    | some cs => verdict (",".intercalate ((setReceiptsData_spec 0 cs).map toString)) go false "receipt-gasUsed-is-not-the-cumulative-difference"
    | none => "bad-op\tagree"
  | "msg" :: rest => handleMsg rest go
  | "blk" :: rest => handleBlk rest go
  | _ => "bad-op\tagree"

def main : IO Unit := runLines handle

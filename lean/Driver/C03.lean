import Aqv.Model.ChainReplay
/-! Model driver of property C03: replays every harness history on `Aqv.Model.Chain` (see `Aqv.Model.ChainReplay`). -/
def main : IO Unit := Aqv.Proto.runLines (Aqv.ChainReplay.handle "C03")

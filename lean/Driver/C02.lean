import Aqv.Model.ChainReplay
/-! Model driver of property C02: replays every harness history on `Aqv.Model.Chain`; compares fork choice, total
    difficulties and the stored / validated sets (see `Aqv.Model.ChainReplay.projC02`). -/
def main : IO Unit := Aqv.Proto.runLines (Aqv.ChainReplay.handle "C02")

import Aqv.Base.Proto
import Aqv.Base.Keccak
import Aqv.Model.Keystore
open Aqv Aqv.Proto Aqv.Keystore

/-!
  Model driver for C20.  Case lines (see go/harness/cmd/c20):
    dk  <exp> <file: 12 fields> <pw> <kdfO> <ksO> <cbcO> <addrO>            -> ok <key32> <addr> | err <class> | panic
    im  <exp> <file: 12 fields> <pw> <kdfO> <ksO> <cbcO> <addrO>            -> ok <addr> | err <class> | panic   (KeyStore.Import)
    gk  <exp> <acct> <file: 12 fields> <pw> <kdfO> <ksO> <cbcO> <addrO>     -> ok <addr> | err <class> | panic
    enc <d32> <addr> <id> <pw> <salt> <iv> <n> <p> <kdfO> <ksO>             -> ok <file: 12 fields> <id>
  The primitives (`Prims`) are instantiated with the VALUES supplied by the harness (finite tables) and the executable
  Keccak-256; a value the model asks for that is not in the table shows up as a disagreement, never as agreement.
-/

def hexB (s : String) : Bytes := (bytesOfHex s).getD []

def splitC (s : String) (c : Char) : List String := s.splitOn (String.singleton c)

def parseJVal (s : String) : JVal :=
  match s.toList with
  | 'S' :: r => .str (hexB (String.ofList r))
  | 'N' :: r => match (String.ofList r).toInt? with | some i => .num i | none => .other
  | _ => .other

def parseKp (s : String) : List (Bytes × JVal) :=
  if s == "-" then [] else
  (splitC s ',').filterMap fun e =>
    match splitC e ':' with
    | [k, v] => some (hexB k, parseJVal v)
    | _ => none

def parseFile (fs : List String) : Option KeyFile :=
  match fs with
  | [jo, vt, v1, v3, ver, cip, ct, iv, kdf, mac, kp, addr] =>
    let verTop := match vt.toList with
      | 'S' :: r => some (hexB (String.ofList r))
      | _ => none
    some { jsonOk := jo == "1", verTop := verTop, v1ok := v1 == "1", v3ok := v3 == "1", version3 := (ver.toInt?).getD 0,
           address := hexB addr, id := [],
           crypto := { cipher := hexB cip, ciphertext := hexB ct, iv := hexB iv, kdf := hexB kdf, kdfparams := parseKp kp,
                       mac := hexB mac } }
  | _ => none

def renderReq : KdfReq → String
  | .scrypt pw salt n r p dk => s!"s:{hexOrDash pw}:{hexOrDash salt}:{n}:{r}:{p}:{dk}"
  | .pbkdf2 pw salt c dk => s!"p:{hexOrDash pw}:{hexOrDash salt}:{c}:{dk}"

def parseKdfRes (s : String) : KdfRes :=
  match splitC s ':' with
  | ["ok", buf, len] => .ok (hexB buf) (len.toNat?.getD 0)
  | ["err"] => .err
  | _ => .panic

/-- builds the primitives from the oracle fields. -/
def mkPrims (kdfO ksO cbcO adO : String) : Prims :=
  let (kreq, kres) := match splitC kdfO '=' with
    | [a, b] => (a, parseKdfRes b)
    | _ => ("", KdfRes.panic)
  let ks := match splitC ksO ':' with
    | [k, iv, st] => some (hexB k, hexB iv, (hexB st).toArray)
    | _ => none
  let cbc := match splitC cbcO ':' with
    | [k, iv, ct, out] => some (hexB k, hexB iv, hexB ct, hexB out)
    | _ => none
  let ads : List (Bytes × Bytes) := if adO == "-" then [] else
    (splitC adO ',').filterMap fun e => match splitC e ':' with
      | [k, a] => some (hexB k, hexB a)
      | _ => none
  { kdf := fun req => if renderReq req == kreq then kres else .panic,
    H := Keccak.keccak256,
    ks := fun k iv i => match ks with
      | some (k', iv', st) => if k == k' && iv == iv' then st.getD i 0 else 0
      | none => 0,
    cbc := fun k iv ct => match cbc with
      | some (k', iv', ct', out) => if k == k' && iv == iv' && ct == ct' then out else ct.map (fun _ => 0)
      | none => ct.map (fun _ => 0),
    addrOf := fun d => match ads.find? (fun e => e.1 == paddedBigBytes d 32) with
      | some e => e.2
      | none => [0x3f] }     -- renders as "3f": never equal to a 20-byte address

/-- the request the model's getKDFKey makes (recorded by a KDF that returns its request), to detect a missing oracle. -/
def strBytes (s : String) : Bytes := s.toUTF8.toList

def modelKdfReq (c : Crypto) (pw : Bytes) : Option Bytes :=
  let rec_ : Prims := { kdf := fun req => .ok (strBytes (renderReq req)) 0, H := id, ks := fun _ _ _ => 0, cbc := fun _ _ c => c,
                        addrOf := fun _ => [] }
  match getKDFKey rec_ c pw with
  | .ok (buf, _) => some buf
  | _ => none

def errName : Err → String
  | .json => "json" | .version => "version" | .cipher => "cipher"
  | .hexMac => "hex" | .hexIv => "hex" | .hexCt => "hex" | .hexSalt => "hex"
  | .kdf => "kdf" | .prf => "prf" | .unsupportedKdf => "unsupportedKdf" | .decrypt => "decrypt" | .mismatch => "mismatch"
  | .kdfParams => "kdfParams" | .ivLength => "ivLength" | .corrupted => "corrupted"

def renderKey (full : Bool) : Res Key → String
  | .ok k => if full then s!"ok {hexOfBytes (paddedBigBytes k.d 32)} {hexOfBytes k.addr}" else s!"ok {hexOfBytes k.addr}"
  | .err e => "err " ++ errName e
  | .panic => "panic"

/-- Spec: does the property accept what the real code did?  exp = R:<key>:<addr> | W | T:<key>:<addr>. -/
def specAccepts (exp go : String) (full : Bool) : Bool :=
  if go.startsWith "panic" then false else
  match splitC exp ':' with
  | ["W"] => go.startsWith "err"
  | ["N"] => true     -- a file without an address field (not written by this keystore): only "no crash" is required
  | [kind, key, addr] =>
    let orig := if full then s!"ok {key} {addr}" else s!"ok {addr}"
    if kind == "R" then go == orig else go.startsWith "err" || go == orig
  | _ => false

def renderJVal : JVal → String
  | .str s => "S" ++ hexOrDash s
  | .num i => s!"N{i}"
  | .other => "O"

def renderFile (f : KeyFile) : String :=
  let kp := if f.crypto.kdfparams.isEmpty then "-" else
    ",".intercalate (f.crypto.kdfparams.map fun e => hexOrDash e.1 ++ ":" ++ renderJVal e.2)
  let vt := match f.verTop with | some s => "S" ++ hexOrDash s | none => "N"
  let b (x : Bool) := if x then "1" else "0"
  " ".intercalate [b f.jsonOk, vt, b f.v1ok, b f.v3ok, s!"{f.version3}", hexOrDash f.crypto.cipher, hexOrDash f.crypto.ciphertext,
    hexOrDash f.crypto.iv, hexOrDash f.crypto.kdf, hexOrDash f.crypto.mac, kp, hexOrDash f.address, hexOrDash f.id]

def why := "key-file-outcome-violates-property"

def runFile (full : Bool) (exp : String) (acct : Option Bytes) (ffs : List String) (pw kdfO ksO cbcO adO go : String) : String :=
  match parseFile ffs with
  | none => "bad-op\tspec-ok"
  | some f =>
    let P := mkPrims kdfO ksO cbcO adO
    let pwb := hexB pw
    -- a KDF request of the model that the harness did not answer is a broken correspondence
    let miss := match modelKdfReq f.crypto pwb with
      | some r => ((splitC kdfO '=').head?.map strBytes) != some r
      | none => false
    let m := if miss then "oracle-miss-kdf" else
      match acct with
      | none => renderKey full (decryptKey P f pwb)
      | some a => renderKey full (getKey P a f pwb)
    verdict m go (specAccepts exp go full) why

/-! ### unlock-state histories: replayed with `KsState.step` on stand-in primitives

  `hist <key32> <tok;tok;...>` -> observations joined by `|`.  Tokens: U<r|w><i|t> Unlock / TimedUnlock with the right / a wrong
  passphrase, L Lock, X expiry observed, S SignHash, T SignTx, W<r|w> SignHashWithPassphrase, E<r|w> Export, P<r|w> Update.
  The cryptography is a STAND-IN (Keccak-based KDF / keystream / address): what is compared is the state machine — which key
  sits in the unlocked table after which history — driven through the model's own getKey / encryptKey. -/

def histP : Prims where
  kdf := fun req => match req with
    | .scrypt pw salt _ _ _ _ => .ok (Keccak.keccak256 (pw ++ [0] ++ salt)) 32
    | .pbkdf2 pw salt _ _ => .ok (Keccak.keccak256 (pw ++ [1] ++ salt)) 32
  H := Keccak.keccak256
  ks := fun k iv i => (Keccak.keccak256 (k ++ iv)).getD (i % 32) 0
  cbc := fun _ _ c => c
  addrOf := fun d => (Keccak.keccak256 (beBytes d)).drop 12

def histPass (n : Nat) : Bytes := ascii s!"p{n}"
def histWrong : Bytes := ascii "x"

def histFile (d n : Nat) : Option KeyFile :=
  match encryptKey histP d (histP.addrOf d) [] (histPass n) (beBytes (n + 1) ++ [7]) (List.replicate 16 (UInt8.ofNat n)) 2 1 with
  | .ok f => some f
  | _ => none

structure HistSt where
  s : KsState
  n : Nat          -- index of the current passphrase
  out : List String

def histStep (d : Nat) (a : Bytes) (st : HistSt) (tok : String) : HistSt :=
  let okErr (r : Option (Res Key)) : String := match r with | some (.ok _) => "ok" | _ => "err"
  let cur := histPass st.n
  let pwOf (c : Char) : Bytes := if c == 'r' then cur else histWrong
  let emit (o : String) (s' : KsState) : HistSt := { st with s := s', out := o :: st.out }
  let file := st.s.store a
  match tok.toList with
  | ['U', c, t] =>
    let pw := pwOf c
    emit (okErr (file.map (fun f => getKey histP a f pw))) (st.s.step histP (.unlock a pw (t == 't')))
  | ['L'] => emit "-" (st.s.step histP (.lock a))
  | ['X'] => emit "-" (st.s.step histP (.lock a))
  | ['S'] | ['T'] =>
    match st.s.signingKey a with
    | none => emit "locked" st.s
    | some k => emit (if k.d == d && k.addr == a then "ok" else "bad") st.s
  | ['W', c] | ['E', c] =>
    let r := file.map (fun f => getKey histP a f (pwOf c))
    emit (match r with | some (.ok k) => if k.d == d then "ok" else "bad" | _ => "err") st.s
  | ['P', c] =>
    let pw := pwOf c
    match file.map (fun f => getKey histP a f pw), histFile d (st.n + 1) with
    | some (.ok _), some fNew =>
      let s' := st.s.step histP (.update a pw (histPass (st.n + 1)) fNew)
      { s := s', n := st.n + 1, out := "ok" :: st.out }
    | _, _ => emit "err" st.s
  | _ => emit "?" st.s

def runHist (dHex ops : String) : String :=
  let d := beNat (hexB dHex)
  let a := histP.addrOf d
  match histFile d 0 with
  | none => "no-file"
  | some f0 =>
    let s0 : KsState := ⟨fun x => if x == a then some f0 else none, fun _ => none⟩
    let fin := (splitC ops ';').foldl (histStep d a) ⟨s0, 0, []⟩
    "|".intercalate fin.out.reverse

def handle (l : String) : String :=
  let (inp, go) := splitCase l
  match fields inp with
  | "dk" :: exp :: rest =>
    if rest.length == 17 then
      match rest.drop 12 with
      | [pw, kdfO, ksO, cbcO, adO] => runFile true exp none (rest.take 12) pw kdfO ksO cbcO adO go
      | _ => "bad-op\tspec-ok"
    else "bad-op\tspec-ok"
  | "im" :: exp :: rest =>       -- KeyStore.Import: bare DecryptKey, the stored account's address is observed
    if rest.length == 17 then
      match rest.drop 12 with
      | [pw, kdfO, ksO, cbcO, adO] => runFile false exp none (rest.take 12) pw kdfO ksO cbcO adO go
      | _ => "bad-op\tspec-ok"
    else "bad-op\tspec-ok"
  | "gk" :: exp :: acct :: rest =>
    if rest.length == 17 then
      match rest.drop 12 with
      | [pw, kdfO, ksO, cbcO, adO] => runFile false exp (some (hexB acct)) (rest.take 12) pw kdfO ksO cbcO adO go
      | _ => "bad-op\tspec-ok"
    else "bad-op\tspec-ok"
  | ["hist", d, ops] => verdict (runHist d ops) go false "unlock-history-observation-differs-from-model"
  | ["enc", d, addr, id, pw, salt, iv, n, p, kdfO, ksO] =>
    let P := mkPrims kdfO ksO "-" "-"
    let m := match encryptKey P (beNat (hexB d)) (hexB addr) (hexB id) (hexB pw) (hexB salt) (hexB iv) ((n.toInt?).getD 0) ((p.toInt?).getD 0) with
      | .ok f => "ok " ++ renderFile f
      | .err e => "err " ++ errName e
      | .panic => "panic"
    -- Spec judgement of a differing EncryptKey output: the file the real code wrote must open (in the model, under the same
    -- passphrase) to the key that was stored.
    let specOk := match fields go with
      | "ok" :: rest =>
        (match parseFile (rest.take 12) with
         | some f => (match decryptKey P f (hexB pw) with
                      | .ok k => k.d == beNat (hexB d)
                      | _ => false)
         | none => false)
      | _ => false
    verdict m go specOk "EncryptKey-output-does-not-decrypt-to-the-stored-key"
  | _ => "bad-op\tspec-ok"

def main : IO Unit := runLines handle
